# C04 - with WAL, a kill at any instant loses no synced work and tears no operation
#
# A child process creates a store (WAL on), runs a put/del/sync/checkpoint/db-create history and _exit()s
# immediately BEFORE its i-th file effect (log append / fsync / truncate, main-file resize, msync, and - with
# the iwverif_fx hook - after each record applied by a checkpoint); the parent reopens (recovery, optionally
# killed again at its j-th effect and reopened once more) and dumps all records.
# Oracle (python dict model of the history, independent of the Coq model): the dump equals the state after
# some prefix of the issued operations; the prefix contains every operation completed before the last
# successful sync / db creation / checkpoint; the in-flight operation is wholly present or wholly absent.
# T2: the uncrashed run's listener events are fed to the extracted Proto model which must predict the
#     observed effect trace (log bytes appended, fsyncs, truncations, resizes).
import os, json, shutil, tempfile
import vlib
import walcommon as W

LEVEL = "proof"
KEYS = ["k%02d" % i for i in range(30)]


def gen_history(rng, growth):
    ops = ["n1"]
    n = rng.range(14, 40)
    two = rng.chance(1, 4)
    for i in range(n):
        r = rng.below(100)
        db = 2 if (two and "n2" in ops and rng.chance(1, 3)) else 1
        if two and "n2" not in ops and rng.chance(1, 8):
            ops.append("n2")
        elif r < 60:
            k = rng.choice(KEYS)
            if growth:
                vl = rng.weighted([(5, 4), (20, 6), (100, 4), (700, 3), (3000, 2), (9000, 1), (40000, 1)])
            else:
                vl = rng.weighted([(0, 1), (5, 4), (20, 6), (100, 3), (300, 1)])
            ops.append("p%d:%s:%d:%d" % (db, W.khex(k), vl, rng.below(250)))
        elif r < 78:
            ops.append("d%d:%s" % (db, W.khex(rng.choice(KEYS))))
        elif r < 93:
            ops.append("s")
        else:
            ops.append("c")
    return ops


def gen_pregrown_history(rng):
    """the file is grown once and a checkpoint is forced; everything after it stays inside the file: the suffix after the
    checkpoint satisfies the hypotheses of C04_recover_is_prefix (no _onresize call inside an operation), which the model
    then evaluates on the traced calls (theorem_instance_*)"""
    ops = ["n1", "p1:%s:%d:1" % (W.khex("zz"), 30000 + rng.below(3000)), "d1:%s" % W.khex("zz"), "c"]
    budget = 9000
    live = {}
    for _ in range(rng.range(14, 36)):
        r = rng.below(100)
        if r < 62:
            k = rng.choice(KEYS)
            vl = rng.weighted([(0, 1), (5, 4), (20, 6), (100, 4), (700, 2), (1500, 1), (3000, 1)])
            old = live.get(k, 0)
            if budget - vl + old < 0:
                vl = 5
            budget += old - vl
            live[k] = vl
            ops.append("p1:%s:%d:%d" % (W.khex(k), vl, rng.below(250)))
        elif r < 80:
            k = rng.choice(KEYS)
            budget += live.pop(k, 0)
            ops.append("d1:%s" % W.khex(k))
        elif r < 94:
            ops.append("s")
        else:
            ops.append("c")
    return ops


def gen_destroy_history(rng):
    """a filled database is destroyed and a new one (new id) is created right away: its head block lands on the space the
    destroyed one gave back, which holds the old head's links - and nothing is put into it before the kill / checkpoint /
    close: what makes the new database empty after a recovery is only what _db_save LOGGED for it"""
    ops = ["n1"]
    for i in range(rng.range(6, 25)):
        ops.append("p1:%s:%d:%d" % (W.khex(rng.choice(KEYS)), rng.choice([5, 20, 20, 100, 300]), rng.below(250)))
        if rng.chance(1, 8):
            ops.append("s")
    if rng.chance(1, 2):        # (database 3 belongs to the second session of the continuation oracle)
        ops += ["n4", "p4:%s:20:4" % W.khex("k05")]
    ops += ["x1", "n2"]
    ops += rng.choice([[], ["s"], ["c"], ["q"], ["p4:%s:5:9" % W.khex("k07"), "s"] if "n4" in ops else ["c"], ["s", "q"]])
    return ops


def gen_big_history(rng):
    """a store that outgrows 4 MiB (the allocator's bitmap is doubled and relocated), synced; the kill comes after the last
    sync and the recovered store is then WRITTEN to (second session): allocations after a recovery must not land on
    live records"""
    ops = ["n1"]
    n = rng.range(9, 12)
    for i in range(n):
        ops.append("p1:%s:%d:%d" % (W.khex("big%02d" % i), 470000 + rng.below(40000), rng.below(250)))
        if rng.chance(1, 4):
            ops.append("s")
    ops += ["s", "p1:%s:20:7" % W.khex("k01"), "d1:%s" % W.khex("big00"), "s"]
    return ops


def gen_close_fault_history(rng):
    """unsynced work, then iwkv_close whose first (or second) write to the log fails with EFBIG: the close must report
    the failure, or everything must be there at the next open"""
    # grown once and checkpointed first: a growth-forced checkpoint (known finding) after the last sync would leave a torn
    # main file behind the failed close, exactly as behind a kill
    ops = ["n1", "p1:%s:%d:1" % (W.khex("zz"), 30000 + rng.below(3000)), "d1:%s" % W.khex("zz"), "c", "p1:%s:100:3" % W.khex("k01"), "s"]
    for _ in range(rng.range(2, 8)):
        ops.append("p1:%s:%d:%d" % (W.khex(rng.choice(KEYS)), rng.choice([5, 20, 100, 700]), rng.below(250)))
    ops.append("Q%d" % rng.choice([1, 1, 1, 2]))
    return ops


def ref_states(ops):
    """S[k] = canonical state after the first k operations"""
    r = W.Ref()
    out = [r.canon()]
    for op in ops:
        r.apply(op)
        out.append(r.canon())
    return out


def allowed_prefixes(ops, tr):
    """from the killed run's own trace: (lo, hi) of admissible prefix lengths.  An online backup (op B..) changes no
    record; the operations released into it are traced inside its bracket, so a backup call that is still in
    flight does not end the walk."""
    done = 0
    last_sync = 0
    inflight = False
    for i in range(len(ops)):
        o = tr["ops"].get(i)
        if o is None:
            break
        if o.get("rc") is None:
            if ops[i][0] in "bB":
                done = i + 1
                continue
            inflight = True
            break
        done = i + 1
        if ops[i][0] in "scnqQ" and o["rc"] == "0":     # q/Q: iwkv_close returned success - everything is durable
            last_sync = i + 1
    return last_sync, done + (1 if inflight else 0), done, inflight


def gen_close_history(rng):
    """history that ends with iwkv_close (op q) so that every effect of the closing checkpoint is a crash point.
    Shape that makes a non-prefix mixture visible: two databases; after the last sync an operation rewrites bytes
    that were logged before the sync (same key, same size), followed by operations on blocks no earlier record
    touched (other database, new keys)."""
    ops = ["n1", "n2"]
    keys = KEYS[:6]
    for _ in range(rng.range(3, 8)):
        ops.append("p%d:%s:%d:%d" % (rng.choice([1, 1, 2]), W.khex(rng.choice(keys)), rng.choice([20, 100, 700]), rng.below(250)))
    if rng.chance(1, 3):
        ops.append("c")
    k0 = rng.choice(keys)
    sz = rng.choice([20, 100, 700])
    ops += ["p1:%s:%d:%d" % (W.khex(k0), sz, rng.below(250)), "s"]
    ops.append("p1:%s:%d:%d" % (W.khex(k0), sz, rng.below(250)))                  # rewrites pre-sync bytes
    for _ in range(rng.range(1, 4)):
        ops.append("p2:%s:%d:%d" % (W.khex("z%02d" % rng.below(30)), rng.choice([5, 20, 100]), rng.below(250)))   # untouched blocks
    if rng.chance(1, 3):
        ops.append("d1:%s" % W.khex(rng.choice(keys)))
    ops.append("q")
    return ops


def gen_backup_history(rng):
    """history whose tail runs inside iwkv_online_backup: the writer thread is released when the WAL_COPY1 loop is
    over (stage WAL_COPY1, no lock held); it logs something, forces a checkpoint (or grows the file) - the log is
    kept and gets SEP+RESET -, syncs, and then leaves flushed-but-unsynced records behind that savepoint (4 KB log
    buffer, values of 1500/3000 bytes).  Crash points inside that tail give logs with a reset mark."""
    ops = ["n1"] + ["p1:%s:%d:%d" % (W.khex(rng.choice(KEYS)), rng.choice([5, 20, 100, 700]), rng.below(250)) for _ in range(rng.range(2, 8))]
    if rng.chance(1, 2):
        ops.append("s")
    inj = ["p1:%s:%d:%d" % (W.khex(rng.choice(KEYS)), rng.choice([20, 100, 700]), rng.below(250)),
           "c" if rng.chance(3, 4) else "p1:%s:40000:%d" % (W.khex(rng.choice(KEYS)), rng.below(250)),
           "p1:%s:%d:%d" % (W.khex(rng.choice(KEYS)), rng.choice([20, 100]), rng.below(250)),
           "s"]
    for _ in range(rng.range(3, 7)):
        r = rng.below(10)
        if r < 6:
            inj.append("p1:%s:%d:%d" % (W.khex(rng.choice(KEYS)), rng.choice([1500, 3000, 3000, 700]), rng.below(250)))
        elif r < 8:
            inj.append("d1:%s" % W.khex(rng.choice(KEYS)))
        else:
            inj.append("s")
    ops.append("B0:%d" % len(inj))
    return ops + inj


def growth_class(ops, full, killat):
    """the known-finding predicate, evaluated on the effect trace of the uncrashed run (effects < killat were
    executed): the crash point lies after the start of a checkpoint forced by a main-file resize that was issued
    inside an operation (put/del/db-create) - i.e. after that checkpoint's log flush, the last log write before
    the resize effect - and before the next savepoint is appended to the log."""
    fx = full["fx"]
    pending = False
    any_sp = False
    for i in range(len(ops)):
        o = full["ops"].get(i)
        if not o or "fx1" not in o:
            break
        a, b = o["fx0"], o["fx1"]
        ev = []
        wr = [j for j in range(a, b) if fx[j][1] == "W" and fx[j][0] == W_WRITE]
        if ops[i][0] in "pdnxqQ":   # q: iwkv_close trims the file (shrink) - also a checkpoint without savepoint
            for j in range(a, b):
                if fx[j][1] == "M" and fx[j][0] in (W_FTRUNCATE, W_FALLOCATE):
                    before = [w for w in wr if w < j]
                    ev.append((before[-1] if before else j, "grow"))
        if ops[i][0] in "sc" and wr:
            ev.append((wr[0], "sp"))
        if ops[i][0] == "n" and wr:
            ev.append((wr[-1], "sp"))
        for j, what in sorted(ev):
            if j < killat:
                pending = (what == "grow")
                any_sp = any_sp or what == "sp"
    if pending:
        return "growth-checkpoint"
    # the store was created by this very process and no savepoint has reached the log yet
    return "other" if any_sp else "no-savepoint-since-create"


W_WRITE, W_PWRITE, W_FTRUNCATE, W_FALLOCATE, W_FSYNC, W_FDATASYNC, W_MSYNC, W_WALREC = 1, 2, 3, 4, 5, 6, 7, 8


def judge(ops, states, tr, recline):
    """oracle on one crashed-and-recovered run; returns (ok, why, allowed range, got canonical)"""
    lo, hi, done, inflight = allowed_prefixes(ops, tr)
    fi = W.fields(recline)
    if fi.get("exit") != "0":
        return False, "recovery died: %s" % fi.get("exit"), (lo, hi), None
    if fi.get("rc") != "0":
        return False, "the open after the kill fails with %s" % fi.get("rc"), (lo, hi), None
    got, probs = W.canon_dump(fi.get("dump", ""))
    if probs:
        return False, "cursor scan after recovery is malformed: %s" % ",".join(probs), (lo, hi), got
    ks = [k for k in range(len(states)) if states[k] == got]
    if any(lo <= k <= hi for k in ks):
        return True, "", (lo, hi), got
    if ks:
        if max(ks) < lo:
            return False, "recovered state is the one after %d operations, but %d operations were completed before the last successful sync/db-creation/checkpoint (synced work lost)" % (max(ks), lo), (lo, hi), got
        return False, "recovered state is the one after %d operations, outside the admissible prefixes %d..%d" % (ks[0], lo, hi), (lo, hi), got
    return False, "recovered state is not the state after any prefix of the history (torn operation); admissible prefixes %d..%d" % (lo, hi), (lo, hi), got


def full_run(impl, wd, name, crc, ops):
    d = os.path.join(wd, name)
    shutil.rmtree(d, ignore_errors=True)
    os.makedirs(d)
    rc, out, err = vlib.run_lines(impl, "run %s %d 1 -1 7 %s\n" % (d, crc, " ".join(ops)))
    tr = W.parse_trace(os.path.join(d, "trace"))
    return d, (out[0] if out else "<none>"), tr


SESSION2 = ["n3", "p3:%s:9:1" % W.khex("x1"), "p3:%s:700:2" % W.khex("x2"), "d3:%s" % W.khex("x1"), "s", "q"]
SESSION2_DB3 = "db3{%s=%s}" % (W.khex("x2"), W.vrepr(W.genval(700, 2)))


def crash_state_prepare(pred, name, crc, k, mdir, impl_wal_line):
    """kill model + theorem instance, first half: the model command for the crash point and what the killed process left"""
    import zlib
    fulldir, full, mode = pred
    i = W.model_index(full["fx"], k, mode == "hook")
    if mode == "hook" and 0 <= k < len(full["fx"]) and full["fx"][k][1] == "R":
        i += 1          # the record-level hook fires AFTER the store into the shared mapping: that record is in the file
    bufsz = (4096 if crc & 2 else 8 * 1024 * 1024) - 12
    wal = open(os.path.join(mdir, "db-wal"), "rb").read()
    db = open(os.path.join(mdir, "db"), "rb").read()
    real = {"log": W.masked_log_crc(wal), "disk": "%d:%08x" % (len(db), zlib.crc32(db) & 0xffffffff)}
    return {"cmd": "crash %s %d %d %d" % (fulldir, crc, bufsz, i), "name": name, "k": k, "i": i, "real": real, "impl": impl_wal_line}


def crash_state_finish(run, p, line):
    """second half: Proto.after_effects (first i effects of Proto.run on the traced calls) must be the files the process
    killed before its k-th effect left behind (log: timestamps and segment checksums masked), and where the traced
    history satisfies the hypotheses of C04_recover_is_prefix its conclusion must hold of the model's own recovery of
    these files (a failure there is a defect of the framework, not of the library)"""
    name, k, i, real, impl_wal_line = p["name"], p["k"], p["i"], p["real"], p["impl"]
    f = W.fields(line) if line.startswith("crash") else None
    if not f:
        run.dist("crash_state_model_no_answer")
        if len(run.broken) < 6:
            run.broken.append("T2 (kill model) %s kill %d: model gave no answer: %s" % (name, k, line[:200]))
        return
    diff = [x for x in ("log", "disk") if f.get(x) != real[x]]
    fi = W.fields(impl_wal_line)
    if f.get("rc") == "FAULT" and fi.get("exit", "").startswith("SIG"):
        run.dist("crash_state_recovery_stores_outside_the_main_file")     # agreement, see crash_cases
    elif f.get("rc") != fi.get("rc") or (fi.get("rc") == "0" and f.get("main") != fi.get("main")):
        diff.append("recovery")
    run.dist("crash_state_predicted_%s" % ("ok" if not diff else "differs"))
    if diff and len(run.broken) < 6:
        run.broken.append("T2 correspondence (Proto.after_effects = files after a kill) %s kill before effect %d (model effect %d): %s differ: "
                          "model log=%s disk=%s rc=%s main=%s | killed process left log=%s disk=%s, its recovery %s" % (
                              name, k, i, ",".join(diff), f.get("log"), f.get("disk"), f.get("rc"), f.get("main"), real["log"], real["disk"], impl_wal_line[:90]))
    elif not diff:
        run.cov["traces_validated_against_impl"] += 1
    thm = f.get("thm", "")
    run.dist("theorem_instance_%s" % {"ok": "conclusion_ok", "n/a-growth": "na_growth_not_followed_by_checkpoint",
                                      "n/a-before": "na_crash_point_before_the_growth_free_part", "n/a-hyp": "na_hypotheses_%s" % f.get("hyp"),
                                      "n/a-not-fresh": "na_not_fresh"}.get(thm, "fails"))
    if thm != "ok" and not thm.startswith("n/a"):
        run.dist("theorem_instance_fails")
        if len(run.broken) < 6:
            run.broken.append("C04_recover_is_prefix evaluated on a real trace does not hold (%s kill %d: %s) - the extracted model, the driver "
                              "or the proof environment is broken" % (name, k, line[:200]))


def crash_cases(run, impl, wd, name, crc, ops, kills, model=None, pred=None):
    """kills: list of (killat, rec_kill or None, cont, t2, cfg).  cont = continue into a second session after the
    recovering open: reopen, create db 3, put/del/sync, CLEAN close, reopen and dump.
    cfg = None (every session opens with the writer's options) or (r1, r2): option flags of the first recovering open
    (the one that may be killed at rec_kill) and of every later session (second recovering open, second session,
    final open) - the outcome of a recovery must not depend on the options of the process that performs it.
    pred = None or (directory of the uncrashed run with events/eventsb/wal0/db0, its trace, effect numbering mode): for
    the t2 kills the kernel's view after the kill is also predicted by Proto.after_effects over Proto.run (model command
    `crash`) and compared with the files the killed process left; the same command evaluates C04_recover_is_prefix on it.
    Returns list of (trace of the killed run, line of the first complete recovering open, all lines, cont result)"""
    n = len(kills)
    nch = max(1, min(vlib.NCPU, n))
    chunks, idx = [[] for _ in range(nch)], [[] for _ in range(nch)]
    for ci, kk in enumerate(kills):
        k, rk = kk[0], kk[1]
        cont = len(kk) > 2 and kk[2]
        t2 = len(kk) > 3 and kk[3] and model is not None
        r1, r2 = kk[4] if len(kk) > 4 and kk[4] else (crc, crc)
        d = os.path.join(wd, "%s-k%d" % (name, ci))
        shutil.rmtree(d, ignore_errors=True)
        os.makedirs(d)
        c = ci % nch
        lines = ["run %s %d 1 %d 0 %s" % (d, crc, k, " ".join(ops))]
        if t2:
            # keep the files of the crash for Replay.recover (model) and for the recovery step alone (implementation)
            lines += ["cp %s %s/m" % (d, d), "cp %s %s/i" % (d, d), "wal %s/i %d" % (d, crc)]
        if rk is not None:
            lines.append("rec %s %d %d" % (d, r1, rk))
            lines.append("rec %s %d -1" % (d, r2))
        else:
            lines.append("rec %s %d -1" % (d, r1))
        nrec = len(lines)
        if cont:
            lines.append("run %s %d 0 -1 2 %s" % (d, r2, " ".join(SESSION2)))
            lines.append("rec %s %d -1" % (d, r2))
        chunks[c] += lines
        idx[c].append((ci, len(lines), nrec, cont, t2))
    outs = W.par_lines(impl, chunks)
    res = [None] * n
    pending = []
    for c in range(nch):
        p = 0
        for ci, nl, nrec, cont, t2 in idx[c]:
            ls = outs[c][p:p + nl]
            p += nl
            d = os.path.join(wd, "%s-k%d" % (name, ci))
            tr = W.parse_trace(os.path.join(d, "trace"))
            contres = None
            if cont and len(ls) == nl:
                contres = {"run": ls[nrec], "final": ls[nrec + 1], "trace2": W.parse_trace(os.path.join(d, "trace2"))}
            if t2 and len(ls) >= 4:
                rcm, outm, errm = vlib.run_lines(W.big_stack(model), "wal %s/m %d\n" % (d, crc), timeout=300)
                fm, fi = W.fields((outm + [""])[0]), W.fields(ls[3])
                diff = [k_ for k_ in ("rc", "main", "walsz") if fm.get(k_) != fi.get(k_)]
                if fi.get("applied", "-") != "-" and fi.get("applied") != fm.get("applied"):
                    diff.append("applied")
                if fm.get("rc") == "FAULT" and fi.get("exit", "").startswith("SIG"):
                    # Replay.recover: a store outside the mapped main file (undefined behaviour in C) - the implementation's
                    # recovery dies of a signal: model and implementation agree; that the recovery of these files fails is
                    # the oracle's business (the same kill is judged below)
                    diff = []
                    run.dist("recovery_predicted_store_outside_the_main_file")
                if pred is not None:
                    pending.append(crash_state_prepare(pred, name, crc, kills[ci][0], os.path.join(d, "m"), ls[3]))
                has_mark = b"\x7f\x00\x00\x00\x00\x00\x00\x00\x04\x00\x00\x00\x06\x00\x00\x00" in open(os.path.join(d, "m", "db-wal"), "rb").read()
                run.dist("recovery_predicted_%s%s" % ("ok" if not diff else "differs", "_log_with_reset_mark" if has_mark else ""))
                if diff and len(run.broken) < 6:
                    run.broken.append("T2 correspondence (Replay.recover on the files of a crash) %s kill %d: %s differ: model %s | impl %s" % (
                        name, kills[ci][0], ",".join(diff), (outm + [""])[0][:120], ls[3][:120]))
                else:
                    run.cov["traces_validated_against_impl"] += 1
            res[ci] = (tr, ls[nrec - 1] if len(ls) >= nrec else "<missing>", ls, contres)
            shutil.rmtree(d, ignore_errors=True)
    if pending:
        nchm = max(1, min(vlib.NCPU, len(pending)))
        mo = W.par_lines(W.big_stack(model), [[p["cmd"] for p in pending[c::nchm]] for c in range(nchm)], timeout=600)
        for c in range(nchm):
            for j, p in enumerate(pending[c::nchm]):
                crash_state_finish(run, p, mo[c][j] if j < len(mo[c]) else "<missing>")
    return res


def judge_continuation(recline, contres):
    """second session after a recovery: the store must keep exactly what the recovering open showed, plus what the
    second session did (db 3), across a clean close and another open; returns None or text"""
    f1 = W.fields(recline)
    shown, _ = W.canon_dump(f1.get("dump", ""))
    if contres["run"] != "run exit=0":
        return "the session after the recovery died: %s" % contres["run"]
    t2 = contres["trace2"]
    if not t2["open"] or t2["open"][0] != "0":
        return "the second open after the kill fails: %s" % (t2["open"],)
    again, _ = W.canon_dump(t2["dump0"] or "")
    if again != shown:
        return "the second open after the kill shows a different state than the first recovering open"
    bad = [i for i in sorted(t2["ops"]) if t2["ops"][i].get("rc") not in ("0",)]
    if bad:
        return "operation %d of the session after the recovery fails with %s" % (bad[0], t2["ops"][bad[0]].get("rc"))
    ff = W.fields(contres["final"])
    if ff.get("exit") != "0" or ff.get("rc") != "0":
        return "the open after the cleanly closed second session fails: %s" % contres["final"][:120]
    final, probs = W.canon_dump(ff.get("dump", ""))
    import re
    parts = re.findall(r"db\d+\{[^}]*\}", shown if shown != "empty" else "")
    if "".join(parts) != (shown if shown != "empty" else ""):
        parts = [shown]                      # not of the regular shape: compare as before
    # databases are dumped in the order of their ids; database 3 is the second session's
    want = "".join(sorted(parts + [SESSION2_DB3], key=lambda x: int(re.match(r"db(\d+)", x).group(1)) if re.match(r"db(\d+)", x) else 0))
    if probs:
        return "scan after the second session is malformed: %s" % ",".join(probs)
    if final != want:
        return ("after recovery + more work + sync + clean close + reopen the store does not hold (state shown by the recovery) + "
                "(work of the second session): operations discarded by the recovery came back or later work was lost")
    return None


def proto_t2(run, model, mode, d, crc, ops, full):
    """T2 of WAL/Proto.v: the model, fed with the listener/API calls of the real run, must predict the observed
    effect trace, the final log (timestamps masked) and the final main file"""
    open(os.path.join(d, "events"), "w").write("\n".join(W.proto_events(ops, full)) + "\n")
    bufsz = (4096 if crc & 2 else 8 * 1024 * 1024) - 12
    rc, out, err = vlib.run_lines(W.big_stack(model), "proto %s %d %d\n" % (d, crc, bufsz), timeout=300)
    f = W.fields(out[0]) if out and out[0].startswith("proto") else None
    if not f:
        return "model gave no answer: %s %s" % (out[:1], err[-200:])
    hook = mode == "hook"
    real = W.norm_real_fx(full["fx"], hook)
    pred = W.norm_model_fx(os.path.join(d, "pfx"), hook)
    if real != pred:
        i = 0
        while i < min(len(real), len(pred)) and real[i] == pred[i]:
            i += 1
        return "effect trace differs at effect %d of %d/%d: impl %s model %s" % (
            i, len(real), len(pred), real[i] if i < len(real) else None, pred[i] if i < len(pred) else None)
    wal = open(os.path.join(d, "db-wal"), "rb").read()
    if W.masked_log_crc(wal) != f.get("log"):
        return "log bytes differ (timestamps masked): impl %s model %s" % (W.masked_log_crc(wal), f.get("log"))
    import zlib
    db = open(os.path.join(d, "db"), "rb").read()
    if "%d:%08x" % (len(db), zlib.crc32(db) & 0xffffffff) != f.get("disk"):
        return "main file differs: impl %d:%08x model %s" % (len(db), zlib.crc32(db) & 0xffffffff, f.get("disk"))
    return None


def close_fault_case(run, impl, wd, name, crc, ops):
    """history ending in Q<k>: run to the end (the close returns, with or without error), reopen, judge: a close that
    returned 0 counts as a sync of everything"""
    res = crash_cases(run, impl, wd, name, crc, ops, [(-1, None, True, False)])[0]
    tr, recline, ls, contres = res
    o = tr["ops"].get(len(ops) - 1, {})
    run.dist("close_under_write_fault_returns_%s" % ("0" if o.get("rc") == "0" else "error" if o.get("rc") else "nothing"))
    run.case("%s|%d|closefault" % (" ".join(ops), crc), nontrivial=True)
    ok, why, rng_, got = judge(ops, ref_states(ops), tr, recline)
    if ok and contres is not None:
        why2 = judge_continuation(recline, contres)
        if why2:
            ok, why = False, why2
    if ok:
        run.cov["traces_validated_against_impl"] += 1
        return
    if o.get("rc") == "0":
        why = "iwkv_close returned 0 although a write to the log failed inside it (EFBIG), and %s" % why
    # the file grew after the pre-grow checkpoint: a growth-forced checkpoint without savepoint lies behind the lost buffer
    sizes = [tr["ops"][i].get("mainsz") for i in sorted(tr["ops"]) if i >= 3 and tr["ops"][i].get("mainsz") is not None]
    cl = "growth-checkpoint" if len(set(sizes)) > 1 else "close-fault"
    run.violation({"ops": ops, "crc": crc, "killat": -1, "effects": None, "rec_kill": None, "class": cl, "rec_cfg": None,
                   "second_session": SESSION2, "admissible_prefixes": list(rng_), "impl": recline[:3000], "recovered": got}, why)


def do_history(run, impl, wd, name, crc, ops, nfirst, nlater, rec_kills, corpus_kills=None, model=None, mode="wrap", ncont=12, ncross=0, ncrash_t2=4, tail_only=False):
    rng = run.rng
    d, line, full = full_run(impl, wd, name, crc, ops)
    if line != "run exit=0" or full["nfx"] is None:
        run.broken.append("T2 harness: uncrashed history run failed: %s" % line)
        return None
    has_bkp = any(o[0] in "bB" for o in ops)
    if model and not has_bkp:
        open(os.path.join(d, "eventsb"), "w").write("\n".join(W.proto_events_bracketed(ops, full)) + "\n")
        why = proto_t2(run, model, mode, d, crc, ops, full)
        run.dist("proto_trace_%s" % ("ok" if not why else "differs"))
        if why and len(run.broken) < 6:
            run.broken.append("T2 correspondence (Proto) %s crc=%d: %s" % (name, crc, why))
            if os.environ.get("VERIF_DEBUG"):
                print("PROTO", name, crc, " ".join(ops)); print("   ", why)
    N = full["nfx"]
    states = ref_states(ops)
    # sanity of the reference itself against the uncrashed run: the dump at every sync equals the dict model
    for i, op in enumerate(ops):
        o = full["ops"].get(i)
        if o and o.get("dump") is not None:
            got, probs = W.canon_dump(o["dump"])
            if got != states[i + 1] or probs:
                run.notes.append("live dump after op %d differs from the dict model (C01 territory, not judged here)" % i)
                break
    run.dist("effects_per_history", N)
    for k, c, off, ln in full["fx"]:
        run.dist("fx_%s_%s" % ({1: "write", 2: "pwrite", 3: "ftruncate", 4: "fallocate", 5: "fsync", 6: "fdatasync", 7: "msync", 8: "walrec"}.get(k, k), c))
    if corpus_kills is not None:
        # [killat, rec_kill] or [killat, rec_kill, [r1, r2]] (options of the recovering sessions, see crash_cases)
        kills = [(N if x[0] == "end" else x[0], x[1], True, False, tuple(x[2]) if len(x) > 2 and x[2] else None) for x in corpus_kills]
    elif tail_only:
        # crash points after the last successful sync (and the end of the run), each continued into a second session
        lastsync = max([o["fx1"] for i, o in full["ops"].items() if ops[i][0] in "scn" and o.get("rc") == "0" and "fx1" in o] + [0])
        tail = list(range(lastsync, N + 1))
        for i in range(len(tail) - 1, 0, -1):
            j = rng.below(i + 1)
            tail[i], tail[j] = tail[j], tail[i]
        kills = [(k, None, True, False) for k in sorted(set(tail[:nlater] + [N, lastsync]))]
    else:
        pts = list(range(0, min(N, nfirst) + 1))
        if N > nfirst:
            rest = list(range(nfirst + 1, N + 1))
            for i in range(len(rest) - 1, 0, -1):
                j = rng.below(i + 1)
                rest[i], rest[j] = rest[j], rest[i]
            pts += sorted(rest[:nlater])
        if N not in pts:
            pts.append(N)
        # continuation into a second session: crash points at which the log holds flushed but unsynced records
        # (the last log effect before the kill is a write issued inside a put/del: buffer overflow flush), plus a
        # few random ones
        fx = full["fx"]
        midop = set()
        for i, op in enumerate(ops):
            o = full["ops"].get(i)
            if o and "fx1" in o and op[0] in "pd":
                for j in range(o["fx0"], o["fx1"]):
                    if fx[j][1] == "W" and fx[j][0] == W_WRITE:
                        midop.add(j + 1)
                        midop.add(o["fx1"])
        cand = sorted(k for k in midop if k <= N)
        for i in range(len(cand) - 1, 0, -1):
            j = rng.below(i + 1)
            cand[i], cand[j] = cand[j], cand[i]
        conts = set(cand[:ncont]) | set(rng.choice(pts) for _ in range(max(2, ncont // 4)))
        t2pts = set()
        if has_bkp:
            ibk = [i for i, o in enumerate(ops) if o[0] in "bB"][0]
            ob = full["ops"].get(ibk, {})
            inside = [k for k in pts if ob.get("fx0", 0) < k <= ob.get("fx1", N)]
            for i in range(len(inside) - 1, 0, -1):
                j = rng.below(i + 1)
                inside[i], inside[j] = inside[j], inside[i]
            t2pts = set(inside[:14])
        elif model and mode != "none":
            # kill model + theorem instance (crash_state_t2): a few crash points per history, the end of the run,
            # and points inside a checkpoint's replay when there is one
            inrep = [j + 1 for j, e in enumerate(fx) if e[1] == "R" and j + 1 in set(pts)]
            t2pts = set([N] + [rng.choice(pts) for _ in range(ncrash_t2)] + ([rng.choice(inrep)] if inrep else []))
        kills = [(k, None, k in conts, k in t2pts) for k in pts]
        for _ in range(rec_kills):
            kills.append((rng.choice(pts), rng.below(6), False))
        # cross-configuration recoveries: the sessions after the kill open the store with options that differ from
        # the writer's (log-buffer size, checksum checking) and possibly from each other.  What a recovery yields is
        # a function of the two files only (Proto.recover_open, C05_recovery_independent_of_recovering_config): the
        # prefix / synced-work / second-session oracles are asked unchanged.
        alts = W.cross_configs(crc)
        for _ in range(ncross):
            k = N if rng.chance(1, 4) else rng.choice(pts)
            r1 = rng.choice(alts)
            r2 = rng.choice(alts + [crc])
            rk = rng.below(6) if rng.chance(1, 4) else None
            kills.append((k, rk, rk is None and rng.chance(1, 2), False, (r1, r2)))
    res = crash_cases(run, impl, wd, name, crc, ops, kills, model=model,
                      pred=(d, full, mode) if (model and not has_bkp and mode != "none") else None)
    for kk, (tr, recline, ls, contres) in zip(kills, res):
        k, rk = kk[0], kk[1]
        cfg = kk[4] if len(kk) > 4 else None
        run.dist("crash_level_%d" % (2 if rk is not None else 1))
        if cfg:
            run.dist("recovery_cross_config")
            for kd in W.cross_kind(crc, cfg[0]):
                run.dist("recovery_cross_config_" + kd)
            if contres is not None or rk is not None:
                run.dist("recovery_cross_config_later_session_%s" % ("as_writer" if cfg[1] == crc else "as_first_recovery" if cfg[1] == cfg[0] else "third_configuration"))
        lo, hi, done, inflight = allowed_prefixes(ops, tr)
        run.dist("crash_in_flight_%s" % (ops[done][0] if inflight and done < len(ops) else "between"))
        run.case("%s|%d|%d|%s%s" % (" ".join(ops), crc, k, rk, "|rec%d,%d" % cfg if cfg else ""), nontrivial=True,
                 sample={"ops": len(ops), "crc": crc, "killat": k, "of": N, "rec_kill": rk, "recovering_options": cfg, "impl": recline[:160]} if k % 53 == 0 else None)
        ok, why, rng_, got = judge(ops, states, tr, recline)
        cl = None
        if ok:
            run.cov["traces_validated_against_impl"] += 1
            # protocol conformance (Proto.recovery_effects ends with ELogTruncate): a successful recovering open
            # leaves an empty log behind
            if W.fields(recline).get("walsz", "0") != "0":
                run.dist("recovery_left_log_behind")
                if len(run.broken) < 6:
                    run.broken.append("T2 correspondence (Proto.recovery_effects): after the recovering open the log file still has %s "
                                      "bytes (history %s, kill before effect %d)" % (W.fields(recline).get("walsz"), name, k))
            if contres is not None:
                run.dist("second_session")
                why2 = judge_continuation(recline, contres)
                if why2:
                    # a torn main file left by a growth-forced checkpoint may still LOOK like a prefix state and only
                    # break when the next session works on it: same known finding
                    g = growth_class(ops, full, k)
                    ok, why, cl = False, why2, (g if g == "growth-checkpoint" else "second-session")
            if ok:
                continue
        if cl is None:
            cl = growth_class(ops, full, k)
        if cfg:
            cl = "cross-config" if cl in ("other", "second-session") else cl
            why = "store written with [%s]; sessions after the kill opened with [%s] then [%s]: %s" % (
                W.cfg_text(crc), W.cfg_text(cfg[0]), W.cfg_text(cfg[1]), why)
        if os.environ.get("VERIF_DEBUG"):
            print("DBG viol", name, "kill", k, "/", N, "rk", rk, cl, rng_, why[:90])
        run.cov.setdefault("violations_by_class", {})
        run.cov["violations_by_class"][cl] = run.cov["violations_by_class"].get(cl, 0) + 1
        if run.cov["violations_by_class"][cl] > 2:
            continue
        run.violation({"ops": ops, "crc": crc, "killat": k, "effects": N, "rec_kill": rk, "class": cl, "rec_cfg": list(cfg) if cfg else None,
                       "second_session": SESSION2 if contres is not None else None,
                       "admissible_prefixes": list(rng_), "impl": recline[:3000], "recovered": got,
                       "final": (contres or {}).get("final", "")[:1500] if contres is not None else None}, why)
    shutil.rmtree(d, ignore_errors=True)
    return full


def check(run):
    proofs_ok = run.proofs()
    mult = 1 if proofs_ok else 10
    wd = tempfile.mkdtemp(prefix="wal-C04-")
    try:
        mode, impl = W.stable_harness(wd)
        model = vlib.build_model("wal")
        run.notes.append("effect numbering mode: " + mode + (" (record-level crash points inside checkpoints need the iwverif_fx hook)" if mode != "hook" else ""))
        cdir = os.path.join(vlib.VERIF, "corpus", "C04")
        for cf in sorted(os.listdir(cdir)) if os.path.isdir(cdir) else []:
            if cf.endswith(".json"):
                c = json.load(open(os.path.join(cdir, cf)))
                do_history(run, impl, wd, "corp" + cf[:-5].replace("-", ""), c["crc"], c["ops"], 0, 0, 0,
                           corpus_kills=c["kills"], model=model, mode=mode)
        if run.tier == "quick":
            nh, nfirst, nlater, rk, ncross = 30 * mult, 300, 200, 25, 10
        else:
            nh, nfirst, nlater, rk, ncross = 400 * mult, 1 << 30, 0, 150, 40
        for h in range(nh):
            crc = run.rng.choice([0, 0, 1, 2, 3])
            growth = (h % 3 == 2) if run.tier == "quick" else run.rng.chance(1, 2)
            pregrown = not growth and h % 3 == 0
            ops = gen_pregrown_history(run.rng) if pregrown else gen_history(run.rng, growth)
            run.dist("history_%s" % ("pregrown_then_inside_the_file" if pregrown else "growth" if growth else "no_growth"))
            do_history(run, impl, wd, "h%d" % h, crc, ops, nfirst, nlater, rk, model=model, mode=mode, ncross=ncross)
        for h in range((10 if run.tier == "quick" else 150) * mult):
            crc = run.rng.choice([0, 1, 2, 4, 4, 5, 6])     # bit 4: IWKV_NO_TRIM_ON_CLOSE
            ops = gen_close_history(run.rng)
            run.dist("history_ending_in_close_%s" % ("no_trim" if crc & 4 else "trim"))
            do_history(run, impl, wd, "hc%d" % h, crc, ops, nfirst, nlater, 4, model=model, mode=mode, ncont=3, ncross=ncross // 2)
        for h in range((6 if run.tier == "quick" else 80) * mult):
            crc = run.rng.choice([2, 2, 3])           # small log buffer: unsynced tails reach the log
            ops = gen_backup_history(run.rng)
            run.dist("history_inside_online_backup")
            do_history(run, impl, wd, "hb%d" % h, crc, ops, nfirst, nlater, 6, model=model, mode=mode, ncont=6, ncross=ncross // 2)
        for h in range((5 if run.tier == "quick" else 60) * mult):
            crc = run.rng.choice([0, 1, 2, 4, 6])
            ops = gen_destroy_history(run.rng)
            run.dist("history_db_destroyed_then_new_db_left_empty")
            do_history(run, impl, wd, "hx%d" % h, crc, ops, nfirst, nlater, 4, model=model, mode=mode, ncont=4, ncross=ncross // 2)
        for h in range((2 if run.tier == "quick" else 20) * mult):
            crc = run.rng.choice([0, 1])
            ops = gen_big_history(run.rng)
            run.dist("history_store_beyond_4MiB")
            # no model here (main files of several MB as Coq lists): crash points after the last sync + second session
            do_history(run, impl, wd, "hg%d" % h, crc, ops, 0, 6, 0, model=None, mode=mode, ncont=8, ncross=0, tail_only=True)
        for h in range((4 if run.tier == "quick" else 40) * mult):
            # bit 4 = IWKV_NO_TRIM_ON_CLOSE: without the trim the closing checkpoint is the only chance of the buffered records
            # (with it the trim's own checkpoint flushes them again after the failed write)
            crc = run.rng.choice([4, 4, 5, 6, 0, 1])
            ops = gen_close_fault_history(run.rng)
            run.dist("history_close_under_write_fault")
            close_fault_case(run, impl, wd, "hq%d" % h, crc, ops)
    finally:
        shutil.rmtree(wd, ignore_errors=True)
    return run.finish(level=LEVEL,
                      rule="random histories (db create, put with values 0..40000 bytes, del, iwkv_sync, forced checkpoint; 1-2 databases; "
                           "checksums on/off; 8 MB / 4 KB log buffer) x every crash point among the first 300 effects + 200 sampled later "
                           "ones, plus crashes inside the recovery itself (second level), plus recoveries by processes opened with another "
                           "log-buffer size and/or checksum setting than the writer's (distribution key recovery_cross_config); "
                           "stores beyond 4 MiB written to again after the recovery; iwkv_close under a failing log write; "
                           "a case = (history, crash point, recovery crash point, options of the recovering sessions)",
                      assumptions=["kill model: a write(2)/ftruncate/msync that returned is durable, the in-process log buffer and the private "
                                   "mapping are lost; power-loss reordering is outside the property",
                                   "the checkpoint thread's timers are set to their maximum so that effects are a function of the history"])


def replay(run, path):
    r = json.load(open(path))
    wd = tempfile.mkdtemp(prefix="wal-C04r-")
    try:
        mode, impl = W.stable_harness(wd)
        ops = r["ops"]
        d, line, full = full_run(impl, wd, "r", r["crc"], ops)
        k = r["killat"]
        if r.get("effects") is not None and k == r["effects"]:
            k = full["nfx"]
        cont = bool(r.get("second_session"))
        cfg = tuple(r["rec_cfg"]) if r.get("rec_cfg") else None
        res = crash_cases(run, impl, wd, "r", r["crc"], ops, [(k, r.get("rec_kill"), cont, False, cfg)])[0]
        ok, why, rng_, got = judge(ops, ref_states(ops), res[0], res[1])
        if ok and cont and res[3] is not None:
            why2 = judge_continuation(res[1], res[3])
            if why2:
                ok, why = False, why2
        print("history:", " ".join(ops)); print("checksum/buffer mode:", r["crc"], " kill before effect", k, "of", full["nfx"], " recovery kill:", r.get("rec_kill"))
        if cfg:
            print("store written with [%s]; sessions after the kill opened with [%s] then [%s]" % (W.cfg_text(r["crc"]), W.cfg_text(cfg[0]), W.cfg_text(cfg[1])))
        print("class:", r.get("class") if (cont or cfg) else growth_class(ops, full, k), " admissible prefixes:", rng_)
        print("recovering open:", res[1][:600])
        if cont and res[3] is not None:
            print("second session:", " ".join(SESSION2), "->", res[3]["run"]); print("open after its clean close:", res[3]["final"][:600])
        print("verdict:", "holds" if ok else "VIOLATED: " + why); print("recorded:", r.get("note"))
        return 0 if ok else 1
    finally:
        shutil.rmtree(wd, ignore_errors=True)
