import json, os
import vlib, kvcommon

LEVEL = "proof"

def check(run):
    n = 24 if run.tier == "quick" else 400
    ops = 300 if run.tier == "quick" else 2000
    kvcommon.drive(run, "struct", n, ops, reopen=True, audit=True, boundary=(60 if run.tier == "quick" else 2000),
                   destroy=(24 if run.tier == "quick" else 400), thin=(12 if run.tier == "quick" else 300), uplink=(40 if run.tier == "quick" else 1500), ringrun=(1 if run.tier == "quick" else 4), stalehead=(4 if run.tier == "quick" else 40))
    return run.finish(level=LEVEL, rule=kvcommon.RULE, assumptions=kvcommon.ASSUME)

def replay(run, path):
    return kvcommon.replay(run, path)
