import json, os
import vlib, kvcommon

LEVEL = "proof"

def check(run):
    # thorough sizes are chosen so that the tier ends in well under an hour on this machine (every batch of every script is
    # followed by a run of the extracted auditor on the image)
    n = 24 if run.tier == "quick" else 120
    ops = 300 if run.tier == "quick" else 1500
    kvcommon.drive(run, "struct", n, ops, reopen=True, audit=True, boundary=(60 if run.tier == "quick" else 250),
                   destroy=(24 if run.tier == "quick" else 120), thin=(12 if run.tier == "quick" else 100), uplink=(40 if run.tier == "quick" else 400), ringrun=(1 if run.tier == "quick" else 2), stalehead=(4 if run.tier == "quick" else 16))
    return run.finish(level=LEVEL, rule=kvcommon.RULE, assumptions=kvcommon.ASSUME)

def replay(run, path):
    return kvcommon.replay(run, path)
