# C17 - text-consuming functions are memory-safe on any input and depend only on it
import os, re, json, hashlib
from concurrent.futures import ThreadPoolExecutor
import vlib

LEVEL = "proof"
HERE = os.path.dirname(os.path.abspath(__file__))
MODELLED = ("ptr", "hex2bin", "atoi2", "unesc", "num", "xstr", "rem", "re", "ini", "split", "uuid", "csv", "jsk", "jssk", "sde", "wstrtoll",
            "replace", "jdoc", "jsdoc", "jbl", "jblpatch", "jblmerge")   # commands answered by the extracted model as well
PURE_MODEL = ("rem", "re", "ini", "split", "uuid", "csv", "jsk", "jssk", "sde", "replace", "jdoc", "jsdoc", "jbl", "jblpatch", "jblmerge")        # the model of these has no ambient state at all (no errno parameter): asked once
ERANGE, EINVAL = 34, 22
# The determinism oracle ("depends only on the input").  Every query is answered under each of these states of the world;
# the harness line prefix is <errno>:<fill byte of caller-provided output storage and of the stack below the call>[:w]
# (w = the objects that live across calls - compiled regex and its match array, pool, out buffer - have already served
# another call).  All answers must be equal, and equal to the model, whose result is a function of the query alone.
#   name   build   heap (fresh allocations)         prefix
STATES = [
    ("fresh", "asan", "malloc_fill_byte=190", lambda e: "0:00"),
    ("after-history", "asan", "malloc_fill_byte=90", lambda e: "%d:a5:w" % e),
    ("reused-heap", "plain", None, lambda e: "%d:ff" % (ERANGE + EINVAL - e)),   # glibc: freed chunks come back with their old bytes
]


def hx(b):
    return b.hex() if b else "-"


# ------------------------------------------------------------------------------------------------------------------
# generators: every function returns bytes (or a tuple of args already formatted)
def g_ptr(rng):
    segs = []
    for _ in range(rng.weighted([(0, 1), (1, 4), (2, 4), (3, 2), (6, 1)])):
        s = b""
        for _ in range(rng.weighted([(0, 1), (1, 3), (2, 3), (5, 2)])):
            s += rng.weighted([(b"a", 3), (b"b", 2), (b"0", 2), (b"17", 1), (b"~0", 2), (b"~1", 2), (b"-", 1), (b"*", 1),
                               (b"\xc3\xa9", 1), (b" ", 1)])
        segs.append(s)
    p = b"".join(b"/" + s for s in segs)
    k = rng.below(12)
    if k == 0:
        p += b"~"                      # dangling ~ right before the terminator
    elif k == 1:
        p += b"~" + rng.choice([b"x", b"2", b"~", b"\xff", b"\x01"])
    elif k == 2:
        p += b"~/" + rng.choice([b"", b"a", b"b/c"])
    elif k == 3:
        p += b"/"
    elif k == 4:
        p = rng.choice([b"a", b"~", b"~0", b"a/b", b" /a"]) + p
    elif k == 5 and p:
        i = rng.below(len(p)); p = p[:i] + bytes([rng.range(1, 255)]) + p[i + 1:]
    elif k == 6 and p:
        i = rng.below(len(p)); p = p[:i] + b"~" + p[i:]
    return p


def g_hexstr(rng):
    n = rng.weighted([(0, 1), (1, 2), (2, 3), (3, 2), (4, 2), (7, 1), (8, 1), (16, 1)])
    alpha = b"0123456789abcdefABCDEF" if rng.chance(3, 4) else b"0123456789abcdefABCDEFgG/:@`\xff\x80 z"
    return bytes(rng.choice(alpha) for _ in range(n))


BIGNUMS = [b"9223372036854775807", b"9223372036854775808", b"-9223372036854775808", b"-9223372036854775809",
           b"922337203685477580", b"9223372036854775799", b"18446744073709551615", b"18446744073709551616",
           b"99999999999999999999", b"-99999999999999999999", b"123456789012345678901234567890", b"0", b"-0", b"00012"]


def g_numstr(rng):
    s = b""
    if rng.chance(1, 5):
        s += rng.choice([b" ", b"\t", b"  ", b"\x7f", b"\n \r", b"\x01"])
    if rng.chance(1, 3):
        s += rng.choice([b"-", b"-", b"+"])
    k = rng.below(10)
    if k == 0:
        s += rng.choice(BIGNUMS).lstrip(b"-")
    elif k == 1:
        s += rng.choice([b"inf", b"in", b"i", b"infx", b"Inf", b"nan", b""])
    else:
        nd = rng.weighted([(0, 1), (1, 4), (3, 4), (9, 2), (18, 2), (19, 2), (20, 1), (25, 1)])
        if rng.chance(1, 5):
            s += b"0" * rng.range(1, 3)
        for _ in range(nd):
            s += bytes([48 + rng.below(10)])
    if rng.chance(1, 2):
        s += b"."
        for _ in range(rng.weighted([(0, 2), (1, 3), (5, 3), (17, 1), (33, 1), (40, 1)])):
            s += bytes([48 + rng.below(10)])
    if rng.chance(1, 4):
        s += rng.choice([b"e", b"E"]) + rng.choice([b"", b"+", b"-"]) + rng.choice(
            [b"", b"0", b"00", b"1", b"5", b"12", b"307", b"308", b"309", b"-308", b"400", b"99999", b"2147483647",
             b"2147483648", b"99999999999", b"000", b"0x"])
    if rng.chance(1, 8):
        s += rng.choice([b"x", b"e5", b" ", b".", b"-", b"+1", b",", b"]", b"}", b"\xff"])
    return s


def g_jsonnum(rng):
    k = rng.below(12)
    if k == 0:
        return rng.choice([b"0x1F", b"0X", b"0x", b"017", b"08", b"0x7fffffffffffffff", b"0x8000000000000000", b"-0x10",
                           b"-", b".", b"-.", b"-.5", b".5", b"-.e1", b"1e", b"1e+", b"1.e1", b"1.5e-0", b"-e", b"1-2", b"1+2"])
    s = g_numstr(rng).lstrip(b" \t\n\r\x7f\x01+")
    return s if s else b"7"


def g_string_body(rng, q=b'"'):
    s = b""
    for _ in range(rng.weighted([(0, 1), (1, 3), (3, 4), (8, 2), (20, 1)])):
        s += rng.weighted([
            (b"a", 6), (b"z9", 2), (b" ", 1), (b"\xc3\xa9", 1), (b"\xf0\x9f\x98\x80", 1), (b"\\n", 1), (b"\\t", 1), (b"\\r", 1),
            (b"\\b", 1), (b"\\f", 1), (b"\\\\", 1), (b"\\/", 1), (b'\\"', 2), (b"\\'", 1), (b"\\x", 1), (b"\\u0041", 2),
            (b"\\u00e9", 1), (b"\\u20AC", 1), (b"\\ud83d\\ude00", 2), (b"\\ud83d", 1), (b"\\ud83d\\u0041", 1), (b"\\ud83dx", 1),
            (b"\\ud83d\\", 1), (b"\\ud83d\\u", 1), (b"\\ud83d\\ude0", 1), (b"\\udc00", 1), (b"\\u", 1), (b"\\u1", 1), (b"\\u12", 1),
            (b"\\u123", 1), (b"\\uzzzz", 1), (b"\\u0000", 1), (b"\\uffff", 1), (b"\\ufffe", 1), (b"\\", 1), (b"\x01", 1), (b"\x7f", 1),
            (b"\xff", 1), (b"'", 1), (b"\n", 1)])
    return s


def g_json(rng, depth=0):
    k = rng.below(10 if depth < 4 else 6)
    if k < 2:
        return g_jsonnum(rng) if rng.chance(1, 3) else str(rng.range(-50, 5000)).encode()
    if k < 4:
        return b'"' + g_string_body(rng).replace(b"\n", b"") + b'"'
    if k == 4:
        return rng.choice([b"null", b"true", b"false", b"nul", b"tru", b"fals", b"nullx"]) if rng.chance(1, 6) else rng.choice([b"null", b"true", b"false"])
    if k == 5:
        return rng.choice([b"[]", b"{}", b'""', b"0", b"-1", b"1.5", b"1e3"])
    ws = lambda: rng.choice([b"", b"", b" ", b"\n", b"\t"])
    if k < 8:
        items = [g_json(rng, depth + 1) for _ in range(rng.range(0, 4))]
        return b"[" + ws() + (b"," + ws()).join(items) + ws() + b"]"
    items = []
    for _ in range(rng.range(0, 4)):
        key = b'"' + rng.choice([b"a", b"b", b"k1", b"", b"a/b", b"~", b"x\\ny", b"\\u0041"]) + b'"'
        items.append(key + ws() + b":" + ws() + g_json(rng, depth + 1))
    return b"{" + ws() + (b"," + ws()).join(items) + ws() + b"}"


def mutate(rng, s):
    if not s:
        return rng.bytes(rng.range(0, 3)).replace(b"\n", b" ")
    k = rng.below(10)
    i = rng.below(len(s))
    if k == 8:
        return s[:i] + bytes([rng.choice(EDGE)]) + s[i + 1:]      # a byte at the edge of the 8 bit range
    if k == 9:
        return s[:i] + bytes([rng.choice(EDGE)]) + s[i:]
    if k == 0:
        return s[:i]                                              # truncate
    if k == 1:
        return s[:i] + bytes([rng.range(1, 255)]) + s[i + 1:]     # flip
    if k == 2:
        return s[:i] + bytes([rng.range(1, 31)]) + s[i:]          # control byte
    if k == 3:
        j = rng.below(len(s)); a, b = min(i, j), max(i, j)
        return s[:a] + s[b:]                                      # delete range
    if k == 4:
        return s[:i] + rng.choice([b"\\", b'"', b"\\u", b"\\ud800", b"~", b"[", b"{", b"]", b"}", b",", b":", b"\xef\xbb\xbf", b"-", b".", b"e"]) + s[i:]
    if k == 5:
        return rng.choice([b"\xef\xbb\xbf", b"\xef\xbb", b"\xef", b" ", b","]) + s
    if k == 6:
        return s + rng.choice([b"\\", b'"', b",", b" ", b"\xff", b"x"])
    return s[:i] + s[i:i + 8] + s[i:]


def g_nest(rng):
    d = rng.choice([3, 50, 997, 998, 999, 1000, 1001, 1002, 1003, 1500])
    kind = rng.below(3)
    if kind == 0:
        return b"[" * d + b"]" * rng.choice([d, d, d - 1, 0])
    if kind == 1:
        return b'{"a":' * d + b"1" + b"}" * rng.choice([d, d, 0])
    return (b'[{"a":' * (d // 2)) + b"0" + (b"}]" * (d // 2))


def g_js(rng):
    s = g_json(rng)
    if rng.chance(1, 2):
        s = re.sub(rb'"([a-z][a-z0-9]*)"\s*:', rb"\1:", s)
    if rng.chance(1, 3):
        s = s.replace(b'"', b"'")
    return s


DOCS = [b'{"a":1,"b":[1,2,3],"c":{"d":"x","e":null}}', b"[1,2,3,4]", b'{"foo":{"bar":[{"baz":1},2]}}', b'{"":0,"a/b":1,"m~n":2}',
        b"[]", b"{}", b'"s"', b"5", b'{"a":"str"}']


def g_pointer_for(rng):
    return rng.choice([b"/a", b"/b/0", b"/b/1", b"/b/-", b"/c/d", b"/c", b"", b"/", b"/0", b"/1", b"/3", b"/4", b"/-", b"/foo/bar/0/baz",
                       b"/a~1b", b"/m~0n", b"/zz", b"/b/9", b"/c/e/f", b"/b/01", b"/b/x", b"/*", b"/a~", b"/~", b"/a~x", b"/a~/b"]) \
        if rng.chance(5, 6) else g_ptr(rng)


def jstr(b):
    return b'"' + b.replace(b"\\", b"\\\\").replace(b'"', b'\\"') + b'"'


IDX = [b"/0", b"/1", b"/2", b"/-", b"/-1", b"/-2", b"/01", b"/+1", b"/ 1", b"/1e3", b"/2147483647", b"/2147483648", b"/4294967295", b"/4294967296",
       b"/4294967297", b"/-2147483648", b"/-2147483649", b"/9223372036854775807", b"/9223372036854775808", b"/18446744073709551616",
       b"/99999999999999999999", b"/-99999999999999999999", b"/b/4294967296", b"/b/-1", b"/b/2147483648"]


def g_patch_idx(rng):
    """array indices far outside the array, negative, and beyond int / int64 (the index is read with iwatoi into an int)"""
    ops = []
    for _ in range(rng.range(1, 2)):
        op = rng.choice([b"add", b"remove", b"replace", b"move", b"copy", b"test", b"increment", b"swap", b"add_create"])
        o = b'{"op":' + jstr(op) + b',"path":' + jstr(rng.choice(IDX))
        if op in (b"move", b"copy", b"swap"):
            o += b',"from":' + jstr(rng.choice(IDX))
        else:
            o += b',"value":' + rng.choice([b"9", b"[7]", b'"v"'])
        ops.append(o + b"}")
    return b"[" + b",".join(ops) + b"]"


def g_patch(rng):
    ops = []
    for _ in range(rng.range(0, 3)):
        op = rng.choice([b"add", b"remove", b"replace", b"move", b"copy", b"test", b"increment", b"add_create", b"swap", b"bogus"])
        path, frm = g_pointer_for(rng), g_pointer_for(rng)
        if op == b"swap" and (path.startswith(frm) or frm.startswith(path)):
            frm = b"/zz"   # swapping a node with its own ancestor builds a cyclic tree: known, unfixed C15 finding (notes/jpatch.md)
        o = b'{"op":' + jstr(op) + b',"path":' + jstr(path)
        if op in (b"move", b"copy", b"swap") or rng.chance(1, 8):
            o += b',"from":' + jstr(frm)
        if op in (b"add", b"replace", b"test", b"increment", b"add_create") or rng.chance(1, 8):
            o += b',"value":' + rng.choice([b"1", b'"v"', b"[7]", b'{"q":1}', b"null", b"1.5", b"true"])
        ops.append(o + b"}")
    p = b"[" + b",".join(ops) + b"]"
    return mutate(rng, p) if rng.chance(1, 6) else p


def g_xstr(rng):
    ops = [str(rng.choice([0, 1, 2, 16, 64, 200]))]
    size = 0
    for _ in range(rng.range(0, 8)):
        k = rng.below(6)
        if k == 5:
            # a clone takes over; what follows must fit the capacity the clone REPORTS (no growth), so that a clone
            # which owns less than it reports is written past its block
            ops.append("k")
            if rng.chance(2, 3):
                fit = rng.bytes(rng.choice([1, 2, 7, 9, 10, 14, 40])).replace(b"\x00", b"\x01")
                ops.append(rng.choice(["c", "u", "i0:"]) + hx(fit)); size += len(fit)
            continue
        b = rng.bytes(rng.weighted([(0, 1), (1, 3), (3, 3), (17, 1), (70, 1)])).replace(b"\x00", b"\x01")
        if k == 0:
            ops.append("c" + hx(b)); size += len(b)
        elif k == 1:
            ops.append("u" + hx(b)); size += len(b)
        elif k == 2:
            n = rng.choice([0, 1, size, size + 1, max(size - 1, 0), rng.below(size + 3)]); ops.append("s%d" % n); size = max(0, size - n)
        elif k == 3:
            n = rng.choice([0, 1, size, size + 1, max(size - 1, 0), rng.below(size + 3)]); ops.append("p%d" % n); size = max(0, size - n)
        else:
            pos = rng.choice([0, size, size + 1, rng.below(size + 2)])
            ops.append("i%d:%s" % (pos, hx(b)))
            if pos <= size:
                size += len(b)
    return " ".join(ops)


def g_split(rng):
    h = b""
    for _ in range(rng.range(0, 7)):
        h += rng.weighted([(b"a", 4), (b"bc", 2), (b",", 3), (b";", 1), (b" ", 4), (b"\t", 1), (b"\xe9", 1)])
    chars = rng.choice([b",", b",;", b"", b" ", b"a", b"\xe9", b", "])
    if rng.chance(1, 6):
        h = rng.choice([b" ", b"  ", b",", b",,", b" ,", b", ", b" , ", b"a,", b",a", b" a ", b"\t\n", b"a, ,b", b"a ,", b"x" * 40 + b"," + b" " * 9])
    return "%s %s %d" % (hx(h), hx(chars), rng.below(2))


def g_replace(rng):
    d = b""
    for _ in range(rng.range(0, 8)):
        d += rng.weighted([(b"a", 3), (b"{x}", 3), (b"{yy}", 2), (b" ", 1), (b"{", 1), (b"x", 1)])
    keys = [(b"{x}", rng.choice([b"", b"1", b"{yy}", b"longer-than-key", b"{x}"])), (b"{yy}", rng.choice([b"Q", b"", b"{x}"])), (b"a", b"aa"), (b"zz", b"n")]
    if rng.chance(1, 8):
        keys.append((b"", rng.choice([b"", b"x"])))         # an empty key: skipped since e241384, an endless loop before
    n = rng.range(0, 3)
    sel = [keys[rng.below(len(keys))] for _ in range(n)]
    return " ".join([hx(d)] + [hx(x) for kv in sel for x in kv])


def g_ini(rng):
    out = b""
    for _ in range(rng.range(0, 7)):
        k = rng.below(12)
        if k == 0:
            l = b"[" + rng.choice([b"sec", b"s 1", b"", b"x" * 130, b"a]b", b"s;c"]) + rng.choice([b"]", b"]", b"", b"] ; c"])
        elif k == 1:
            l = rng.choice([b";", b"#", b" ;"]) + b" comment"
        elif k == 2:
            l = rng.choice([b"  ", b"\t"]) + rng.choice([b"cont", b"more = x", b""])
        elif k == 3:
            l = b"n" * rng.choice([1, 126, 127, 128, 198, 199, 200, 201, 250]) + rng.choice([b"=v", b"", b":"])
        elif k == 4:
            l = b"k=" + b"v" * rng.choice([195, 196, 197, 198, 199, 200, 250, 401])
        elif k == 6:
            l = rng.choice([b"!a=1", b"a=!1", b"a = !", b"[s]", b" !cont", b"[" + b"s" * rng.choice([125, 126, 127, 128, 129]) + b"]",
                            b"n" * rng.choice([125, 126, 127, 128]) + b"=v", b"k=v\t;c", b"k=v;c ;d", b"[a;b] ;c", b"[a ;b]", b"k\t:\tv", b"\xef\xbb\xbf[s]",
                            b"\xef\xbb\xbf", b"\xef\xbb\xbf k=v", b"k=" + b" " * 190 + b"v", b" " * rng.choice([197, 198, 199, 200]) + b"k=v"])
        elif k == 5:
            l = rng.choice([b"novalue", b"=", b":", b"= v", b"a=b=c", b"a:b ;c", b"a=b;c", b"\xef\xbb\xbfk=v", b"\xef\xbb", b"k = \xff"])
        else:
            l = rng.choice([b"", b" "]) + rng.choice([b"name", b"n2", b"k k"]) + rng.choice([b"=", b" = ", b":", b" : "]) + \
                rng.choice([b"val", b"", b" v v ", b"1 ; c", b"\"q\""]) + rng.choice([b"", b" ", b"\r"])
        out += l + rng.choice([b"\n", b"\n", b"\r\n", b""])
    return mutate(rng, out) if rng.chance(1, 6) else out


UUID0 = b"0123abcd-89EF-4a5b-8c7d-0123456789ab"


def g_uuid(rng):
    u = bytearray(UUID0)
    for i in range(len(u)):
        if u[i] != 45 and rng.chance(1, 3):
            u[i] = rng.choice(b"0123456789abcdefghijklmnopqrstuvwxyzABCDEFGHIJKLMNOPQRSTUVWXYZ")
    u = bytes(u)
    k = rng.below(10)
    pos = rng.choice([0, 7, 8, 9, 12, 13, 14, 17, 18, 19, 22, 23, 24, 34, 35])
    if k == 0:
        u = u[:pos] + bytes([rng.choice([45, 47, 58, 64, 91, 96, 123, 0x80, 0xff, 32, 1])]) + u[pos + 1:]    # neighbours of the classes
    elif k == 1:
        u = u[:rng.choice([0, 1, 8, 9, 35])]                       # too short: every index the checks would touch is beyond the terminator
    elif k == 2:
        u = u + rng.choice([b"0", b"-", b" ", UUID0])              # too long
    elif k == 3:
        u = u[:pos] + u[pos + 1:] + b"0"                           # right length, a dash out of place
    elif k == 4:
        u = u.replace(b"-", rng.choice([b"_", b"-", b"a"]), rng.range(1, 4))
    return u


def g_csv(rng):
    """<len of the caller's line buffer> <columns>: lengths at the validity checks (sizeof(struct iwcsv) + 2, multiples of
    8) and contents that fill the data area to within a byte (every WW guard)"""
    ln = rng.choice([0, 8, 32, 33, 34, 40, 41, 48, 56, 64, 72, 128, 512]) if rng.chance(5, 6) else rng.below(200)
    room = max(ln - 33, 0)
    cols = []
    for _ in range(rng.weighted([(0, 1), (1, 3), (2, 3), (3, 2), (6, 1)])):
        k = rng.below(8)
        if k == 0:
            c = b""
        elif k == 1:
            c = rng.choice([b'"', b'""', b'a"b', b'",', b' "'])
        elif k == 2:
            c = rng.choice([b",", b" ", b"\t", b"\n", b"\r", b"a b", b"a,b"])
        elif k == 3:
            c = b"x" * max(0, room + rng.choice([-4, -3, -2, -1, 0, 1]))
        elif k == 4:
            c = (b'"' * max(0, room // 2 + rng.choice([-2, -1, 0, 1])))
        elif k == 5:
            c = rng.bytes(rng.range(1, 4))
        else:
            c = rng.choice([b"abc", b"1", b"-12.5", b"\xe9\xff"])
        cols.append(c)
    return " ".join([str(ln)] + [hx(c) for c in cols])


SDE = [b"1e", b"1e+", b"1e-", b".e1", b"1.e5", b"e5", b"-.5", b".5", b".", b"-", b"+", b"-.", b"1e0005", b"1e00", b"1e0]", b"0x10", b" \t1", b"1e-308",
       b"2.2250738585072011e-308", b"1.e", b"1.5e+x", b".e", b"-.e5", b"1..2", b"1e5e5", b"\x0b\x0c 7", b"00", b"1e+00x", b"5.", b"5.x"]


def g_sde(rng):
    return rng.choice(SDE) + rng.choice([b"", b"", b"x", b",", b"0"]) if rng.chance(1, 2) else g_numstr(rng).replace(b"\x00", b"")


def g_wstrtoll(rng):
    if rng.chance(1, 2):
        return rng.choice([b"123", b" 12", b"12 ", b"", b"+5", b"-0", b"0x10", b"12a", b"-", b"9223372036854775807", b"9223372036854775808",
                           b"-9223372036854775808", b"-9223372036854775809", b"99999999999999999999", b"\t\n7", b"1.5", b"007"])
    return g_numstr(rng).replace(b"\x00", b"")


def g_regex(rng, depth=0):
    def atom():
        k = rng.below(14)
        if k < 5:
            return rng.choice([b"a", b"b", b"c", b"x", b"0"])
        if k == 5:
            return b"."
        if k == 6:
            return rng.choice([b"\\.", b"\\\\", b"\\[", b"\\a", b"\\(", b"\\$"])
        if k in (7, 8):
            neg = b"^" if rng.chance(1, 2) else b""
            body = b""
            for _ in range(rng.range(1, 3)):
                body += rng.choice([b"a", b"b", b"a-c", b"0-9", b"\\]", b"\\-", b"-", b"x-x", b"\xe9", b"a-\xe9", b"]"] if not body else
                                   [b"a", b"b", b"a-c", b"0-9", b"\\]", b"-", b"z"])
            return b"[" + neg + body + b"]"
        if k == 9 and depth < 3:
            return b"(" + g_regex(rng, depth + 1) + b")"
        if k == 10:
            return rng.choice([b"^", b"$"])
        if k == 11 and depth < 3:
            return b"(" + g_regex(rng, depth + 1) + b"|" + g_regex(rng, depth + 1) + b")"
        return rng.choice([b"ab", b"abc"])
    out = b""
    for _ in range(rng.range(1, 4)):
        out += atom()
        q = rng.below(12)
        if q < 3:
            out += rng.choice([b"*", b"+", b"?"]) + (b"?" if rng.chance(1, 5) else b"")
        elif q == 3:
            out += rng.choice([b"{2}", b"{0,2}", b"{1,}", b"{,2}", b"{3,1}", b"{", b"{2", b"{2,", b"{}", b"{0}", b"{1,3}?", b"{4}{2}", b"{a}"])
    if depth == 0 and rng.chance(1, 6):
        out = rng.choice([b"^", b""]) + out + rng.choice([b"$", b"|", b""])
    return out


def g_regex_bad(rng):
    base = g_regex(rng)
    return rng.choice([base + b"\\", base + b"[", base + b"[\\", base + b"[a-", base + b"[\x80-", base + b"[^", base + b"(", base + b")",
                       base + b"[]", base + b"[^]", base + b"[]-", b"|" + base, base + b"||", b"*" + base, b"+", b"?", b"{1}", b"()", b"(|)", b"(*)",
                       base + b"{99999999999}", b"[^a]$", b"[^a]*$", b"[^\\", b"\\", b"$", b"^", b"^$", b".$", b"[^x]", b"a[^x]$", mutate(rng, base)])


def g_regex_big(rng):
    """size / recursion bounds of parser, compiler and VM"""
    k = rng.below(7)
    if k == 0:
        return b"a" * rng.choice([2047, 2048, 2049, 5000, 20000])
    if k == 1:
        d = rng.choice([500, 1023, 1024, 1025, 3000, 20000]); return b"(" * d + b"a" + b")" * d
    if k == 2:
        return b"a|" * rng.choice([500, 1023, 1024, 5000, 20000]) + b"b"
    if k == 3:
        return rng.choice([b"(a{1000}){1000}", b"((a{1000}){1000}){1000}", b"(((a{1000}){1000}){1000}){1000}", b"a{100000}", b"a{100001}",
                           b"a{0,4090}", b"a{0,4100}", b"(a{90}){90}", b"a{4000,}", b"a{2147483647}", b"a{2147483648}", b"a{1,2147483647}"])
    if k == 4 and rng.chance(1, 2):
        c, b = (wrap_pairs(rng, rng.choice([16, 31, 32, 32]), 1) or [(8192, 524288)])[0]
        return rng.choice(wrap_patterns(c, b))
    if k == 4:
        return b"a?" * rng.choice([100, 1000, 1024]) + b"b"
    if k == 5:
        return b"(a*)*" * rng.choice([10, 100, 400])
    return b"[a-z]" * rng.choice([100, 400, 409, 410, 1000])


RE_LIMIT = 8192          # REGEX_MAX_INSTRUCTIONS (the patterns below only have to straddle it: the model knows the real value)
RE_MAXB = 1000009        # the largest interval bound parse_interval lets through (the test precedes the last digit)


def wrap_pairs(rng, width, n, slack=RE_LIMIT - 200):
    """(c, b): an inner size c <= RE_LIMIT + 1 and an outer bound b <= RE_MAXB whose product is far above the instruction limit
    but congruent to -8 .. slack modulo 2^width: an estimate computed in `width` bits comes out small and passes the limit"""
    out, M, tries = [], 1 << width, 0
    while len(out) < n and tries < 20000:
        tries += 1
        b = rng.range(max(2, (M >> 13) - 1), RE_MAXB) if M > (RE_LIMIT + 1) * 4 else rng.range(2, 70000)
        k = rng.range(1, max(1, ((RE_LIMIT + 1) * b) // M))
        c = -(-(k * M) // b)                                   # ceil: c * b is just above k * 2^width
        for cc in (c, c - 1):
            r = (cc * b) % M
            if 1 <= cc <= RE_LIMIT + 1 and cc * b > 4 * RE_LIMIT and (r <= slack or r >= M - 8):
                out.append((cc, b)); break
    return out


def wrap_patterns(c, b):
    """the quantifier shapes whose estimate multiplies a bound with the size of the quantified sub-program"""
    pats = [b"a{%d}{%d}" % (c, b), b"a{%d}{%d,}" % (c, b), b"a{%d}{0,%d}" % (max(c - 1, 1), b), b"a{%d}{%d,%d}" % (c, b, b),
            b"a{%d}{%d,%d}" % (c, max(b - 1, 0), b)]
    if c > 2:
        pats += [b"(a{%d}){%d}" % (c - 2, b), b"(a{%d}){%d,}" % (c - 2, b), b"[a-c]{%d}{%d}" % (c, b)]
    return pats


# bytes at which an 8 bit counter / a signed char / an ASCII class test changes its mind
EDGE = [0x01, 0x7e, 0x7f, 0x80, 0xfe, 0xff]
BOUND = sorted(set(EDGE + [0x00, 0x1f, 0x20, 0x2f, 0x30, 0x39, 0x3a, 0x40, 0x41, 0x46, 0x47, 0x5a, 0x5b, 0x5c, 0x5d, 0x5e, 0x60, 0x61,
                           0x66, 0x67, 0x7a, 0x7b, 0x7d, 0xbf, 0xc0, 0xc2, 0xe9, 0xef, 0xf4, 0xf5]))


def g_class_bytes(rng):
    """a bracket expression written byte by byte: members, ranges (both bounds at the edges, reversed, one-element),
    escapes as member / as lower bound / as the byte after `-`, `]` and `-` in the positions where they are literals"""
    edge = lambda: bytes([rng.choice(EDGE)]) if rng.chance(3, 4) else rng.choice([b"a", b"z", b"0", b"]", b"-", b"\\", b"^"])
    body = b"]" if rng.chance(1, 8) else b""
    for _ in range(rng.range(1, 3)):
        k = rng.below(8)
        lo, hi = edge(), edge()
        if k < 3:
            if lo > hi and rng.chance(3, 4):
                lo, hi = hi, lo                       # mostly a valid range; reversed ones are a parse error
            body += lo + b"-" + hi
        elif k == 3:
            body += b"\\" + lo + b"-" + hi            # escaped lower bound
        elif k == 4:
            body += lo + b"-\\" + hi                  # the byte after `-` is taken as it is: range lo..backslash
        elif k == 5:
            body += b"\\" + lo
        elif k == 6:
            body += lo + b"-"                         # a `-` right before the closing bracket is a member
        else:
            body += lo
    return b"[" + (b"^" if rng.chance(1, 3) else b"") + body + b"]"


def g_regex_bytes(rng):
    """(pattern, text): classes and literals made of edge bytes, matched against texts made of edge bytes"""
    pat = b""
    for _ in range(rng.range(1, 3)):
        k = rng.below(6)
        if k < 3:
            a = g_class_bytes(rng)
        elif k == 3:
            a = bytes([rng.choice(EDGE)])
        elif k == 4:
            a = b"\\" + bytes([rng.choice(EDGE)])
        else:
            a = b"(" + g_class_bytes(rng) + b")"
        pat += a + rng.choice([b"", b"", b"*", b"+", b"?", b"{2}", b"{0,2}"])
    if rng.chance(1, 4):
        pat = b"^" + pat
    if rng.chance(1, 4):
        pat += b"$"
    text = bytes(rng.choice(EDGE + [0x61, 0x5d, 0x2d, 0x5c]) for _ in range(rng.weighted([(0, 1), (1, 3), (2, 3), (5, 2)])))
    return pat, text


def sweep(rng, full):
    """deterministic part of the stream: every position where a parser of the family iterates over, compares or indexes
    with an input byte gets every byte of BOUND (quick: + 16 random ones; thorough: all 256), so that each loop whose bound
    comes from an input byte is driven to 0x00 / 0xff.  Also: quantifier counts, group counts and alternation lengths at
    the limits of the regex engine."""
    L = []
    vals = list(range(256)) if full else sorted(set(BOUND + [rng.below(256) for _ in range(16)]))
    e0 = [0x00] + EDGE
    # regex: both bounds of a range at the edges, plain / negated / escaped bounds; texts at and next to the bounds
    for lo in e0:
        for hi in e0:
            L0, H0 = bytes([lo]), bytes([hi])
            t = bytes(x for x in (lo, hi, max(hi - 1, 1), min(lo + 1, 255)) if x)
            for pat in (b"[" + L0 + b"-" + H0 + b"]+", b"[^" + L0 + b"-" + H0 + b"]+", b"[\\" + L0 + b"-" + H0 + b"]", b"[a" + L0 + b"-" + H0 + b"z]$"):
                L.append("re %s %s" % (hx(pat), hx(t)))
    for b in vals:
        B = bytes([b])
        nz = B if b else b"\x01"
        L.append("re %s %s" % (hx(B), hx(nz)))
        L.append("re %s %s" % (hx(b"\\" + B), hx(nz)))
        L.append("re %s %s" % (hx(b"[" + B + b"]"), hx(nz)))
        L.append("re %s %s" % (hx(b"[\x01-" + B + b"]+"), hx(b"\x01" + nz)))
        L.append("re %s %s" % (hx(b"[^" + B + b"-\xff]"), hx(b"\xff" + nz)))
        L.append("re %s %s" % (hx(b"a{" + B + b"}"), hx(b"a")))
        # JSON / JS strings: the byte raw, after a backslash, inside \u
        L.append("json " + hx(b'"' + B + b'"'))
        L.append("json " + hx(b'"\\' + B + b'"'))
        L.append("json " + hx(b'"\\u00' + B + b'0"'))
        L.append("json " + hx(b'["a",' + B + b"]"))
        L.append("js " + hx(b"'" + B + b"'"))
        L.append("js " + hx(b"{" + B + b":1}"))
        L.append("at %s %s" % (hx(DOCS[0]), hx(b"/" + B)))
        if b:
            L.append("unesc 34 " + hx(B + b'"'))
            L.append("unesc 34 " + hx(b"\\" + B + b'"'))
            L.append("unesc 39 " + hx(b"\\u" + B + b"0000'"))
            L.append("ptr " + hx(b"/" + B))
            L.append("ptr " + hx(b"/~" + B))
            L.append("ptr " + hx(b"/a~" + B + b"/b"))
            L.append("atoi " + hx(b"1" + B))
            L.append("atof " + hx(b"1." + B))
            L.append("num " + hx(b"1" + B))
            L.append("num " + hx(b"1e" + B))
            L.append("strtod " + hx(B + b"1"))
            L.append("strtod " + hx(b"1e" + B))
            L.append("ini " + hx(b"k" + B + b"=v" + B + b"\n[s" + B + b"]\n" + B + b"x=1"))
            L.append("split %s %s 1" % (hx(b"a" + B + b"b " + B), hx(B)))
            L.append("replace %s %s %s" % (hx(b"a" + B + b"b"), hx(B), hx(b"<" + B + b">")))
            L.append("jsk " + hx(b'["a",' + B + b"]"))
            L.append("jsk " + hx(b'{"k' + B + b'":' + B + b"}"))
            L.append("jsk " + hx(b'"\\' + B + b'"'))
            L.append("jsk " + hx(b"-" + B))
            L.append("jssk " + hx(b"{" + B + b":1," + B + b"a" + B + b":'" + B + b"'}"))
            L.append("sde " + hx(B + b"1"))
            L.append("sde " + hx(b"1e" + B))
            L.append("sde " + hx(b"1." + B + b"e" + B))
            L.append("uuid " + hx(B + UUID0[1:]))
            L.append("uuid " + hx(UUID0[:8] + B + UUID0[9:]))
            L.append("uuid " + hx(UUID0[:35] + B))
            L.append("csv 48 %s" % hx(B + b"a"))
            L.append("wstrtoll " + hx(b"1" + B))
        # length delimited entry points take every byte, 0 included
        L.append("csv 40 %s %s" % (hx(B), hx(B)))
        L.append("atoi2 " + hx(b"1" + B + b"2"))
        L.append("atoi2 " + hx(B))
        L.append("afcmp %s %s" % (hx(b"1" + B), hx(b"1.0")))
        L.append("hex2bin %s 2" % hx(B + b"0"))
        L.append("hex2bin %s 1" % hx(b"f" + B))
        L.append("bin2hex %s 3" % hx(B))
    # regex: quantifier counts, program sizes, group counts, alternation lengths at the limits
    for n in (0, 1, 2, 255, 256, 1199, 1200, 8185, 8186, 8187, 8188, 8189, 8190, 8191, 8192, 8193, 65535, 65536, 99999, 100000, 100001,
              1000009, 1000010, 2147483647, 2147483648, 4294967295, 4294967296):
        for pat in (b"a{%d}" % n, b"a{0,%d}" % n, b"a{%d,}" % n, b"^a{%d}$" % n, b"(a){%d}" % n):
            L.append("re %s %s" % (hx(pat), hx(b"aaa")))
    for a, b in ((90, 91), (64, 128), (2, 4095), (2, 4096), (4096, 2), (1000, 1000), (100000, 100000), (0, 100000), (256, 32)):
        L.append("re %s %s" % (hx(b"(a{%d}){%d}" % (a, b)), hx(b"aa")))
    # size estimate arithmetic: nested interval quantifiers whose TRUE size is far beyond the limit while the product taken
    # modulo 2^16 / 2^31 / 2^32 / 2^64 is small (an estimate in a narrower type would let them through and compile_context
    # would write past the program buffer).  Outer bounds use the whole range the parser accepts (<= 1000009).
    for pat in (b"a{8192}{524288}", b"(a{8192}){524225}", b"a{8192}{524288,}", b"a{8192}{0,524288}", b"a{4096}{1000000}", b"a{8193}{262144}",
                b"a{8192}{262144}", b"a{8192}{262145}", b"(a{8191}){262144}", b"a{8192}{8}", b"a{256}{256}", b"(a{254}){256}", b"a{65536}{65536}",
                b"a{1000009}{1000009}", b"(a{1000009}){1000009}", b"((a{1000009}){1000009}){1000009}", b"a{2}{1000009}", b"a{0,1000009}{0,1000009}"):
        L.append("re %s %s" % (hx(pat), hx(b"aa")))
    for width in (16, 31, 32):
        for c, b in wrap_pairs(rng, width, 4 if not full else 40):
            for pat in wrap_patterns(c, b):
                L.append("re %s %s" % (hx(pat), hx(b"a")))
    for k in (0, 1, 31, 32, 33, 63, 64, 65, 127, 128, 129):
        for n in (2 * k, 2 * k + 2, 2 * k + 4, 64, 66, 200):
            L.append("rem %s %s %d" % (hx(b"^" + b"(a)" * k + b"b"), hx(b"a" * k + b"b"), n))
        L.append("rem %s %s %d" % (hx(b"|".join(b"(%c)" % (97 + i % 26) for i in range(max(k, 1)))), hx(b"z"), 2 * k + 2))
    # xstr: a clone of a string with slack (capacity c, n bytes used), then an append / prepend / insert of m bytes that
    # fits the capacity the clone reports: no reallocation, the bytes land in the clone's own block
    for cap in (1, 2, 16, 17, 64, 4096):
        for n in (0, 1, 4, cap - 1, cap):
            for m in (1, cap - n - 2, cap - n - 1, cap - n):
                if n >= 0 and m > 0:
                    for op in ("c", "u", "i0:"):
                        L.append("xstr %d c%s k %s%s" % (cap, hx(b"a" * n), op, hx(b"b" * m)))
            L.append("xstr %d c%s k k p1 s1" % (cap, hx(b"a" * max(n, 0))))
    # JSON nesting at the limit: arrays, objects, mixed; closed, unclosed, one level too deep
    # (the list machine needs ~1.5 s for a 1000 level object document: the quick tier takes those at 1000 and 1001 only)
    for d in (998, 999, 1000, 1001, 1002):
        docs = [b"[" * d + b"]" * d, b"[" * d]
        if full or d in (1000, 1001):
            docs.append(b'[{"a":' * (d // 2) + b"0" + b"}]" * (d // 2))
        if full or d == 1000:
            docs.append(b'{"a":' * d + b"1" + b"}" * d)
        if full:
            docs.append(b'{"a":' * d)
        for doc in docs:
            L.append("jsk " + hx(doc))
        L.append("jssk " + hx(b"{a:" * d + b"1" + b"}" * d))
    # csv: every length of the caller's buffer around the two validity checks, a column that exactly fills the data area
    for ln in list(range(24, 50)) + [56, 64]:
        L.append("csv %d %s" % (ln, hx(b"x" * max(ln - 36, 0))))
        L.append("csv %d %s %s" % (ln, hx(b"x" * max(ln - 37, 0)), hx(b"")))
    # ini: line, section and name lengths around the three fixed buffers
    for n in (125, 126, 127, 128, 198, 199, 200, 201, 397, 398, 399):
        L.append("ini " + hx(b"[" + b"s" * n + b"]\nk=v\n"))
        L.append("ini " + hx(b"n" * n + b"=v\n c\n"))
        L.append("ini " + hx(b"k=" + b"v" * n + b"\n"))
        L.append("ini " + hx(b" " * n + b"k=v\n"))
    for n in (1, 10, 100, 300, 390, 400, 1021, 1022, 1023, 1024):
        L.append("re %s %s" % (hx(b"a|" * n + b"b"), hx(b"b")))
        L.append("re %s %s" % (hx(b"|".join([b"ab"] * n)), hx(b"ab")))
    return L


BOM = b"\xef\xbb\xbf"


def rootless(t):
    """a JSON text without any value: the first byte the value parser does not skip is a closing bracket"""
    if t.startswith(BOM):
        t = t[3:]
    return t.lstrip(b" \t\n\r,")[:1] == b"]"


SHORT1 = b"]},[{\"':\\01-.enNtf ~/\x80\xffa;#=()|*+?^$\t\n"
SHORT2 = b"]},[{\":1- "


def sweep_short(full):
    """every one-byte text and every two-byte text over the structural alphabet through every parser entry point"""
    L = []
    one = [bytes([c]) for c in (range(1, 256) if full else sorted(set(SHORT1)))]
    al2 = sorted(set(SHORT1 if full else SHORT2))
    two = [bytes([a, b]) for a in al2 for b in al2]
    doc = DOCS[1]
    for t in one + two:
        h = hx(t)
        json_like = ["json " + h, "js " + h, "jdoc " + h, "jsdoc " + h, "jsk " + h, "jssk " + h, "jbl " + h, "ptr " + h,
                     "at %s %s" % (hx(doc), h), "patch %s %s" % (hx(doc), h), "merge %s %s" % (hx(doc), h),
                     "jblpatch %s %s" % (hx(doc), h), "jblmerge %s %s" % (hx(doc), h), "jblpatch %s %s" % (h, hx(b"[]"))]
        L += json_like
        if len(t) == 1 or full:
            if t[:1] in (b"-", b".") or t[:1].isdigit() or len(t) == 1:
                L.append("num " + h)                        # the model of `num` is the number branch only
            L += ["ini " + h, "atoi " + h, "atof " + h, "strtod " + h, "sde " + h, "uuid " + h, "wstrtoll " + h,
                  "unesc 34 " + h, "re %s 61" % h, "re 61 %s" % h, "split %s 2c 1" % h, "split 612c62 %s 0" % h,
                  "replace %s 61 62" % h, "replace 616261 %s 78" % h, "atoi2 " + h, "afcmp %s 31" % h, "hex2bin %s 4" % h]
    return L


RE_SIZES = [0, 1, 2, 3, 4, 5, 6, 8, 10, 16, 30, 31, 32, 33, 62, 63, 64, 65, 66, 80, 126, 128, 130, 132, 200]


def g_rem(rng):
    """iwre_match with an output array of every size class: (pattern, text, slots).  The pattern has 0..40 capture groups
    of which all / some / none take part in the match (boundaries: group 31 = slots 62/63, the last pair a VM thread
    records; group 32 = the first one it drops)."""
    k = rng.choice([0, 1, 2, 30, 31, 32, 33, 40, 63, 64, 65]) if rng.chance(1, 3) else rng.range(0, 40)
    mode = rng.weighted([("all", 5), ("some", 4), ("none", 2), ("one", 3), ("nested", 2)])
    hole = rng.choice([0, k - 1, 29, 30, 31, 32, rng.below(max(k, 1))])
    pat, text = b"", b""
    i = 0
    while i < k:
        c = rng.choice(b"abc")
        ch = bytes([c])
        takes = mode == "all" or mode == "nested" or (mode == "some" and rng.chance(3, 4)) or (mode == "one" and i != hole)
        if mode == "none":
            takes = False
        if mode == "nested" and i + 2 < k and rng.chance(1, 3):
            form = rng.below(3)
            if form == 0:
                pat += b"((" + ch + b")(" + ch + b"))"; text += ch + ch
            elif form == 1:
                pat += b"((a)|(b)){2}"; text += rng.choice([b"ab", b"ba", b"aa"])      # copies of a repeated group share numbers
            else:
                pat += b"((" + ch + b")+(z)?)"; text += ch * rng.range(1, 3)
            i += 3
            continue
        if takes:
            f = rng.below(8)
            if f < 3:
                pat += b"(" + ch + b")"; text += ch
            elif f == 3:
                pat += b"(" + ch + b"+)"; text += ch * rng.range(1, 2)
            elif f == 4:
                pat += b"(" + ch + b"|z)"; text += ch
            elif f == 5:
                pat += b"([a-c])"; text += ch
            elif f == 6:
                pat += b"(.)"; text += ch
            else:
                pat += b"(" + ch + b"?)"; text += ch if rng.chance(1, 2) else b""    # takes part with an empty match
        else:
            pat += rng.choice([b"(z)?", b"(z)?", b"(z)*", b"(z){0,2}", b"(z){0}", b"(z)??"])
        i += 1
    if k == 0:
        pat = rng.choice([b"a", b"ab*", b".", b"a|b", b"[ab]+"]); text = rng.choice([b"a", b"ab", b"", b"b"])
    if rng.chance(1, 2):
        pat = b"^" + pat
    elif rng.chance(1, 2):
        text = rng.choice([b"x", b"zz", b"a"]) + text          # the implicit .*? has to skip something
    if rng.chance(1, 4):
        pat += b"$"
    if rng.chance(1, 5):
        text += rng.choice([b"x", b"a", b"zz"])
    if rng.chance(1, 8) and text:
        j = rng.below(len(text)); text = text[:j] + b"y" + text[j + 1:]      # (mostly) no match at all
    if rng.chance(1, 10):
        pat, text = g_regex(rng).replace(b"\x00", b""), g_text(rng)
    elif rng.chance(1, 10):
        pat, text = g_regex_bytes(rng)
    n = rng.choice(RE_SIZES) if rng.chance(7, 8) else rng.below(211)
    return "rem %s %s %d" % (hx(pat), hx(text), n)


def g_text(rng):
    return bytes(rng.choice(b"aabbcx0.") for _ in range(rng.weighted([(0, 2), (1, 3), (3, 4), (8, 2), (30, 1)])))


def gen(rng, n):
    """-> list of (cmdline without errno prefix)"""
    L = []
    for _ in range(n):
        L.append("ptr " + hx(g_ptr(rng)))
        h = g_hexstr(rng)
        L.append("hex2bin %s %d" % (hx(h), rng.choice([0, 1, 2, (len(h) + 1) // 2, (len(h) + 1) // 2 + 1, 64])))
        b = rng.bytes(rng.range(0, 5))
        L.append("bin2hex %s %d" % (hx(b), rng.choice([0, 1, 2 * len(b), 2 * len(b) + 1, 2 * len(b) + 2])))
        s = g_numstr(rng).replace(b"\x00", b"")
        L.append("atoi " + hx(s))
        L.append("atoi2 " + hx(g_numstr(rng)))
        L.append("atof " + hx(g_numstr(rng)))
        L.append("strtod " + hx(g_numstr(rng)))
        a, b2 = g_numstr(rng), g_numstr(rng)
        if rng.chance(1, 3):
            b2 = a + rng.choice([b"", b"0", b".", b".0"])
        L.append("afcmp %s %s" % (hx(a), hx(b2)))
        jn = g_jsonnum(rng)
        if rng.chance(1, 4):
            jn += rng.choice([b",", b"]", b" ", b"x", b"e", b".", b"-"])
        L.append("num " + hx(jn))
        q = rng.choice([34, 34, 34, 39])
        body = g_string_body(rng)
        if rng.chance(3, 4):
            body += bytes([q]) + rng.choice([b"", b"tail", b","])
        L.append("unesc %d %s" % (q, hx(body)))
        j = g_json(rng)
        if rng.chance(1, 3):
            j = mutate(rng, j)
        L.append("json " + hx(j))
        L.append("jsk " + hx(j.replace(b"\x00", b"")))
        js = g_js(rng)
        if rng.chance(1, 3):
            js = mutate(rng, js)
        L.append("js " + hx(js))
        L.append("jssk " + hx(js.replace(b"\x00", b"")))
        L.append("jsk " + hx(b"[" + g_jsonnum(rng) + rng.choice([b"]", b",1]", b"", b" ]", b"e]"])))
        L.append("sde " + hx(g_sde(rng)))
        L.append("uuid " + hx(g_uuid(rng)))
        L.append("csv " + g_csv(rng))
        L.append("wstrtoll " + hx(g_wstrtoll(rng)))
        L.append("patch %s %s" % (hx(rng.choice(DOCS)), hx(g_patch(rng))))
        pi = g_patch_idx(rng)
        L.append("patch %s %s" % (hx(rng.choice([b"[1,2]", b"[]", DOCS[0], DOCS[1]])), hx(pi)))
        L.append("jblpatch %s %s" % (hx(rng.choice([b"[1,2]", DOCS[0]])), hx(pi)))
        L.append("at %s %s" % (hx(rng.choice([b"[1,2]", DOCS[0]])), hx(rng.choice(IDX))))
        jb = g_json(rng)
        L.append("jbl " + hx(mutate(rng, jb) if rng.chance(1, 3) else jb))
        L.append("jblmerge %s %s" % (hx(rng.choice(DOCS)), hx(rng.choice([b'{"a":null}', b'{"c":{"d":null,"z":[1]}}', b"[1]", b"null", jb]))))
        mp = g_json(rng) if rng.chance(1, 2) else rng.choice([b'{"a":null}', b'{"a":{"b":1}}', b'{"c":{"d":null,"z":[1]}}', b"[1]", b"null", b'{"b":{"0":1}}'])
        L.append("merge %s %s" % (hx(rng.choice(DOCS)), hx(mp)))
        L.append("at %s %s" % (hx(rng.choice(DOCS)), hx(g_pointer_for(rng))))
        L.append("xstr " + g_xstr(rng))
        L.append("split " + g_split(rng))
        L.append("replace " + g_replace(rng))
        L.append("ini " + hx(g_ini(rng)))
        pat = g_regex(rng) if rng.chance(2, 3) else g_regex_bad(rng)
        L.append("re %s %s" % (hx(pat.replace(b"\x00", b"")), hx(g_text(rng))))
        L.append("re %s %s" % tuple(hx(x) for x in g_regex_bytes(rng)))
        for _ in range(3):
            L.append(g_rem(rng))
    for _ in range(max(2, n // 40)):
        L.append("re %s %s" % (hx(g_regex_big(rng)), hx(rng.choice([b"", b"a", b"a" * 40, b"ab" * 20]))))
        L.append("json " + hx(g_nest(rng)))
        L.append("js " + hx(g_nest(rng)))
        nd = g_nest(rng)
        L.append(("jssk " + hx(nd.replace(b'"a"', b"a"))) if nd.startswith(b'{"a"') and len(nd) > 2000 else ("jsk " + hx(nd)))
    return L


# ------------------------------------------------------------------------------------------------------------------
# running the sanitizer build: one process per batch, a crash identifies the input by the number of answers printed
SAN_ENV = {"UBSAN_OPTIONS": "print_stacktrace=1:halt_on_error=1"}


def san_key(err):
    """canonical name of a sanitizer report (tool:kind:function), independent of addresses and line numbers"""
    m = re.search(r"SUMMARY: AddressSanitizer: (\S+) \S*?(?::\d+)* in (\S+)", err)
    if m:
        kind, fn = m.group(1), m.group(2)
        if fn.startswith("__") or "interceptor" in fn or fn in ("strlen", "strcmp", "memcpy", "memmove"):
            fr = re.findall(r"#\d+ 0x[0-9a-f]+ in (\S+) " + re.escape(vlib.REPO.rstrip("/")) + "/", err)
            if not fr:
                fr = re.findall(r"#\d+ 0x[0-9a-f]+ in (\S+) \S*h_safety", err)
            if fr:
                fn = fr[0]
        return "asan:%s:%s" % (kind, fn)
    m = re.search(r"SUMMARY: AddressSanitizer: (\S+)", err)
    if m:
        return "asan:%s" % m.group(1)
    m = re.search(r"([\w./-]+):(\d+):\d+: runtime error: ([^\n]*)", err)
    if m:
        msg = re.sub(r"0x[0-9a-f]+", "P", m.group(3))
        msg = re.sub(r"-?\d[\d.e+]*", "N", msg)
        fr = re.findall(r"#0 0x[0-9a-f]+ in (\S+)", err)
        return "ubsan:%s:%s" % (fr[0] if fr else os.path.basename(m.group(1)), msg[:60].strip())
    if "hard rss limit exhausted" in err:
        return "asan:memory-exhausted(rss>1.5GB)"
    if "Assertion" in err:
        m = re.search(r"(\w+): Assertion", err)
        return "assert:%s" % (m.group(1) if m else "?")
    return None


CPU_S = 12     # backstop: CPU seconds one harness process may use (a batch normally needs a few milliseconds)
WATCHDOG_RC = 77   # the harness' own per-query watchdog (3 s of CPU time per query) fired: its last answer line is TIMEOUT
HUNG = set()   # commands with confirmed non-terminating queries in this run: their remaining queries are not run again
HUNG_N = {}    # confirmed watchdog timeouts per command; after HUNG_MAX of them the command is put into HUNG
HUNG_MAX = 3


def _run(cmd, text, timeout, env):
    """like vlib.run_lines, but keeps the HEAD of stderr as well (sanitizer reports start with the verdict)"""
    import subprocess
    try:
        p = subprocess.run(cmd, input=text.encode(), stdout=subprocess.PIPE, stderr=subprocess.PIPE, timeout=timeout, env=env)
        err = p.stderr.decode("latin-1")
        return p.returncode, p.stdout.decode("latin-1").split("\n"), (err if len(err) < 12000 else err[:8000] + "\n...\n" + err[-3000:])
    except subprocess.TimeoutExpired as e:
        return 124, (e.stdout or b"").decode("latin-1").split("\n"), "[timeout]"


def run_batch(exe, lines, env_extra, timeout):
    """-> (answers: list[str|None], findings: list[(index, key, stderr-tail)]).  A process that dies is restarted after
    the query that killed it; answers are line buffered, so the culprit is the query after the last complete answer."""
    env = dict(os.environ)
    env.update(SAN_ENV)
    env["ASAN_OPTIONS"] = "detect_leaks=0:allocator_may_return_null=1:hard_rss_limit_mb=1500:" + env_extra.get("ASAN_OPTIONS", "")
    cmd = ["/bin/sh", "-c", "ulimit -t %d; exec \"$0\"" % CPU_S, exe]
    ans = [None] * len(lines)
    finds = []
    start = 0
    while start < len(lines):
        if HUNG:
            while start < len(lines) and lines[start].split()[1] in HUNG:
                start += 1
            if start >= len(lines):
                break
        todo = [l if l.split()[1] not in HUNG else "" for l in lines[start:]]     # an empty line is answered by an empty line
        rc, out, err = _run(cmd, "\n".join(todo) + "\n", timeout, env)
        k = len(out) - 1                      # complete answers = number of newlines printed
        rem = len(lines) - start
        if rc == 0:
            for i in range(min(k, rem)):
                ans[start + i] = out[i] if todo[i] else None
            break
        if rc == WATCHDOG_RC and 1 <= k <= rem and out[k - 1] == "TIMEOUT":
            # termination claim: the query did not finish within its CPU budget.  Confirmed on the query alone (a fresh
            # process) before it is called non-termination; the query is the replay.
            for i in range(k - 1):
                ans[start + i] = out[i] if todo[i] else None
            c = start + k - 1
            rc1, out1, err1 = _run(cmd, lines[c] + "\n", timeout, env)
            if rc1 == 0 and len(out1) >= 2:
                ans[c] = out1[0]
            else:
                ans[c] = "TIMEOUT"
                name = lines[c].split()[1]
                HUNG_N[name] = HUNG_N.get(name, 0) + 1
                if HUNG_N[name] >= HUNG_MAX:
                    HUNG.add(name)
                finds.append((c, san_key(err1) or "timeout:%s" % name,
                              "TIMEOUT: no answer within the per-query CPU budget of the harness watchdog (twice)"))
            start = c + 1
            continue
        k = min(k, rem - 1)
        for i in range(k):
            ans[start + i] = out[i] if todo[i] else None
        key = san_key(err)
        if key is None:
            if rc in (124, -24, -9, 137, 152):
                # CPU limit / wall clock: confirm on the query alone before calling it non-termination
                rc1, out1, err1 = _run(cmd, lines[start + k] + "\n", timeout, env)
                if rc1 == 0 and len(out1) >= 2:
                    ans[start + k] = out1[0]
                    start = start + k + 1
                    continue
                key = san_key(err1) or "timeout:%s" % lines[start + k].split()[1]
                if key.startswith("timeout:"):
                    HUNG.add(lines[start + k].split()[1])
                err = err1 or err
            else:
                key = "crash:rc=%d" % rc
        finds.append((start + k, key, err[:1500] + err[-1500:] if len(err) > 3000 else err))
        start = start + k + 1
    return ans, finds


def run_all(exe, numbered, env_extra, timeout=120, bsz=64):
    """numbered: list of full lines (with errno prefix). Runs in parallel batches preserving order inside a batch."""
    batches = [numbered[i:i + bsz] for i in range(0, len(numbered), bsz)]
    with ThreadPoolExecutor(vlib.NCPU) as ex:
        res = list(ex.map(lambda b: run_batch(exe, b, env_extra, timeout), batches))
    ans, finds = [], []
    for bi, (a, f) in enumerate(res):
        finds += [(bi * bsz + i, k, e) for i, k, e in f]
        ans += a
    return ans, finds


def shorten(a, n=90):
    """long regex answers: keep the head and the tail (where the stale slots are)"""
    return a if len(a) <= n else a[:n // 2] + " ... " + a[-n // 2:]


def slug(key):
    return re.sub(r"[^A-Za-z0-9]+", "-", key).strip("-")[:70]


def load_corpus():
    out = []
    d = os.path.join(vlib.VERIF, "corpus", "C17")
    if os.path.isdir(d):
        for cf in sorted(os.listdir(d)):
            for l in open(os.path.join(d, cf)):
                l = l.split("#")[0].strip()
                if l:
                    out.append(l)
    return out


FACTS = {}


def run_model(model, lines, workers=8):
    """the extracted model answers one line per query and keeps no state between lines: the queries are dealt out to
    `workers` processes (round robin, the expensive documents are spread) and the answers put back in order"""
    k = max(1, min(workers, len(lines) // 64 or 1))
    parts = [lines[j::k] for j in range(k)]
    with ThreadPoolExecutor(max_workers=k) as ex:
        res = list(ex.map(lambda part: vlib.run_lines(model, "\n".join(part) + "\n", timeout=600), parts))
    rc = max(r[0] for r in res)
    err = "".join(r[2] for r in res if r[0])
    out = [None] * len(lines)
    for j, (_, o, _) in enumerate(res):
        for t, a in enumerate(o[:len(parts[j])]):
            out[j + t * k] = a
    return rc, ["<missing>" if a is None else a for a in out], err


def read_facts():
    """variant flags of the current tree (T1, written by probe_safety_txt.c) that decide which queries are generated"""
    FACTS.clear()
    try:
        txt = open(os.path.join(vlib.COQ, "Gen", "Facts.v")).read()
        FACTS["strto_clears"] = "fact_strto_clears_errno : bool := true" in txt
        FACTS["json_rootless"] = "fact_json_rejects_rootless : bool := true" in txt
        FACTS["replace_empty"] = "fact_replace_skips_empty_key : bool := true" in txt
    except OSError:
        pass


def check(run):
    HUNG.clear(); HUNG_N.clear()
    rng = run.rng
    proofs_ok = run.proofs()
    read_facts()
    run.cov["variant_facts"] = dict(FACTS)
    asan = vlib.build_harness("h_safety", "asan")
    model = vlib.build_model("safety")
    n = 300 if run.tier == "quick" else 40000
    if not proofs_ok:
        n *= 10
    cmds = load_corpus() + sweep(rng, run.tier != "quick") + sweep_short(run.tier != "quick") + gen(rng, n)
    # de-duplicate, keep order
    seen, uniq = set(), []
    for c in cmds:
        if c not in seen:
            seen.add(c); uniq.append(c)
    cmds = uniq
    for c in cmds:
        run.dist(c.split()[0])

    # every state of the world (STATES): the fresh one in generation order, the others in their own shuffled order
    eb = [ERANGE if rng.chance(2, 3) else EINVAL for _ in cmds]
    exes = {"asan": asan}
    if any(b == "plain" for _, b, _, _ in STATES):
        exes["plain"] = vlib.build_harness("h_safety", "plain")
    ANS, FINDS = [], []
    for si, (sname, build, heap, prefix) in enumerate(STATES):
        perm = list(range(len(cmds)))
        if si:
            for i in range(len(perm) - 1, 0, -1):
                j = rng.below(i + 1); perm[i], perm[j] = perm[j], perm[i]
        lines = ["%s %s" % (prefix(eb[i]), cmds[i]) for i in perm]
        ap, fp = run_all(exes[build], lines, {"ASAN_OPTIONS": heap or ""})
        ans = [None] * len(cmds)
        for pos, i in enumerate(perm):
            ans[i] = ap[pos]
        ANS.append(ans)
        FINDS.append([(perm[pos], k, e) for pos, k, e in fp])
    ansA, ansB = ANS[0], ANS[1]
    findA = FINDS[0]
    findB = [f for fs in FINDS[1:] for f in fs]

    # model side: once for the fresh state (errno 0), and for the commands whose model takes the ambient errno once per
    # errno value the other states pre-set (after-history: eb[i]; reused-heap: the other one of ERANGE / EINVAL)
    midx = [i for i, c in enumerate(cmds) if c.split()[0] in MODELLED]
    midx2 = [i for i in midx if cmds[i].split()[0] not in PURE_MODEL]
    rc, mout, merr = run_model(model, [cmds[i] for i in midx] + ["%s @%d" % (cmds[i], eb[i]) for i in midx2] +
                               ["%s @%d" % (cmds[i], ERANGE + EINVAL - eb[i]) for i in midx2] + ["facts"])
    if rc != 0:
        run.broken.append("T2 model driver exited %d: %s" % (rc, merr[-400:]))
    ansM = {i: (mout[k] if k < len(mout) else "<missing>") for k, i in enumerate(midx)}
    ansMB = dict(ansM)
    ansMB.update({i: (mout[len(midx) + k] if len(midx) + k < len(mout) else "<missing>") for k, i in enumerate(midx2)})
    ansMC = dict(ansM)
    ansMC.update({i: (mout[len(midx) + len(midx2) + k] if len(midx) + len(midx2) + k < len(mout) else "<missing>") for k, i in enumerate(midx2)})
    ansMS = [ansM, ansMB, ansMC]          # model answer per state of the world

    # ---- oracle 1: sanitizer report / crash / timeout on the implementation = violation (replay = the query line)
    best = {}
    for src, finds in [(STATES[si][0], FINDS[si]) for si in range(len(STATES))]:
        for i, key, err in finds:
            cur = best.get(key)
            if cur is None or len(cmds[i]) < len(cmds[cur[0]]):
                best[key] = (i, src, err)
    for key in sorted(best):
        i, src, err = best[key]
        why = [l for l in err.split("\n") if "ERROR" in l or "runtime error" in l or "SUMMARY" in l or "Assertion" in l]
        si = [n for n, _, _, _ in STATES].index(src)
        run.violation({"query": cmds[i], "kind": "sanitizer", "key": key, "errno": 0 if src == "fresh" else eb[i], "state": src,
                       "prefix": STATES[si][3](eb[i]), "report": why[:3]},
                      ("%s: the call does not terminate (no answer within the per-query CPU budget of the harness watchdog, "
                       "confirmed on the query alone) on `%s`" if key.startswith("timeout:") else "%s on `%s`") % (key, cmds[i][:200]),
                      name=slug(key))
    crashed = set(i for fs in FINDS for i, _, _ in fs)

    # ---- oracle 2: the answer is a function of the input alone: all states of the world must give the same complete answer
    # (return value, every output slot, errno where the API defines it).  Per command the most telling example is kept:
    # one whose leading field (the return value) differs, then the shortest query.
    hist = {}
    for i, c in enumerate(cmds):
        if i in crashed or ansA[i] is None:
            continue
        for si in range(1, len(STATES)):
            o = ANS[si][i]
            if o is None or o == ansA[i]:
                continue
            k = c.split()[0]
            rank = (0 if ansA[i].split(" ")[0] != o.split(" ")[0] else 1, len(c))
            if k not in hist or rank < hist[k][0]:
                hist[k] = (rank, i, si)
    for k in sorted(hist):
        _, i, si = hist[k]
        sname, other = STATES[si][0], ANS[si][i]
        pre = STATES[si][3](eb[i])
        run.violation({"query": cmds[i], "kind": "history", "key": "history:" + k, "fresh": ansA[i][:400], "after": other[:400],
                       "errno": eb[i], "state": sname, "prefix": pre},
                      "answer depends on more than the input (state `%s`, harness prefix %s = errno:fill of caller storage/stack[:warm]): "
                      "`%s` fresh=`%s` %s=`%s`" % (sname, pre, cmds[i][:160], shorten(ansA[i]), sname, shorten(other)), name="history-" + k)

    # ---- T2: extracted model == implementation on the modelled functions.  The model also predicts the defects of the
    # variant Gen/Facts.v selected: OOB = access outside the buffer (=> ASan report), UNINIT = the answer shows a cell that
    # was never written (=> answer differs between heap fills, or a wild pointer), UB = signed overflow (=> UBSan report),
    # F? = the branch hands over to iwstrtod, which is not modelled (=> F <end> ... or E)
    def side(finds):
        d = {}
        for i, key, _ in finds:
            d.setdefault(i, set()).add(key)
        return d
    keysA, keysB = side(findA), side(findB)
    keys_of = {i: keysA.get(i, set()) | keysB.get(i, set()) for i in set(keysA) | set(keysB)}

    def agrees(m, a, ks, other):
        if m == "BIG":                   # regex program too large for the list machine: not compared
            return True
        if m == "NULLROOT":              # success without a node handed to a caller that dereferences it: a crash is due
            return bool(ks)
        if m == "FUEL":                  # the model's loop bound does not suffice: the call does not come back
            return any(k.startswith("timeout:") or "memory" in k for k in ks)
        if m == "?":                     # JSON number too close to the limits of the double range: iwstrtod's ERANGE verdict is
            return not ks                #   floating point arithmetic the index-level model takes as a parameter
        if m.startswith("OOB"):
            return any(k.startswith("asan:") for k in ks)
        if m == "UNINIT":
            return bool(ks) or (a is not None and other is not None and a != other)
        if m == "UB":
            return any(k.startswith("ubsan:") for k in ks)
        if m == "F?":
            return bool(ks) or (a is not None and (a.startswith("F ") or a == "E"))
        return (not ks) and a == m
    mism = []
    for i in midx:
        # a state in which the query was not run (its command was given up after repeated time-outs) is not compared
        ran = [si for si in range(len(STATES)) if ANS[si][i] is not None or any(j == i for j, _, _ in FINDS[si])]
        ok = True
        for si in ran:
            if si == 0:
                ok = ok and agrees(ansM[i], ansA[i], keysA.get(i, set()), ansB[i])
            else:
                ok = ok and agrees(ansMS[min(si, 2)][i], ANS[si][i], keysB.get(i, set()), ansA[i])
        if not ok:
            mism.append(i)
    mism.sort(key=lambda i: (0 if any(ANS[si][i] == "TIMEOUT" for si in range(len(STATES))) else 1, len(cmds[i])))
    run.cov["traces_validated_against_impl"] = len(midx) - len(mism)
    run.cov["model_variant"] = mout[len(midx) + 2 * len(midx2)] if len(mout) > len(midx) + 2 * len(midx2) else ""
    run.cov["regex_programs_too_big_for_model"] = sum(1 for i in midx if ansM[i] == "BIG")
    if mism:
        i = mism[0]
        if os.environ.get("VERIF_DEBUG"):
            for j in mism[:40]:
                print("MISMATCH `%s` impl=%s %s model=`%s`/`%s`" % (cmds[j], "/".join("`%s`" % ANS[si][j] for si in range(len(STATES))),
                                                                    sorted(keys_of.get(j, [])), ansM[j], ansMB[j]))
        run.broken.append("T2 correspondence: %d of %d modelled queries differ, first: `%s` impl=%s %s model=`%s`" % (
            len(mism), len(midx), cmds[i][:160], " / ".join("`%s`" % shorten(ANS[si][i] or "<none>") for si in range(len(STATES))),
            sorted(keys_of.get(i, [])), shorten(ansM[i])))

    for i, c in enumerate(cmds):
        run.case(c, nontrivial=True, sample=({"query": c[:300], "fresh": (ansA[i] or "")[:300], "after": (ansB[i] or "")[:300],
                                              "model": (ansM.get(i) or "")[:300] if i in ansM else None}
                                             if i % max(1, len(cmds) // 5) == 0 else None))
    run.cov["sanitizer_findings"] = sorted(best)
    return run.finish(level=LEVEL,
                      rule="per function a valid stream (JSON/JS documents, pointers, patches, numbers, regexes, ini files, xstr op "
                           "sequences) and a malformed stream (truncated escapes/surrogates, dangling '~', 2^63 and 2^31 "
                           "boundaries, nesting 997..1500, control/high bytes, byte mutations); regex matches into arrays of "
                           "every size class (0, 1, odd, 2..66, 80, 128, 200 slots) with 0..40 groups of which all/some/none take "
                           "part; a deterministic sweep that puts every edge byte (00, 01, 1f..7f, 80, fe, ff; thorough: all 256) into "
                           "each position where a parser iterates over / compares / indexes with an input byte (regex range "
                           "bounds, escapes, counts; JSON strings and escapes; pointers; number and hex text; ini; split), "
                           "regex counts, program sizes, group counts and alternation lengths at their limits; a per-query "
                           "watchdog (3 s CPU): TIMEOUT = violation of termination; "
                           "every input in an exactly sized heap buffer under ASan+UBSan; each query answered in three "
                           "states of the world: fresh (errno 0, caller storage and stack zero filled), after-history (shuffled "
                           "order, errno ERANGE/EINVAL, caller storage/stack filled with 0xa5, other heap fill, long-lived "
                           "objects already used once), reused-heap (no sanitizer: glibc hands freed chunks back, fill 0xff); "
                           "all complete answers (return value, every output slot, errno where defined) must be equal and "
                           "equal to the extracted model; a case is one query line",
                      assumptions=["partial by nature: UB inside code that is not modelled (binn reader, utf8proc tables, libc) is only "
                                   "sampled by the sanitizer runs",
                                   "strtoll/pow are modelled by their ISO C contract (value, end pointer, errno=ERANGE on overflow)"])


def replay(run, path):
    r = json.load(open(path))
    if "query" not in r:
        print(json.dumps(r, indent=1)); return 1
    q = r["query"]
    e = r.get("errno", 0) or ERANGE
    print("query:", q[:300])
    print("recorded:", r.get("key"), r.get("note"))
    answers, bad = [], False
    for sname, build, heap, prefix in STATES:
        exe = vlib.build_harness("h_safety", build)
        ans, finds = run_batch(exe, ["%s %s" % (prefix(e), q)], {"ASAN_OPTIONS": heap or ""}, 40)
        print("state %-14s (%s build, harness prefix %s): %s %s" % (sname, build, prefix(e), shorten(ans[0] or "<no answer>", 160), [k for _, k, _ in finds]))
        answers.append(ans[0])
        if finds:
            bad = True
            for l in [l for l in finds[0][2].split("\n") if re.search(r"ERROR|runtime error|^\s+#[0-3] |SUMMARY|is located|Assertion", l)][:10]:
                print(l[:200])
    if q.split()[0] in MODELLED:
        rc, mout, _ = vlib.run_lines(vlib.build_model("safety"), q + "\n", timeout=120)
        print("model (a function of the query alone):   ", shorten(mout[0] if mout else "<none>", 160))
    if len(set(answers)) > 1:
        print("=> the answers differ: the result depends on more than the input")
        bad = True
    return 1 if bad else 0
