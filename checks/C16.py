# C16 - JSON Merge Patch gives the RFC 7386 result
import os, json
import vlib
import C15 as J

LEVEL = "proof"
PID = "C16"
MISSING = object()


# ------------------------------------------------------------------------------------------------
# ORACLE: the MergePatch function of RFC 7386 section 2, over python values (oracle form of C15.py)
def merge_patch(target, patch):
    if isinstance(patch, dict):
        if not isinstance(target, dict):
            target = {}
        for name, value in patch.items():
            if value is None:
                if name in target:
                    del target[name]
            else:
                target[name] = merge_patch(target.get(name, MISSING), value)
        return target
    return patch


def wrap(path_text, val):
    """the patch jbn_merge_patch_path stands for: {seg1:{seg2:...val}}; no value = empty object at the end"""
    if path_text in ("", "/"):
        return val
    segs = J.ptr_parse(path_text)
    cur = val if val is not MISSING else {}
    for s in reversed(segs):
        cur = {s: cur}
    return cur


# ------------------------------------------------------------------------------------------------
KEYS = ["a", "ab", "abc", "b", "", "a b", "k/1", "t~x", "é", "0", "key", "keys"]


def gen_scalar(rng):
    return J.gen_scalar(rng)


def gen_doc(rng, depth, keys):
    k = rng.weighted([("s", 4), ("a", 2 if depth > 0 else 0), ("o", 5 if depth > 0 else 0)])
    if k == "s":
        return gen_scalar(rng)
    if k == "a":
        return [gen_doc(rng, depth - 1, keys) for _ in range(rng.weighted([(0, 2), (1, 2), (2, 2), (3, 1)]))]
    out = {}
    for _ in range(rng.weighted([(0, 2), (1, 2), (2, 3), (3, 3), (4, 1)])):
        out[rng.choice(keys)] = gen_doc(rng, depth - 1, keys)
    return out


def gen_patch_for(rng, target, depth, keys):
    """a patch aimed at `target`: shared member names, nulls at any depth, type changes, empty objects"""
    if not isinstance(target, dict) or depth == 0 or rng.chance(1, 8):
        k = rng.below(10)
        if k < 3:
            return gen_doc(rng, max(depth, 1), keys) if rng.chance(1, 2) else {}
        if k < 5:
            return {rng.choice(keys): None}
        return gen_doc(rng, depth, keys)
    out = {}
    names = list(target.keys())
    n = rng.weighted([(0, 1), (1, 3), (2, 4), (3, 3), (5, 1)])
    for _ in range(n):
        name = rng.choice(names) if names and rng.chance(2, 3) else rng.choice(keys)
        tv = target.get(name, MISSING)
        k = rng.below(12)
        if k < 3:
            out[name] = None
        elif k < 7:
            out[name] = gen_patch_for(rng, tv if tv is not MISSING else {}, depth - 1, keys)
        elif k < 8:
            out[name] = {}
        elif k < 9:          # type change object <-> array <-> scalar
            out[name] = [gen_scalar(rng)] if isinstance(tv, dict) else ({rng.choice(keys): gen_doc(rng, 1, keys)} if rng.chance(1, 2) else gen_scalar(rng))
        elif k < 10:
            out[name] = {rng.choice(keys): None, rng.choice(keys): {rng.choice(keys): None}}
        else:
            out[name] = gen_doc(rng, depth - 1, keys)
    return out


# ------------------------------------------------------------------------------------------------
# merged documents the binary form cannot hold (round 5): see C15.representable (names of 256+ bytes, case-only twins)
def wrap_at(prefix_segs, inner):
    cur = inner
    for seg in reversed(prefix_segs):
        cur = {seg: cur}
    return cur


def gen_unrep_merge(rng):
    """(target, patch, what): MergePatch(target, patch) contains - or narrowly does not contain - member names the binary form
    refuses: a case-only twin of a target member that stays (twin first / in the middle / last among the new members, in the
    root or in nested objects that are / are not the last member of their parent), a twin whose older sibling is removed by a
    null in the same patch (storable), twins inside a value taken over wholesale (target member absent / a scalar / an array),
    twins one of which is null inside such a value (never arrives in the result), names of 254-1000 bytes, near-miss names,
    and targets that are themselves not storable"""
    k = rng.choice(J.TWIN_NAMES)
    fill = [1, "s", True, [1, 2], {"in": 1}, 0.5, [], {}]
    S = {}
    nf = rng.weighted([(0, 2), (1, 3), (2, 3), (3, 1)])
    at = rng.below(nf + 1)
    for i in range(nf + 1):
        if i == at:
            S[k] = rng.choice(fill)
        if i < nf:
            S["m%d" % i] = rng.choice(fill)
    lay = rng.below(6)
    if lay == 0:
        doc, pre = S, []
    elif lay == 1:
        doc, pre = {"a": 1, "s": S, "c": [1, 2, 3], "d": "tail"}, ["s"]
    elif lay == 2:
        doc, pre = {"a": 1, "s": S}, ["s"]
    elif lay == 3:
        doc, pre = {"s": S, "z": 0}, ["s"]
    elif lay == 4:
        doc, pre = {"w": {"p": {"q": S, "r": 5}, "t": 2}, "e": [7]}, ["w", "p", "q"]
    else:
        doc, pre = {"o": {"deep": S}, "after": {"x": 1}}, ["o", "deep"]
    what = rng.weighted([("twin", 8), ("swap", 3), ("near", 2), ("long", 5), ("value", 4), ("nullin", 2), ("doc", 1), ("nulltwin", 1)])
    K = J.case_twin(rng, k)
    if K is None and what in ("twin", "swap", "nulltwin"):
        what = "long"
    news = [("n%d" % i, rng.choice([1, "v", [0], {"y": 1}])) for i in range(rng.weighted([(0, 3), (1, 3), (2, 2), (3, 1)]))]
    mods = []
    for m in S:
        if m != k and rng.chance(1, 3):
            mods.append((m, rng.choice([None, 7, {"in": None, "more": 1}, [3]])))

    def build(special):
        """patch object for the site: `special` (name, value) pairs placed first / in the middle / last among the other members"""
        others = mods + news
        for i in range(len(others) - 1, 0, -1):
            j = rng.below(i + 1)
            others[i], others[j] = others[j], others[i]
        posn = rng.choice(["first", "middle", "last"])
        cut = 0 if posn == "first" else len(others) if posn == "last" else rng.below(len(others) + 1)
        seq = others[:cut] + special + others[cut:]
        out = {}
        for n, v in seq:
            out[n] = v
        return out
    val = rng.choice([2, "t", [1, {"u": 1}], {"v": 1}, {"in": {"x": None, "y": 2}}])
    if what == "twin":
        site = build([(K, val)])
    elif what == "swap":           # the older name leaves through a null in the same patch: the result holds only the new one
        sp = [(K, val), (k, None)]
        if rng.chance(1, 2):
            sp.reverse()
        site = build(sp)
    elif what == "nulltwin":       # null for a name that is only a twin of an existing one: removes nothing
        site = build([(K, None)])
    elif what == "near":
        site = build([(J.near_twin(rng, k), val)])
    elif what == "long":
        n = rng.choice(J.LONG_LENS)
        name = J.long_name(rng, n)
        sp = [(name, val)]
        if rng.chance(1, 4):
            sp.append((name[:-1] + "#", 0))
        if rng.chance(1, 6):
            sp = [(name, None)]    # deleting a name that cannot exist
        site = build(sp)
    elif what in ("value", "nullin"):
        K2 = K or J.long_name(rng, 256)
        second = None if what == "nullin" else 2
        inner = rng.choice([{k: 1, K2: second}, {k: 1, "mid": [1], K2: second, "z": 3}, {"o": {k: 1, K2: second, "p": {}}, "after": 0},
                            {K2: second, "m": 0, k: 2}])
        if what == "value" and rng.chance(1, 3):
            inner = rng.choice([[{k: 1, K2: 2}, 5], [[{K2: 1, "m": 0, k: 2}], {"t": 1}]])      # arrays are taken over as they are
        where = rng.choice(["new", rng.choice([m for m in S if isinstance(S[m], (int, str, list, bool, float))] or ["new"])])
        site = build([(where, inner)])
    else:                          # the target itself is not storable
        K2 = K or J.long_name(rng, 300)
        S[K2] = rng.choice([9, {"q": 1}])
        if rng.chance(1, 2):
            S["zlast"] = 0
        site = build([("extra", 1)])
    patch = wrap_at(pre, site)
    if pre and rng.chance(1, 3):   # something else at the top of the patch, before or after the path to the site
        extra = rng.choice([("top", 1), ("d", None), ("a", {"b": 1})])
        patch = dict([extra] + list(patch.items())) if rng.chance(1, 2) else dict(list(patch.items()) + [extra])
    return doc, patch, what


MERGE_MODES = ["tp", "th", "tj", "ta", "bj", "bb"]

# Input classes on which the library misbehaved before its repairs (notes/jpatch.md); all are repaired in /repo, generated and
# judged on every run:
FIXED_CLASSES = ("jsreg-replace-root", "merge-nul-name", "parent-pointers", "jbl-double-text")
# Round 7 (notes/jpatch.md; e145190, ca7f178, 2599454, 42c947c):
#   merge-subnode        jbn_merge_patch_from_json on a member of a larger tree + non-object patch wiped its name and sibling link
#   merge-deep-clone     a value nested deeper than JBL_MAX_NESTING_LEVEL in a heap-mode merge: jbn_clone failed, 0 went to _jbn_add_item
#   merge-scalar-target  jbl_merge_patch / _jbl on a scalar binary document answered IW_ERROR_INVALID_ARGS (rfc7386: like {})
#   jsreg-binary-nul     a binary-format registry reloaded names / strings with strndup (zero bytes: heap over-read)
R7_CLASSES = ("merge-subnode", "merge-deep-clone", "merge-scalar-target", "jsreg-binary-nul")
OPEN_CLASSES = FIXED_CLASSES + R7_CLASSES
OPEN_ON = set(OPEN_CLASSES)


def set_at(doc, segs, f):
    """doc with the value at the member path replaced by f(value); MISSING when the path does not resolve through objects"""
    if not segs:
        return f(doc)
    if not isinstance(doc, dict) or segs[0] not in doc:
        return MISSING
    r = set_at(doc[segs[0]], segs[1:], f)
    if r is MISSING:
        return MISSING
    out = dict(doc)
    out[segs[0]] = r
    return out


def member_path(doc, path_text):
    """True when every step of the pointer goes through an object (no array index reading is involved)"""
    try:
        segs = J.ptr_parse(path_text)
    except (J.PatchError, J.Lenient):
        return False
    cur = doc
    for sgm in segs:
        if not isinstance(cur, dict):
            return cur is MISSING
        cur = cur.get(sgm, MISSING)
    return True


def remove_at(doc, path_text):
    """iwjsreg_replace: the subtree at the path goes away first (nothing happens when there is none); "" empties the root"""
    segs = J.ptr_parse(path_text) if path_text else []
    if not segs:
        return {}
    cur = doc
    for sgm in segs[:-1]:
        if not isinstance(cur, dict) or sgm not in cur:
            return doc
        cur = cur[sgm]
    if isinstance(cur, dict) and segs[-1] in cur:
        del cur[segs[-1]]
    return doc


def heap_env():
    extra = {"H_JPATCH_PAR": "1"} if "parent-pointers" in OPEN_ON else {}
    return dict(os.environ, **extra, ASAN_OPTIONS="detect_leaks=1:abort_on_error=0", LSAN_OPTIONS="exitcode=0:print_suppressions=0",
                UBSAN_OPTIONS="print_stacktrace=0")


def run_heap(exe, lines):
    """asan/lsan run; the leak check of the harness is cumulative, so the process is restarted after a reported leak"""
    out = []
    start = 0
    restarts = 0
    while start < len(lines):
        o, crashes = J.run_robust(exe, lines[start:], env=heap_env(), max_restarts=6)
        cut = None
        for i, l in enumerate(o):
            if " leak=1" in l:
                cut = i
                break
        if cut is None or restarts > 10:
            out += o
            break
        out += o[:cut + 1]
        start += cut + 1
        restarts += 1
    return out


def check(run):
    tier = run.tier
    rng = run.rng
    proofs_ok = run.proofs()
    impl = vlib.build_harness("h_jpatch")
    impl_asan = vlib.build_harness("h_jpatch", "asan")
    model = vlib.build_model("jpatch")
    mult = 1 if proofs_ok else 10
    N = (220 if tier == "quick" else 5000) * mult
    cases = []     # dict(kind, doc, patch | path,val, doc_text, patch_text ...)
    cdir = os.path.join(vlib.VERIF, "corpus", PID)
    for cf in sorted(os.listdir(cdir)) if os.path.isdir(cdir) else []:
        for l in open(os.path.join(cdir, cf)):
            l = l.strip()
            if not l or l.startswith("#"):
                continue
            r = json.loads(l)
            if "kind" in r:        # a directed case of one of the generator kinds, as the generators build it
                cases.append(dict({k: v for k, v in r.items() if k != "note"}, origin="corpus"))
            elif "path" in r:
                cases.append({"kind": "mpath", "doc": r["doc"], "path": r["path"], "val": r.get("val", MISSING)})
            elif "patch_text" in r:
                cases.append({"kind": "badtext", "doc": r["doc"], "patch_text": r["patch_text"]})
            else:
                cases.append({"kind": "merge", "doc": r["doc"], "patch": r["patch"]})
    if os.environ.get("VERIF_NO_CORPUS"):       # debugging aid: judge the generators alone
        cases = []
    for _ in range(N):
        keys = [rng.choice(KEYS) for _ in range(rng.range(2, 5))]
        if rng.chance(1, 3):
            keys += ["a", "ab", "abc"]          # names that are prefixes of one another
        doc = gen_doc(rng, 3, keys)
        while not isinstance(doc, dict):
            doc = gen_doc(rng, 3, keys)
        r = rng.below(20)
        if r < 15:
            cases.append({"kind": "merge", "doc": doc, "patch": gen_patch_for(rng, doc, 3, keys)})
        elif r < 16:
            d2 = rng.choice([[1, {"a": 2}], [], doc])
            cases.append({"kind": "merge", "doc": d2, "patch": gen_patch_for(rng, d2 if isinstance(d2, dict) else {}, 2, keys)})
        elif r < 17:
            t = J.gen_json(gen_patch_for(rng, doc, 2, keys))
            cut = rng.choice([t[:max(1, len(t) // 2)], "{\"a\":", "[1,", "{\"a\":1", "{\"a", "[\"x"])
            try:
                json.loads(cut)
                cut = "{\"a\":"
            except ValueError:
                pass
            cases.append({"kind": "badtext", "doc": doc, "patch_text": cut})
        else:
            paths = [p for p, v in J.all_paths(doc) if p]
            base = rng.choice(paths) if paths and rng.chance(2, 3) else ""
            path = base + "".join("/" + J.esc(rng.choice(keys + ["n"])) for _ in range(rng.range(0, 2)))
            val = rng.choice([MISSING, None, gen_doc(rng, 2, keys), gen_patch_for(rng, doc, 2, keys), gen_scalar(rng)])
            if rng.chance(1, 12):
                path = rng.choice(["", "/"])
            cases.append({"kind": "mpath", "doc": doc, "path": path, "val": val})
    # the registry (iwjsreg_merge, its typed variants, iwjsreg_replace): a heap-allocated tree behind a file
    for _ in range(N // 2):
        keys = [rng.choice(KEYS) for _ in range(rng.range(2, 5))]
        doc = gen_doc(rng, 3, keys)
        while not isinstance(doc, dict):
            doc = gen_doc(rng, 3, keys)
        paths = [p for p, v in J.all_paths(doc) if p]
        base = rng.choice(paths) if paths and rng.chance(3, 4) else ""
        path = base + "".join("/" + J.esc(rng.choice(keys + ["n"])) for _ in range(rng.range(0, 2)))
        r = rng.below(10)
        if r < 4:
            mode = "rm"
            val = rng.choice([MISSING, None, gen_doc(rng, 2, keys), gen_patch_for(rng, doc, 2, keys), gen_scalar(rng)])
            if rng.chance(1, 10):
                path = rng.choice(["", "/", path + "/", "x", "/~2"])
        elif r < 7:
            mode = "rs"
            val = rng.choice([None, True, False, 0, -7, 9223372036854775807, 0.5, -2.5, "", "s", "new string", "é"])
            if rng.chance(1, 10):
                path = rng.choice(["", "/"])
        else:
            mode = "rr"
            val = rng.choice([MISSING, gen_doc(rng, 2, keys), gen_patch_for(rng, doc, 2, keys), gen_scalar(rng), {}])
            if "jsreg-replace-root" in OPEN_ON and rng.chance(1, 3):
                path = ""
            if path == "" or not member_path(doc, path):
                if not ("jsreg-replace-root" in OPEN_ON and path == ""):
                    continue
        cases.append({"kind": "reg", "mode": mode, "doc": doc, "path": path, "val": val, "origin": "registry"})
    # several calls on one registry (the dirty flag and the ownership of the tree across calls)
    for _ in range(N // 6):
        keys = [rng.choice(KEYS) for _ in range(rng.range(2, 4))]
        doc = gen_doc(rng, 2, keys)
        while not isinstance(doc, dict):
            doc = gen_doc(rng, 2, keys)
        steps = []
        for _k in range(rng.range(2, 4)):
            paths = [p for p, v in J.all_paths(doc) if p]
            base = rng.choice(paths) if paths and rng.chance(2, 3) else ""
            path = base + "".join("/" + J.esc(rng.choice(keys + ["n"])) for _ in range(rng.range(0, 2)))
            if rng.chance(1, 10):
                path = rng.choice(["x", path + "/", ""])
            val = rng.choice([MISSING, None, gen_doc(rng, 2, keys), gen_patch_for(rng, doc, 2, keys), gen_scalar(rng), [1, "s", [2]]])
            steps.append(["m", path] + ([val] if val is not MISSING else []))
        if "parent-pointers" in OPEN_ON and rng.chance(1, 2):
            # a member replaced by an array, then an item of that array replaced: iwjsreg_replace reads the item's parent pointer
            steps = [["m", "/foo", {"arr": 5}], ["m", "/foo", {"arr": [1, "two", {"x": 3}]}], ["r", "/foo/arr/" + rng.choice(["0", "1", "2"]), 7]]
        cases.append({"kind": "regs", "doc": doc, "steps": steps, "origin": "registry-seq"})
    if "merge-nul-name" in OPEN_ON:
        for _ in range(N // 8):
            a, b = rng.choice([("a\x00b", "a\x00c"), ("\x00x", "\x00y"), ("k\x00", "k\x00\x00"), ("ab\x00cd", "ab\x00ce")])
            doc = {a: rng.choice([1, "s", {"z": 1}]), "k": 1}
            patch = {b: rng.choice([None, 2, {"q": 1}])}
            if rng.chance(1, 3):
                doc, patch = {"o": doc}, {"o": patch}
            cases.append({"kind": "merge", "doc": doc, "patch": patch, "origin": "nul-name"})
    if "jbl-double-text" in OPEN_ON:
        for _ in range(N // 8):
            d = rng.choice([0.0009765625, 3.0517578125e-05, 5e-324, 1.0000152587890625, -0.00048828125])
            patch = {"a": d} if rng.chance(1, 2) else {"o": {"x": [1, d]}}
            cases.append({"kind": "merge", "doc": {"x": 1, "o": {"y": 2}}, "patch": patch, "origin": "double-text"})
    if "merge-subnode" in OPEN_ON:
        for _ in range(N // 6):
            keys = [rng.choice(KEYS[:4] + ["k", "n"]) for _ in range(rng.range(2, 4))]
            doc = {"a": gen_doc(rng, 2, keys), "b": 2, "c": {"d": gen_doc(rng, 1, keys), "e": [1]}}
            path = rng.choice(["/a", "/b", "/c", "/c/d", "/c/e"])
            patch = rng.choice([5, "s", None, [1, {"x": 2}], True, gen_patch_for(rng, {}, 2, keys), {"x": None, "y": [1]}])
            cases.append({"kind": "msub", "doc": doc, "path": path, "patch": patch, "origin": "subnode"})
    if "merge-deep-clone" in OPEN_ON:
        for d in (2, 500, 998, 999, 1000, 1001, 1002, 1005, 1500):
            cases.append({"kind": "mdeep", "doc": {"x": 1}, "depth": d, "origin": "deep"})
    if "merge-scalar-target" in OPEN_ON:
        for _ in range(N // 6):
            keys = [rng.choice(KEYS) for _ in range(3)]
            doc = rng.choice([5, "str", True, None, 0, -7, "", 1.5])
            patch = rng.choice([gen_patch_for(rng, {}, 2, keys), {"n": 1}, {"n": {"z": None}}, {}, [1], 7, "t"])
            cases.append({"kind": "merge", "doc": doc, "patch": patch, "origin": "scalar-target", "scalar": True})
    if "jsreg-binary-nul" in OPEN_ON:
        for _ in range(N // 6):
            a, b = rng.choice([("a\x00b", "a\x00c"), ("\x00x", "\x00y"), ("k\x00", "k\x00z")])
            doc = {a: rng.choice(["x\x00yz", 1, {"z": "s\x00"}]), "k": 1, "o": {b: "v\x00w"}}
            val = rng.choice([{a: None}, {b: 2}, {a: {"q": 1}}, {"o": {b: None}}])
            cases.append({"kind": "reg", "mode": "rmB", "doc": doc, "path": rng.choice(["/", "", "/o"]), "val": val, "origin": "binary-nul"})
    # merged documents the binary form cannot hold, and their storable near misses
    for _ in range(N // 2):
        doc, patch, what = gen_unrep_merge(rng)
        cases.append({"kind": "merge", "doc": doc, "patch": patch, "origin": "wb-" + what})
    lines, heap, meta = [], [], []
    for ci, c in enumerate(cases):
        dt = J.gen_json(c["doc"])
        c["doc_text"] = dt
        if c["kind"] == "merge":
            pt = J.gen_json(c["patch"])
            c["patch_text"] = pt
            for m in MERGE_MODES:
                if m == "bb" and not isinstance(c["patch"], (dict, list)):
                    continue
                if m in ("bj", "bb") and not isinstance(c["doc"], (dict, list)) and not c.get("scalar"):
                    continue
                if c.get("scalar") and m not in ("bj", "bb"):
                    continue
                lines.append("merge %s %s %s" % (m, J.hx(dt), J.hx(pt)))
                heap.append(m == "th")
                meta.append((ci, m))
        elif c["kind"] == "badtext":
            for m in ("tj", "bj"):
                lines.append("merge %s %s %s" % (m, J.hx(dt), J.hx(c["patch_text"])))
                heap.append(False)
                meta.append((ci, m))
        elif c["kind"] == "msub":
            c["patch_text"] = J.gen_json(c["patch"])
            lines.append("msub %s %s %s" % (J.hx(dt), J.hx(c["path"]), J.hx(c["patch_text"])))
            heap.append(False)
            meta.append((ci, "ms"))
        elif c["kind"] == "mdeep":
            c["patch_text"] = "depth %d" % c["depth"]
            lines.append("mdeep %d" % c["depth"])
            heap.append(True)
            meta.append((ci, "md"))
        elif c["kind"] == "regs":
            c["steps_text"] = J.gen_json(c["steps"])
            lines.append("regs %s %s" % (J.hx(dt), J.hx(c["steps_text"])))
            heap.append(True)
            meta.append((ci, "rq"))
        elif c["kind"] == "reg":
            vt = J.gen_json(c["val"]) if c["val"] is not MISSING else None
            c["val_text"] = vt
            lines.append("reg %s %s %s %s" % (c["mode"][1:], J.hx(dt), J.hx(c["path"]), J.hx(vt) if vt is not None else "-"))
            heap.append(True)
            meta.append((ci, c["mode"][:2]))
        else:
            vt = J.gen_json(c["val"]) if c["val"] is not MISSING else None
            c["val_text"] = vt
            for m in ("tp", "th"):
                lines.append("mpath %s %s %s %s" % (m, J.hx(dt), J.hx(c["path"]), J.hx(vt) if vt is not None else "-"))
                heap.append(m == "th")
                meta.append((ci, m))
    plain_idx = [i for i in range(len(lines)) if not heap[i]]
    heap_idx = [i for i in range(len(lines)) if heap[i]]
    out_i = [None] * len(lines)
    par_env = dict(os.environ, H_JPATCH_PAR="1") if "parent-pointers" in OPEN_ON else None
    o1, _ = J.run_robust(impl, [lines[i] for i in plain_idx], env=par_env)
    for i, o in zip(plain_idx, o1):
        out_i[i] = o
    o2 = run_heap(impl_asan, [lines[i] for i in heap_idx])
    for i, o in zip(heap_idx, o2):
        out_i[i] = o
    rc2, out_m, err2 = vlib.run_lines(model, "\n".join(lines) + "\n", timeout=600)
    if rc2 != 0 or len(out_m) < len(lines):
        run.broken.append("T2 model driver failed: rc=%d %s" % (rc2, err2[-300:]))
    mism, unmodelled = [], 0
    for i in range(len(lines)):
        a = out_i[i] if out_i[i] is not None else "<missing>"
        b = out_m[i] if i < len(out_m) else "<missing>"
        if "UNMODELLED" in b or "MODEL-EXN" in b:
            unmodelled += 1
            continue
        if a == "SKIPPED":
            continue
        if a != b:
            mism.append(i)
    run.cov["traces_validated_against_impl"] = len(lines) - len(mism) - unmodelled
    run.cov["unmodelled_inputs"] = unmodelled

    def describe(i):
        ci, m = meta[i]
        c = cases[ci]
        if c["kind"] == "regs":
            return "mode %s doc `%s` steps `%s`" % (m, c["doc_text"][:200], c["steps_text"][:300])
        if c["kind"] == "msub":
            return "mode %s doc `%s` path `%s` patch `%s`" % (m, c["doc_text"][:200], c["path"], c["patch_text"][:300])
        if c["kind"] == "mdeep":
            return "mode %s depth %d" % (m, c["depth"])
        return "mode %s doc `%s` %s" % (m, c["doc_text"][:200], ("patch `%s`" % c["patch_text"][:300]) if "patch_text" in c else
                                        "path `%s` val `%s`" % (c["path"], c.get("val_text")))
    if mism:
        i = mism[0]
        run.broken.append("T2 correspondence: %d of %d queries differ, first: %s impl=`%s` model=`%s`" % (
            len(mism), len(lines), describe(i), out_i[i], out_m[i] if i < len(out_m) else None))
        if os.environ.get("VERIF_DEBUG"):
            for i in mism[:30]:
                print("MISMATCH %s\n   impl =`%s`\n   model=`%s`" % (describe(i), str(out_i[i])[:400], out_m[i][:400]))
    # ---- ORACLE
    nviol = 0
    seen_case = set()
    for i, (ci, m) in enumerate(meta):
        c = cases[ci]
        o = out_i[i]
        if ci not in seen_case:
            seen_case.add(ci)
            run.dist("kind:" + c["kind"])
            run.dist("origin:" + c.get("origin", "gen"))
            run.case(c["doc_text"] + "|" + str(c.get("patch_text", c.get("path", c.get("steps_text")))) + "|" + str(c.get("val_text")), nontrivial=True,
                     sample=({"doc": c["doc_text"], "patch": c.get("patch_text"), "path": c.get("path"), "impl": o}
                             if ci % max(1, len(cases) // 5) == 0 else None))
        if o is None or o == "SKIPPED":
            continue
        run.dist("mode:" + m)
        rep = {"kind": c["kind"] if c["kind"] in ("mpath", "reg") else "merge", "mode": m, "doc": c["doc_text"], "impl": o,
               "variant": "asan" if heap[i] else "plain"}
        if c["kind"] == "reg" and c["path"] == "" and m == "rr":
            rep["class"] = "jsreg-replace-root"
        if c.get("origin") == "nul-name":
            rep["class"] = "merge-nul-name"
        if c.get("origin") in ("subnode", "deep", "scalar-target", "binary-nul"):
            rep["class"] = {"subnode": "merge-subnode", "deep": "merge-deep-clone", "scalar-target": "merge-scalar-target",
                            "binary-nul": "jsreg-binary-nul"}[c["origin"]]
        if c["kind"] == "reg":
            rep["mode"] = c["mode"]
        if c["kind"] in ("msub", "mdeep"):
            rep["kind"] = c["kind"]
            rep["path"] = c.get("path")
            rep["depth"] = c.get("depth")
        if c.get("origin") == "double-text":
            rep["class"] = "jbl-double-text"
        if " par=bad" in o or (c["kind"] == "regs" and any(st[0] == "r" for st in c["steps"])):
            rep["class"] = "parent-pointers"
        if c["kind"] == "regs":
            rep["kind"] = "regs"
            rep["steps"] = c["steps_text"]
        if c["kind"] in ("mpath", "reg"):
            rep["path"] = c["path"]
            rep["val"] = c.get("val_text")
        elif c["kind"] not in ("regs", "mdeep"):
            rep["patch"] = c["patch_text"]

        def viol(why):
            nonlocal nviol
            nviol += 1
            if nviol <= 40:
                run.violation(rep, why)

        if o.startswith("CRASH"):
            viol("memory error / crash in the merge (%s): %s" % (o[:200], describe(i)))
            continue
        f = J.fields(o)
        binary = m[0] == "b"
        orig = J.from_py(c["doc"])
        if binary and c["kind"] == "merge":
            # jbl_from_json of the target (and, for jbl_merge_patch_jbl, of the patch) comes first: what the binary form cannot hold
            # must be refused there, everything else accepted
            pv = J.from_py(c["patch"])
            if not J.representable(orig):
                if f.get("docparse") != "creation":
                    viol("jbl_from_json accepted a target the binary form cannot hold (a member is lost or mangled): %s -> %s" % (describe(i), o[:200]))
                else:
                    run.dist("result:document-not-storable")
                continue
            if m == "bb" and not J.representable(pv):
                if f.get("patchparse") != "creation":
                    viol("jbl_from_json accepted a patch document the binary form cannot hold: %s -> %s" % (describe(i), o[:200]))
                else:
                    run.dist("result:patch-not-storable")
                continue
            if "docparse" in f or "patchparse" in f:
                viol("jbl_from_json refuses a document the binary form can hold: %s -> %s" % (describe(i), o[:200]))
                continue
        if f.get("par") == "bad":
            viol("after the merge a child's `parent` pointer is not the node that lists it (children taken over by "
                 "_jbl_copy_node_data keep pointing at the patch node / the freed clone): %s" % describe(i))
            continue
        if c["kind"] == "mdeep":
            over = c["depth"] > 1000      # the copy of a value of 1000 levels still passes (the visitor counts from 0)
            run.dist("deep:%s" % ("over" if over else "within"))
            if "rc" not in f:
                run.broken.append("T2 harness: unexpected answer `%s`" % o[:200])
            elif over and (f["rc"] == "ok" or f.get("members") != "1"):
                viol("a value nested %d deep cannot be copied (JBL_MAX_NESTING_LEVEL): the merge must fail and leave the target: %s" % (c["depth"], o[:200]))
            elif not over and (f["rc"] != "ok" or f.get("members") != "2"):
                viol("a value nested %d deep is within the limit, the merge reports %s" % (c["depth"], f["rc"]))
            elif over and f.get("leak") == "1":
                viol("the failed merge of a %d deep value leaks the part copied so far (LeakSanitizer)" % c["depth"])
            continue
        if c["kind"] == "msub":
            run.dist("subnode")
            if "rc" not in f or "doc" not in f:
                continue
            try:
                got = J.parse_dump(f["doc"])
            except J.DumpError:
                viol("merging into a member of a larger tree left no well-formed document (the member lost its name / its sibling "
                     "link): %s -> %s" % (describe(i), o[:200]))
                continue
            pv = J.from_py(c["patch"])
            exp = set_at(orig, J.ptr_parse(c["path"]), lambda v: merge_patch(J.clone(v), J.clone(pv)))
            if f["rc"] != "ok":
                viol("RFC 7386 defines the result, the library reports %s: %s" % (f["rc"], describe(i)))
            elif not J.eq_unordered(got, exp, False):
                viol("merging into the member at %s: the document differs from the one with MergePatch(member, patch) in its place: "
                     "%s -> %s, expected %s" % (c["path"], describe(i), f["doc"], J.to_json(exp)))
            continue
        if c["kind"] == "regs":
            run.dist("registry:seq")
            if "rcs" not in f or "doc" not in f:
                run.broken.append("T2 harness: unexpected answer `%s`" % o[:200])
                continue
            rcs = f["rcs"].split(",")
            cur, dirty, bad = J.clone(orig), False, None
            for st, rcx in zip(c["steps"], rcs):
                try:
                    val = J.from_py(st[2]) if len(st) > 2 else MISSING
                    patch = MISSING if (st[1] in ("", "/") and val is MISSING) else wrap(st[1], val)
                except (J.PatchError, J.Lenient):
                    if rcx == "ok":
                        bad = "a path that is no JSON pointer was accepted"
                    continue
                if st[0] == "r":
                    cur = remove_at(cur, st[1])
                if patch is MISSING or not isinstance(patch, dict):
                    if rcx == "ok":
                        bad = "a non-object merge at the root was accepted"
                    continue
                if rcx != "ok":
                    bad = "RFC 7386 defines the result of step %s, the registry reports %s" % (json.dumps(st)[:80], rcx)
                    break
                cur = merge_patch(cur, J.clone(patch))
                dirty = True
            try:
                got = J.parse_dump(f["doc"])
            except J.DumpError:
                viol("the registry's tree is not a well-formed document: %s -> %s" % (describe(i), o[:200]))
                continue
            if bad:
                viol("%s: %s -> %s" % (bad, describe(i), o[:200]))
            elif f.get("leak") == "1":
                viol("the registry leaks after a sequence of merges (LeakSanitizer): %s" % describe(i))
            elif not J.eq_unordered(got, cur, False):
                viol("registry after the calls differs from MergePatch applied step by step: %s -> %s, expected %s" % (describe(i), f["doc"], J.to_json(cur)))
            elif f.get("dirty") != ("1" if dirty else "0"):
                viol("the registry's dirty flag is %s after rcs=%s: %s" % (f.get("dirty"), f["rcs"], describe(i)))
            continue
        if "rc" not in f or "doc" not in f:
            if "patchparse" in f or "docparse" in f:
                continue
            run.broken.append("T2 harness: unexpected answer `%s`" % o[:200])
            continue
        try:
            got = J.parse_dump(f["doc"])
        except J.DumpError:
            viol("the result is not a well-formed document: %s -> %s" % (describe(i), o[:200]))
            continue
        if f.get("leak") == "1":
            viol("heap mode leaks a replaced subtree (LeakSanitizer): %s" % describe(i))
            continue
        if f.get("links") == "bad":
            viol("sibling links inconsistent after the merge: %s" % describe(i))
            continue
        if binary and f["rc"] != "ok" and (f.get("unchanged") != "1" or not J.eq_unordered(got, orig, True)):
            # whatever the reason of a failure, the binary document is byte for byte the one before the call
            viol("failed merge (rc=%s) changed the binary document: %s -> %s" % (f["rc"], describe(i), o[:200]))
            continue
        if c["kind"] == "badtext":
            if f["rc"] == "ok":
                viol("the patch text does not parse, yet the call reports success: %s" % describe(i))
            elif not J.eq_unordered(got, orig, binary):
                viol("failed merge changed the document: %s -> %s" % (describe(i), o[:200]))
            continue
        if c["kind"] in ("mpath", "reg"):
            try:
                val = J.from_py(c["val"]) if c["val"] is not MISSING else MISSING
                if c["path"] in ("", "/") and val is MISSING:
                    patch = MISSING
                else:
                    patch = wrap(c["path"], val)
            except (J.PatchError, J.Lenient):
                run.dist("result:path-syntax")
                if c["kind"] == "reg" and (f["rc"] == "ok" or f.get("dirty") != "0" or not J.eq_unordered(got, orig, False)):
                    viol("the registry accepted / was changed by a path that is no JSON pointer: %s -> %s" % (describe(i), o[:200]))
                continue
            if m == "rr":       # iwjsreg_replace: what is at the path goes away first, then the value is merged in along the path
                orig = remove_at(J.clone(orig), c["path"])
        else:
            patch = J.from_py(c["patch"])
        if c["kind"] == "reg":
            run.dist("registry:" + m)
            if f.get("dirty") != ("1" if f["rc"] == "ok" else "0"):
                viol("the registry's dirty flag is %s after a call that returned %s: %s" % (f.get("dirty"), f["rc"], describe(i)))
                continue
        api_restricted = m in ("tp", "th", "ta", "rm", "rs", "rr") and (not isinstance(orig, dict) or not isinstance(patch, dict))
        if m == "ta" and isinstance(patch, list):
            continue          # an array is a JSON Patch document for jbn_patch_auto
        exp = merge_patch(J.clone(orig), J.clone(patch)) if patch is not MISSING else None
        # MergePatch(target, patch) exists but the binary form cannot hold it (a name of 256+ bytes / two names equal up to ASCII
        # case): the call either succeeds with exactly that document - it cannot - or reports JBL_ERROR_CREATION and leaves the
        # document as it was (checked above, byte for byte)
        unrep = binary and patch is not MISSING and not J.representable(exp)
        if f["rc"] != "ok":
            if api_restricted:
                run.dist("result:api-rejects-non-object")
                if not J.eq_unordered(got, orig, binary) and m != "rr":
                    viol("rejected merge changed the document: %s -> %s" % (describe(i), o[:200]))
            elif unrep and f["rc"] == "creation":
                run.dist("result:unrepresentable")
            else:
                viol("RFC 7386 defines the result, the library reports %s: %s" % (f["rc"], describe(i)))
            continue
        if patch is MISSING:
            viol("no patch at all, yet success: %s" % describe(i))
            continue
        run.dist("result:ok")
        if not J.eq_unordered(got, exp, binary):
            viol("result differs from MergePatch(target, patch): %s -> %s, expected %s" % (describe(i), f["doc"], J.to_json(exp)))
    return run.finish(level=LEVEL,
                      rule="(target, patch) pairs: targets of depth <= 3 over 2-7 member names drawn per case (names that are prefixes "
                           "of one another, empty name, escaped characters), patches generated against the target (2/3 shared names, "
                           "null / nested null / empty object / object<->array<->scalar at every depth), truncated patch texts, "
                           "path form with and without a value; plus (origin:wb-*) pairs whose MergePatch result holds member names "
                           "the binary form cannot store (case-only twins first/middle/last among the new members, in nested objects "
                           "that are / are not the last member, inside values taken over wholesale, names of 256-1000 bytes) and the "
                           "storable near misses (older twin removed by a null, twin that is null inside a new value, 255 bytes, "
                           "non-ASCII case); every pair through jbn_merge_patch with a pool and with pool=0 on a "
                           "malloc-ed tree (ASan+LSan build), jbn_merge_patch_from_json, jbn_patch_auto, jbl_merge_patch, "
                           "jbl_merge_patch_jbl, jbn_merge_patch_path; plus (origin:registry) a registry opened on a file holding the "
                           "target (heap-allocated tree) and one call of iwjsreg_merge / iwjsreg_merge_str,_i64,_f64,_bool,_remove / "
                           "iwjsreg_replace with a path at, below or beside existing members (ASan+LSan build; the tree is dumped, "
                           "the dirty flag read, the registry closed and the leak check run); a case is one pair; distinct = distinct texts",
                      assumptions=["jbn_merge_patch / jbn_patch_auto / jbn_merge_patch_path take object roots and object patches only "
                                   "(IW_ERROR_INVALID_ARGS otherwise - counted, result must be unchanged)",
                                   "JSON texts use only syntax on which text parsing is not in question (C13's subject)",
                                   "member names within one object are distinct",
                                   "iwjsreg_replace is compared with the oracle only (remove the addressed member, then MergePatch with "
                                   "the wrapper) and only on paths through object members; replacing the whole registry (path \"\") "
                                   "crashed the library before its repair (use after free, fixes/jpatch-jsreg-replace-root.diff); all repaired "
                                   "classes are generated and judged on every run: %s" % ", ".join(sorted(OPEN_ON)),
                                   "binary-form modes, MergePatch result not storable in the binary form (result:unrepresentable): the "
                                   "call must report JBL_ERROR_CREATION and leave the binary document byte for byte as it was (success is "
                                   "accepted only with exactly the RFC result); a target / patch document that is itself not storable must "
                                   "be refused by jbl_from_json"])


def replay(run, path):
    return J.replay(run, path)
