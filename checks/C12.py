# C12 - reads through the extensible file return the bytes last written; size rules
#
# Scripts of calls are run on (1) the real iwexfile.c through harness/h_exf.c, (2) the extracted Coq model
# coq/FS/Exf.v through ml/driver_exf.ml (T2: every answer line must be identical), and are judged by
# (3) the oracle below: a flat python bytearray + size rules, written from the property statement and the
# header documentation, sharing no code with the model.
#
# OS-refusal injection (round 4): the script command `limit <n>` lowers RLIMIT_FSIZE of the harness process to n bytes
# (SIGXFSZ ignored; `limit -1` lifts it), so every ftruncate/fallocate/write beyond n fails with EFBIG.  The model gets
# the same oracle (`os_limit n`), the python oracle refuses every growth beyond n: the call must answer IOERR and the
# size, the file on disk, the windows and every byte must be what they were; close + reopen must see that size.
import os, json, hashlib, shutil, copy
from concurrent.futures import ThreadPoolExecutor
import vlib

LEVEL = "proof"
# The four findings of the deepening round are repaired in /repo (c1b1b57 small maxoff refused, 58fb82b acquire_mmap unlocks on
# NOT_MMAPED, bfa27a0 descriptor closed when flock fails, 8dc0de1 forward-overlapping copy through the file carried out): the
# oracle demands the repaired behaviour and their directed scripts run on every run.  (OPEN stays as a name for these places.)
OPEN = True
# Round 7: negative sizes refused (56ca0e5), write/copy on a read-only handle with windows refused (8b1f456), a window refused with
# OVERLAP gives its mapping back (e633fd2) - repaired in /repo: the inputs are generated and judged on every run.
R7 = True
I64 = 1 << 63
PS = os.sysconf("SC_PAGESIZE")
OFFMAX = (1 << 63) - 1
HUGE = [(1 << 63) - 1, (1 << 64) - 1]


def rup(x):
    return (x + PS - 1) // PS * PS


def patbyte(seed, i):
    return (seed * 131 + i * 31 + (i >> 8) * 7) % 251 + 1


def pattern(n, seed):
    """the bytes `raw <n> <seed>` / `fraw <n> <seed>` put into a file outside the library (same formula in the harness and the driver)"""
    return bytes(patbyte(seed, i) for i in range(n))


def stream(seed, n):
    out = b""
    c = 0
    while len(out) < n:
        out += hashlib.sha256(b"%d:%d" % (seed, c)).digest()
        c += 1
    return out[:n]


# ------------------------------------------------------------------------------------------------
# The oracle.  `data` is what a reader must see; unk[i]=1 marks bytes whose value the property leaves open
# (bytes written through a MAP_PRIVATE window once that window has been remapped/removed, and the targets of
# a copy that touches a private window): they are not compared until they are written again.
class Win:
    def __init__(self, off, maxlen, priv):
        self.off, self.maxlen, self.priv, self.len = off, maxlen, priv, 0


class Oracle:
    def __init__(self):
        self.kernel, self.kunk = bytearray(), bytearray()  # what survives close
        self.opened = False
        self.data = bytearray()
        self.unk = bytearray()
        self.pd = bytearray()
        self.wins = []
        self.maxoff = 0
        self.pol = ("def",)
        self.prev = 0
        self.lim = None  # RLIMIT_FSIZE in force (bytes) or None
        self.maplim = False  # an address-space limit is in force (a window may fail to grow)
        self.mapfailed = False  # ... and a call has answered ERRNO under it: windows may be unmapped from now on
        self.exists = None  # the data file exists (None: not known yet - the scripts of one harness process share the file)
        self.ro = False  # opened read-only
        self.ro_writes = False  # `rowrites 1`: the harness lets addmm/rmmm/write/copy through to a read-only handle
        self.locks_next = self.locks = False  # use_locks of the next / the current handle
        self.held = 0  # read locks the caller holds (successful acquire_mmap without release_mmap)
        self.acq_failed = False  # an acquire_mmap has failed on this handle (open finding: the lock is kept)

    def refused(self, n, cur=None):
        """the operating system does not let the file grow to n bytes"""
        cur = self.size if cur is None else cur
        return self.lim is not None and n > cur and n > self.lim

    @property
    def size(self):
        return len(self.data)

    # -- size rules
    def policy(self, nsize):
        csize = self.size
        k = self.pol[0]
        if k == "fibo":
            r = rup(max(csize + self.prev, nsize))
            self.prev = csize
            return r
        if k == "mul":
            n, dn = self.pol[1], self.pol[2]
            if dn == 0 or n < dn:
                return rup(nsize)
            return rup(max(nsize // dn * n, nsize))  # "cannot be lesser than requested nsize" (iwexfile.h)
        return rup(nsize)

    def drop_private(self, w, upto=None):
        if not w.priv:
            return
        for i in range(w.off, min(w.off + w.len, self.size if upto is None else upto)):
            if self.pd[i]:
                self.unk[i] = 1
                self.pd[i] = 0

    def resize(self, n):
        old = self.size
        if n < old:
            for w in self.wins:
                nl = min(w.maxlen, max(0, n - w.off))
                if nl != w.len:
                    self.drop_private(w, n)
            del self.data[n:], self.unk[n:], self.pd[n:]
        else:
            for w in self.wins:
                nl = min(w.maxlen, max(0, n - w.off))
                if nl != w.len:
                    self.drop_private(w)
            z = bytes(n - old)
            self.data += z; self.unk += z; self.pd += z
        for w in self.wins:
            w.len = min(w.maxlen, max(0, n - w.off))

    def ensure(self, sz):
        if sz < 0:
            return "OOB"  # not a size (-1 is the "dispose" argument of the resize policies): refused, nothing changes
        if self.size >= sz:
            return "OK"
        n = self.policy(sz)
        if self.maxoff and n > self.maxoff:
            n = self.maxoff
            if n < sz:
                return "MAXOFF"
        if self.refused(n):
            return "IOERR"  # nothing changes (the policy was consulted: its context may have advanced)
        self.resize(n)
        return "OK"

    def in_private(self, i):
        for w in self.wins:
            if w.priv and w.off <= i < w.off + w.len:
                return True
        return False

    def touches_private(self, a, b):
        return any(w.priv and w.len and a < w.off + w.len and w.off < b for w in self.wins)

    # -- one call; returns the expectation: dict(rc=[allowed names], sp, data, mask, probe)
    def apply(self, t):
        op = t[0]
        if op == "limit":
            v = int(t[1])
            self.lim = None if v < 0 else v
            return {"rc": ["OK"], "raw": not self.opened}
        if op == "maplimit":
            self.maplim = int(t[1]) >= 0
            return {"rc": ["OK"], "raw": not self.opened}
        if op == "locks":
            self.locks_next = int(t[1]) != 0
            return {"rc": ["OK"], "raw": not self.opened}
        if op == "rowrites":
            self.ro_writes = int(t[1]) != 0
            return {"rc": ["OK"], "raw": not self.opened}
        if op == "raw":
            if self.opened:
                return {"rc": ["BUSY"]}
            self.kernel, self.kunk = bytearray(pattern(int(t[1]), int(t[2]))), bytearray(int(t[1]))
            self.exists = True
            return {"rc": ["OK"], "raw": True}
        if op == "openro":
            isz, mo = int(t[1]), int(t[2])
            if self.opened:
                self.do_close()
            if self.exists is None:
                return {"rc": ["NOTEXISTS", "OK", "READONLY", "MAXOFF", "INVARGS"], "unknown": True}
            if not self.exists:
                return {"rc": ["NOTEXISTS"], "raw": True}
            if OPEN and 0 < mo < PS:
                return {"rc": ["INVARGS"], "smallmax": mo}
            size0 = len(self.kernel)
            if size0 < isz or size0 % PS:  # the size would have to change: not on a read-only file
                return {"rc": ["READONLY"]}
            self.maxoff = mo // PS * PS if mo >= PS else 0
            self.wins = []
            self.data = bytearray(self.kernel); self.unk = bytearray(self.kunk); self.pd = bytearray(size0)
            self.opened, self.ro, self.locks, self.held, self.acq_failed = True, True, self.locks_next, 0, False
            return {"rc": ["OK"]}
        if op == "open":
            trunc, isz, mo = int(t[1]), int(t[2]), int(t[3])
            if self.opened:
                self.do_close()
            if OPEN and 0 < mo < PS:  # a maximum below one page cannot be honoured: the open must refuse it (file untouched)
                return {"rc": ["INVARGS"], "smallmax": mo}
            self.exists = True
            if trunc:
                self.kernel, self.kunk = bytearray(), bytearray()
            self.maxoff = mo // PS * PS if mo >= PS else 0
            self.pol = ("fibo",) if t[4] == "fibo" else ("mul", int(t[5]), int(t[6])) if t[4] == "mul" else ("def",)
            self.prev = 0
            self.wins = []
            size0 = len(self.kernel)
            n = size0
            if size0 < isz:
                n = rup(isz)
                if n > size0 and self.maxoff and n > self.maxoff:
                    return {"rc": ["MAXOFF"]}
            elif size0 % PS:
                n = rup(size0)  # a length that is not a page multiple (a file made outside the library) is padded
                if self.maxoff and n > self.maxoff:
                    return {"rc": ["MAXOFF"]}
            if self.refused(n, size0):
                return {"rc": ["IOERR"]}  # no handle; the file keeps what it had (nothing, if it was truncated)
            self.data = bytearray(self.kernel); self.unk = bytearray(self.kunk); self.pd = bytearray(size0)
            self.opened, self.ro, self.locks, self.held, self.acq_failed = True, False, self.locks_next, 0, False
            self.resize(n)
            return {"rc": ["OK"]}
        if not self.opened:
            return {"rc": ["NOTOPEN"], "raw": True}
        if self.ro and op not in ("read", "state", "probe", "syncmm", "close"):
            if not (self.ro_writes and op in ("addmm", "rmmm", "write", "copy")):
                return {"rc": ["ROMODE"]}
            if op == "write":  # no byte may change and nothing may fault, window or not
                off, n = int(t[1]), (len(t[2]) // 2 if t[2] != "-" else 0)
                if off < 0 or off + n > OFFMAX:
                    return {"rc": ["OOB"], "sp": 0}
                return {"rc": ["MAXOFF" if self.maxoff and off + n > self.maxoff else "READONLY"], "sp": 0}
            if op == "copy":
                return {"rc": ["READONLY"]}
        if self.locks and self.needs_wlock(t):
            if self.held > 0:  # documented: the caller still holds the read lock of a successful acquire_mmap
                return {"rc": ["HANG"], "raw": True}
            if self.acq_failed and not OPEN:  # open finding: the read lock of a FAILED acquire_mmap is kept
                e = self.apply_unlocked(t)
                e["rc"] = e["rc"] + ["HANG"]
                return e
        return self.apply_unlocked(t)

    def needs_wlock(self, t):
        op = t[0]
        if op in ("truncate", "addmm", "rmmm", "remap", "close"):
            return True
        if op == "ensure":
            return self.size < int(t[1])
        if op == "write":
            off, n = int(t[1]), (len(t[2]) // 2 if t[2] != "-" else 0)
            return 0 <= off and off + n <= OFFMAX and not (self.maxoff and off + n > self.maxoff) and off + n > self.size
        return False

    def apply_unlocked(self, t):
        op = t[0]
        if op == "write":
            off, d = int(t[1]), (bytes.fromhex(t[2]) if t[2] != "-" else b"")
            end = off + len(d)
            if off < 0 or end > OFFMAX:
                return {"rc": ["OOB"], "sp": 0}
            if self.maxoff and end > self.maxoff:
                return {"rc": ["MAXOFF"], "sp": 0}
            rc = self.ensure(end)
            if rc != "OK":
                return {"rc": [rc], "sp": 0}
            self.data[off:end] = d
            for i in range(off, end):
                self.unk[i] = 0
                self.pd[i] = 1 if self.in_private(i) else 0
            return {"rc": ["OK"], "sp": len(d)}
        if op == "read":
            off, n = int(t[1]), int(t[2])
            if off < 0 or off + n > OFFMAX:
                return {"rc": ["OOB"], "sp": 0, "data": b"", "mask": b""}
            cnt = max(0, min(n, self.size - off))
            return {"rc": ["OK"], "sp": cnt, "data": bytes(self.data[off:off + cnt]), "mask": bytes(self.unk[off:off + cnt])}
        if op == "copy":
            off, siz, noff = int(t[1]), int(t[2]), int(t[3])
            rc = self.ensure((noff + siz + I64) % (2 * I64) - I64)
            if rc != "OK":
                return {"rc": [rc]}
            fwd = noff > off and siz > 0 and noff < off + siz
            n = max(0, min(siz, self.size - off))
            # open finding: a forward-overlapping copy that goes through the file is refused (after the file has grown)
            e = {"rc": ["OK", "OVERFLOW"] if fwd and not OPEN else ["OK"], "copy": (off, n, noff), "fwd": fwd}
            return e
        if op == "truncate":
            if int(t[1]) < 0:
                return {"rc": ["OOB"]}
            n = rup(int(t[1]))
            if n > self.size and self.maxoff and n > self.maxoff:
                return {"rc": ["MAXOFF"]}
            if self.refused(n):
                return {"rc": ["IOERR"]}
            self.resize(n)
            return {"rc": ["OK"]}
        if op == "ensure":
            return {"rc": [self.ensure(int(t[1]))]}
        if op == "addmm":
            off, ml, fl = int(t[1]), int(t[2]), int(t[3])
            if off % PS:
                return {"rc": ["NOTALIGNED"]}
            eff = min(ml, OFFMAX - off)
            r = rup(eff)
            if r > OFFMAX - off:
                r = eff // PS * PS
            if r == 0:
                return {"rc": ["OOB"]}
            for w in self.wins:
                if max(w.off, off) < min(w.off + w.maxlen, off + r):
                    return {"rc": ["OVERLAP"]}
            w = Win(off, r, bool(fl & 1))
            w.len = min(r, max(0, self.size - off))
            self.wins.append(w)
            return {"rc": ["OK"]}
        if op == "rmmm":
            off = int(t[1])
            for w in self.wins:
                if w.off == off:
                    self.drop_private(w)
                    self.wins.remove(w)
                    return {"rc": ["OK"]}
            return {"rc": ["NOTMM"]}
        if op == "probe":
            off = int(t[1])
            for w in self.wins:
                if w.off == off and w.len:
                    return {"rc": ["OK"], "probe": w.len}
            return {"rc": ["NOTMM"], "probe": 0}
        if op == "syncmm":
            off = int(t[1])
            for w in self.wins:
                if w.off == off and w.len:
                    return {"rc": ["OK"], "win": True}
            return {"rc": ["NOTMM"], "win": False}
        if op == "acquire":
            off = int(t[1])
            for w in self.wins:
                if w.off == off and w.len:
                    self.held += 1
                    return {"rc": ["OK"], "probe": w.len, "acq": True}
            self.acq_failed = True
            return {"rc": ["NOTMM"], "probe": 0}
        if op == "release":
            self.held = max(0, self.held - 1)
            return {"rc": ["OK"]}
        if op in ("sync", "remap", "state"):
            return {"rc": ["OK"]}
        if op == "close":
            self.do_close()
            return {"rc": ["OK"]}
        return {"rc": ["BADOP"]}

    def do_close(self):
        for w in self.wins:
            self.drop_private(w)
        self.wins = []
        if not self.ro:
            self.kernel = bytearray(self.data)
            self.kunk = bytearray(self.unk)
        self.opened = False

    def finish_copy(self, e, rc):
        """apply the effect of a copy once the implementation's rc is known (OK or the documented refusal)"""
        if rc != "OK" or "copy" not in e:
            return
        off, n, noff = e["copy"]
        priv = self.touches_private(off, off + n) or self.touches_private(noff, noff + n)
        src, srcu = bytes(self.data[off:off + n]), bytes(self.unk[off:off + n])
        self.data[noff:noff + n] = src
        for i in range(n):
            self.unk[noff + i] = 1 if priv else srcu[i]
            self.pd[noff + i] = 0


def judge(o, t, e, line):
    """compare one answer line of the implementation with the expectation; returns None or the reason"""
    f = line.split()
    if not f or f[0] != t[0]:
        return "no answer / wrong answer line: %r" % line
    if len(f) > 1 and f[1] == "CRASH":
        return "the call crashed (signal inside the library)"
    if len(f) > 1 and f[1] == "SIGBUS":
        return "SIGBUS: the call read a mapped page that lies beyond the end of the file (a window is longer than the file)"
    if len(f) > 1 and f[1] == "HANG":
        if "HANG" in e["rc"]:
            o.opened = False  # the handle is abandoned
            return None
        return ("the call never returned: it waits for a lock the caller itself is made to hold (a failed acquire_mmap kept "
                "the read lock)" if o.acq_failed else "the call never returned")
    if e.get("smallmax") and f[1] == "OK":
        return ("maxoff=%d accepted: a configured maximum below one page is silently dropped (the file may grow without limit)"
                % e["smallmax"])
    if e.get("unknown"):
        return None
    if e.get("raw"):
        return None if f[1] == e["rc"][0] else "expected %s" % e["rc"][0]
    if f[1] not in e["rc"]:
        if e["rc"] == ["IOERR"]:
            return ("rc %s, but the operating system refuses this growth (RLIMIT_FSIZE=%s): expected IOERR and an "
                    "unchanged file; reported fsize=%s, file on disk %s bytes"
                    % (f[1], o.lim, dict(x.split("=") for x in f if "=" in x).get("fsize"),
                       dict(x.split("=") for x in f if "=" in x).get("stat")))
        return "rc %s, expected %s" % (f[1], "/".join(e["rc"]))
    kv = dict(x.split("=") for x in f if "=" in x)
    fsize, stat = int(kv.get("fsize", "-2")), int(kv.get("stat", "-2"))
    exp_size, exp_stat = (o.size, o.size) if o.opened else (-1, len(o.kernel) if o.exists else -1 if o.exists is False else stat)
    if fsize >= 0 and fsize % PS:
        return "state().fsize=%d is not page aligned" % fsize
    if fsize >= 0 and stat != fsize:
        return "state().fsize=%d but the file on disk has %d bytes (that is what the next open sees)" % (fsize, stat)
    if fsize != exp_size:
        return "size %d, the size rules (policy/maxoff/truncate) give %d" % (fsize, exp_size)
    if stat != exp_stat:
        return "file on disk has %d bytes, expected %d" % (stat, exp_stat)
    if "sp" in e and int(f[2]) != e["sp"]:
        return "transferred %s bytes, expected %d" % (f[2], e["sp"])
    if "probe" in e and int(f[2]) != e["probe"]:
        return "window length %s, expected %d" % (f[2], e["probe"])
    if "probe" in e and e["probe"] and f[1] != "OK":
        return "rc %s for a mapped window" % f[1]
    if "data" in e:
        got = bytes.fromhex(f[3]) if f[3] != "-" else b""
        if len(got) != len(e["data"]):
            return "read returned %d bytes, expected %d" % (len(got), len(e["data"]))
        for i, (a, b, m) in enumerate(zip(got, e["data"], e["mask"])):
            if not m and a != b:
                return "byte at offset %d is %02x, last written %02x" % (int(t[1]) + i, a, b)
    return None


def run_oracle(script, out):
    """script: list of op lines; out: answer lines of the implementation. Returns (index, reason) or None"""
    o = Oracle()
    for i, l in enumerate(script):
        t = l.split()
        snap = copy.deepcopy(o) if o.maplim and t[0] in ("ensure", "truncate", "write", "copy") else None
        e = o.apply(t)
        if i >= len(out):
            return i, "no answer (harness died)"
        if snap is not None and out[i].split()[1:2] == ["ERRNO"]:
            # opt-in mmap-refusal scripts: the call may fail because a window cannot follow; then nothing may have changed
            o = snap
            o.mapfailed = True
            e = {"rc": ["ERRNO"]}
            if t[0] == "write":
                e["sp"] = 0
        if o.mapfailed and t[0] in ("probe", "acquire") and out[i].split()[1:3] == ["NOTMM", "0"]:
            if t[0] == "acquire" and e.get("acq"):
                o.held -= 1
                o.acq_failed = True
            e = {"rc": ["NOTMM"], "probe": 0}  # a window that could not be mapped again is served through the file
        if o.mapfailed and t[0] == "syncmm" and out[i].split()[1:2] == ["NOTMM"]:
            e = {"rc": ["NOTMM"]}
        if snap is None and o.maplim and t[0] in ("addmm", "remap") and out[i].split()[1:2] == ["ERRNO"]:
            if t[0] == "addmm" and e["rc"] == ["OK"]:
                o.wins.pop()  # the window was not registered
            o.mapfailed = True
            e = {"rc": ["ERRNO"]}
        why = judge(o, t, e, out[i])
        if why:
            return i, why
        if t[0] == "copy":
            o.finish_copy(e, out[i].split()[1])
    return None


# ------------------------------------------------------------------------------------------------
# generator: drives an Oracle instance to know where the edges are
POLS = [["def"]] * 3 + [["fibo"]] * 3 + [["mul", "3", "2"], ["mul", "2", "1"], ["mul", "1", "1"], ["mul", "3", "3"],
                                        ["mul", "5", "4"], ["mul", "7", "3"], ["mul", "1", "2"], ["mul", "2", "0"], ["muln"]]


def edges(o, lim):
    pts = {0, PS, o.size, o.size + PS}
    if o.maxoff:
        pts.add(o.maxoff)
    for w in o.wins:
        pts |= {w.off, w.off + w.len}
        if w.maxlen < lim:
            pts.add(w.off + w.maxlen)
    return sorted(p for p in pts if p <= lim)


def pick_off(rng, o, lim):
    p = rng.choice(edges(o, lim))
    return max(0, p + rng.choice([-PS - 1, -PS, -17, -2, -1, -1, 0, 0, 0, 1, 1, 2, 100, PS // 2, PS - 1]))


def pick_len(rng, o, off, lim):
    ahead = [p for p in edges(o, lim + 4 * PS) if p > off]
    c = [1, 2, 3, 7, PS - 1, PS, PS + 1, rng.range(1, 3 * PS)]
    for p in ahead[:3]:
        c += [p - off - 1, p - off, p - off + 1]
    return max(0, rng.choice(c))


def gen_script(rng, run):
    o = Oracle()
    lines = []

    def emit(l):
        lines.append(l)
        e = o.apply(l.split())
        if l.startswith("copy"):
            # assume the copy is carried out; run_oracle re-evaluates with the real rc
            o.finish_copy(e, "OK" if e["rc"] == ["OK"] else "OVERFLOW")
        return e

    def copy_line(off, n, noff):
        # a copy onto itself through a MAP_PRIVATE window is memmove(p, p, n): whether libc stores anything (and so detaches
        # the pages from the file) depends on n and on the libc build (glibc returns early above 8 vector widths); the
        # property says nothing about it and the model would have to know the libc - such a call is not generated
        if noff == off and any(w.priv for w in o.wins):
            noff = off + 1
        return "copy %d %d %d" % (off, n, noff)

    def open_line(trunc):
        pol = rng.choice(POLS)
        isz = rng.choice([0, 0, 0, 1, PS - 1, PS, PS + 1, 2 * PS, 3 * PS, 5 * PS])
        cur = rup(max(len(o.kernel) if not trunc else 0, isz))
        if rng.chance(2, 5):
            mo = 0
        else:
            k = rng.range(1, 12)
            mo = k * PS + rng.choice([-1, 0, 0, 1, PS // 2])
            if mo < cur and not rng.chance(1, 12):
                mo = cur + rng.choice([0, 0, 1, PS, 3 * PS - 1])
        run.dist("policy:" + pol[0]); run.dist("maxoff:" + ("none" if mo < PS else "set"))
        return "open %d %d %d %s" % (trunc, isz, mo, " ".join(pol))

    use_locks = rng.chance(1, 6)
    run.dist("locks:" + ("on" if use_locks else "off"))
    if use_locks:
        emit("locks 1")
    emit(open_line(1))
    allow_priv = rng.chance(1, 3)
    layout = rng.weighted([("none", 2), ("whole", 2), ("first", 2), ("partial", 3), ("several", 4)])
    run.dist("layout:" + layout + ("+private" if allow_priv else ""))

    def flags():
        return (1 if allow_priv and rng.chance(1, 2) else 0) | (2 if rng.chance(1, 8) else 0)

    if layout == "whole":
        emit("addmm 0 %d %d" % (rng.choice(HUGE), flags()))
    elif layout == "first":
        emit("addmm 0 %d %d" % (rng.choice([1, PS, 2 * PS, 3 * PS + 1]), flags()))
    elif layout == "partial":
        emit("addmm %d %d %d" % (rng.range(1, 4) * PS, rng.choice([1, PS, 2 * PS, 2 * PS + 1, HUGE[1]]), flags()))
    elif layout == "several":
        at = rng.choice([0, 0, PS, 2 * PS])
        for _ in range(rng.range(2, 4)):
            ln = rng.choice([PS, PS, 2 * PS, 3 * PS])
            emit("addmm %d %d %d" % (at, ln - rng.choice([0, 0, 1, PS - 1]), flags()))
            at += ln + rng.choice([0, 0, PS, 2 * PS])
    nops = rng.range(12, 40)
    # OS-refusal episode: at a chosen point RLIMIT_FSIZE is lowered to a value at or a little above the current size;
    # the following calls ask for growth beyond it (and within it), each refused call is followed by a look at the size,
    # every window and the bytes; then the limit is lifted and the same kind of request must succeed.
    faulty = rng.chance(1, 3)
    run.dist("refusal-episode:" + ("yes" if faulty else "no"))
    start_at = rng.range(0, max(0, nops - 6)) if faulty else -1
    left = 0

    def look():
        emit("state")
        for w in list(o.wins)[:4]:
            emit("probe %d" % w.off)
        emit("read %d %d" % (max(0, o.size - PS - 1), 2 * PS + 2))
        if rng.chance(1, 3):
            emit("read 0 %d" % min(o.size, 5 * PS))

    def beyond():
        L = o.lim if o.lim is not None else o.size
        return rng.choice([L + 1, L + 1, rup(L) + 1, L + PS, L + PS + 1, L + 3 * PS, o.size + 1, rup(L), L])

    def refusal_op():
        k = rng.weighted([("ensure", 5), ("truncate", 4), ("write", 6), ("copy", 4), ("addmm", 3), ("within", 3), ("reopen", 1), ("misc", 3)])
        run.dist("refusal-op:" + k)
        if k == "ensure":
            e = emit("ensure %d" % beyond())
        elif k == "truncate":
            e = emit("truncate %d" % beyond())
        elif k == "write":
            n = rng.choice([1, 3, PS, PS + 1, 2 * PS + 5])
            off = max(0, beyond() - rng.choice([0, 1, n, n - 1, n + 1, PS]))
            e = emit("write %d %s" % (off, stream(rng.u64(), n).hex()))
        elif k == "copy":
            n = rng.choice([1, 3, PS, PS + 1])
            e = emit(copy_line(pick_off(rng, o, max(0, o.size - 1)), n, max(0, beyond() - rng.choice([0, 1, n]))))
        elif k == "addmm":  # a window at or past the end of the file: registered, nothing mapped
            off = rup(o.size) + rng.choice([0, 0, PS, 2 * PS])
            e = emit("addmm %d %d %d" % (off, rng.choice([PS, 2 * PS, HUGE[1]]), flags()))
            emit("probe %d" % off)
        elif k == "misc":  # calls that shrink, remap or sync: the limit does not concern them
            e = emit(rng.choice(["sync", "remap", "truncate %d" % max(0, o.size - rng.choice([1, PS, 2 * PS])),
                                 "rmmm %d" % (rng.choice(o.wins).off if o.wins else 0)]))
        elif k == "within":  # growth the limit allows
            L = o.lim if o.lim is not None else o.size
            e = emit(rng.choice(["ensure %d", "truncate %d"]) % max(0, L // PS * PS - rng.choice([0, 0, 1, PS])))
        else:
            emit("close")
            e = emit(open_line(0))
        if e.get("rc") == ["IOERR"]:
            run.dist("refused-call:" + lines[-1].split()[0])
            if o.opened:
                look()

    for it in range(nops):
        lim = min(12 * PS, o.maxoff + 1) if o.maxoff and not rng.chance(1, 6) else 12 * PS
        if not o.opened:
            emit(open_line(0 if o.exists else 1))  # (the file of the previous script is still there until an open has truncated it)
            if it == start_at:
                start_at += 1
            continue
        if it == start_at:
            emit("limit %d" % (o.size + rng.choice([0, 0, 0, 1, PS - 1, PS, PS, PS + 1, 2 * PS, 3 * PS + 100])))
            left = rng.range(3, 9)
        if left > 0:
            left -= 1
            if rng.chance(3, 4):
                refusal_op()
                if left == 0:
                    L = o.lim
                    emit("limit -1")
                    if o.opened and rng.chance(1, 2):  # the request that was refused is granted now
                        emit("ensure %d" % (L + rng.choice([1, PS, 2 * PS])))
                        look()
                continue
            if left == 0:
                emit("limit -1")
        k = rng.weighted([("write", 30), ("read", 26), ("copy", 10), ("truncate", 7), ("ensure", 5), ("addmm", 5),
                          ("rmmm", 3), ("probe", 3), ("sync", 1), ("remap", 1), ("state", 1), ("reopen", 3), ("edge", 2),
                          ("syncmm", 2), ("acquire", 3), ("rawfile", 2), ("readonly", 1)])
        if k in ("rawfile", "readonly") and o.lim is not None:
            k = "state"  # the harness itself could not write the foreign file under RLIMIT_FSIZE
        run.dist("op:" + k)
        if k == "write":
            off = pick_off(rng, o, lim)
            n = pick_len(rng, o, off, lim) if not rng.chance(1, 40) else 0
            n = min(n, 3 * PS + 5)
            d = stream(rng.u64(), n)
            emit("write %d %s" % (off, d.hex() if d else "-"))
        elif k == "read":
            off = pick_off(rng, o, lim if rng.chance(1, 6) else max(0, o.size - 1))
            emit("read %d %d" % (off, min(pick_len(rng, o, off, lim), 5 * PS)))
        elif k == "copy":
            off = pick_off(rng, o, lim)
            n = min(pick_len(rng, o, off, lim), 2 * PS + 3)
            noff = rng.choice([pick_off(rng, o, lim), max(0, off + rng.choice([-n - 1, -n, -n + 1, -1, 1, n - 1, n, n + 1]))])
            far = rng.chance(1, 5)
            if far:  # overlapping ranges a chunk (4096 bytes, iwp_copy_bytes) or more apart, in either direction: the order of the chunks matters
                dist = rng.choice([PS - 1, PS, PS + 1, 2 * PS - 1, 2 * PS, 2 * PS + 1])
                n = dist + rng.choice([1, 7, PS - 1, PS, PS + 5])
                noff = max(0, off + dist if rng.chance(2, 3) else off - dist)
                run.dist("copy:far-overlap")
            emit(copy_line(off, n, noff))
            if far and o.opened:
                emit("read %d %d" % (noff, n))
        elif k == "truncate":
            emit("truncate %d" % pick_off(rng, o, lim))
        elif k == "ensure":
            emit("ensure %d" % pick_off(rng, o, lim))
        elif k == "addmm":
            off = rng.choice([pick_off(rng, o, lim) // PS * PS] * 4 + [pick_off(rng, o, lim)])
            emit("addmm %d %d %d" % (off, rng.choice([0, 1, PS - 1, PS, PS + 1, 2 * PS, 3 * PS] + HUGE), flags()))
        elif k == "rmmm":
            emit("rmmm %d" % (rng.choice(o.wins).off if o.wins and rng.chance(4, 5) else rng.range(0, 6) * PS))
        elif k == "probe":
            emit("probe %d" % (rng.choice(o.wins).off if o.wins and rng.chance(4, 5) else rng.range(0, 6) * PS))
        elif k in ("sync", "remap", "state"):
            emit(k)
        elif k == "syncmm":
            emit("syncmm %d" % (rng.choice(o.wins).off if o.wins and rng.chance(4, 5) else rng.range(0, 6) * PS))
        elif k == "acquire":
            # under locks a failed acquire is the open finding (the lock is kept): generated only when it is to be reported
            mapped = [w for w in o.wins if w.len]
            if mapped and (rng.chance(4, 5) or (o.locks and not OPEN)):
                e = emit("acquire %d" % rng.choice(mapped).off)
                if rng.chance(1, 4):
                    emit("read %d %d" % (pick_off(rng, o, max(0, o.size - 1)), rng.choice([1, 7, PS])))  # reading under the read lock
                emit("release")
            elif not (o.locks and not OPEN):
                e = emit("acquire %d" % (rng.range(0, 6) * PS + rng.choice([0, 0, 1])))
                if e.get("acq"):
                    emit("release")  # it happened to name a mapped window
        elif k == "rawfile":
            # a file of arbitrary length made outside the library, opened without OTRUNC: the open pads it to a page multiple
            emit("close")
            emit("raw %d %d" % (rng.choice([0, 1, 100, PS - 1, PS, PS + 1, 2 * PS + 17, 3 * PS, 5 * PS - 1, rng.range(1, 6 * PS)]), rng.range(0, 250)))
            emit(open_line(0))
            if o.opened:
                emit("read %d %d" % (max(0, o.size - PS - 3), PS + 8))
                emit("read 0 %d" % min(o.size, 3 * PS))
        elif k == "readonly":
            # the same file opened read-only: allowed only when nothing has to change
            emit("close")
            if rng.chance(1, 2):
                emit("raw %d %d" % (rng.choice([PS, 2 * PS, PS + 1, 100, 3 * PS - 1, 0]), rng.range(0, 250)))
            emit("openro %d %d def" % (rng.choice([0, 0, 0, 1, len(o.kernel), len(o.kernel) + 1, PS]), rng.choice([0, 0, 16 * PS])))
            if o.opened:
                emit("read 0 %d" % min(o.size, 3 * PS))
                emit("read %d %d" % (max(0, o.size - 5), 10))
                emit(rng.choice(["state", "probe 0", "write 0 aa", "truncate 0", "syncmm 0"]))
                if R7:  # writes and copies on the read-only handle, through windows and through the file
                    emit("rowrites 1")
                    if rng.chance(3, 4):
                        emit("addmm %d %d %d" % (rng.choice([0, 0, PS]), rng.choice([PS, 2 * PS, HUGE[1]]), rng.choice([0, 0, 1])))
                    for _ in range(rng.range(1, 4)):
                        at = pick_off(rng, o, max(0, o.size - 1))
                        emit(rng.choice(["write %d %s" % (at, stream(rng.u64(), rng.choice([1, 5, PS])).hex()),
                                         "copy %d %d %d" % (at, rng.choice([1, 7, PS]), pick_off(rng, o, max(0, o.size - 1))),
                                         "write %d aa" % (o.size + rng.choice([0, 1, PS]))]))
                        emit("read %d %d" % (max(0, at - 2), 12))
                    emit("rowrites 0")
                emit("close")
            emit(open_line(0))
        elif k == "reopen":
            emit("close")
            emit(open_line(0))
            if o.opened and rng.chance(1, 2):
                emit("addmm 0 %d %d" % (rng.choice(HUGE + [2 * PS]), flags()))
        elif k == "edge":
            emit(rng.choice(["write -1 aa", "write %d aabbcc" % (OFFMAX - 1), "read -5 3", "read %d 9" % (OFFMAX - 3),
                             "read %d 7" % (o.size + rng.choice([0, 1, PS])), "write %d 0102" % (1 << 62) if o.maxoff else "state",
                             "ensure 0", "truncate 0"] +
                            (["ensure -1", "truncate -1", "copy 0 10 -11", "ensure -%d" % PS, "truncate -%d" % (2 * PS), "copy 5 3 -9"] * 2 if R7 else [])))
            if R7 and o.opened:
                emit("state")
                emit("read 0 %d" % min(o.size, 2 * PS))
    if o.lim is not None:
        if o.opened and rng.chance(1, 2):  # what the next open sees while the limit is still in force
            emit("close")
            emit("open 0 0 0 def")
            if o.opened:
                emit("read 0 %d" % min(o.size, 5 * PS))
        emit("limit -1")
    if o.opened and rng.chance(1, 2):
        emit("read 0 %d" % min(o.size, 5 * PS))
        emit("close")
        emit("open 0 0 0 def")
        emit("read 0 %d" % min(len(o.kernel), 5 * PS))
    if use_locks:
        if o.opened:
            emit("close")
        emit("locks 0")
    return lines


# directed family: every way to ask for growth x every resize policy x window layouts, under a limit at/just above the size
REF_POLS = [["def"], ["fibo"], ["mul", "3", "2"], ["mul", "2", "1"], ["muln"]]
REF_LAYOUTS = ["none", "whole", "whole-private", "first+past-end", "several"]
REF_KINDS = ["ensure", "truncate", "write", "write-gap", "copy", "open-initial"]


def refusal_script(rng, run, pol, layout, kind):
    o = Oracle()
    lines = []

    def emit(l):
        lines.append(l)
        e = o.apply(l.split())
        if l.startswith("copy"):
            o.finish_copy(e, "OK" if e["rc"] == ["OK"] else "OVERFLOW")
        return e

    def look():
        emit("state")
        for w in list(o.wins):
            emit("probe %d" % w.off)
        emit("read %d %d" % (max(0, o.size - 3 * PS), 4 * PS))
        emit("read 0 64")

    k0 = rng.range(1, 3)
    mo = rng.choice([0, 0, 16 * PS, 9 * PS + 1])
    emit("open 1 %d %d %s" % (k0 * PS - rng.choice([0, 1]), mo, " ".join(pol)))
    if layout == "whole":
        emit("addmm 0 %d 0" % HUGE[1])
    elif layout == "whole-private":
        emit("addmm 0 %d 1" % HUGE[1])
    elif layout == "first+past-end":
        emit("addmm 0 %d 0" % PS)
        emit("addmm %d %d 0" % (o.size + PS, 2 * PS))
    elif layout == "several":
        emit("addmm 0 %d 0" % PS)
        emit("addmm %d %d 1" % (PS, 2 * PS))
        emit("addmm %d %d 0" % (4 * PS, HUGE[0]))
    emit("write 10 %s" % stream(rng.u64(), 40).hex())
    emit("write %d %s" % (o.size - 3, stream(rng.u64(), 3).hex()))
    if pol[0] == "fibo" and rng.chance(1, 2):
        emit("ensure %d" % (o.size + 1))  # gives the fibonacci context a history
    L = o.size + rng.choice([0, 0, 1, PS - 1, PS, PS + 1, 2 * PS])
    emit("limit %d" % L)
    want = rng.choice([L + 1, rup(L) + 1, L + PS, L + 4 * PS + 7])
    if kind == "ensure":
        emit("ensure %d" % want)
    elif kind == "truncate":
        emit("truncate %d" % want)
    elif kind == "write":
        emit("write %d %s" % (want - 1, stream(rng.u64(), rng.choice([1, 2, PS + 1])).hex()))
    elif kind == "write-gap":
        emit("write %d %s" % (o.size - 2, stream(rng.u64(), want - o.size + 2 if want - o.size < 3 * PS else 2 * PS).hex()))
        emit("ensure %d" % want)
    elif kind == "copy":
        emit("copy 8 %d %d" % (rng.choice([1, 16, 40]), want - 1))
    elif kind == "open-initial":
        emit("close")
        emit("open 0 %d %d %s" % (want, mo, " ".join(pol)))
        if not o.opened:
            emit("open 0 0 %d %s" % (mo, " ".join(pol)))
            if layout != "none":
                emit("addmm 0 %d 0" % HUGE[1])
    run.dist("refusal-directed:" + kind)
    look()
    emit("sync")
    emit("remap")
    emit("addmm %d %d 0" % (rup(o.size) + 2 * PS * len(o.wins) + 8 * PS, PS))  # a window past the end, nothing mapped
    look()
    if rng.chance(1, 2) and L // PS * PS > o.size:
        emit("ensure %d" % (L // PS * PS))  # may be refused too when the policy asks for more than the limit
        look()
    if rng.chance(1, 2):  # next open under the limit, then without
        emit("close")
        emit("open 0 0 0 def")
        look()
    emit("limit -1")
    emit("ensure %d" % want)
    look()
    emit("close")
    emit("open 0 0 0 def")
    emit("read 0 %d" % (len(o.kernel) + 1))
    return lines


# ------------------------------------------------------------------------------------------------
# mmap refusal (VERIF_C12_MAPFAIL=0 switches it off).  `maplimit <d>` (RLIMIT_AS = current + d) makes a window growth of
# more than d bytes fail with ENOMEM.  The library had a confirmed defect here, repaired by 70a7dcd (notes/exf.md,
# fixes/exf-mmap-failed-growth.diff); the Coq model does not represent mmap failures: these scripts are run on the
# implementation only and judged by the oracle: a call that answers an error must leave size, file and bytes unchanged,
# and nothing may fault afterwards.
def mapfail_scripts():
    # the model keeps the file as a list of bytes: the growth is kept at 512 KiB, the slack at 64 KiB (16 pages; the windows of the
    # layouts below hold 2-3 pages, the harness allocates nothing of that size while the limit is in force)
    big, slack = 128 * PS, 16 * PS
    layouts = [["addmm 0 %d 0" % HUGE[1]], ["addmm 0 %d 0" % PS, "addmm %d %d 0" % (PS, HUGE[0])],
               ["addmm %d %d 2" % (PS, HUGE[0])]]
    grows = ["ensure %d" % big, "truncate %d" % big, "write %d aa" % (big - 1), "copy 0 5 %d" % (big - 5)]
    out = []
    for lay in layouts:
        probes = ["probe %s" % a.split()[1] for a in lay]
        for g in grows:
            out.append(["open 1 %d 0 def" % (2 * PS)] + lay +
                       ["write 0 68656c6c6f", "write %d 0102" % (2 * PS - 2), "maplimit %d" % slack, g, "state"] + probes +
                       ["read 0 5", "read %d 4" % (2 * PS - 3), "write 3 ff", "read 0 5"] +
                       ["syncmm %s" % a.split()[1] for a in lay] + ["acquire %s" % lay[0].split()[1], "release", "maplimit -1", "remap"] + probes +
                       ["ensure %d" % (3 * PS), "read 0 5", "read %d 4" % (2 * PS - 3), "close", "open 0 0 0 def", "read 0 5"])
    return out


# ------------------------------------------------------------------------------------------------
# the plain file underneath (src/fs/iwfile.c): option normalisation, open status, what the next open sees, counts at EOF.
# Oracle written from iwfile.h: "IWFS_OREAD is always set", "IWFS_OTRUNC: truncate, implies IWFS_OWRITE|IWFS_OCREATE"-style rules.
O_READ, O_WRITE, O_CREATE, O_TRUNC, O_UNLINK, O_TMP = 1, 2, 4, 8, 16, 32
L_R, L_W, L_NB = 1, 2, 4


def fnorm(om, lk):
    om = om or O_CREATE
    om |= O_READ
    if om & O_TMP:
        om |= O_TRUNC
        lk |= L_W
    if om & O_TRUNC:
        om |= O_WRITE | O_CREATE
    if om & O_UNLINK:
        om |= O_WRITE
    if om & O_CREATE:
        om |= O_WRITE
    if not om & O_WRITE:
        lk &= ~L_W
    return om, lk


class FOracle:
    def __init__(self):
        self.k = None  # bytes of <path>.raw or None
        self.h = None  # open handle: dict(om, lk, os, data, tmp)

    def size(self):
        return len(self.h["data"]) if self.h else (-1 if self.k is None else len(self.k))

    def rawsize(self):
        """size of <path>.raw itself (an IWFS_OTMP handle is another file)"""
        if self.h and not self.h["tmp"]:
            return len(self.h["data"])
        return -1 if self.k is None else len(self.k)

    def close(self):
        if self.h and not self.h["tmp"]:
            self.k = None if self.h["om"] & O_UNLINK else bytes(self.h["data"])
        self.h = None

    def apply(self, t):
        """returns the expected answer line without the trailing fstat, and the expected fstat"""
        op = t[0]
        if op == "fraw":
            if self.h:
                return "fraw ERR", self.rawsize()
            self.k = pattern(int(t[1]), int(t[2]))
            return "fraw OK", self.size()
        if op == "frm":
            if self.h or self.k is None:
                return "frm ERR", self.rawsize()
            self.k = None
            return "frm OK", -1
        if op == "fopen":
            self.close()
            om, lk = fnorm(int(t[1]), int(t[2]))
            tmp = bool(om & O_TMP)
            k = None if tmp else self.k
            if k is None and not (om & O_WRITE and om & O_CREATE):
                return "fopen NOTEXISTS open=0 os=0 om=0 lk=0 fm=0 tmp=0", self.size()
            ost = 1 if (k is None or om & O_TRUNC) else 2
            data = bytearray() if (k is None or om & O_TRUNC) else bytearray(k)
            if not tmp:
                self.k = bytes(data)
            self.h = {"om": om, "lk": lk, "os": ost, "data": data, "tmp": tmp}
            return "fopen OK open=1 os=%d om=%d lk=%d fm=666 tmp=%d" % (ost, om, lk, 1 if tmp else 0), self.size()
        if not self.h:
            return "%s NOTOPEN" % op, self.size()
        h = self.h
        if op == "fwrite":
            off, d = int(t[1]), (bytes.fromhex(t[2]) if t[2] != "-" else b"")
            if not h["om"] & O_WRITE:
                return "fwrite READONLY x", self.size()
            if d:
                if len(h["data"]) < off:
                    h["data"] += bytes(off - len(h["data"]))
                h["data"][off:off + len(d)] = d
            return "fwrite OK %d" % len(d), self.size()
        if op == "fread":
            off, n = int(t[1]), int(t[2])
            b = bytes(h["data"][off:off + n])
            return "fread OK %d %s" % (len(b), b.hex() if b else "-"), self.size()
        if op == "fcopy":
            off, siz, noff = int(t[1]), int(t[2]), int(t[3])
            if not h["om"] & O_WRITE:
                return "fcopy READONLY", self.size()
            b = bytes(h["data"][off:off + siz])  # (a forward overlap is moved back to front since 8dc0de1: same result)
            if b:
                if len(h["data"]) < noff:
                    h["data"] += bytes(noff - len(h["data"]))
                h["data"][noff:noff + len(b)] = b
            return "fcopy OK", self.size()
        if op == "fsync":
            return "fsync OK", self.size()
        if op == "fstate":
            return "fstate OK open=1 os=%d om=%d lk=%d" % (h["os"], h["om"], h["lk"]), self.size()
        if op == "fclose":
            left = -1 if h["om"] & O_UNLINK else self.size()
            self.close()
            return "fclose OK", left
        return "%s BADOP" % op, None


def run_foracle(script, out):
    o = FOracle()
    for i, l in enumerate(script):
        t = l.split()
        if i >= len(out):
            return i, "no answer (harness died)"
        exp, st = o.apply(t)
        want = exp if st is None else "%s fstat=%d" % (exp, st)
        if out[i].strip() != want:
            return i, "plain file: answered `%s`, iwfile.h says `%s`" % (out[i].strip()[:120], want[:120])
    return None


def gen_fscript(rng, run):
    """open modes x lock modes x existing/missing/foreign file, reads and writes around the end of the file, copies"""
    o = FOracle()
    lines = []

    def emit(l):
        lines.append(l)
        o.apply(l.split())

    for _ in range(rng.range(2, 5)):
        pre = rng.weighted([("keep", 4), ("remove", 2), ("foreign", 2)])
        if pre == "remove":
            emit("frm")
        elif pre == "foreign":
            emit("fraw %d %d" % (rng.choice([0, 1, 17, PS - 1, PS, PS + 5, 2 * PS + 1]), rng.range(0, 250)))
        om = rng.choice([0, 1, 2, 3, 4, 6, 8, 9, 12, 16, 17, 18, 24, 32, 33, 48, rng.range(0, 63)])
        lk = rng.choice([0, 0, 0, 1, 2, 3, 4, 5, 6, 7])
        run.dist("fopen:omode=%d" % om)
        emit("fopen %d %d" % (om, lk))
        emit("fstate")
        if not o.h:
            continue
        fwd_seen = False
        for _ in range(rng.range(2, 9)):
            sz = len(o.h["data"])
            at = max(0, rng.choice([0, sz, sz, sz - 1, sz + 1, sz - 3, sz + PS, PS, PS - 1, 4096, 4097]) + rng.choice([0, 0, 0, -1, 1]))
            k = rng.weighted([("fwrite", 5), ("fread", 6), ("fcopy", 3), ("fsync", 1), ("fstate", 1)])
            run.dist("fop:" + k)
            if k == "fwrite":
                n = rng.choice([0, 1, 2, 5, 100, PS, PS + 1])
                emit("fwrite %d %s" % (at, stream(rng.u64(), n).hex() if n else "-"))
            elif k == "fread":
                emit("fread %d %d" % (at, rng.choice([0, 1, 3, 10, PS, 2 * PS + 1, sz + 5])))
            elif k == "fcopy" and not fwd_seen:
                # the source lies inside the file: a copy whose source reaches beyond the end while its destination extends the
                # file feeds on the bytes it has just written (chunk loop of iwp_copy_bytes) - left to the model (T2), not judged
                n = rng.choice([0, 1, 5, 100, PS, PS + 7, 4096 + 4096 + 1])
                at = min(at, sz)
                n = min(n, sz - at)
                if sz > 4096 + 10 and rng.chance(1, 3):  # overlapping, a chunk or more apart: the chunk order decides
                    at = rng.choice([0, 1, 7])
                    n = min(sz - at, 4096 + rng.choice([1, 9, 4096, 5000]))
                    emit("fcopy %d %d %d" % (at, n, at + rng.choice([4096, 4097, n - 1])))
                    emit("fread 0 %d" % (at + 2 * n + 10))
                    continue
                noff = max(0, rng.choice([at - n, at - n - 1, at + n, at + n + 1, at - 1, 0, sz, sz + 10] + ([at + 1, at + n - 1] if rng.chance(1, 4) else [])))
                emit("fcopy %d %d %d" % (at, n, noff))
            else:
                emit(k if k in ("fsync", "fstate") else "fstate")
        if rng.chance(4, 5):
            emit("fclose")
    emit("fclose") if o.h else None
    emit("frm") if o.k is not None else None
    return lines


def leak_check(run, impl, tmp):
    """a failed open keeps nothing: the descriptor count of the process is the same before and after opens that fail
    after the file itself was opened (initial size beyond maxoff; initial growth refused by the operating system) - ab38eae"""
    s = ["nfd"] + ["open 1 %d %d def" % (8 * PS, 2 * PS)] * 5 + ["limit %d" % (2 * PS)] + ["open 1 %d 0 def" % (8 * PS)] * 5 + ["limit -1", "nfd"]
    rc, out, err = vlib.run_lines([impl, tmp], "\n".join(s) + "\n", timeout=120)
    run.dist("open-fail-leak-script")
    out = [l for l in out if l.strip()]
    fails = [l for l in out[1:6] + out[7:12] if l.split()[1:2] == ["OK"]]
    if len(out) < len(s) or fails:
        run.broken.append("C12 leak script: the opens meant to fail did not (%r)" % (out[:13],))
    elif out[0] != out[-1]:
        run.violation({"script": s, "impl": [out[0], out[-1]], "kind": "open-fail-leak"},
                      "ten failed opens left descriptors behind: %s before, %s after" % (out[0], out[-1]))


def flock_leak_check(run, impl, tmp):
    """bfa27a0: iwfs_file_open closes the descriptor it opened when iwp_flock fails (five refused opens keep the count)"""
    s = ["fhold 1", "nfd"] + ["fopen 2 6"] * 5 + ["nfd", "fhold 0", "fopen 2 6", "fclose", "frm"]
    rc, out, err = vlib.run_lines([impl, tmp], "\n".join(s) + "\n", timeout=120)
    run.dist("flock-fail-leak-script")
    out = [l for l in out if l.strip()]
    if len(out) < len(s) or any(l.split()[1:2] != ["IOERR"] for l in out[2:7]) or out[9].split()[1:2] != ["OK"]:
        run.broken.append("C12 flock script: unexpected answers (%r)" % (out[:10],))
    elif out[1] != out[7]:
        run.violation({"script": s, "impl": [out[1], out[7]], "kind": "flock-fail-leak"},
                      "five opens refused by flock left descriptors behind: %s before, %s after" % (out[1], out[7]))


# directed scripts for the four repaired findings
def open_finding_scripts():
    return [
        # a maximum below one page
        ["open 1 0 100 def", "write 0 %s" % ("07" * 300), "state", "write %d 01" % (10 * PS), "close"],
        # a forward-overlapping copy through the file: refused, but only after the file has grown; through a window it is carried out
        ["open 1 %d 0 def" % (3 * PS), "write 0 0102030405", "copy 0 %d %d" % (3 * PS, 2 * PS), "state", "read %d 5" % (2 * PS),
         "addmm 0 %d 0" % (64 * PS), "copy 0 %d %d" % (3 * PS, 2 * PS), "read %d 5" % (2 * PS), "close"],
        # overlapping copies whose ranges are one chunk or more apart, every byte read back: without a window, across the edge of a
        # window over the first page, and inside a whole-file window
        ["open 1 %d 0 def" % (3 * PS), "write 0 %s" % stream(71, 3 * PS).hex(), "copy 0 %d %d" % (2 * PS, PS), "read 0 %d" % (3 * PS),
         "copy 0 %d %d" % (3 * PS, 2 * PS), "read 0 %d" % (5 * PS), "copy %d %d 0" % (PS + 1, 3 * PS), "read 0 %d" % (5 * PS), "close"],
        ["open 1 %d 0 def" % (4 * PS), "addmm 0 %d 0" % PS, "write 0 %s" % stream(72, 4 * PS).hex(), "copy 100 %d %d" % (2 * PS, PS + 100),
         "read 0 %d" % (4 * PS), "copy %d %d 50" % (PS + 50, 2 * PS + 7), "read 0 %d" % (4 * PS), "close"],
        ["open 1 %d 0 def" % (4 * PS), "addmm 0 %d 0" % HUGE[1], "write 0 %s" % stream(73, 4 * PS).hex(), "copy 0 %d %d" % (2 * PS + 9, PS),
         "read 0 %d" % (4 * PS), "close"],
        # acquire_mmap of an offset without a window keeps the read lock
        ["locks 1", "open 1 %d 0 def" % PS, "acquire %d" % (2 * PS), "write %d aa" % (2 * PS), "open 1 %d 0 def" % PS, "acquire 0",
         "truncate %d" % (2 * PS), "locks 0"],
    ]


def overlap_leak_check(run, impl, tmp):
    """fixes/exf-addmmap-overlap-leak.diff: _exfile_add_mmap_lw maps the new window before the overlap test and frees the slot without
    munmap when it answers IWFS_ERROR_MMAP_OVERLAP: 40 refused windows of 16 MiB each must not leave 640 MiB of address space behind"""
    big = 16 << 20
    s = ["open 1 %d 0 def" % big, "addmm 0 %d 0" % PS, "vmkb"] + ["addmm 0 %d 0" % HUGE[1]] * 40 + ["vmkb", "close"]
    rc, out, err = vlib.run_lines([impl, tmp], "\n".join(s) + "\n", timeout=120)
    run.dist("addmmap-overlap-leak-script")
    out = [l for l in out if l.strip()]
    if len(out) < len(s) or any(l.split()[1:2] != ["OVERLAP"] for l in out[3:43]):
        run.broken.append("C12 overlap script: unexpected answers (%r)" % (out[:6],))
        return
    before, after = int(out[2].split()[1]), int(out[43].split()[1])
    if after - before > (big >> 10) * 4:
        run.violation({"script": s[:6] + ["..."] + s[-2:], "impl": [out[2], out[43]], "kind": "addmmap-overlap-leak"},
                      "40 windows refused with OVERLAP left their mappings behind: address space %d KiB before, %d KiB after" % (before, after))


def mapfail_check(run, impl):
    tmp = "/tmp/exf-mapfail-%d.dat" % os.getpid()
    leak_check(run, impl, tmp)
    if OPEN:
        flock_leak_check(run, impl, tmp)
    if R7:
        overlap_leak_check(run, impl, tmp)


# ------------------------------------------------------------------------------------------------
def run_scripts(impl, model, scripts, tag):
    """runs all scripts on both sides in parallel chunks; returns per script (impl lines, model lines)"""
    nchunk = max(1, min(vlib.NCPU, len(scripts)))
    chunks = [[] for _ in range(nchunk)]
    for i, s in enumerate(scripts):
        chunks[i % nchunk].append(i)
    tmpd = "/tmp/exf-%s-%d" % (tag, os.getpid())
    os.makedirs(tmpd, exist_ok=True)
    res_i, res_m, errs = {}, {}, []

    def work(k):
        idx = chunks[k]
        text = "".join("\n".join(scripts[i]) + "\n" for i in idx)
        rc1, o1, e1 = vlib.run_lines([impl, os.path.join(tmpd, "f%d.dat" % k)], text, timeout=900)
        rc2, o2, e2 = vlib.run_lines(model, text, timeout=900)
        if rc1 != 0:
            errs.append("implementation harness exited %d: %s" % (rc1, e1[-300:]))
        if rc2 != 0:
            errs.append("model driver exited %d: %s" % (rc2, e2[-300:]))
        p = 0
        for i in idx:
            n = len(scripts[i])
            res_i[i] = o1[p:p + n]
            res_m[i] = o2[p:p + n]
            p += n

    try:
        with ThreadPoolExecutor(nchunk) as ex:
            list(ex.map(work, range(nchunk)))
    finally:
        shutil.rmtree(tmpd, ignore_errors=True)
    return res_i, res_m, errs


def corpus_scripts():
    d = os.path.join(vlib.VERIF, "corpus", "C12")
    out = []
    for dd in [d] + ([os.path.join(d, "pending")] if R7 else []):  # pending/: replays of findings whose repair is not committed yet
        if os.path.isdir(dd):
            for cf in sorted(os.listdir(dd)):
                if not os.path.isfile(os.path.join(dd, cf)):
                    continue
                ls = [l.strip() for l in open(os.path.join(dd, cf)) if l.strip() and not l.startswith("#")]
                if ls:
                    out.append(ls)
    return out


def check(run):
    rng = run.rng
    proofs_ok = run.proofs()
    impl = vlib.build_harness("h_exf")
    model = vlib.build_model("exf")
    N = 500 if run.tier == "quick" else 30000
    if not proofs_ok:
        N *= 10
    scripts = corpus_scripts()
    ncorp = len(scripts)
    for rep_ in range(1 if run.tier == "quick" and proofs_ok else 6):
        for pol in REF_POLS:
            for layout in REF_LAYOUTS:
                for kind in REF_KINDS:
                    scripts.append(refusal_script(rng.fork(), run, pol, layout, kind))
    for _ in range(N):
        scripts.append(gen_script(rng.fork(), run))
    # mmap refusal (RLIMIT_AS): through the model as well since the deepening round (os_map oracle)
    for s_ in mapfail_scripts():
        run.dist("mapfail-script")
        scripts.append(s_)
    if OPEN:
        scripts += open_finding_scripts()
    # the plain file underneath: scripts of f-commands, judged by their own oracle
    nfs = len(scripts)
    for _ in range(N // 4):
        scripts.append(gen_fscript(rng.fork(), run))
    mapfail_check(run, impl)
    res_i, res_m, errs = run_scripts(impl, model, scripts, "c12")
    for e in errs[:2]:
        run.broken.append("T2 harness: " + e)
    nmis, first, nlines = 0, None, 0
    for i, s in enumerate(scripts):
        oi, om = res_i.get(i, []), res_m.get(i, [])
        nlines += len(s)
        bad = [j for j in range(len(s)) if (oi[j] if j < len(oi) else "<missing>") != (om[j] if j < len(om) else "<missing>")]
        if bad:
            nmis += 1
            if first is None:
                j = bad[0]
                first = (i, j, s[j][:80], oi[j][:120] if j < len(oi) else None, om[j][:120] if j < len(om) else None)
                if os.environ.get("VERIF_DEBUG"):
                    json.dump({"script": s, "impl": oi, "model": om}, open("/tmp/exf-mismatch.json", "w"), indent=1)
        v = run_oracle(s, oi) if i < nfs else run_foracle(s, oi)
        run.case("\n".join(s), nontrivial=len(s) > 3,
                 sample=({"script_head": s[:6], "impl_head": oi[:6], "ops": len(s)} if i % max(1, len(scripts) // 5) == 0 else None))
        if v and len(run.violations) < 5:
            j, why = v
            run.violation({"script": s[:j + 1], "failing_op": s[j][:200], "impl": oi[j] if j < len(oi) else None,
                           "kind": "corpus" if i < ncorp else "generated" if i < nfs else "plainfile"},
                          "op %d `%s`: %s" % (j, s[j][:80], why))
    run.cov["traces_validated_against_impl"] = len(scripts) - nmis
    run.cov["op_lines"] = nlines
    if nmis:
        run.broken.append("T2 correspondence: %d of %d scripts differ, first: script %d op %d `%s` impl=`%s` model=`%s`"
                          % ((nmis, len(scripts)) + first))
    return run.finish(level=LEVEL,
                      rule="a case is one script of 12-90 calls (open with initial size/maxoff/policy, with or without use_locks, window "
                           "layout none/whole/first/partial/several, shared or private, then writes/reads/copies/truncations/size requests/"
                           "window additions and removals/probe/acquire+release/sync_mmap/close+reopen with offsets and lengths placed "
                           "-1/0/+1 around window edges, EOF, maxoff and page boundaries; files of arbitrary length made outside the library "
                           "and opened without OTRUNC, read-write and read-only; one script in three has an OS-refusal episode: RLIMIT_FSIZE "
                           "lowered to the size + {0,1,page-1,page,...}, growth requests of every kind beyond and within it, a look at "
                           "size/windows/bytes after every refused call, limit lifted, reopen; plus the directed families policy x layout x "
                           "kind of growth request and layout x kind of growth under an address-space limit (mmap refused); plus scripts on "
                           "the plain file underneath: open modes x lock modes x existing/missing/foreign file, reads/writes/copies around "
                           "EOF); distinct = distinct script text",
                      assumptions=["mmap coherence between a MAP_SHARED mapping and pread/pwrite is trusted (Linux)",
                                   "bytes written through a MAP_PRIVATE window are compared by the oracle only until that window is "
                                   "remapped or removed (that is what MAP_PRIVATE means; theorem C12_private_read_last_write states "
                                   "exactly this); the Coq model is compared exactly",
                                   "file I/O is complete (no short transfers) in the model; the OS failures modelled and injected are the "
                                   "refusal to grow the file (RLIMIT_FSIZE/EFBIG standing for ENOSPC/EDQUOT) and the refusal to map a "
                                   "window (RLIMIT_AS/ENOMEM; the model refuses by a budget on the bytes mapped by the windows): "
                                   "shrinking, msync and flock are not failed",
                                   "the injected limit is never below the current file size (pwrite inside the file cannot fail)",
                                   "the four findings of the deepening round (small maxoff = unlimited, forward-overlapping copy through "
                                   "the file refused after growth, failed acquire_mmap keeps the read lock, flock failure leaks the "
                                   "descriptor) are repaired in /repo; the oracle demands the repaired behaviour, the model follows the "
                                   "tree through behavioural facts"])


def replay(run, path):
    r = json.load(open(path))
    if "script" not in r:
        print(json.dumps(r, indent=1))
        return 1
    impl = vlib.build_harness("h_exf")
    tmp = "/tmp/exf-replay-%d.dat" % os.getpid()
    rc, out, err = vlib.run_lines([impl, tmp], "\n".join(r["script"]) + "\n")
    for l, o in zip(r["script"], out):
        print("%-60s -> %s" % (l[:60], o[:100]))
    v = (run_foracle if r.get("kind") == "plainfile" else run_oracle)(r["script"], out)
    print("note:", r.get("note"))
    if v:
        print("still failing: op %d: %s" % v)
        return 1
    print("no longer failing")
    return 0
