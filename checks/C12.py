# C12 - reads through the extensible file return the bytes last written; size rules
#
# Scripts of calls are run on (1) the real iwexfile.c through harness/h_exf.c, (2) the extracted Coq model
# coq/FS/Exf.v through ml/driver_exf.ml (T2: every answer line must be identical), and are judged by
# (3) the oracle below: a flat python bytearray + size rules, written from the property statement and the
# header documentation, sharing no code with the model.
#
# OS-refusal injection (round 4): the script command `limit <n>` lowers RLIMIT_FSIZE of the harness process to n bytes
# (SIGXFSZ ignored; `limit -1` lifts it), so every ftruncate/fallocate/write beyond n fails with EFBIG.  The model gets
# the same oracle (`os_limit n`), the python oracle refuses every growth beyond n: the call must answer IOERR and the
# size, the file on disk, the windows and every byte must be what they were; close + reopen must see that size.
import os, json, hashlib, shutil, copy
from concurrent.futures import ThreadPoolExecutor
import vlib

LEVEL = "proof"
PS = os.sysconf("SC_PAGESIZE")
OFFMAX = (1 << 63) - 1
HUGE = [(1 << 63) - 1, (1 << 64) - 1]


def rup(x):
    return (x + PS - 1) // PS * PS


def stream(seed, n):
    out = b""
    c = 0
    while len(out) < n:
        out += hashlib.sha256(b"%d:%d" % (seed, c)).digest()
        c += 1
    return out[:n]


# ------------------------------------------------------------------------------------------------
# The oracle.  `data` is what a reader must see; unk[i]=1 marks bytes whose value the property leaves open
# (bytes written through a MAP_PRIVATE window once that window has been remapped/removed, and the targets of
# a copy that touches a private window): they are not compared until they are written again.
class Win:
    def __init__(self, off, maxlen, priv):
        self.off, self.maxlen, self.priv, self.len = off, maxlen, priv, 0


class Oracle:
    def __init__(self):
        self.kernel, self.kunk = bytearray(), bytearray()  # what survives close
        self.opened = False
        self.data = bytearray()
        self.unk = bytearray()
        self.pd = bytearray()
        self.wins = []
        self.maxoff = 0
        self.pol = ("def",)
        self.prev = 0
        self.lim = None  # RLIMIT_FSIZE in force (bytes) or None
        self.maplim = False  # opt-in scripts: an address-space limit is in force (a window may fail to grow)
        self.mapfailed = False  # ... and a call has answered ERRNO under it: windows may be unmapped from now on

    def refused(self, n, cur=None):
        """the operating system does not let the file grow to n bytes"""
        cur = self.size if cur is None else cur
        return self.lim is not None and n > cur and n > self.lim

    @property
    def size(self):
        return len(self.data)

    # -- size rules
    def policy(self, nsize):
        csize = self.size
        k = self.pol[0]
        if k == "fibo":
            r = rup(max(csize + self.prev, nsize))
            self.prev = csize
            return r
        if k == "mul":
            n, dn = self.pol[1], self.pol[2]
            if dn == 0 or n < dn:
                return rup(nsize)
            return rup(max(nsize // dn * n, nsize))  # "cannot be lesser than requested nsize" (iwexfile.h)
        return rup(nsize)

    def drop_private(self, w, upto=None):
        if not w.priv:
            return
        for i in range(w.off, min(w.off + w.len, self.size if upto is None else upto)):
            if self.pd[i]:
                self.unk[i] = 1
                self.pd[i] = 0

    def resize(self, n):
        old = self.size
        if n < old:
            for w in self.wins:
                nl = min(w.maxlen, max(0, n - w.off))
                if nl != w.len:
                    self.drop_private(w, n)
            del self.data[n:], self.unk[n:], self.pd[n:]
        else:
            for w in self.wins:
                nl = min(w.maxlen, max(0, n - w.off))
                if nl != w.len:
                    self.drop_private(w)
            z = bytes(n - old)
            self.data += z; self.unk += z; self.pd += z
        for w in self.wins:
            w.len = min(w.maxlen, max(0, n - w.off))

    def ensure(self, sz):
        if self.size >= sz:
            return "OK"
        n = self.policy(sz)
        if self.maxoff and n > self.maxoff:
            n = self.maxoff
            if n < sz:
                return "MAXOFF"
        if self.refused(n):
            return "IOERR"  # nothing changes (the policy was consulted: its context may have advanced)
        self.resize(n)
        return "OK"

    def in_private(self, i):
        for w in self.wins:
            if w.priv and w.off <= i < w.off + w.len:
                return True
        return False

    def touches_private(self, a, b):
        return any(w.priv and w.len and a < w.off + w.len and w.off < b for w in self.wins)

    # -- one call; returns the expectation: dict(rc=[allowed names], sp, data, mask, probe)
    def apply(self, t):
        op = t[0]
        if op == "limit":
            v = int(t[1])
            self.lim = None if v < 0 else v
            return {"rc": ["OK"], "raw": not self.opened}
        if op == "maplimit":
            self.maplim = int(t[1]) >= 0
            return {"rc": ["OK"], "raw": not self.opened}
        if op == "open":
            trunc, isz, mo = int(t[1]), int(t[2]), int(t[3])
            if self.opened:
                self.do_close()
            if trunc:
                self.kernel, self.kunk = bytearray(), bytearray()
            self.maxoff = mo // PS * PS if mo >= PS else 0
            self.pol = ("fibo",) if t[4] == "fibo" else ("mul", int(t[5]), int(t[6])) if t[4] == "mul" else ("def",)
            self.prev = 0
            self.wins = []
            size0 = len(self.kernel)
            n = size0
            if size0 < isz:
                n = rup(isz)
                if n > size0 and self.maxoff and n > self.maxoff:
                    return {"rc": ["MAXOFF"]}
            elif size0 % PS:
                n = rup(size0)
            if self.refused(n, size0):
                return {"rc": ["IOERR"]}  # no handle; the file keeps what it had (nothing, if it was truncated)
            self.data = bytearray(self.kernel); self.unk = bytearray(self.kunk); self.pd = bytearray(size0)
            self.opened = True
            self.resize(n)
            return {"rc": ["OK"]}
        if not self.opened:
            return {"rc": ["NOTOPEN"], "raw": True}
        if op == "write":
            off, d = int(t[1]), (bytes.fromhex(t[2]) if t[2] != "-" else b"")
            end = off + len(d)
            if off < 0 or end > OFFMAX:
                return {"rc": ["OOB"], "sp": 0}
            if self.maxoff and end > self.maxoff:
                return {"rc": ["MAXOFF"], "sp": 0}
            rc = self.ensure(end)
            if rc != "OK":
                return {"rc": [rc], "sp": 0}
            self.data[off:end] = d
            for i in range(off, end):
                self.unk[i] = 0
                self.pd[i] = 1 if self.in_private(i) else 0
            return {"rc": ["OK"], "sp": len(d)}
        if op == "read":
            off, n = int(t[1]), int(t[2])
            if off < 0 or off + n > OFFMAX:
                return {"rc": ["OOB"], "sp": 0, "data": b"", "mask": b""}
            cnt = max(0, min(n, self.size - off))
            return {"rc": ["OK"], "sp": cnt, "data": bytes(self.data[off:off + cnt]), "mask": bytes(self.unk[off:off + cnt])}
        if op == "copy":
            off, siz, noff = int(t[1]), int(t[2]), int(t[3])
            rc = self.ensure(noff + siz)
            if rc != "OK":
                return {"rc": [rc]}
            fwd = noff > off and siz > 0 and noff < off + siz
            n = max(0, min(siz, self.size - off))
            e = {"rc": ["OK", "OVERFLOW"] if fwd else ["OK"], "copy": (off, n, noff)}
            return e
        if op == "truncate":
            n = rup(int(t[1]))
            if n > self.size and self.maxoff and n > self.maxoff:
                return {"rc": ["MAXOFF"]}
            if self.refused(n):
                return {"rc": ["IOERR"]}
            self.resize(n)
            return {"rc": ["OK"]}
        if op == "ensure":
            return {"rc": [self.ensure(int(t[1]))]}
        if op == "addmm":
            off, ml, fl = int(t[1]), int(t[2]), int(t[3])
            if off % PS:
                return {"rc": ["NOTALIGNED"]}
            eff = min(ml, OFFMAX - off)
            r = rup(eff)
            if r > OFFMAX - off:
                r = eff // PS * PS
            if r == 0:
                return {"rc": ["OOB"]}
            for w in self.wins:
                if max(w.off, off) < min(w.off + w.maxlen, off + r):
                    return {"rc": ["OVERLAP"]}
            w = Win(off, r, bool(fl & 1))
            w.len = min(r, max(0, self.size - off))
            self.wins.append(w)
            return {"rc": ["OK"]}
        if op == "rmmm":
            off = int(t[1])
            for w in self.wins:
                if w.off == off:
                    self.drop_private(w)
                    self.wins.remove(w)
                    return {"rc": ["OK"]}
            return {"rc": ["NOTMM"]}
        if op == "probe":
            off = int(t[1])
            for w in self.wins:
                if w.off == off and w.len:
                    return {"rc": ["OK"], "probe": w.len}
            return {"rc": ["NOTMM"], "probe": 0}
        if op in ("sync", "remap", "state"):
            return {"rc": ["OK"]}
        if op == "close":
            self.do_close()
            return {"rc": ["OK"]}
        return {"rc": ["BADOP"]}

    def do_close(self):
        for w in self.wins:
            self.drop_private(w)
        self.wins = []
        self.kernel = bytearray(self.data)
        self.kunk = bytearray(self.unk)
        self.opened = False

    def finish_copy(self, e, rc):
        """apply the effect of a copy once the implementation's rc is known (OK or the documented refusal)"""
        if rc != "OK" or "copy" not in e:
            return
        off, n, noff = e["copy"]
        priv = self.touches_private(off, off + n) or self.touches_private(noff, noff + n)
        src, srcu = bytes(self.data[off:off + n]), bytes(self.unk[off:off + n])
        self.data[noff:noff + n] = src
        for i in range(n):
            self.unk[noff + i] = 1 if priv else srcu[i]
            self.pd[noff + i] = 0


def judge(o, t, e, line):
    """compare one answer line of the implementation with the expectation; returns None or the reason"""
    f = line.split()
    if not f or f[0] != t[0]:
        return "no answer / wrong answer line: %r" % line
    if len(f) > 1 and f[1] == "CRASH":
        return "the call crashed (signal inside the library)"
    if len(f) > 1 and f[1] == "SIGBUS":
        return "SIGBUS: the call read a mapped page that lies beyond the end of the file (a window is longer than the file)"
    if e.get("raw"):
        return None if f[1] == e["rc"][0] else "expected %s" % e["rc"][0]
    if f[1] not in e["rc"]:
        if e["rc"] == ["IOERR"]:
            return ("rc %s, but the operating system refuses this growth (RLIMIT_FSIZE=%s): expected IOERR and an "
                    "unchanged file; reported fsize=%s, file on disk %s bytes"
                    % (f[1], o.lim, dict(x.split("=") for x in f if "=" in x).get("fsize"),
                       dict(x.split("=") for x in f if "=" in x).get("stat")))
        return "rc %s, expected %s" % (f[1], "/".join(e["rc"]))
    kv = dict(x.split("=") for x in f if "=" in x)
    fsize, stat = int(kv.get("fsize", "-2")), int(kv.get("stat", "-2"))
    exp_size, exp_stat = (o.size, o.size) if o.opened else (-1, len(o.kernel))
    if fsize >= 0 and fsize % PS:
        return "state().fsize=%d is not page aligned" % fsize
    if fsize >= 0 and stat != fsize:
        return "state().fsize=%d but the file on disk has %d bytes (that is what the next open sees)" % (fsize, stat)
    if fsize != exp_size:
        return "size %d, the size rules (policy/maxoff/truncate) give %d" % (fsize, exp_size)
    if stat != exp_stat:
        return "file on disk has %d bytes, expected %d" % (stat, exp_stat)
    if "sp" in e and int(f[2]) != e["sp"]:
        return "transferred %s bytes, expected %d" % (f[2], e["sp"])
    if "probe" in e and int(f[2]) != e["probe"]:
        return "window length %s, expected %d" % (f[2], e["probe"])
    if "probe" in e and e["probe"] and f[1] != "OK":
        return "rc %s for a mapped window" % f[1]
    if "data" in e:
        got = bytes.fromhex(f[3]) if f[3] != "-" else b""
        if len(got) != len(e["data"]):
            return "read returned %d bytes, expected %d" % (len(got), len(e["data"]))
        for i, (a, b, m) in enumerate(zip(got, e["data"], e["mask"])):
            if not m and a != b:
                return "byte at offset %d is %02x, last written %02x" % (int(t[1]) + i, a, b)
    return None


def run_oracle(script, out):
    """script: list of op lines; out: answer lines of the implementation. Returns (index, reason) or None"""
    o = Oracle()
    for i, l in enumerate(script):
        t = l.split()
        snap = copy.deepcopy(o) if o.maplim and t[0] in ("ensure", "truncate", "write", "copy") else None
        e = o.apply(t)
        if i >= len(out):
            return i, "no answer (harness died)"
        if snap is not None and out[i].split()[1:2] == ["ERRNO"]:
            # opt-in mmap-refusal scripts: the call may fail because a window cannot follow; then nothing may have changed
            o = snap
            o.mapfailed = True
            e = {"rc": ["ERRNO"]}
            if t[0] == "write":
                e["sp"] = 0
        if o.mapfailed and t[0] == "probe" and out[i].split()[1:3] == ["NOTMM", "0"]:
            e = {"rc": ["NOTMM"], "probe": 0}  # a window that could not be mapped again is served through the file
        why = judge(o, t, e, out[i])
        if why:
            return i, why
        if t[0] == "copy":
            o.finish_copy(e, out[i].split()[1])
    return None


# ------------------------------------------------------------------------------------------------
# generator: drives an Oracle instance to know where the edges are
POLS = [["def"]] * 3 + [["fibo"]] * 3 + [["mul", "3", "2"], ["mul", "2", "1"], ["mul", "1", "1"], ["mul", "3", "3"],
                                        ["mul", "5", "4"], ["mul", "7", "3"], ["mul", "1", "2"], ["mul", "2", "0"], ["muln"]]


def edges(o, lim):
    pts = {0, PS, o.size, o.size + PS}
    if o.maxoff:
        pts.add(o.maxoff)
    for w in o.wins:
        pts |= {w.off, w.off + w.len}
        if w.maxlen < lim:
            pts.add(w.off + w.maxlen)
    return sorted(p for p in pts if p <= lim)


def pick_off(rng, o, lim):
    p = rng.choice(edges(o, lim))
    return max(0, p + rng.choice([-PS - 1, -PS, -17, -2, -1, -1, 0, 0, 0, 1, 1, 2, 100, PS // 2, PS - 1]))


def pick_len(rng, o, off, lim):
    ahead = [p for p in edges(o, lim + 4 * PS) if p > off]
    c = [1, 2, 3, 7, PS - 1, PS, PS + 1, rng.range(1, 3 * PS)]
    for p in ahead[:3]:
        c += [p - off - 1, p - off, p - off + 1]
    return max(0, rng.choice(c))


def gen_script(rng, run):
    o = Oracle()
    lines = []

    def emit(l):
        lines.append(l)
        e = o.apply(l.split())
        if l.startswith("copy"):
            # assume the copy is carried out; run_oracle re-evaluates with the real rc
            o.finish_copy(e, "OK" if e["rc"] == ["OK"] else "OVERFLOW")
        return e

    def copy_line(off, n, noff):
        # a copy onto itself through a MAP_PRIVATE window is memmove(p, p, n): whether libc stores anything (and so detaches
        # the pages from the file) depends on n and on the libc build (glibc returns early above 8 vector widths); the
        # property says nothing about it and the model would have to know the libc - such a call is not generated
        if noff == off and any(w.priv for w in o.wins):
            noff = off + 1
        return "copy %d %d %d" % (off, n, noff)

    def open_line(trunc):
        pol = rng.choice(POLS)
        isz = rng.choice([0, 0, 0, 1, PS - 1, PS, PS + 1, 2 * PS, 3 * PS, 5 * PS])
        cur = rup(max(len(o.kernel) if not trunc else 0, isz))
        if rng.chance(2, 5):
            mo = 0
        else:
            k = rng.range(1, 12)
            mo = k * PS + rng.choice([-1, 0, 0, 1, PS // 2])
            if mo < cur and not rng.chance(1, 12):
                mo = cur + rng.choice([0, 0, 1, PS, 3 * PS - 1])
        run.dist("policy:" + pol[0]); run.dist("maxoff:" + ("none" if mo < PS else "set"))
        return "open %d %d %d %s" % (trunc, isz, mo, " ".join(pol))

    emit(open_line(1))
    allow_priv = rng.chance(1, 3)
    layout = rng.weighted([("none", 2), ("whole", 2), ("first", 2), ("partial", 3), ("several", 4)])
    run.dist("layout:" + layout + ("+private" if allow_priv else ""))

    def flags():
        return (1 if allow_priv and rng.chance(1, 2) else 0) | (2 if rng.chance(1, 8) else 0)

    if layout == "whole":
        emit("addmm 0 %d %d" % (rng.choice(HUGE), flags()))
    elif layout == "first":
        emit("addmm 0 %d %d" % (rng.choice([1, PS, 2 * PS, 3 * PS + 1]), flags()))
    elif layout == "partial":
        emit("addmm %d %d %d" % (rng.range(1, 4) * PS, rng.choice([1, PS, 2 * PS, 2 * PS + 1, HUGE[1]]), flags()))
    elif layout == "several":
        at = rng.choice([0, 0, PS, 2 * PS])
        for _ in range(rng.range(2, 4)):
            ln = rng.choice([PS, PS, 2 * PS, 3 * PS])
            emit("addmm %d %d %d" % (at, ln - rng.choice([0, 0, 1, PS - 1]), flags()))
            at += ln + rng.choice([0, 0, PS, 2 * PS])
    nops = rng.range(12, 40)
    # OS-refusal episode: at a chosen point RLIMIT_FSIZE is lowered to a value at or a little above the current size;
    # the following calls ask for growth beyond it (and within it), each refused call is followed by a look at the size,
    # every window and the bytes; then the limit is lifted and the same kind of request must succeed.
    faulty = rng.chance(1, 3)
    run.dist("refusal-episode:" + ("yes" if faulty else "no"))
    start_at = rng.range(0, max(0, nops - 6)) if faulty else -1
    left = 0

    def look():
        emit("state")
        for w in list(o.wins)[:4]:
            emit("probe %d" % w.off)
        emit("read %d %d" % (max(0, o.size - PS - 1), 2 * PS + 2))
        if rng.chance(1, 3):
            emit("read 0 %d" % min(o.size, 5 * PS))

    def beyond():
        L = o.lim if o.lim is not None else o.size
        return rng.choice([L + 1, L + 1, rup(L) + 1, L + PS, L + PS + 1, L + 3 * PS, o.size + 1, rup(L), L])

    def refusal_op():
        k = rng.weighted([("ensure", 5), ("truncate", 4), ("write", 6), ("copy", 4), ("addmm", 3), ("within", 3), ("reopen", 1), ("misc", 3)])
        run.dist("refusal-op:" + k)
        if k == "ensure":
            e = emit("ensure %d" % beyond())
        elif k == "truncate":
            e = emit("truncate %d" % beyond())
        elif k == "write":
            n = rng.choice([1, 3, PS, PS + 1, 2 * PS + 5])
            off = max(0, beyond() - rng.choice([0, 1, n, n - 1, n + 1, PS]))
            e = emit("write %d %s" % (off, stream(rng.u64(), n).hex()))
        elif k == "copy":
            n = rng.choice([1, 3, PS, PS + 1])
            e = emit(copy_line(pick_off(rng, o, max(0, o.size - 1)), n, max(0, beyond() - rng.choice([0, 1, n]))))
        elif k == "addmm":  # a window at or past the end of the file: registered, nothing mapped
            off = rup(o.size) + rng.choice([0, 0, PS, 2 * PS])
            e = emit("addmm %d %d %d" % (off, rng.choice([PS, 2 * PS, HUGE[1]]), flags()))
            emit("probe %d" % off)
        elif k == "misc":  # calls that shrink, remap or sync: the limit does not concern them
            e = emit(rng.choice(["sync", "remap", "truncate %d" % max(0, o.size - rng.choice([1, PS, 2 * PS])),
                                 "rmmm %d" % (rng.choice(o.wins).off if o.wins else 0)]))
        elif k == "within":  # growth the limit allows
            L = o.lim if o.lim is not None else o.size
            e = emit(rng.choice(["ensure %d", "truncate %d"]) % max(0, L // PS * PS - rng.choice([0, 0, 1, PS])))
        else:
            emit("close")
            e = emit(open_line(0))
        if e.get("rc") == ["IOERR"]:
            run.dist("refused-call:" + lines[-1].split()[0])
            if o.opened:
                look()

    for it in range(nops):
        lim = min(12 * PS, o.maxoff + 1) if o.maxoff and not rng.chance(1, 6) else 12 * PS
        if not o.opened:
            emit(open_line(0))
            if it == start_at:
                start_at += 1
            continue
        if it == start_at:
            emit("limit %d" % (o.size + rng.choice([0, 0, 0, 1, PS - 1, PS, PS, PS + 1, 2 * PS, 3 * PS + 100])))
            left = rng.range(3, 9)
        if left > 0:
            left -= 1
            if rng.chance(3, 4):
                refusal_op()
                if left == 0:
                    L = o.lim
                    emit("limit -1")
                    if o.opened and rng.chance(1, 2):  # the request that was refused is granted now
                        emit("ensure %d" % (L + rng.choice([1, PS, 2 * PS])))
                        look()
                continue
            if left == 0:
                emit("limit -1")
        k = rng.weighted([("write", 30), ("read", 26), ("copy", 10), ("truncate", 7), ("ensure", 5), ("addmm", 5),
                          ("rmmm", 3), ("probe", 3), ("sync", 1), ("remap", 1), ("state", 1), ("reopen", 3), ("edge", 2)])
        run.dist("op:" + k)
        if k == "write":
            off = pick_off(rng, o, lim)
            n = pick_len(rng, o, off, lim) if not rng.chance(1, 40) else 0
            n = min(n, 3 * PS + 5)
            d = stream(rng.u64(), n)
            emit("write %d %s" % (off, d.hex() if d else "-"))
        elif k == "read":
            off = pick_off(rng, o, lim if rng.chance(1, 6) else max(0, o.size - 1))
            emit("read %d %d" % (off, min(pick_len(rng, o, off, lim), 5 * PS)))
        elif k == "copy":
            off = pick_off(rng, o, lim)
            n = min(pick_len(rng, o, off, lim), 2 * PS + 3)
            noff = rng.choice([pick_off(rng, o, lim), max(0, off + rng.choice([-n - 1, -n, -n + 1, -1, 1, n - 1, n, n + 1]))])
            emit(copy_line(off, n, noff))
        elif k == "truncate":
            emit("truncate %d" % pick_off(rng, o, lim))
        elif k == "ensure":
            emit("ensure %d" % pick_off(rng, o, lim))
        elif k == "addmm":
            off = rng.choice([pick_off(rng, o, lim) // PS * PS] * 4 + [pick_off(rng, o, lim)])
            emit("addmm %d %d %d" % (off, rng.choice([0, 1, PS - 1, PS, PS + 1, 2 * PS, 3 * PS] + HUGE), flags()))
        elif k == "rmmm":
            emit("rmmm %d" % (rng.choice(o.wins).off if o.wins and rng.chance(4, 5) else rng.range(0, 6) * PS))
        elif k == "probe":
            emit("probe %d" % (rng.choice(o.wins).off if o.wins and rng.chance(4, 5) else rng.range(0, 6) * PS))
        elif k in ("sync", "remap", "state"):
            emit(k)
        elif k == "reopen":
            emit("close")
            emit(open_line(0))
            if o.opened and rng.chance(1, 2):
                emit("addmm 0 %d %d" % (rng.choice(HUGE + [2 * PS]), flags()))
        elif k == "edge":
            emit(rng.choice(["write -1 aa", "write %d aabbcc" % (OFFMAX - 1), "read -5 3", "read %d 9" % (OFFMAX - 3),
                             "read %d 7" % (o.size + rng.choice([0, 1, PS])), "write %d 0102" % (1 << 62) if o.maxoff else "state",
                             "ensure 0", "truncate 0"]))
    if o.lim is not None:
        if o.opened and rng.chance(1, 2):  # what the next open sees while the limit is still in force
            emit("close")
            emit("open 0 0 0 def")
            if o.opened:
                emit("read 0 %d" % min(o.size, 5 * PS))
        emit("limit -1")
    if o.opened and rng.chance(1, 2):
        emit("read 0 %d" % min(o.size, 5 * PS))
        emit("close")
        emit("open 0 0 0 def")
        emit("read 0 %d" % min(len(o.kernel), 5 * PS))
    return lines


# directed family: every way to ask for growth x every resize policy x window layouts, under a limit at/just above the size
REF_POLS = [["def"], ["fibo"], ["mul", "3", "2"], ["mul", "2", "1"], ["muln"]]
REF_LAYOUTS = ["none", "whole", "whole-private", "first+past-end", "several"]
REF_KINDS = ["ensure", "truncate", "write", "write-gap", "copy", "open-initial"]


def refusal_script(rng, run, pol, layout, kind):
    o = Oracle()
    lines = []

    def emit(l):
        lines.append(l)
        e = o.apply(l.split())
        if l.startswith("copy"):
            o.finish_copy(e, "OK" if e["rc"] == ["OK"] else "OVERFLOW")
        return e

    def look():
        emit("state")
        for w in list(o.wins):
            emit("probe %d" % w.off)
        emit("read %d %d" % (max(0, o.size - 3 * PS), 4 * PS))
        emit("read 0 64")

    k0 = rng.range(1, 3)
    mo = rng.choice([0, 0, 16 * PS, 9 * PS + 1])
    emit("open 1 %d %d %s" % (k0 * PS - rng.choice([0, 1]), mo, " ".join(pol)))
    if layout == "whole":
        emit("addmm 0 %d 0" % HUGE[1])
    elif layout == "whole-private":
        emit("addmm 0 %d 1" % HUGE[1])
    elif layout == "first+past-end":
        emit("addmm 0 %d 0" % PS)
        emit("addmm %d %d 0" % (o.size + PS, 2 * PS))
    elif layout == "several":
        emit("addmm 0 %d 0" % PS)
        emit("addmm %d %d 1" % (PS, 2 * PS))
        emit("addmm %d %d 0" % (4 * PS, HUGE[0]))
    emit("write 10 %s" % stream(rng.u64(), 40).hex())
    emit("write %d %s" % (o.size - 3, stream(rng.u64(), 3).hex()))
    if pol[0] == "fibo" and rng.chance(1, 2):
        emit("ensure %d" % (o.size + 1))  # gives the fibonacci context a history
    L = o.size + rng.choice([0, 0, 1, PS - 1, PS, PS + 1, 2 * PS])
    emit("limit %d" % L)
    want = rng.choice([L + 1, rup(L) + 1, L + PS, L + 4 * PS + 7])
    if kind == "ensure":
        emit("ensure %d" % want)
    elif kind == "truncate":
        emit("truncate %d" % want)
    elif kind == "write":
        emit("write %d %s" % (want - 1, stream(rng.u64(), rng.choice([1, 2, PS + 1])).hex()))
    elif kind == "write-gap":
        emit("write %d %s" % (o.size - 2, stream(rng.u64(), want - o.size + 2 if want - o.size < 3 * PS else 2 * PS).hex()))
        emit("ensure %d" % want)
    elif kind == "copy":
        emit("copy 8 %d %d" % (rng.choice([1, 16, 40]), want - 1))
    elif kind == "open-initial":
        emit("close")
        emit("open 0 %d %d %s" % (want, mo, " ".join(pol)))
        if not o.opened:
            emit("open 0 0 %d %s" % (mo, " ".join(pol)))
            if layout != "none":
                emit("addmm 0 %d 0" % HUGE[1])
    run.dist("refusal-directed:" + kind)
    look()
    emit("sync")
    emit("remap")
    emit("addmm %d %d 0" % (rup(o.size) + 2 * PS * len(o.wins) + 8 * PS, PS))  # a window past the end, nothing mapped
    look()
    if rng.chance(1, 2) and L // PS * PS > o.size:
        emit("ensure %d" % (L // PS * PS))  # may be refused too when the policy asks for more than the limit
        look()
    if rng.chance(1, 2):  # next open under the limit, then without
        emit("close")
        emit("open 0 0 0 def")
        look()
    emit("limit -1")
    emit("ensure %d" % want)
    look()
    emit("close")
    emit("open 0 0 0 def")
    emit("read 0 %d" % (len(o.kernel) + 1))
    return lines


# ------------------------------------------------------------------------------------------------
# mmap refusal (VERIF_C12_MAPFAIL=0 switches it off).  `maplimit <d>` (RLIMIT_AS = current + d) makes a window growth of
# more than d bytes fail with ENOMEM.  The library had a confirmed defect here, repaired by 70a7dcd (notes/exf.md,
# fixes/exf-mmap-failed-growth.diff); the Coq model does not represent mmap failures: these scripts are run on the
# implementation only and judged by the oracle: a call that answers an error must leave size, file and bytes unchanged,
# and nothing may fault afterwards.
def mapfail_scripts():
    big, slack = 64 << 20, 4 << 20
    layouts = [["addmm 0 %d 0" % HUGE[1]], ["addmm 0 %d 0" % PS, "addmm %d %d 0" % (PS, HUGE[0])],
               ["addmm %d %d 2" % (PS, HUGE[0])]]
    grows = ["ensure %d" % big, "truncate %d" % big, "write %d aa" % (big - 1), "copy 0 5 %d" % (big - 5)]
    out = []
    for lay in layouts:
        probes = ["probe %s" % a.split()[1] for a in lay]
        for g in grows:
            out.append(["open 1 %d 0 def" % (2 * PS)] + lay +
                       ["write 0 68656c6c6f", "write %d 0102" % (2 * PS - 2), "maplimit %d" % slack, g, "state"] + probes +
                       ["read 0 5", "read %d 4" % (2 * PS - 3), "write 3 ff", "read 0 5", "maplimit -1", "remap"] + probes +
                       ["ensure %d" % (3 * PS), "read 0 5", "read %d 4" % (2 * PS - 3), "close", "open 0 0 0 def", "read 0 5"])
    return out


def leak_check(run, impl, tmp):
    """a failed open keeps nothing: the descriptor count of the process is the same before and after opens that fail
    after the file itself was opened (initial size beyond maxoff; initial growth refused by the operating system) - ab38eae"""
    s = ["nfd"] + ["open 1 %d %d def" % (8 * PS, 2 * PS)] * 5 + ["limit %d" % (2 * PS)] + ["open 1 %d 0 def" % (8 * PS)] * 5 + ["limit -1", "nfd"]
    rc, out, err = vlib.run_lines([impl, tmp], "\n".join(s) + "\n", timeout=120)
    run.dist("open-fail-leak-script")
    out = [l for l in out if l.strip()]
    fails = [l for l in out[1:6] + out[7:12] if l.split()[1:2] == ["OK"]]
    if len(out) < len(s) or fails:
        run.broken.append("C12 leak script: the opens meant to fail did not (%r)" % (out[:13],))
    elif out[0] != out[-1]:
        run.violation({"script": s, "impl": [out[0], out[-1]], "kind": "open-fail-leak"},
                      "ten failed opens left descriptors behind: %s before, %s after" % (out[0], out[-1]))


def mapfail_check(run, impl):
    scripts = mapfail_scripts()
    tmp = "/tmp/exf-mapfail-%d.dat" % os.getpid()
    leak_check(run, impl, tmp)
    for s in scripts:
        rc, out, err = vlib.run_lines([impl, tmp], "\n".join(s) + "\n", timeout=300)
        run.dist("mapfail-script")
        v = run_oracle(s, out)
        if v and len(run.violations) < 5:
            j, why = v
            run.violation({"script": s[:j + 1], "failing_op": s[j][:200], "impl": out[j] if j < len(out) else None,
                           "kind": "mmap-refusal"}, "op %d `%s`: %s" % (j, s[j][:80], why))


# ------------------------------------------------------------------------------------------------
def run_scripts(impl, model, scripts, tag):
    """runs all scripts on both sides in parallel chunks; returns per script (impl lines, model lines)"""
    nchunk = max(1, min(vlib.NCPU, len(scripts)))
    chunks = [[] for _ in range(nchunk)]
    for i, s in enumerate(scripts):
        chunks[i % nchunk].append(i)
    tmpd = "/tmp/exf-%s-%d" % (tag, os.getpid())
    os.makedirs(tmpd, exist_ok=True)
    res_i, res_m, errs = {}, {}, []

    def work(k):
        idx = chunks[k]
        text = "".join("\n".join(scripts[i]) + "\n" for i in idx)
        rc1, o1, e1 = vlib.run_lines([impl, os.path.join(tmpd, "f%d.dat" % k)], text, timeout=900)
        rc2, o2, e2 = vlib.run_lines(model, text, timeout=900)
        if rc1 != 0:
            errs.append("implementation harness exited %d: %s" % (rc1, e1[-300:]))
        if rc2 != 0:
            errs.append("model driver exited %d: %s" % (rc2, e2[-300:]))
        p = 0
        for i in idx:
            n = len(scripts[i])
            res_i[i] = o1[p:p + n]
            res_m[i] = o2[p:p + n]
            p += n

    try:
        with ThreadPoolExecutor(nchunk) as ex:
            list(ex.map(work, range(nchunk)))
    finally:
        shutil.rmtree(tmpd, ignore_errors=True)
    return res_i, res_m, errs


def corpus_scripts():
    d = os.path.join(vlib.VERIF, "corpus", "C12")
    out = []
    if os.path.isdir(d):
        for cf in sorted(os.listdir(d)):
            ls = [l.strip() for l in open(os.path.join(d, cf)) if l.strip() and not l.startswith("#")]
            if ls:
                out.append(ls)
    return out


def check(run):
    rng = run.rng
    proofs_ok = run.proofs()
    impl = vlib.build_harness("h_exf")
    model = vlib.build_model("exf")
    N = 500 if run.tier == "quick" else 30000
    if not proofs_ok:
        N *= 10
    scripts = corpus_scripts()
    ncorp = len(scripts)
    for rep_ in range(1 if run.tier == "quick" and proofs_ok else 6):
        for pol in REF_POLS:
            for layout in REF_LAYOUTS:
                for kind in REF_KINDS:
                    scripts.append(refusal_script(rng.fork(), run, pol, layout, kind))
    for _ in range(N):
        scripts.append(gen_script(rng.fork(), run))
    if os.environ.get("VERIF_C12_MAPFAIL") != "0":
        mapfail_check(run, impl)
    res_i, res_m, errs = run_scripts(impl, model, scripts, "c12")
    for e in errs[:2]:
        run.broken.append("T2 harness: " + e)
    nmis, first, nlines = 0, None, 0
    for i, s in enumerate(scripts):
        oi, om = res_i.get(i, []), res_m.get(i, [])
        nlines += len(s)
        bad = [j for j in range(len(s)) if (oi[j] if j < len(oi) else "<missing>") != (om[j] if j < len(om) else "<missing>")]
        if bad:
            nmis += 1
            if first is None:
                j = bad[0]
                first = (i, j, s[j][:80], oi[j][:120] if j < len(oi) else None, om[j][:120] if j < len(om) else None)
                if os.environ.get("VERIF_DEBUG"):
                    json.dump({"script": s, "impl": oi, "model": om}, open("/tmp/exf-mismatch.json", "w"), indent=1)
        v = run_oracle(s, oi)
        run.case("\n".join(s), nontrivial=len(s) > 3,
                 sample=({"script_head": s[:6], "impl_head": oi[:6], "ops": len(s)} if i % max(1, len(scripts) // 5) == 0 else None))
        if v and len(run.violations) < 5:
            j, why = v
            run.violation({"script": s[:j + 1], "failing_op": s[j][:200], "impl": oi[j] if j < len(oi) else None,
                           "kind": "corpus" if i < ncorp else "generated"},
                          "op %d `%s`: %s" % (j, s[j][:80], why))
    run.cov["traces_validated_against_impl"] = len(scripts) - nmis
    run.cov["op_lines"] = nlines
    if nmis:
        run.broken.append("T2 correspondence: %d of %d scripts differ, first: script %d op %d `%s` impl=`%s` model=`%s`"
                          % ((nmis, len(scripts)) + first))
    return run.finish(level=LEVEL,
                      rule="a case is one script of 12-90 calls (open with initial size/maxoff/policy, window layout none/"
                           "whole/first/partial/several, shared or private, then writes/reads/copies/truncations/size requests/"
                           "window additions and removals/close+reopen with offsets and lengths placed -1/0/+1 around window "
                           "edges, EOF, maxoff and page boundaries; one script in three has an OS-refusal episode: RLIMIT_FSIZE "
                           "lowered to the size + {0,1,page-1,page,...}, growth requests of every kind beyond and within it, "
                           "a look at size/windows/bytes after every refused call, limit lifted, reopen; plus the directed "
                           "family policy x layout x kind of growth request); distinct = distinct script text",
                      assumptions=["mmap coherence between a MAP_SHARED mapping and pread/pwrite is trusted (Linux)",
                                   "bytes written through a MAP_PRIVATE window are compared only until that window is "
                                   "remapped or removed (that is what MAP_PRIVATE means); the Coq model is compared exactly",
                                   "file I/O is complete (no short transfers) in the model; the only OS failure modelled "
                                   "and injected is the refusal to grow the file (RLIMIT_FSIZE/EFBIG standing for ENOSPC/"
                                   "EDQUOT): shrinking, mmap and msync are not failed",
                                   "the injected limit is never below the current file size (pwrite inside the file cannot fail)"])


def replay(run, path):
    r = json.load(open(path))
    if "script" not in r:
        print(json.dumps(r, indent=1))
        return 1
    impl = vlib.build_harness("h_exf")
    tmp = "/tmp/exf-replay-%d.dat" % os.getpid()
    rc, out, err = vlib.run_lines([impl, tmp], "\n".join(r["script"]) + "\n")
    for l, o in zip(r["script"], out):
        print("%-60s -> %s" % (l[:60], o[:100]))
    v = run_oracle(r["script"], out)
    print("note:", r.get("note"))
    if v:
        print("still failing: op %d: %s" % v)
        return 1
    print("no longer failing")
    return 0
