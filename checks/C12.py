# C12 - reads through the extensible file return the bytes last written; size rules
#
# Scripts of calls are run on (1) the real iwexfile.c through harness/h_exf.c, (2) the extracted Coq model
# coq/FS/Exf.v through ml/driver_exf.ml (T2: every answer line must be identical), and are judged by
# (3) the oracle below: a flat python bytearray + size rules, written from the property statement and the
# header documentation, sharing no code with the model.
import os, json, hashlib, shutil
from concurrent.futures import ThreadPoolExecutor
import vlib

LEVEL = "proof"
PS = os.sysconf("SC_PAGESIZE")
OFFMAX = (1 << 63) - 1
HUGE = [(1 << 63) - 1, (1 << 64) - 1]


def rup(x):
    return (x + PS - 1) // PS * PS


def stream(seed, n):
    out = b""
    c = 0
    while len(out) < n:
        out += hashlib.sha256(b"%d:%d" % (seed, c)).digest()
        c += 1
    return out[:n]


# ------------------------------------------------------------------------------------------------
# The oracle.  `data` is what a reader must see; unk[i]=1 marks bytes whose value the property leaves open
# (bytes written through a MAP_PRIVATE window once that window has been remapped/removed, and the targets of
# a copy that touches a private window): they are not compared until they are written again.
class Win:
    def __init__(self, off, maxlen, priv):
        self.off, self.maxlen, self.priv, self.len = off, maxlen, priv, 0


class Oracle:
    def __init__(self):
        self.kernel, self.kunk = bytearray(), bytearray()  # what survives close
        self.opened = False
        self.data = bytearray()
        self.unk = bytearray()
        self.pd = bytearray()
        self.wins = []
        self.maxoff = 0
        self.pol = ("def",)
        self.prev = 0

    @property
    def size(self):
        return len(self.data)

    # -- size rules
    def policy(self, nsize):
        csize = self.size
        k = self.pol[0]
        if k == "fibo":
            r = rup(max(csize + self.prev, nsize))
            self.prev = csize
            return r
        if k == "mul":
            n, dn = self.pol[1], self.pol[2]
            if dn == 0 or n < dn:
                return rup(nsize)
            return rup(max(nsize // dn * n, nsize))  # "cannot be lesser than requested nsize" (iwexfile.h)
        return rup(nsize)

    def drop_private(self, w, upto=None):
        if not w.priv:
            return
        for i in range(w.off, min(w.off + w.len, self.size if upto is None else upto)):
            if self.pd[i]:
                self.unk[i] = 1
                self.pd[i] = 0

    def resize(self, n):
        old = self.size
        if n < old:
            for w in self.wins:
                nl = min(w.maxlen, max(0, n - w.off))
                if nl != w.len:
                    self.drop_private(w, n)
            del self.data[n:], self.unk[n:], self.pd[n:]
        else:
            for w in self.wins:
                nl = min(w.maxlen, max(0, n - w.off))
                if nl != w.len:
                    self.drop_private(w)
            z = bytes(n - old)
            self.data += z; self.unk += z; self.pd += z
        for w in self.wins:
            w.len = min(w.maxlen, max(0, n - w.off))

    def ensure(self, sz):
        if self.size >= sz:
            return "OK"
        n = self.policy(sz)
        if self.maxoff and n > self.maxoff:
            n = self.maxoff
            if n < sz:
                return "MAXOFF"
        self.resize(n)
        return "OK"

    def in_private(self, i):
        for w in self.wins:
            if w.priv and w.off <= i < w.off + w.len:
                return True
        return False

    def touches_private(self, a, b):
        return any(w.priv and w.len and a < w.off + w.len and w.off < b for w in self.wins)

    # -- one call; returns the expectation: dict(rc=[allowed names], sp, data, mask, probe)
    def apply(self, t):
        op = t[0]
        if op == "open":
            trunc, isz, mo = int(t[1]), int(t[2]), int(t[3])
            if self.opened:
                self.do_close()
            if trunc:
                self.kernel, self.kunk = bytearray(), bytearray()
            self.maxoff = mo // PS * PS if mo >= PS else 0
            self.pol = ("fibo",) if t[4] == "fibo" else ("mul", int(t[5]), int(t[6])) if t[4] == "mul" else ("def",)
            self.prev = 0
            self.wins = []
            size0 = len(self.kernel)
            n = size0
            if size0 < isz:
                n = rup(isz)
                if n > size0 and self.maxoff and n > self.maxoff:
                    return {"rc": ["MAXOFF"]}
            elif size0 % PS:
                n = rup(size0)
            self.data = bytearray(self.kernel); self.unk = bytearray(self.kunk); self.pd = bytearray(size0)
            self.opened = True
            self.resize(n)
            return {"rc": ["OK"]}
        if not self.opened:
            return {"rc": ["NOTOPEN"], "raw": True}
        if op == "write":
            off, d = int(t[1]), (bytes.fromhex(t[2]) if t[2] != "-" else b"")
            end = off + len(d)
            if off < 0 or end > OFFMAX:
                return {"rc": ["OOB"], "sp": 0}
            if self.maxoff and end > self.maxoff:
                return {"rc": ["MAXOFF"], "sp": 0}
            rc = self.ensure(end)
            if rc != "OK":
                return {"rc": [rc], "sp": 0}
            self.data[off:end] = d
            for i in range(off, end):
                self.unk[i] = 0
                self.pd[i] = 1 if self.in_private(i) else 0
            return {"rc": ["OK"], "sp": len(d)}
        if op == "read":
            off, n = int(t[1]), int(t[2])
            if off < 0 or off + n > OFFMAX:
                return {"rc": ["OOB"], "sp": 0, "data": b"", "mask": b""}
            cnt = max(0, min(n, self.size - off))
            return {"rc": ["OK"], "sp": cnt, "data": bytes(self.data[off:off + cnt]), "mask": bytes(self.unk[off:off + cnt])}
        if op == "copy":
            off, siz, noff = int(t[1]), int(t[2]), int(t[3])
            rc = self.ensure(noff + siz)
            if rc != "OK":
                return {"rc": [rc]}
            fwd = noff > off and siz > 0 and noff < off + siz
            n = max(0, min(siz, self.size - off))
            e = {"rc": ["OK", "OVERFLOW"] if fwd else ["OK"], "copy": (off, n, noff)}
            return e
        if op == "truncate":
            n = rup(int(t[1]))
            if n > self.size and self.maxoff and n > self.maxoff:
                return {"rc": ["MAXOFF"]}
            self.resize(n)
            return {"rc": ["OK"]}
        if op == "ensure":
            return {"rc": [self.ensure(int(t[1]))]}
        if op == "addmm":
            off, ml, fl = int(t[1]), int(t[2]), int(t[3])
            if off % PS:
                return {"rc": ["NOTALIGNED"]}
            eff = min(ml, OFFMAX - off)
            r = rup(eff)
            if r > OFFMAX - off:
                r = eff // PS * PS
            if r == 0:
                return {"rc": ["OOB"]}
            for w in self.wins:
                if max(w.off, off) < min(w.off + w.maxlen, off + r):
                    return {"rc": ["OVERLAP"]}
            w = Win(off, r, bool(fl & 1))
            w.len = min(r, max(0, self.size - off))
            self.wins.append(w)
            return {"rc": ["OK"]}
        if op == "rmmm":
            off = int(t[1])
            for w in self.wins:
                if w.off == off:
                    self.drop_private(w)
                    self.wins.remove(w)
                    return {"rc": ["OK"]}
            return {"rc": ["NOTMM"]}
        if op == "probe":
            off = int(t[1])
            for w in self.wins:
                if w.off == off and w.len:
                    return {"rc": ["OK"], "probe": w.len}
            return {"rc": ["NOTMM"], "probe": 0}
        if op in ("sync", "remap", "state"):
            return {"rc": ["OK"]}
        if op == "close":
            self.do_close()
            return {"rc": ["OK"]}
        return {"rc": ["BADOP"]}

    def do_close(self):
        for w in self.wins:
            self.drop_private(w)
        self.wins = []
        self.kernel = bytearray(self.data)
        self.kunk = bytearray(self.unk)
        self.opened = False

    def finish_copy(self, e, rc):
        """apply the effect of a copy once the implementation's rc is known (OK or the documented refusal)"""
        if rc != "OK" or "copy" not in e:
            return
        off, n, noff = e["copy"]
        priv = self.touches_private(off, off + n) or self.touches_private(noff, noff + n)
        src, srcu = bytes(self.data[off:off + n]), bytes(self.unk[off:off + n])
        self.data[noff:noff + n] = src
        for i in range(n):
            self.unk[noff + i] = 1 if priv else srcu[i]
            self.pd[noff + i] = 0


def judge(o, t, e, line):
    """compare one answer line of the implementation with the expectation; returns None or the reason"""
    f = line.split()
    if not f or f[0] != t[0]:
        return "no answer / wrong answer line: %r" % line
    if len(f) > 1 and f[1] == "CRASH":
        return "the call crashed (signal inside the library)"
    if e.get("raw"):
        return None if f[1] == e["rc"][0] else "expected %s" % e["rc"][0]
    if f[1] not in e["rc"]:
        return "rc %s, expected %s" % (f[1], "/".join(e["rc"]))
    kv = dict(x.split("=") for x in f if "=" in x)
    fsize, stat = int(kv.get("fsize", "-2")), int(kv.get("stat", "-2"))
    exp_size, exp_stat = (o.size, o.size) if o.opened else (-1, len(o.kernel))
    if fsize >= 0 and fsize % PS:
        return "state().fsize=%d is not page aligned" % fsize
    if fsize >= 0 and stat != fsize:
        return "state().fsize=%d but the file on disk has %d bytes (that is what the next open sees)" % (fsize, stat)
    if fsize != exp_size:
        return "size %d, the size rules (policy/maxoff/truncate) give %d" % (fsize, exp_size)
    if stat != exp_stat:
        return "file on disk has %d bytes, expected %d" % (stat, exp_stat)
    if "sp" in e and int(f[2]) != e["sp"]:
        return "transferred %s bytes, expected %d" % (f[2], e["sp"])
    if "probe" in e and int(f[2]) != e["probe"]:
        return "window length %s, expected %d" % (f[2], e["probe"])
    if "data" in e:
        got = bytes.fromhex(f[3]) if f[3] != "-" else b""
        if len(got) != len(e["data"]):
            return "read returned %d bytes, expected %d" % (len(got), len(e["data"]))
        for i, (a, b, m) in enumerate(zip(got, e["data"], e["mask"])):
            if not m and a != b:
                return "byte at offset %d is %02x, last written %02x" % (int(t[1]) + i, a, b)
    return None


def run_oracle(script, out):
    """script: list of op lines; out: answer lines of the implementation. Returns (index, reason) or None"""
    o = Oracle()
    for i, l in enumerate(script):
        t = l.split()
        e = o.apply(t)
        if i >= len(out):
            return i, "no answer (harness died)"
        why = judge(o, t, e, out[i])
        if why:
            return i, why
        if t[0] == "copy":
            o.finish_copy(e, out[i].split()[1])
    return None


# ------------------------------------------------------------------------------------------------
# generator: drives an Oracle instance to know where the edges are
POLS = [["def"]] * 3 + [["fibo"]] * 3 + [["mul", "3", "2"], ["mul", "2", "1"], ["mul", "1", "1"], ["mul", "3", "3"],
                                        ["mul", "5", "4"], ["mul", "7", "3"], ["mul", "1", "2"], ["mul", "2", "0"], ["muln"]]


def edges(o, lim):
    pts = {0, PS, o.size, o.size + PS}
    if o.maxoff:
        pts.add(o.maxoff)
    for w in o.wins:
        pts |= {w.off, w.off + w.len}
        if w.maxlen < lim:
            pts.add(w.off + w.maxlen)
    return sorted(p for p in pts if p <= lim)


def pick_off(rng, o, lim):
    p = rng.choice(edges(o, lim))
    return max(0, p + rng.choice([-PS - 1, -PS, -17, -2, -1, -1, 0, 0, 0, 1, 1, 2, 100, PS // 2, PS - 1]))


def pick_len(rng, o, off, lim):
    ahead = [p for p in edges(o, lim + 4 * PS) if p > off]
    c = [1, 2, 3, 7, PS - 1, PS, PS + 1, rng.range(1, 3 * PS)]
    for p in ahead[:3]:
        c += [p - off - 1, p - off, p - off + 1]
    return max(0, rng.choice(c))


def gen_script(rng, run):
    o = Oracle()
    lines = []

    def emit(l):
        lines.append(l)
        e = o.apply(l.split())
        if l.startswith("copy"):
            # assume the copy is carried out; run_oracle re-evaluates with the real rc
            o.finish_copy(e, "OK" if e["rc"] == ["OK"] else "OVERFLOW")
        return e

    def open_line(trunc):
        pol = rng.choice(POLS)
        isz = rng.choice([0, 0, 0, 1, PS - 1, PS, PS + 1, 2 * PS, 3 * PS, 5 * PS])
        cur = rup(max(len(o.kernel) if not trunc else 0, isz))
        if rng.chance(2, 5):
            mo = 0
        else:
            k = rng.range(1, 12)
            mo = k * PS + rng.choice([-1, 0, 0, 1, PS // 2])
            if mo < cur and not rng.chance(1, 12):
                mo = cur + rng.choice([0, 0, 1, PS, 3 * PS - 1])
        run.dist("policy:" + pol[0]); run.dist("maxoff:" + ("none" if mo < PS else "set"))
        return "open %d %d %d %s" % (trunc, isz, mo, " ".join(pol))

    emit(open_line(1))
    allow_priv = rng.chance(1, 3)
    layout = rng.weighted([("none", 2), ("whole", 2), ("first", 2), ("partial", 3), ("several", 4)])
    run.dist("layout:" + layout + ("+private" if allow_priv else ""))

    def flags():
        return (1 if allow_priv and rng.chance(1, 2) else 0) | (2 if rng.chance(1, 8) else 0)

    if layout == "whole":
        emit("addmm 0 %d %d" % (rng.choice(HUGE), flags()))
    elif layout == "first":
        emit("addmm 0 %d %d" % (rng.choice([1, PS, 2 * PS, 3 * PS + 1]), flags()))
    elif layout == "partial":
        emit("addmm %d %d %d" % (rng.range(1, 4) * PS, rng.choice([1, PS, 2 * PS, 2 * PS + 1, HUGE[1]]), flags()))
    elif layout == "several":
        at = rng.choice([0, 0, PS, 2 * PS])
        for _ in range(rng.range(2, 4)):
            ln = rng.choice([PS, PS, 2 * PS, 3 * PS])
            emit("addmm %d %d %d" % (at, ln - rng.choice([0, 0, 1, PS - 1]), flags()))
            at += ln + rng.choice([0, 0, PS, 2 * PS])
    nops = rng.range(12, 40)
    for _ in range(nops):
        lim = min(12 * PS, o.maxoff + 1) if o.maxoff and not rng.chance(1, 6) else 12 * PS
        if not o.opened:
            emit(open_line(0))
            continue
        k = rng.weighted([("write", 30), ("read", 26), ("copy", 10), ("truncate", 7), ("ensure", 5), ("addmm", 5),
                          ("rmmm", 3), ("probe", 3), ("sync", 1), ("remap", 1), ("state", 1), ("reopen", 3), ("edge", 2)])
        run.dist("op:" + k)
        if k == "write":
            off = pick_off(rng, o, lim)
            n = pick_len(rng, o, off, lim) if not rng.chance(1, 40) else 0
            n = min(n, 3 * PS + 5)
            d = stream(rng.u64(), n)
            emit("write %d %s" % (off, d.hex() if d else "-"))
        elif k == "read":
            off = pick_off(rng, o, lim if rng.chance(1, 6) else max(0, o.size - 1))
            emit("read %d %d" % (off, min(pick_len(rng, o, off, lim), 5 * PS)))
        elif k == "copy":
            off = pick_off(rng, o, lim)
            n = min(pick_len(rng, o, off, lim), 2 * PS + 3)
            noff = rng.choice([pick_off(rng, o, lim), max(0, off + rng.choice([-n - 1, -n, -n + 1, -1, 1, n - 1, n, n + 1]))])
            emit("copy %d %d %d" % (off, n, noff))
        elif k == "truncate":
            emit("truncate %d" % pick_off(rng, o, lim))
        elif k == "ensure":
            emit("ensure %d" % pick_off(rng, o, lim))
        elif k == "addmm":
            off = rng.choice([pick_off(rng, o, lim) // PS * PS] * 4 + [pick_off(rng, o, lim)])
            emit("addmm %d %d %d" % (off, rng.choice([0, 1, PS - 1, PS, PS + 1, 2 * PS, 3 * PS] + HUGE), flags()))
        elif k == "rmmm":
            emit("rmmm %d" % (rng.choice(o.wins).off if o.wins and rng.chance(4, 5) else rng.range(0, 6) * PS))
        elif k == "probe":
            emit("probe %d" % (rng.choice(o.wins).off if o.wins and rng.chance(4, 5) else rng.range(0, 6) * PS))
        elif k in ("sync", "remap", "state"):
            emit(k)
        elif k == "reopen":
            emit("close")
            emit(open_line(0))
            if o.opened and rng.chance(1, 2):
                emit("addmm 0 %d %d" % (rng.choice(HUGE + [2 * PS]), flags()))
        elif k == "edge":
            emit(rng.choice(["write -1 aa", "write %d aabbcc" % (OFFMAX - 1), "read -5 3", "read %d 9" % (OFFMAX - 3),
                             "read %d 7" % (o.size + rng.choice([0, 1, PS])), "write %d 0102" % (1 << 62) if o.maxoff else "state",
                             "ensure 0", "truncate 0"]))
    if o.opened and rng.chance(1, 2):
        emit("read 0 %d" % min(o.size, 5 * PS))
        emit("close")
        emit("open 0 0 0 def")
        emit("read 0 %d" % min(len(o.kernel), 5 * PS))
    return lines


# ------------------------------------------------------------------------------------------------
def run_scripts(impl, model, scripts, tag):
    """runs all scripts on both sides in parallel chunks; returns per script (impl lines, model lines)"""
    nchunk = max(1, min(vlib.NCPU, len(scripts)))
    chunks = [[] for _ in range(nchunk)]
    for i, s in enumerate(scripts):
        chunks[i % nchunk].append(i)
    tmpd = "/tmp/exf-%s-%d" % (tag, os.getpid())
    os.makedirs(tmpd, exist_ok=True)
    res_i, res_m, errs = {}, {}, []

    def work(k):
        idx = chunks[k]
        text = "".join("\n".join(scripts[i]) + "\n" for i in idx)
        rc1, o1, e1 = vlib.run_lines([impl, os.path.join(tmpd, "f%d.dat" % k)], text, timeout=900)
        rc2, o2, e2 = vlib.run_lines(model, text, timeout=900)
        if rc1 != 0:
            errs.append("implementation harness exited %d: %s" % (rc1, e1[-300:]))
        if rc2 != 0:
            errs.append("model driver exited %d: %s" % (rc2, e2[-300:]))
        p = 0
        for i in idx:
            n = len(scripts[i])
            res_i[i] = o1[p:p + n]
            res_m[i] = o2[p:p + n]
            p += n

    try:
        with ThreadPoolExecutor(nchunk) as ex:
            list(ex.map(work, range(nchunk)))
    finally:
        shutil.rmtree(tmpd, ignore_errors=True)
    return res_i, res_m, errs


def corpus_scripts():
    d = os.path.join(vlib.VERIF, "corpus", "C12")
    out = []
    if os.path.isdir(d):
        for cf in sorted(os.listdir(d)):
            ls = [l.strip() for l in open(os.path.join(d, cf)) if l.strip() and not l.startswith("#")]
            if ls:
                out.append(ls)
    return out


def check(run):
    rng = run.rng
    proofs_ok = run.proofs()
    impl = vlib.build_harness("h_exf")
    model = vlib.build_model("exf")
    N = 500 if run.tier == "quick" else 30000
    if not proofs_ok:
        N *= 10
    scripts = corpus_scripts()
    ncorp = len(scripts)
    for _ in range(N):
        scripts.append(gen_script(rng.fork(), run))
    res_i, res_m, errs = run_scripts(impl, model, scripts, "c12")
    for e in errs[:2]:
        run.broken.append("T2 harness: " + e)
    nmis, first, nlines = 0, None, 0
    for i, s in enumerate(scripts):
        oi, om = res_i.get(i, []), res_m.get(i, [])
        nlines += len(s)
        bad = [j for j in range(len(s)) if (oi[j] if j < len(oi) else "<missing>") != (om[j] if j < len(om) else "<missing>")]
        if bad:
            nmis += 1
            if first is None:
                j = bad[0]
                first = (i, j, s[j][:80], oi[j][:120] if j < len(oi) else None, om[j][:120] if j < len(om) else None)
                if os.environ.get("VERIF_DEBUG"):
                    json.dump({"script": s, "impl": oi, "model": om}, open("/tmp/exf-mismatch.json", "w"), indent=1)
        v = run_oracle(s, oi)
        run.case("\n".join(s), nontrivial=len(s) > 3,
                 sample=({"script_head": s[:6], "impl_head": oi[:6], "ops": len(s)} if i % max(1, len(scripts) // 5) == 0 else None))
        if v and len(run.violations) < 5:
            j, why = v
            run.violation({"script": s[:j + 1], "failing_op": s[j][:200], "impl": oi[j] if j < len(oi) else None,
                           "kind": "corpus" if i < ncorp else "generated"},
                          "op %d `%s`: %s" % (j, s[j][:80], why))
    run.cov["traces_validated_against_impl"] = len(scripts) - nmis
    run.cov["op_lines"] = nlines
    if nmis:
        run.broken.append("T2 correspondence: %d of %d scripts differ, first: script %d op %d `%s` impl=`%s` model=`%s`"
                          % ((nmis, len(scripts)) + first))
    return run.finish(level=LEVEL,
                      rule="a case is one script of 12-45 calls (open with initial size/maxoff/policy, window layout none/"
                           "whole/first/partial/several, shared or private, then writes/reads/copies/truncations/size requests/"
                           "window additions and removals/close+reopen with offsets and lengths placed -1/0/+1 around window "
                           "edges, EOF, maxoff and page boundaries); distinct = distinct script text",
                      assumptions=["mmap coherence between a MAP_SHARED mapping and pread/pwrite is trusted (Linux)",
                                   "bytes written through a MAP_PRIVATE window are compared only until that window is "
                                   "remapped or removed (that is what MAP_PRIVATE means); the Coq model is compared exactly",
                                   "file I/O is complete (no short transfers, no ENOSPC) in the model"])


def replay(run, path):
    r = json.load(open(path))
    if "script" not in r:
        print(json.dumps(r, indent=1))
        return 1
    impl = vlib.build_harness("h_exf")
    tmp = "/tmp/exf-replay-%d.dat" % os.getpid()
    rc, out, err = vlib.run_lines([impl, tmp], "\n".join(r["script"]) + "\n")
    for l, o in zip(r["script"], out):
        print("%-60s -> %s" % (l[:60], o[:100]))
    v = run_oracle(r["script"], out)
    print("note:", r.get("note"))
    if v:
        print("still failing: op %d: %s" % v)
        return 1
    print("no longer failing")
    return 0
