# C20 - task executors (iwstw.c, iwtp.c): every accepted task runs exactly once, FIFO for the single-thread worker,
# shutdown(wait) drains, shutdown(nowait)/schedule_only report exactly the dropped tasks, limits, no hang.
#
# Model: coq/CC/{Lts,Stw,Tp}.v (labelled transition systems, theorems in Properties_C20.v over all interleavings).
# Tie (T2): harness/h_exec.c runs seeded multi-threaded scenarios on the real sources with schedule perturbation and
# prints the event trace; the extracted transition system replays every trace (conformance) and its ghost history
# is compared with the black-box observations.  Oracle: the black-box observations only (execution counters, order
# stamps, discard log, watchdog, crash) - independent of the model.
import os, json, re
from concurrent.futures import ThreadPoolExecutor
import vlib

LEVEL = "proof"
K = dict(LOCK=1, UNLOCK=2, WAIT=3, WAKE=4, SIGNAL=5, BCAST=6, ENQ=7, DEQ=8, RUN=9, DONE=10, DISCARD=11, CALL=12, RET=13,
         SPAWN=14, EXIT=15, JOIN=16, FREE=17,
         REGS=18,    # observation, not an event: tid:18:id0:id1:... = tp->threads as seen by the mutex holder `tid`
         DETACH=19)  # observation: tid:19:id = pthread_detach(id) called by `tid`

# directed interleavings (hold/open rules of the harness) for the three defects found with this family; they stay
# in the corpus after the fixes.  H:tid:kind:nth:gate = hold thread before its nth event of that kind until the gate
# opens, O:gate:tid:kind:nth = open the gate at that event (tid -1: at the nth event of that kind of any thread),
# gt=task:gate = task body waits for the gate.
DIRECTED = [
    # one task running, two queued, iwstw_shutdown(nowait) with a discard callback
    ("stw-discard-crash",
     "stw lim=0 blk=0 cb=1 nsub=1 nt=3 dur=0 wait=0 yp=0 sp=0 seed=1 trig=99:0 gt=0:1 "
     "rules=H:10:12:2:2,O:2:0:9:1,H:20:12:1:3,O:3:10:13:3,O:1:20:2:1"),
    # same through iwstw_schedule_only
    ("stw-only-discard-crash",
     "stw lim=0 blk=0 cb=1 nsub=1 nt=3 dur=0 wait=1 yp=0 sp=0 seed=1 apis=001 gt=0:1 "
     "rules=H:10:12:2:2,O:2:0:9:1,O:1:10:13:3"),
    # submitter blocked on a full queue, iwstw_shutdown(nowait), worker leaves, then the submitter re-acquires the mutex
    ("stw-blocked-submitter-after-shutdown",
     "stw lim=1 blk=1 cb=1 nsub=1 nt=3 dur=0 wait=0 yp=0 sp=0 seed=1 trig=99:0 gt=0:1 "
     "rules=H:10:12:2:2,O:2:0:9:1,H:20:12:1:3,O:3:10:3:1,O:1:20:2:1,H:10:4:1:4,O:4:0:15:1,H:20:17:1:5,O:5:10:13:3"),
    # same with a waiting shutdown: the worker drains the queue and leaves before the submitter wakes
    ("stw-blocked-submitter-after-shutdown-wait",
     "stw lim=1 blk=1 cb=1 nsub=1 nt=3 dur=0 wait=1 yp=0 sp=0 seed=1 trig=99:0 gt=0:1 "
     "rules=H:10:12:2:2,O:2:0:9:1,H:20:12:1:3,O:3:10:3:1,O:1:20:2:1,H:10:4:1:4,O:4:0:15:1,H:20:17:1:5,O:5:10:13:3"),
    # iwtp_schedule between the exit of the last worker and the end of iwtp_shutdown(wait)
    ("tp-schedule-during-shutdown",
     "tp nthr=1 lim=0 ovf=0 nsub=1 nt=1 dur=0 wait=1 yp=0 sp=0 seed=1 trig=99:0 "
     "rules=H:10:12:1:1,O:1:0:15:1,H:20:17:1:2,O:2:10:13:1"),
    # overflow thread (created by the third iwtp_schedule while the only worker is busy) is held before its first lock
    # until iwtp_shutdown has destroyed the pool
    ("tp-overflow-thread-after-shutdown",
     "tp nthr=1 lim=0 ovf=1 nsub=1 nt=3 dur=0 wait=1 yp=0 sp=0 seed=1 trig=99:0 gt=0:1 "
     "rules=H:10:12:2:2,O:2:0:9:1,H:20:12:1:3,O:3:10:13:3,O:1:20:2:1,H:30:1:1:4,O:4:20:17:1"),
    # registry of the pool with overflow threads that leave out of order (1 pool thread, factor 2 => up to 3 entries).
    # task 0 keeps pool thread 0 busy; the 3rd / 4th schedule spawn overflow threads 30 / 31 (registry [0,30,31], cached
    # indexes 1 / 2); 30 finishes first and unregisters ([0,31]: the cached index 2 of thread 31 is stale now); the 5th
    # schedule spawns 32 ([0,31,32]); then 31 finishes (must leave [0,32]; removal through the cached index 2 would
    # unregister the live thread 32 instead); then shutdown(wait) joins 0 and 32.
    ("tp-registry-stale-index",
     "tp nthr=1 lim=0 ovf=2 nsub=1 nt=5 dur=0 wait=1 yp=0 sp=0 seed=1 trig=99:0 gt=0:1,1:4,2:5,3:7 "
     "rules=H:10:12:2:2,O:2:0:9:1,H:10:12:4:3,O:3:30:9:1,O:4:31:9:1,H:10:12:5:6,O:6:30:15:1,O:5:32:9:1,"
     "H:20:12:1:8,O:8:31:15:1,O:1:20:2:1,O:7:20:2:1"),
    # same start; no third overflow thread: when 31 leaves its cached index 2 is beyond the end of [0,31]; a busy query
    # (api 5) before (pool thread + 2 overflow threads inside task bodies => 3) and after
    ("tp-registry-stale-index-end",
     "tp nthr=1 lim=0 ovf=2 nsub=1 nt=6 dur=0 wait=1 yp=0 sp=0 seed=1 trig=99:0 apis=000055 gt=0:1,1:4,2:5 "
     "rules=H:10:12:2:2,O:2:0:9:1,H:10:12:4:3,O:3:30:9:1,H:10:12:5:6,O:6:31:9:1,O:4:10:13:5,H:10:12:6:9,O:9:30:15:1,"
     "O:5:10:13:6,H:20:12:1:8,O:8:31:15:1,O:1:20:2:1"),
    # 2 pool threads, factor 1: overflow threads 30, 31 next to the busy pool threads 0, 1; 30 leaves first
    ("tp-registry-two-pool-threads",
     "tp nthr=2 lim=0 ovf=1 nsub=1 nt=7 dur=0 wait=1 yp=0 sp=0 seed=1 trig=99:0 apis=0000005 gt=0:1,1:1,2:4,3:5 "
     "rules=H:10:12:2:2,O:2:-1:9:1,H:10:12:3:3,O:3:-1:9:2,H:10:12:5:6,O:6:30:9:1,H:10:12:6:7,O:7:31:9:1,O:4:10:13:6,"
     "H:10:12:7:9,O:9:30:15:1,O:5:10:13:7,H:20:12:1:8,O:8:31:15:1,O:1:20:2:1"),
]
DIRECTED += [
    # bounded pool that is used again after genuine rejections (lim=1, one thread): task 0 runs (gated), task 1 fills the
    # queue, tasks 2 and 3 are rejected with IW_ERROR_OVERFLOW (genuine: the queue holds 1 = limit); the gate opens, the
    # submitter pauses until tasks 0 and 1 have finished (api 6), iwtp_queue_size must say 0, a further schedule (task 6)
    # must be accepted (the queue is empty), after it has run the size is 0 again.
    ("tp-bounded-reuse-after-overflow",
     "tp nthr=1 lim=1 ovf=0 nsub=1 nt=9 dur=0 wait=1 yp=0 sp=0 seed=1 apis=000064064 gt=0:1 "
     "rules=H:10:12:2:2,O:2:0:9:1,O:1:10:13:4"),
    # iwstw_shutdown called from inside a task body (worker thread = thread 0): the self-thread guard answers
    # IW_ERROR_ASSERTION; afterwards the executor must still work: task 1 is scheduled and run, shutdown(wait) returns.
    ("stw-shutdown-from-task",
     "stw lim=0 blk=0 cb=0 nsub=1 nt=2 dur=0 wait=1 yp=0 sp=0 seed=1 trig=99:0 sdt=0:1 wd=3 "
     "rules=H:10:12:2:2,O:2:0:13:1,H:20:12:1:3,O:3:10:13:2"),
]
DIRECTED += [
    # three submitters parked on a full bounded blocking queue (limit 2): task 0 runs (gated), tasks 1 and 2 fill the queue,
    # threads 13, 14, 15 park one after the other on cond_queue; the gate opens, the worker finishes task 0, takes task 1 and
    # broadcasts cond_queue once: all three wake up, only one may link its task, the others must park again
    ("stw-three-blocked-submitters",
     "stw lim=2 blk=1 cb=0 nsub=6 nt=1 dur=0 wait=1 yp=0 sp=0 seed=1 trig=99:0 gt=0:1 "
     "rules=H:11:12:1:2,O:2:0:9:1,H:12:12:1:3,O:3:11:13:1,H:13:12:1:4,O:4:12:13:1,H:14:12:1:5,O:5:13:3:1,H:15:12:1:6,O:6:14:3:1,"
     "O:1:15:3:1,H:20:12:1:7,O:7:15:13:1"),
    # the same with a non-waiting shutdown while the three are parked: all three must get IW_ERROR_INVALID_STATE, the two
    # queued tasks are dropped (reported to the discard callback), task 0 finishes
    ("stw-three-blocked-submitters-shutdown",
     "stw lim=2 blk=1 cb=1 nsub=6 nt=1 dur=0 wait=0 yp=0 sp=0 seed=1 trig=99:0 gt=0:1 "
     "rules=H:11:12:1:2,O:2:0:9:1,H:12:12:1:3,O:3:11:13:1,H:13:12:1:4,O:4:12:13:1,H:14:12:1:5,O:5:13:3:1,H:15:12:1:6,O:6:14:3:1,"
     "H:20:12:1:7,O:7:15:3:1,O:1:20:2:1"),
]
# the sequence of distinct registry contents that the directed schedule is meant to produce (checked on the real trace;
# a different sequence without a violation = schedule not reached = inconclusive, reported as a note)
EXPECT_REGS = {
    "tp-registry-stale-index": [[0], [0, 30], [0, 30, 31], [0, 31], [0, 31, 32], [0, 32]],
    "tp-registry-stale-index-end": [[0], [0, 30], [0, 30, 31], [0, 31], [0]],
    "tp-registry-two-pool-threads": [[0, 1], [0, 1, 30], [0, 1, 30, 31], [0, 1, 31], [0, 1]],
}


def params(line):
    f = line.split()
    d = {"kind": f[0]}
    for t in f[1:]:
        k, _, v = t.partition("=")
        d[k] = v
    return d


def gen_scenario(rng, tier):
    tp = rng.chance(1, 3)
    nsub = rng.weighted([(1, 3), (2, 3), (3, 2), (4, 2), (8, 1)])
    nt = rng.weighted([(1, 1), (2, 2), (4, 3), (7, 2), (12, 1)])
    lim = rng.choice([0, 1, 3])
    dur = rng.choice([0, 1, 2, 3, 3])
    wait = rng.below(2)
    yp = rng.choice([0, 10, 40])
    sp = rng.choice([0, 5, 30])
    seed = rng.range(1, 1 << 30)
    total = nsub * nt
    tk = rng.weighted([(0, 2), (K["RET"], 4), (K["RUN"], 2), (K["WAIT"], 2)])
    tn = rng.range(0, total) if tk in (K["RET"], K["RUN"]) else rng.range(1, 4)
    if lim and rng.chance(1, 4):
        # bounded queue that is used again after genuine rejections: rounds of (burst of slow tasks > limit, pause until the
        # submitter's accepted tasks have finished, queue_size query); aims at counters that drift on the reject path
        rounds = rng.range(2, 4)
        pat = ""
        for _ in range(rounds):
            pat += "0" * (lim + rng.range(2, 5)) + "6" + "4" * rng.range(1, 2)
        nsub = rng.choice([1, 1, 2, 3])
        if tp:
            nthr = rng.choice([1, 1, 2])
            return "tp nthr=%d lim=%d ovf=%d nsub=%d nt=%d dur=2 wait=%d yp=%d sp=%d seed=%d apis=%s" % (
                nthr, lim, rng.choice([0, 0, 1]), nsub, len(pat), wait, yp, sp, seed, pat * nsub)
        return "stw lim=%d blk=0 cb=%d nsub=%d nt=%d dur=2 wait=%d yp=%d sp=%d seed=%d apis=%s" % (
            lim, rng.below(2), nsub, len(pat), wait, yp, sp, seed, pat * nsub)
    if not tp and rng.chance(1, 4):
        # several submitters blocked on a full bounded queue with a slow worker, often with a shutdown in between: one broadcast
        # of the worker (or of the shutdown) wakes all of them; each must re-check the fill count / the shutdown flag
        lim = rng.choice([1, 2, 2, 3])
        nsub = rng.choice([3, 4, 6, 8])
        nt = rng.choice([2, 3, 4, 6])
        tk = rng.weighted([(0, 2), (K["WAIT"], 3), (K["RET"], 2), (K["RUN"], 1)])
        tn = rng.range(2, nsub + 2) if tk == K["WAIT"] else rng.range(1, nsub * nt)
        return "stw lim=%d blk=1 cb=%d nsub=%d nt=%d dur=%d wait=%d mix=%d yp=%d sp=%d seed=%d trig=%d:%d" % (
            lim, rng.below(2), nsub, nt, rng.choice([1, 2, 2]), wait, rng.choice([0, 0, 10]), rng.choice([0, 10]), sp, seed, tk, tn)
    if tp and rng.chance(3, 5):
        # overflow churn: several overflow threads alive at once that take tasks of different length, so that they leave in
        # another order than they were registered (their cached indexes in tp->threads go stale)
        nthr, ovf = rng.choice([(1, 2), (1, 2), (2, 2), (2, 1), (4, 1), (1, 1)])
        nsub = rng.choice([3, 4, 4, 8])
        nt = rng.choice([4, 7, 12])
        lim = rng.choice([0, 0, 0, 3])
        durs = "".join(str(rng.choice([0, 1, 2, 2])) for _ in range(nsub * nt))
        mix = rng.choice([0, 10, 20])
        tk = rng.weighted([(0, 3), (K["RET"], 2), (K["RUN"], 2)])
        tn = rng.range(nsub * nt // 2, nsub * nt)
        return "tp nthr=%d lim=%d ovf=%d nsub=%d nt=%d dur=2 durs=%s wait=%d mix=%d yp=%d sp=%d seed=%d trig=%d:%d" % (
            nthr, lim, ovf, nsub, nt, durs, wait, mix, yp, sp, seed, tk, tn)
    if tp:
        nthr = rng.choice([1, 2, 4])
        ovf = rng.choice([0, 1, 2])
        mix = rng.choice([0, 10])
        return "tp nthr=%d lim=%d ovf=%d nsub=%d nt=%d dur=%d wait=%d mix=%d yp=%d sp=%d seed=%d trig=%d:%d" % (
            nthr, lim, ovf, nsub, nt, dur, wait, mix, yp, sp, seed, tk, tn)
    blk = rng.below(2)
    cb = rng.below(2)
    mix = rng.choice([0, 0, 15, 40])
    return "stw lim=%d blk=%d cb=%d nsub=%d nt=%d dur=%d wait=%d mix=%d yp=%d sp=%d seed=%d trig=%d:%d" % (
        lim, blk, cb, nsub, nt, dur, wait, mix, yp, sp, seed, tk, tn)


FATAL = {"n": 0}  # crashes/hangs seen in this run: after a few of them the remaining scenarios are not worth 25 s each


def tsan_reports(err):
    """ThreadSanitizer report blocks except those of the harness's own post-mortem printing (the watchdog / crash handler
    reads the event log while the hung threads may still write it)"""
    if "ThreadSanitizer" not in err:
        return ""
    keep = [b for b in err.split("==================") if "WARNING: ThreadSanitizer" in b
            and not re.search(r"\b(watchdog|on_crash)\b", b)]
    return "==================".join(keep)


def run_batch(exe, lines, env):
    """returns list of (output line or None, died-info) per scenario; restarts the harness after a crash/hang"""
    res = [None] * len(lines)
    i = 0
    errs = []
    while i < len(lines):
        if FATAL["n"] >= 4:
            for k in range(i, len(lines)):
                res[k] = "SKIPPED"
            break
        rc, out, err = vlib.run_lines(exe, "\n".join(lines[i:]) + "\n", timeout=90 + 30 * (len(lines) - i), env=env)
        err_lib = tsan_reports(err)
        if err_lib:
            errs.append(err_lib)
        outl = [o for o in out if o.strip()]
        for k, o in enumerate(outl):
            if i + k < len(lines):
                res[i + k] = o
        i += len(outl)
        if i >= len(lines):
            break
        if outl and (outl[-1].startswith("CRASH") or outl[-1].startswith("HANG")):
            FATAL["n"] += 1
            continue  # that scenario has its line; go on with the next one
        FATAL["n"] += 1
        res[i] = "DIED rc=%d %s" % (rc, err[-300:].replace("\n", " "))
        i += 1
    return res, errs


def parse_result(o):
    """-> dict(tag, hdr{}, trace[tokens], tasks[dict])"""
    parts = o.split(" | ")
    hd = parts[0].split()
    r = {"tag": hd[0], "hdr": {}, "trace": [], "tasks": []}
    for t in hd[1:]:
        k, _, v = t.partition("=")
        r["hdr"][k] = v
    if len(parts) > 1 and parts[1].startswith("T"):
        r["trace"] = parts[1].split()[1:]
    if len(parts) > 2 and parts[2].startswith("X"):
        for t in parts[2].split()[1:]:
            f = [int(x) for x in t.split(":")]
            if len(f) == 10:
                r["tasks"].append(dict(zip(("id", "api", "rc", "sched", "exec", "disc", "callst", "retst", "runst", "donest"), f)))
    return r


def oracle(p, r):
    """the property statement on the black-box observations; returns list of violation notes"""
    v = []
    h = r["hdr"]
    if r["tag"].startswith("CRASH") or r["tag"].startswith("DIED"):
        return ["executor crashed (%s %s)" % (r["tag"], h.get("sig", ""))]
    if r["tag"] == "HANG":
        return ["scenario did not finish within the watchdog time (deadlock / lost wake-up)"]
    if r["tag"] != "R":
        return []
    stw = p["kind"] == "stw"
    cb = p.get("cb") == "1"
    wait = p.get("wait") == "1"
    lim = int(p.get("lim", "0"))
    blk = p.get("blk") == "1"
    sdret = int(h.get("sdret", "0"))
    if int(h.get("badfn", "0")):
        v.append("discard callback received a function/argument pair that is not the dropped task")
    if lim > 0 and int(h.get("qmax", "0")) > lim:
        v.append("queue size %s observed above the limit %d" % (h.get("qmax"), lim))
    tasks = [t for t in r["tasks"] if t["api"] in (0, 1, 2) and t["rc"] >= 0]
    has_only = any(t["api"] == 1 for t in tasks)
    for t in tasks:
        acc = t["rc"] == 0 and t["sched"] == 1
        if t["exec"] > 1:
            v.append("task %d executed %d times" % (t["id"], t["exec"]))
        if t["disc"] > 1:
            v.append("task %d reported to the discard callback %d times" % (t["id"], t["disc"]))
        if t["exec"] and t["disc"]:
            v.append("task %d both executed and discarded" % t["id"])
        if t["rc"] == 9:
            v.append("task %d: unexpected error code from the schedule call" % t["id"])
        if t["rc"] == 2 and (lim == 0 or (stw and blk and t["api"] == 0)):
            v.append("task %d: IW_ERROR_OVERFLOW although the queue is unbounded/blocking" % t["id"])
        if not acc:
            if t["exec"] or t["disc"]:
                v.append("task %d was not accepted (rc=%d) but was executed/discarded" % (t["id"], t["rc"]))
            continue
        if sdret and t["callst"] > sdret:
            continue  # the call started after shutdown had returned: outside the contract
        if t["exec"] and sdret and t["donest"] > sdret:
            v.append("shutdown returned before accepted task %d had finished" % t["id"])
        if stw and cb:
            if t["exec"] + t["disc"] != 1:
                v.append("accepted task %d was neither executed nor reported to the discard callback" % t["id"])
        elif wait and not (stw and has_only):
            if t["exec"] != 1:
                v.append("accepted task %d was not executed although shutdown waited for all tasks" % t["id"])
    if stw:
        ex = [t for t in tasks if t["exec"] == 1 and t["rc"] == 0 and t["sched"] == 1]
        for a in ex:
            for b in ex:
                if a["retst"] < b["callst"] and not a["runst"] < b["runst"]:
                    v.append("task %d was submitted before task %d but ran after it" % (a["id"], b["id"]))
    return v[:4]


def monitor(p, r):
    """trace-level oracle for `a worker never stays parked while the queue is non-empty` (needs the source hook for the
    enqueue/dequeue events).  Bookkeeping on the real event trace only: queue length, which pool threads are parked on
    `cond` without a wake-up having been issued since, and whether the mutex has just been released."""
    if r["hdr"].get("hook") != "1" or r["tag"] != "R":
        return []
    stw = p["kind"] == "stw"
    nw = 1 if stw else int(p.get("nthr", "1"))
    live = set(range(nw))
    parked, pending, qlen = set(), 0, 0
    api = {}
    freed = False
    for i, tok in enumerate(r["trace"]):
        f = [int(x) for x in tok.split(":")]
        t, k = f[0], f[1]
        a = f[2] if len(f) > 2 else 0
        if k == K["FREE"]:
            freed = True
        elif freed and k in (K["LOCK"], K["WAKE"]) and (t < 10 or t >= 30):
            # not a caller overlapping shutdown (that is the caller's contract) but a thread of the executor itself
            return ["trace-level: thread %d created by the executor takes the executor's mutex at event %d (%s) after shutdown "
                    "has destroyed and freed the executor (use after free inside the library)" % (t, i, tok)]
        if k == K["CALL"]:
            api[t] = (a, f[4] if len(f) > 4 else 0)
        elif k == K["ENQ"]:
            qlen = 1 if (stw and api.get(t, (0, 0))[0] == 1) else qlen + 1
        elif k in (K["DEQ"], K["DISCARD"]):
            qlen = max(0, qlen - 1) if not (k == K["DISCARD"] and api.get(t, (0, 0))[0] == 1) else qlen
        elif k == K["BCAST"] and a == 0:
            parked.clear(); pending = 0
            if api.get(t, (9, 0)) == (3, 0):
                qlen = 0  # non-waiting shutdown drops the queue
        elif k == K["SIGNAL"] and a == 0:
            if parked:
                pending += 1
        elif k == K["WAIT"] and a == 0 and t in live:
            parked.add(t)
        elif k == K["WAKE"] and a == 0:
            parked.discard(t); pending = max(0, pending - 1)
        elif k == K["EXIT"]:
            live.discard(t); parked.discard(t)
        if k in (K["UNLOCK"], K["WAIT"]) and qlen > 0 and live and live <= parked and pending == 0:
            return ["trace-level: after event %d (%s) the queue holds %d task(s) while every worker thread is parked on the "
                    "condition variable and no wake-up has been issued (lost wake-up)" % (i, tok, qlen)]
    return []


def mutex_held_return(p, r):
    """trace-level: an API call that returns (RET by thread T) after LOCK / WAKE by T with no UNLOCK / WAIT in between has
    returned with the executor's mutex still locked."""
    if not r["trace"] or r["hdr"].get("logovf") == "1":
        return []
    held, api = {}, {}
    for i, tok in enumerate(r["trace"]):
        f = [int(x) for x in tok.split(":")]
        t, k = f[0], f[1]
        if k in (K["LOCK"], K["WAKE"]):
            held[t] = i
        elif k in (K["UNLOCK"], K["WAIT"]):
            held.pop(t, None)
        elif k == K["CALL"]:
            api[t] = f[2]
        elif k == K["RET"] and t in held:
            rest = "the thread deadlocks on its own mutex at its next lock and every later call on the executor from any thread " \
                   "hangs (trace tag %s)" % r["tag"]
            if api.get(t) == 3 and t < 10 and f[2] == 3:
                return ["%s called from a task (thread %d) returned IW_ERROR_ASSERTION with the executor mutex still locked: "
                        "LOCK at event %d, RET at event %d (%s), no UNLOCK in between; %s"
                        % ("iwstw_shutdown" if p["kind"] == "stw" else "iwtp_shutdown", t, held[t], i, tok, rest)]
            return ["API call %s of thread %d returned (event %d, %s) with the executor mutex still locked (LOCK at event %d, no "
                    "UNLOCK in between); %s" % (api.get(t), t, i, tok, held[t], rest)]
    return []


def queue_counter(p, r):
    """trace-level (needs the ENQ/DEQ events of the source hook), independent of the model: the real number of queued tasks
    is #ENQ - #DEQ (iwstw_schedule_only replaces the queue by its task; a non-waiting shutdown empties it).  ENQ/DEQ
    are logged inside critical sections, so at the UNLOCK token of a caller the count is exact for its whole section.
    (a) queue_size (api 4) must return that number; (b) IW_ERROR_OVERFLOW is legal only if the queue held >= limit tasks;
    (c) a bounded queue never holds more than queue_limit tasks: a submitter that finds it full is rejected or blocks, and a
    blocked submitter that wakes up must look at the fill count again (several may be woken by one broadcast)."""
    st = {"qq": 0, "ovf": 0, "reuse": 0, "parked": 0, "parked_max": 0, "sd_while_parked": 0}
    parked = set()
    if r["hdr"].get("hook") != "1" or r["tag"] != "R":
        return [], st
    stw = p["kind"] == "stw"
    lim = int(p.get("lim", "0"))
    qlen, api, task, snap, notes = 0, {}, {}, {}, []
    woke = set()
    name = "iwstw_queue_size" if stw else "iwtp_queue_size"
    rejected = False
    for i, tok in enumerate(r["trace"]):
        f = [int(x) for x in tok.split(":")]
        t, k = f[0], f[1]
        a = f[2] if len(f) > 2 else 0
        if k == K["CALL"]:
            api[t] = (a, f[4] if len(f) > 4 else 0)
            task[t] = f[3] if len(f) > 3 else -1
            woke.discard(t)
            if a == 3 and parked:
                st["sd_while_parked"] = len(parked)
        elif k == K["ENQ"]:
            qlen = 1 if (stw and api.get(t, (0, 0))[0] == 1) else qlen + 1
            if lim > 0 and qlen > lim and len(notes) < 3:
                notes.append("the bounded queue holds %d tasks after task %d was linked by thread %d (event %d), queue_limit is %d: "
                             "a full queue must reject or block%s" % (
                                 qlen, a, t, i, lim, "; the submitter had been parked on the full queue and did not look at the "
                                 "fill count again after waking up" if t in woke else ""))
        elif k == K["WAIT"] and a == 1:
            parked.add(t); st["parked"] += 1; st["parked_max"] = max(st["parked_max"], len(parked))
        elif k == K["WAKE"] and a == 1:
            parked.discard(t); woke.add(t)
        elif k == K["DEQ"]:
            qlen -= 1
        elif k == K["DISCARD"] and api.get(t, (0, 0))[0] == 3:
            qlen -= 1
        elif k == K["BCAST"] and a == 0 and api.get(t, (9, 0)) == (3, 0):
            qlen = 0
        elif k == K["UNLOCK"] and t >= 10:
            snap[t] = qlen
        elif k == K["RET"] and t in snap and t >= 10:
            q = snap.pop(t)
            fa = api.get(t, (9, 0))[0]
            if fa == 4:
                st["qq"] += 1
                if a != q:
                    notes.append("%s returned %d (event %d) but the queue held %d task(s) (tasks linked minus tasks taken by the "
                                 "workers) during that call%s" % (name, a, i, q, ": the counter drifted" if rejected else ""))
            elif fa in (0, 1, 2):
                if a == 2:
                    st["ovf"] += 1
                    if lim == 0 or q < lim:
                        notes.append("task %d rejected with IW_ERROR_OVERFLOW (event %d) although the queue held only %d task(s), "
                                     "limit %d%s" % (task.get(t, -1), i, q, lim,
                                                     " (earlier rejections were not rolled back?)" if rejected else ""))
                    rejected = True
                elif a == 0 and f[3] == 1 and rejected:
                    st["reuse"] += 1
    return notes[:3], st


def registry(p, r):
    """iwtp only; bookkeeping over the real event trace, independent of the Coq model.  Returns (notes, stats).
    * tp->threads: expected content = pool threads 0..nthr-1, then every thread created by iwtp_schedule (SPAWN, in
      order), minus the threads that detached themselves (DETACH).  SPAWN, DETACH and the REGS observations are all
      logged by the thread that holds the mutex, so their order in the log is the order of the critical sections; every
      REGS observation (taken at the end of a critical section) must equal the expected list, same order.
    * when iwtp_shutdown has returned: every thread the executor created was joined by it exactly once or detached
      itself, never both (pthread_join of a detached thread), never neither (leak; thread may run on after the free).
    * iwtp_threads_busy_num (api 5): the value was read inside the caller's critical section LOCK..UNLOCK.  A thread whose
      RUN was logged before that LOCK and whose DONE was not logged before that UNLOCK is inside a task body during the
      whole section (busy is incremented before the dequeue, decremented after the body returned): lower bound.  Threads
      that logged EXIT, or WAIT without a later WAKE, before that UNLOCK are not busy: upper bound alive - parked.  And
      0 <= v <= nthr * (1 + min(factor, 2))."""
    st = {"coex": 0, "stale": 0, "busyq": 0, "regs": 0, "spawned": 0, "seq": []}
    if p["kind"] != "tp" or r["tag"] != "R":
        return [], st
    nthr = int(p.get("nthr", "1"))
    cap = nthr * (1 + max(0, min(int(p.get("ovf", "0")), 2)))
    exp = list(range(nthr))
    created = list(range(nthr))
    alive, parked = set(range(nthr)), set()
    running, serial = {}, 0       # thread -> serial number of the task body it is in
    joined, detached = {}, {}
    api, snap, bounds = {}, {}, {}
    notes = []
    for i, tok in enumerate(r["trace"]):
        f = [int(x) for x in tok.split(":")]
        t, k = f[0], f[1]
        a = f[2] if len(f) > 2 else 0
        if k == K["SPAWN"]:
            exp.append(a); created.append(a); alive.add(a); st["spawned"] += 1
            st["coex"] = max(st["coex"], sum(1 for x in exp if x >= nthr))
        elif k == K["DETACH"]:
            detached[a] = detached.get(a, 0) + 1
            if a in exp:
                if exp.index(a) < len(exp) - 1:
                    st["stale"] += 1  # a thread registered later is still listed: its cached index is stale from now on
                exp.remove(a)
            if a != t:
                notes.append("thread %d detached thread %d (event %d)" % (t, a, i))
        elif k == K["REGS"]:
            obs = f[2:]
            st["regs"] += 1
            if not st["seq"] or st["seq"][-1] != obs:
                st["seq"].append(obs)
            if obs != exp and not notes:
                notes.append("registry of iwtp does not hold exactly the live threads: at event %d (%s) tp->threads = %s but the "
                             "threads created and not yet detached are %s (pool 0..%d, overflow threads from 30 in creation order)"
                             % (i, tok, obs, exp, nthr - 1))
        elif k == K["JOIN"]:
            joined[a] = joined.get(a, 0) + 1
        elif k == K["EXIT"]:
            alive.discard(t); parked.discard(t); running.pop(t, None)
        elif k == K["WAIT"] and (t < 10 or t >= 30):
            parked.add(t)
        elif k == K["WAKE"]:
            parked.discard(t)
        elif k == K["RUN"]:
            serial += 1; running[t] = serial
        elif k == K["DONE"]:
            running.pop(t, None)
        elif k == K["CALL"]:
            api[t] = a
        elif k == K["LOCK"] and api.get(t) == 5:
            snap[t] = dict(running)
        elif k == K["UNLOCK"] and api.get(t) == 5 and t in snap:
            lo = sum(1 for u, n in snap.pop(t).items() if running.get(u) == n)
            bounds[t] = (lo, len(alive - parked))
        elif k == K["RET"] and api.get(t) == 5:
            api[t] = None
            st["busyq"] += 1
            lo, hi = bounds.pop(t, (0, cap))
            if not (0 <= a <= cap):
                notes.append("iwtp_threads_busy_num returned %d (event %d): outside 0..%d = num_threads * (1 + overflow factor)"
                             % (a, i, cap))
            elif a > hi:
                notes.append("iwtp_threads_busy_num returned %d (event %d) while only %d threads of the pool were alive and not "
                             "parked on the condition variable during the call" % (a, i, hi))
            elif a < lo:
                notes.append("iwtp_threads_busy_num returned %d (event %d) while %d threads of the pool were inside a task body "
                             "during the whole call" % (a, i, lo))
    h = r["hdr"]
    if int(h.get("sdret", "0")) and h.get("sdrc") == "0":
        for c in created:
            j, d = joined.get(c, 0), detached.get(c, 0)
            if j and d:
                notes.append("registry of iwtp does not hold exactly the live threads: iwtp_shutdown joined thread %d, which had "
                             "detached itself (pthread_join of a detached thread)" % c)
            elif j + d == 0:
                notes.append("registry of iwtp does not hold exactly the live threads: thread %d created by the executor was "
                             "neither joined by iwtp_shutdown nor detached (not waited for: it can run on after the executor "
                             "is freed)" % c)
            elif j > 1 or d > 1:
                notes.append("thread %d joined %d times / detached %d times" % (c, j, d))
        for c in joined:
            if c not in created:
                notes.append("iwtp_shutdown joined thread id %d which is not a (not yet joined) thread of the executor" % c)
    return notes[:3], st


def model_line(p, r, variant=2):
    hook = r["hdr"].get("hook", "0")
    if p["kind"] == "stw":
        return "stw %s %s %s %s %d | %s" % (p.get("lim", "0"), p.get("blk", "0"), p.get("cb", "0"), hook, variant, " ".join(r["trace"]))
    ovf = min(int(p.get("ovf", "0")), 2)
    return "tp %s %s %d %s %d | %s" % (p.get("nthr", "1"), p.get("lim", "0"), ovf, hook, variant, " ".join(r["trace"]))


def parse_model(o):
    f = o.split()
    d = {"status": f[0] if f else "missing"}
    for t in f[1:]:
        k, _, v = t.partition("=")
        d[k] = v
    return d


def ids(s):
    return [] if s in (None, "-", "") else [int(x) for x in s.split(",")]


def cross_check(p, r, m):
    """ghost history of the replayed model against the black-box observations (T2)"""
    out = []
    tasks = [t for t in r["tasks"] if t["api"] in (0, 1, 2) and t["rc"] >= 0]
    acc = sorted(t["id"] for t in tasks if t["rc"] == 0 and t["sched"] == 1)
    if sorted(ids(m.get("acc"))) != acc:
        out.append("accepted sets differ: model %s impl %s" % (m.get("acc"), acc))
    ex = [t["id"] for t in sorted((t for t in tasks if t["exec"] >= 1), key=lambda t: t["runst"])]
    if p["kind"] == "stw":
        if ids(m.get("started")) != ex:
            out.append("execution order differs: model %s impl %s" % (m.get("started"), ex))
    elif sorted(ids(m.get("started"))) != sorted(ex):
        out.append("executed sets differ: model %s impl %s" % (m.get("started"), ex))
    if p["kind"] == "stw" and p.get("cb") == "1":
        dm = sorted(ids(m.get("disc")) + ids(m.get("repl")))
        di = sorted(t["id"] for t in tasks if t["disc"] >= 1)
        if dm != di:
            out.append("discarded sets differ: model %s impl %s" % (dm, di))
    return out


def evaluate(run, exe, model, named, env, label):
    """runs the scenarios, replays the traces, applies oracle; returns number of violations found"""
    lines = [l for _, l in named]
    nb = max(1, min(vlib.NCPU, len(lines) // 4 or 1))
    chunks = [list(range(i, len(lines), nb)) for i in range(nb)]
    results = [None] * len(lines)
    tsan_err = []

    def work(idx):
        res, errs = run_batch(exe, [lines[i] for i in idx], env)
        return idx, res, errs

    with ThreadPoolExecutor(nb) as ex:
        for idx, res, errs in ex.map(work, chunks):
            for i, o in zip(idx, res):
                results[i] = o
            tsan_err += [(idx, e) for e in errs]
    parsed = []
    mlines = []
    for l, o in zip(lines, results):
        p = params(l)
        r = parse_result(o) if o else {"tag": "DIED", "hdr": {}, "trace": [], "tasks": []}
        parsed.append((p, r))
        mlines.append(model_line(p, r))
    rc, mout, merr = vlib.run_lines(model, "\n".join(mlines) + "\n", timeout=900)
    if rc != 0:
        run.broken.append("T2 model driver exited %d: %s" % (rc, merr[-400:]))
    nviol = 0
    for i, ((name, l), (p, r)) in enumerate(zip(named, parsed)):
        m = parse_model(mout[i] if i < len(mout) else "")
        nontrivial = len(r["trace"]) > 10
        run.case(l, nontrivial=nontrivial,
                 sample=({"scenario": l, "events": len(r["trace"]), "model": m.get("status"),
                          "tasks": len(r["tasks"])} if i % max(1, len(lines) // 5) == 0 else None))
        run.dist(p["kind"]); run.dist("lim=" + p.get("lim", "0")); run.dist("wait=" + p.get("wait", "0"))
        run.dist("nsub=" + p.get("nsub", "1"))
        if p["kind"] == "stw":
            run.dist("blk=" + p.get("blk", "0")); run.dist("cb=" + p.get("cb", "0"))
        if r["hdr"].get("taf") == "1":
            run.dist("executor-touched-after-free(quarantined)")
        if int(r["hdr"].get("holdto", "0") or 0):
            run.notes.append("directed schedule of `%s` was not reached (hold timed out): inconclusive" % (name or l))
            run.dist("inconclusive-directed")
        if r["hdr"].get("logovf") == "1":
            run.notes.append("event log overflow in `%s`" % l)
            continue
        viol = mutex_held_return(p, r) + (oracle(p, r) or monitor(p, r))
        qv, qs = queue_counter(p, r)
        viol = viol + qv
        if qs["qq"]:
            run.dist("queue-size-queries-checked-against-ENQ-DEQ", qs["qq"])
        if qs["ovf"]:
            run.dist("scenarios-with-genuine-overflow-rejections")
        if qs["reuse"]:
            run.dist("scenarios-accepting-again-after-overflow-rejections")
        if qs["parked_max"] >= 2:
            run.dist("stw-scenarios-with->=2-submitters-parked-on-the-full-queue-at-once")
        if qs["parked_max"] >= 3:
            run.dist("stw-scenarios-with->=3-submitters-parked-on-the-full-queue-at-once")
        if qs["sd_while_parked"]:
            run.dist("stw-shutdown-called-while-submitters-are-parked")
        if "sdt" in p:
            run.dist("stw-shutdown-from-task")
        if p["kind"] == "tp":
            rv, rs = registry(p, r)
            viol = viol or rv
            if rs["spawned"]:
                run.dist("tp-overflow-thread-spawned")
            if rs["coex"] >= 2:
                run.dist("tp-coexisting-overflow-threads>=2")
            if rs["stale"]:
                run.dist("tp-stale-cached-index(earlier-registered thread left first)")
            if rs["busyq"]:
                run.dist("tp-busy-queries", rs["busyq"])
            run.dist("tp-registry-observations", rs["regs"])
            if name in EXPECT_REGS and not viol and rs["seq"] != EXPECT_REGS[name] and r["tag"] == "R":
                run.notes.append("directed schedule of `%s` was not reached (registry sequence %s): inconclusive" % (name, rs["seq"]))
                run.dist("inconclusive-directed")
        for note in viol[:1]:
            nviol += 1
            run.violation({"scenario": l, "name": name, "kind": p["kind"], "outcome": results[i][:4000] if results[i] else None,
                           "model": mout[i][:600] if i < len(mout) else None, "label": label,
                           "how": "echo '<scenario>' | h_exec (any build variant); the directed ones are deterministic, "
                                  "random ones depend on the thread schedule (yp/sp/seed perturbation)"},
                          "%s: %s" % (name or "scenario", "; ".join(viol)))
        # T2: trace conformance and ghost/black-box agreement
        if m.get("status") == "ok":
            run.cov["traces_validated_against_impl"] += 1
            run.dist("model-variant-%s-%s" % (p["kind"], m.get("variant")))
            if r["tag"] == "R" and not viol:
                cc = cross_check(p, r, m)
                if cc:
                    run.broken.append("T2 correspondence: model history differs from observation in `%s`: %s" % (l, cc[0]))
                if m.get("pending") not in ("-", None):
                    # trace-level observation (bookkeeping over the real event trace, no black-box counterpart when the
                    # executor has no discard callback): a task was linked into the queue and is still there when every
                    # thread has finished - neither executed nor dropped by the shutdown
                    nviol += 1
                    run.violation({"scenario": l, "name": name, "kind": p["kind"], "outcome": results[i][:4000],
                                   "model": mout[i][:600], "label": label, "pending": m.get("pending")},
                                  "%s: task(s) %s accepted into the queue are still queued after shutdown returned and all "
                                  "threads finished (never executed, not dropped by the shutdown)" % (name or "scenario", m.get("pending")))
            if name:
                run.cov.setdefault("directed", {})[name] = "conforms to model variant %s%s" % (
                    m.get("variant"), "" if not viol else " VIOLATION")
        elif r["tag"] in ("R", "HANG") or r["tag"].startswith("CRASH"):
            if not (viol and r["tag"] != "R"):
                run.broken.append("T2 correspondence: trace of `%s` is not a path of the model: %s" % (
                    l, (mout[i][:200] if i < len(mout) else "no answer")))
    # ThreadSanitizer: a data race inside the executor is a violation (locking discipline of the property's state)
    for idx, e in tsan_err[:2]:
        w = sorted(set(x.strip() for x in re.findall(r"WARNING: ThreadSanitizer: ([^\n(]*)", e)))
        run.dist("tsan-reports", len(w))
        if not any("data race" in x or "double lock" in x or "unlock of an unlocked" in x for x in w):
            run.notes.append("ThreadSanitizer reports: %s" % w)
            continue
        culprit, text = None, e
        for i in idx:  # attribute it to one scenario of the batch when it shows again in isolation
            rc, out, err = vlib.run_lines(exe, lines[i] + "\n", timeout=120, env=env)
            if "ThreadSanitizer: data race" in err:
                culprit, text = i, err
                break
        where = re.findall(r"#0 (\S+) (\S+)", text)[:4]
        nviol += 1
        run.violation({"scenario": lines[culprit if culprit is not None else idx[0]], "kind": "tsan", "tsan": text[-1500:],
                       "batch": [lines[i] for i in idx] if culprit is None else None, "label": label},
                      "ThreadSanitizer: %s in the executor at %s" % (w, where))
    return nviol


def harness(run):
    try:
        exe = vlib.build_harness("h_exec", "tsan")
        run.cov["harness_variant"] = "tsan"
        env = dict(os.environ, TSAN_OPTIONS="report_thread_leaks=0 exitcode=0 halt_on_error=0 report_signal_unsafe=0")
        # smoke: TSan needs a usable address space layout; fall back to the plain build when it cannot start
        rc, out, err = vlib.run_lines(exe, "stw nsub=1 nt=1 seed=1\n", timeout=120, env=env)
        if rc != 0 or not out or not out[0].startswith("R "):
            raise vlib.BuildError("tsan harness does not run: " + err[-200:])
        return exe, env
    except vlib.BuildError as e:
        run.notes.append("tsan variant unavailable (%s); plain build used" % str(e)[:120])
        run.cov["harness_variant"] = "plain"
        return vlib.build_harness("h_exec", "plain"), dict(os.environ)


def check(run):
    rng = run.rng
    proofs_ok = run.proofs()
    exe, env = harness(run)
    model = vlib.build_model("exec")
    N = 220 if run.tier == "quick" else 300000
    if not proofs_ok:
        N *= 10
    named = list(DIRECTED)
    cdir = os.path.join(vlib.VERIF, "corpus", "C20")
    if os.path.isdir(cdir):
        for cf in sorted(os.listdir(cdir)):
            for l in open(os.path.join(cdir, cf)):
                l = l.strip()
                if l and not l.startswith("#") and l not in [x for _, x in named]:
                    named.append(("corpus:" + cf, l))
    nv = evaluate(run, exe, model, named, env, "directed+corpus")
    done_n, rounds = 0, 0
    while done_n < N and nv < 5:
        k = min(10000, N - done_n)  # rounds keep the traces of at most 10000 scenarios in memory
        rnd = [(None, gen_scenario(rng, run.tier)) for _ in range(k)]
        nv += evaluate(run, exe, model, rnd, env, "random")
        done_n += k
        rounds += 1
        if run.broken and not nv and rounds == 1:
            N *= 10  # correspondence broken: search ten times as long for a failing input
        if len(run.broken) > 50:
            break
    return run.finish(
        level=LEVEL,
        rule="scenario = executor kind x queue limit {0,1,3} x blocking x discard callback x 1..8 submitters x tasks per submitter x "
             "task durations {0,short,long,mixed} x shutdown(wait|nowait) at a seeded trigger x API mix (schedule, schedule_only, "
             "schedule_empty_only, queue_size, threads_busy_num) x iwtp threads {1,2,4} x overflow factor {0,1,2} (+ overflow-churn "
             "shape: explicit mixed task durations so that overflow threads leave out of order) x perturbation (yield %, injected spurious wake-up %, seed); plus directed "
             "interleavings (hold/open rules). distinct = distinct scenario text with a trace of > 10 events",
        assumptions=["pthread mutex/condvar semantics as in the model: mutual exclusion, wait releases the mutex atomically, "
                     "a wait may return at any time (spurious), signal releases at least one parked waiter",
                     "the harness defers free() of the executor and makes pthread_*_destroy no-ops (quarantine), so calls that "
                     "overlap the end of shutdown stay memory-safe; such overlaps are counted "
                     "(distribution key executor-touched-after-free) and described in notes/exec.md",
                     "task bodies are opaque and terminate; thread-schedule coverage is by seeded perturbation, not exhaustive "
                     "(the theorems cover all interleavings of the model)"])


def replay(run, path):
    r = json.load(open(path))
    line = r.get("scenario")
    if not line:
        print(json.dumps(r, indent=1)); return 1
    exe, env = harness(run)
    model = vlib.build_model("exec")
    p = params(line)
    print("scenario:", line); print("recorded note:", r.get("note"))
    for attempt in range(25):
        FATAL["n"] = 0
        res, errs = run_batch(exe, [line], env)
        o = res[0]
        rr = parse_result(o) if o else {"tag": "DIED", "hdr": {}, "trace": [], "tasks": []}
        v = mutex_held_return(p, rr) + (oracle(p, rr) or monitor(p, rr) or queue_counter(p, rr)[0] or registry(p, rr)[0])
        if not v and r.get("kind") == "tsan" and any("data race" in e for e in errs):
            v = ["ThreadSanitizer data race: " + errs[0][-600:]]
        if not v and rr["tag"] == "R":
            rc, mout, _ = vlib.run_lines(model, model_line(p, rr) + "\n", timeout=120)
            m = parse_model(mout[0] if mout else "")
            if m.get("status") == "ok" and m.get("pending") not in ("-", None):
                v = ["task(s) %s still queued after shutdown returned and all threads finished" % m.get("pending")]
            elif m.get("status") != "ok":
                print("attempt %d: trace is not a path of the model: %s" % (attempt + 1, (mout[0] if mout else "")[:200]))
        if v:
            print("attempt %d reproduces: %s" % (attempt + 1, "; ".join(v)))
            print("outcome:", (o or "")[:1500])
            return 1
    print("not reproduced in 25 attempts (schedule dependent)")
    return 0
