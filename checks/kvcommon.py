# Shared generator / oracle / correspondence for the KV properties (C01, C02, C03, C06, C09).
#  - scripts in the line protocol of harness/h_kv.c, generated from run.rng;
#  - the ORACLE is a plain python reference (dict per database + ordering rules of the key modes), independent
#    of the Coq model: it decides whether the implementation violates the property statement;
#  - the extracted Coq model (ml/driver_kv.ml) runs the same script; differences are a broken correspondence.
import os, hashlib, shutil, json, tempfile
from decimal import Decimal
import vlib

MODES = ["000", "100", "010", "001", "101", "011"]
NOTCMP = ("open", "close", "sync", "checkpoint", "level", "fsize", "setmeta", "getmeta", "db", "dbdestroy", "exit")


def hexb(b):
    return b.hex() if b else "-"


def unhex(h):
    return b"" if h == "-" else bytes.fromhex(h)


# ------------------------------------------------------------------ keys
def vnum(v):
    if v == 0:
        return b"\x00"
    out = b""
    while v > 0:
        rem = v & 0x7f
        v >>= 7
        out += bytes([(~rem) & 0xff]) if v > 0 else bytes([rem])
    return out


class KeyGen:
    """keys for one database; pools sized to force node splits (> 32 keys), shared long prefixes around the
    115-byte cached prefix, keys that are prefixes of one another, compound suffixes"""

    def __init__(self, rng, mode, profile):
        self.rng, self.mode = rng, mode
        self.pool = []
        n = rng.choice([8, 40, 70, 120] if profile != "small" else [6, 12, 40])
        style = rng.below(5) if mode[1] == "1" else rng.below(4)
        wide = rng.choice([114, 115, 116, 117, 130])
        for i in range(n):
            if mode[0] == "1":
                base = rng.choice([0, 100, 1 << 20, (1 << 31) - 200, (1 << 40)])
                v = base + (i * rng.choice([1, 1, 3, 128]) if style < 3 else rng.below(1 << 34))
                k = v.to_bytes(8, "little") if (v >= (1 << 31) or rng.chance(2, 3)) else v.to_bytes(4, "little")
            elif mode[1] == "1":
                if style == 0:
                    k = str(i * 7).encode()
                elif style == 1:
                    k = ("%d.%d" % (i // 4, (i % 4) * 25 + 1)).encode()
                elif style == 2:
                    k = ("-%d" % (i * 3 + 1)).encode() if i % 2 else str(i * 3 + 1).encode()
                elif style == 4:
                    # decimal texts around and beyond the 115 bytes a node caches of its lowest key: the first 115 characters
                    # of a longer text are another number
                    k = ("%0*d" % (wide, i * 3 + 1)).encode()
                else:
                    k = ("%d.%03d" % (rng.below(50), rng.below(999) + 1)).encode().rstrip(b"0")
            else:
                if style == 0:
                    k = b"k%03d" % i
                elif style == 1:
                    k = b"p" * rng.choice([113, 114, 115, 116]) + b"%02d" % i
                elif style == 2:
                    k = (b"ab" * 70)[: 1 + (i % 130)] + (b"" if i < 130 else b"z")
                else:
                    k = rng.bytes(rng.range(1, 6)) or b"\x00"
            comp = 0
            if mode[2] == "1":
                comp = rng.choice([0, 1, 2, 127, 128, 300, i, 1 << 20, (1 << 40) + i])
            self.pool.append((k, comp))

    def pick(self):
        return self.rng.choice(self.pool)

    def near(self):
        """a key adjacent to a pooled one (absent most of the time)"""
        k, c = self.pick()
        m = self.mode
        if m[0] == "1":
            v = int.from_bytes(k, "little") + self.rng.choice([-1, 1])
            if v < 0:
                v = 0
            return (v.to_bytes(8, "little"), c)
        if m[1] == "1":
            return (k + b"5" if b"." in k else k + b".5", c)
        return (k + self.rng.choice([b"\x00", b"x", b"\xff"]) if self.rng.chance(1, 2) else (k[:-1] or b"\x01"), c)


def logical(mode, k, comp):
    """canonical identity of a key as the oracle sees it"""
    c = comp if mode[2] == "1" else 0
    if mode[0] == "1":
        return (int.from_bytes(k, "little"), c)
    return (k, c)


def api_form(mode, lk):
    """how a cursor reports the key: (bytes, compound)"""
    if mode[0] == "1":
        return (lk[0].to_bytes(8, "little"), lk[1])
    return lk


def scan_sort_key(mode, lk):
    """ascending python sort key such that REVERSE sorted order is the store's forward scan order"""
    if mode[0] == "1":
        return (lk[0], lk[1])
    if mode[1] == "1":
        s = lk[0]
        try:
            val = Decimal(s.decode())
        except Exception:
            val = Decimal(0)
        return (val, s, lk[1]) if False else (val, lk[1] if mode[2] == "1" else 0, s)
    return (lk[0], lk[1])


def real_key_ok(k):
    """numeric strings on which the long-double comparator and the exact oracle agree"""
    try:
        Decimal(k.decode())
    except Exception:
        return False
    ip = k.split(b".")[0].lstrip(b"-")
    fp = k.split(b".")[1] if b"." in k else b""
    return len(ip) <= 15 and len(fp) <= 10 and (b"." not in k or len(fp) >= 1)


# ------------------------------------------------------------------ script generation
class Script:
    def __init__(self):
        self.lines = []

    def add(self, l):
        self.lines.append(l)
        return len(self.lines) - 1


def gen_script(rng, profile, nops, path, wal=None, allow_reopen=False):
    """profile: 'map' (C01), 'cursor' (C02), 'concurrent-cursors' (C09), 'reopen' (C03), 'struct' (C06)"""
    s = Script()
    wal = rng.below(2) if wal is None else wal
    ndb = rng.weighted([(1, 5), (2, 3), (3, 2)])
    modes = [rng.choice(MODES) if rng.chance(2, 3) else "000" for _ in range(ndb)]
    gens = [KeyGen(rng, m, "big" if profile in ("struct", "concurrent-cursors", "map") else rng.choice(["small", "big"])) for m in modes]
    s.add("open %s %d 0 1 0" % (path, wal))
    for i, m in enumerate(modes):
        s.add("db %d %d %s" % (i, i + 1, m))
    meta = {"modes": modes, "wal": wal}
    curs = {}  # cursor slot -> db slot

    def val():
        n = rng.weighted([(0, 1), (1, 3), (4, 3), (8, 3), (20, 4), (100, 2), (400, 1), (1500, 1)])
        if profile == "struct" and rng.chance(1, 12):
            n = rng.choice([3000, 9000])
        return rng.bytes(n)

    def keyarg(d, absent=False):
        k, c = gens[d].near() if absent else gens[d].pick()
        return "%s %d" % (hexb(k), c)

    weights = {
        "map": [("put", 40), ("get", 12), ("getcopy", 5), ("del", 20), ("inc", 5), ("puth", 4), ("nover", 5), ("dump", 3),
                ("struct", 2), ("badkey", 2), ("putbig", 1), ("meta", 3), ("fill", 3), ("drain", 2), ("level", 3), ("lower", 6)],
        "cursor": [("put", 20), ("del", 8), ("copen", 10), ("cmove", 40), ("cread", 15), ("cset", 6), ("cdel", 6), ("ctokey", 12),
                   ("dump", 2), ("fill", 3), ("cclose", 2), ("level", 2)],
        "concurrent-cursors": [("put", 25), ("del", 18), ("copen", 8), ("cmove", 35), ("cset", 4), ("cdel", 8), ("ctokey", 6),
                               ("fill", 4), ("drain", 3), ("dump", 2), ("struct", 1), ("level", 3), ("nearcur", 14)],
        "reopen": [("put", 35), ("del", 15), ("get", 5), ("dump", 4), ("meta", 6), ("reopen", 6), ("fill", 3), ("dbdestroy", 1),
                   ("sync", 3), ("drain", 2), ("level", 2)],
        "struct": [("put", 40), ("del", 25), ("fill", 5), ("drain", 5), ("struct", 5), ("meta", 4), ("dbdestroy", 2), ("dump", 2),
                   ("level", 6), ("reopen", 2), ("cdelrun", 2), ("lower", 8)],
    }[profile]
    i = 0
    while i < nops:
        i += 1
        d = rng.below(ndb)
        op = rng.weighted(weights)
        if op == "put":
            s.add("put %d %s %s 0 0" % (d, keyarg(d), hexb(val())))
        elif op == "nover":
            s.add("put %d %s %s 1 0" % (d, keyarg(d), hexb(val())))
        elif op == "inc":
            k = keyarg(d)
            if rng.chance(1, 2):
                s.add("put %d %s %s 0 0" % (d, k, hexb(rng.bytes(rng.choice([4, 8, 8, 3])))))
            s.add("put %d %s %s 16 %d" % (d, k, hexb(rng.bytes(rng.choice([4, 8, 8, 5]))), rng.choice([0, 0, 1, 2])))
        elif op == "puth":
            s.add("put %d %s %s %d %d" % (d, keyarg(d), hexb(val()), rng.choice([0, 1]), rng.choice([1, 2])))
        elif op == "get":
            s.add("get %d %s" % (d, keyarg(d, rng.chance(1, 4))))
        elif op == "lower":
            s.add("lower %d %s" % (d, keyarg(d, rng.chance(1, 2))))
        elif op == "getcopy":
            s.add("getcopy %d %s %d" % (d, keyarg(d), rng.choice([0, 1, 4, 20, 64, 2000])))
        elif op == "del":
            s.add("del %d %s" % (d, keyarg(d, rng.chance(1, 6))))
        elif op == "badkey":
            if modes[d][0] == "1":
                s.add("put %d %s 0 %s 0 0" % (d, hexb(rng.bytes(rng.choice([1, 3, 5, 9]))), hexb(val())))
                s.add("put %d %s 0 %s 0 0" % (d, hexb(((1 << 63) + rng.below(1000)).to_bytes(8, "little")), hexb(val())))
            else:
                s.add("put %d - 0 %s 0 0" % (d, hexb(val())))
            if modes[d][2] == "1":
                # a negative compound part has no encoded form: every call taking a key refuses it
                nc = -rng.choice([1, 2, 127, 128, 1 << 40])
                kk = hexb(gens[d].pick()[0])
                s.add("put %d %s %d %s 0 0" % (d, kk, nc, hexb(val())))
                s.add("get %d %s %d" % (d, kk, nc))
                s.add("del %d %s %d" % (d, kk, nc))
        elif op == "putbig":
            s.add("putbig %d %s %d" % (d, keyarg(d), 268435456 - rng.choice([0, 1, 2])))
        elif op == "meta":
            s.add("setmeta %d %s" % (d, hexb(rng.bytes(rng.choice([1, 10, 127, 128, 129, 300, 700])))))
            s.add("getmeta %d %d" % (d, rng.choice([1, 64, 128, 1024])))
        elif op == "fill":
            for k, c in gens[d].pool[: rng.choice([33, 40, 70])]:
                s.add("put %d %s %d %s 0 0" % (d, hexb(k), c, hexb(rng.bytes(rng.choice([2, 30])))))
        elif op == "drain":
            pool = list(gens[d].pool)
            lo = rng.below(len(pool))
            for k, c in pool[lo: lo + rng.choice([5, 20, 40])]:
                s.add("del %d %s %d" % (d, hexb(k), c))
        elif op == "level":
            s.add("level %d" % rng.weighted([(0, 5), (1, 3), (2, 2), (3, 1), (7, 1)]))
        elif op == "dump":
            s.add("dump %d" % d)
            if rng.chance(1, 2):
                s.add("rdump %d" % d)
        elif op == "struct":
            s.add("struct %d" % d)
        elif op == "sync":
            s.add("sync")
        elif op == "copen":
            c = rng.below(4)
            mv = rng.weighted([(1, 4), (2, 3), (5, 3), (6, 3)])
            if mv >= 5:
                s.add("copen %d %d %d %s" % (c, d, mv, keyarg(d, rng.chance(1, 3))))
            else:
                s.add("copen %d %d %d" % (c, d, mv))
            curs[c] = d
            s.add("cpeek %d" % c)
        elif op in ("cmove", "cread", "cset", "cdel", "ctokey", "cclose", "nearcur", "cdelrun"):
            if not curs:
                if op == "cdelrun":
                    s.add("copen 0 %d 1" % d)
                    curs[0] = d
                else:
                    continue
            c = rng.choice(sorted(curs))
            d = curs[c]
            if op == "cmove":
                for _ in range(rng.weighted([(1, 6), (3, 3), (40, 1)])):
                    s.add("cto %d %d" % (c, rng.weighted([(3, 6), (4, 3), (1, 1), (2, 1)])))
                    s.add("cget %d" % c)
                if rng.chance(1, 3):
                    s.add("cpeek %d" % c)
            elif op == "cread":
                s.add(rng.choice(["cget %d", "ckey %d", "cval %d"]) % c)
                s.add("ccopyval %d %d" % (c, rng.choice([0, 2, 50, 3000])))
                s.add("ccopykey %d %d" % (c, rng.choice([0, 2, 8, 300])))
                s.add("cmatch %d %s" % (c, keyarg(d)))
                s.add("cmatchself %d %d" % (c, rng.choice([4, 8])))
            elif op == "cset":
                s.add("cset %d %s 0" % (c, hexb(val())))
                s.add("cget %d" % c)
            elif op == "cdel":
                s.add("cdel %d" % c)
                s.add("cpeek %d" % c)
                s.add("cget %d" % c)
            elif op == "cdelrun":
                for _ in range(rng.choice([3, 20, 45])):
                    s.add("cto %d 3" % c)
                    s.add("cget %d" % c)
                    if rng.chance(2, 3):
                        s.add("cdel %d" % c)
            elif op == "ctokey":
                s.add("ctokey %d %d %s" % (c, rng.choice([5, 6]), keyarg(d, rng.chance(1, 3))))
                s.add("cget %d" % c)
            elif op == "nearcur":
                # a mutation chosen relative to the cursor: the oracle substitutes the cursor's current key
                s.add("@near %d %d %s" % (c, rng.choice([0, 0, 1, 2]), hexb(val())))
            elif op == "cclose":
                s.add("cclose %d" % c)
                del curs[c]
        elif op == "dbdestroy":
            if ndb > 1 and rng.chance(1, 2):
                for c in [c for c in curs if curs[c] == d]:
                    s.add("cclose %d" % c)
                    del curs[c]
                s.add("dbdestroy %d" % d)
                s.add("db %d %d %s" % (d, d + 1, modes[d]))
        elif op == "reopen" and allow_reopen:
            for c in sorted(curs):
                s.add("cclose %d" % c)
            curs.clear()
            s.add("close")
            rd = rng.chance(1, 4)
            wal = rng.below(2)
            s.add("open %s %d %d 0 %d" % (path, wal, 1 if rd else 0, rng.below(2)))
            for j, m in enumerate(modes):
                s.add("db %d %d %s" % (j, j + 1, m))
            if rd:
                for j in range(ndb):
                    s.add("dump %d" % j)
                s.add("put 0 %s %s 0 0" % (keyarg(0), hexb(val())))
                s.add("close")
                s.add("open %s %d 0 0 %d" % (path, rng.below(2), rng.below(2)))
                for j, m in enumerate(modes):
                    s.add("db %d %d %s" % (j, j + 1, m))
            for j in range(ndb):
                s.add("dump %d" % j)
                s.add("getmeta %d 1024" % j)
    for j in range(ndb):
        s.add("dump %d" % j)
        s.add("rdump %d" % j)
        s.add("struct %d" % j)
    s.add("close")
    return s.lines, meta


# ------------------------------------------------------------------ oracle
class Oracle:
    """python reference: decides property violations from the IMPLEMENTATION's answers"""

    def __init__(self, modes):
        self.modes = list(modes)
        self.db = [dict() for _ in modes]
        self.meta = [None for _ in modes]
        self.cur = {}      # slot -> dict(db, last (logical key or 'BEGIN'/'END'/None), stable set, cur key)
        self.rdonly = False
        self.bad = []      # (line index, message)
        self.uncertain = set()   # databases whose contents the oracle lost track of (resynchronised at the next dump)

    def order(self, d):
        m = self.modes[d]
        return sorted(self.db[d].keys(), key=lambda lk: scan_sort_key(m, lk), reverse=True)

    def fmt(self, d, lk, v=None):
        k, c = api_form(self.modes[d], lk)
        s = "%s:%d" % (hexb(k), c)
        return s if v is None else s + "=" + hexb(v)

    def mutated(self, d, deleted=None):
        for cs in self.cur.values():
            if cs["db"] == d and deleted is not None:
                if cs.get("stable") is not None:
                    cs["stable"].discard(deleted)
                if cs.get("last") == deleted:
                    cs["last_gone"] = True
                if cs.get("cur") == deleted:
                    cs["cur"] = None        # the cursor now sits on the gap; reads show a neighbour

    def eff_err(self, d, k, comp=0):
        m = self.modes[d]
        if m[2] == "1" and comp < 0:
            return "INVALID_ARGS"      # the compound part has no encoded form for a negative number
        if m[0] == "1":
            if len(k) not in (4, 8):
                return "KEY_NUM_VALUE_SIZE"
            if int.from_bytes(k, "little") >= (1 << (8 * len(k) - 1)):
                return "OVERFLOW"
        return None

    def step(self, i, line, out):
        """line: script line; out: implementation output. Appends to self.bad on violation."""
        f = line.split()
        op = f[0]
        bad = lambda msg: self.bad.append((i, "%s  [line `%s` -> `%s`]" % (msg, line[:160], (out or "")[:200])))
        if out is None:
            bad("no answer (the implementation crashed or hung before this line)")
            return
        o = out.split()
        # a value written through a cursor whose position the oracle did not know is attributed by the cget that follows at
        # once; if anything else comes first, which record changed stays unknown: the database is re-learnt from the next dump
        for c_, cs_ in self.cur.items():
            if "unknown_set" in cs_ and not (op == "cget" and len(f) > 1 and f[1] == str(c_)):
                cs_.pop("unknown_set")
                self.uncertain.add(cs_["db"])
        if self.rdonly and op in ("del", "cset", "cdel", "setmeta", "dbdestroy"):
            if o[0] != "READONLY" and not (op in ("cset", "cdel") and o[0] in ("NOTFOUND", "INVALID_ARGS")):
                bad("mutating call on a read-only store must report READONLY")
            return
        # a database the oracle lost track of: skip until its next dump, which is adopted
        dslot = None
        if op in ("put", "putbig", "putkbig", "get", "getcopy", "del", "rdump", "struct", "dump"):
            dslot = int(f[1])
        elif op in ("cto", "ctokey", "cget", "ckey", "cval", "ccopyval", "ccopykey", "cmatch", "cmatchself", "cset", "cdel") and int(f[1]) in self.cur:
            dslot = self.cur[int(f[1])]["db"]
        elif op == "copen":
            dslot = int(f[2])
        if dslot is not None and dslot in self.uncertain:
            if op == "dump" and o and o[0] == "OK":
                m = self.modes[dslot]
                nd = {}
                for rec in o[1:]:
                    try:
                        ks, vs = rec.split("=")
                        kh, kc = ks.split(":")
                        kb = unhex(kh)
                    except ValueError:
                        bad("the scan of the database breaks off with `%s`" % rec[:60])
                        return
                    lk = (int.from_bytes(kb, "little"), int(kc)) if m[0] == "1" else (kb, int(kc))
                    nd[lk] = unhex(vs)
                self.db[dslot] = nd
                self.uncertain.discard(dslot)
                for cs in self.cur.values():
                    if cs["db"] == dslot:
                        cs.update(last=None, stable=None, cur=None)
                        cs.pop("pending_move", None)
            else:
                if op == "copen":
                    if o and o[0] == "OK":
                        self.cur[int(f[1])] = {"db": dslot, "last": None, "stable": None, "cur": None}
                    else:
                        self.cur.pop(int(f[1]), None)
                return
        if op == "open":
            self.rdonly = f[3] == "1"
            if f[4] == "1" and self.opened_before:
                self.db = [dict() for _ in self.modes]
            if o[0] != "OK":
                bad("open failed")
            self.cur = {}
        elif op == "close":
            if o[0] != "OK":
                bad("close failed")
            self.cur = {}
        elif op == "db":
            if o[0] != "OK":
                bad("database open/create failed")
        elif op in ("sync", "checkpoint"):
            self.cur = {}
            if o[0] != "OK" and not (op == "checkpoint" and o[0].startswith("E")):
                bad("%s failed" % op)
        elif op == "dbdestroy":
            d = int(f[1])
            self.cur = {}
            if o[0] != "OK":
                bad("db destroy failed")
            self.db[d] = {}
            self.meta[d] = None
        elif op == "putkbig":
            d = int(f[1]); comp = int(f[3]); m = self.modes[d]
            ksz = int(f[4]) + (len(vnum(comp)) if m[2] == "1" else 0)
            if self.rdonly:
                exp = "READONLY"
            elif len(vnum(ksz)) + ksz + len(unhex(f[5])) > 0xfffffff:
                exp = "MAXKVSZ"
            else:
                exp = None
                self.uncertain.add(d)
            if exp is not None and o[0] != exp:
                bad("put of a pair beyond the size limit answers %s (expected %s)" % (o[0], exp))
        elif op in ("put", "putbig"):
            d = int(f[1]); k = unhex(f[2]); comp = int(f[3])
            m = self.modes[d]
            if op == "putbig":
                v = None; flags = 0; ph = 0; vlen = int(f[4])
            else:
                v = unhex(f[4]); flags = int(f[5]); ph = int(f[6]) if len(f) > 6 else 0; vlen = len(v)
            before = dict(self.db[d])
            if self.rdonly:
                exp = "READONLY"
            elif len(k) == 0:
                exp = "INVALID_ARGS"
            elif self.eff_err(d, k, comp):
                exp = self.eff_err(d, k, comp)
            else:
                lk = logical(m, k, comp)
                ksz = (len(vnum(lk[0])) if m[0] == "1" else len(k)) + (len(vnum(comp)) if m[2] == "1" else 0)
                if len(vnum(ksz)) + ksz + vlen > 0xfffffff:
                    exp = "MAXKVSZ"
                elif op == "putbig":
                    exp = None
                else:
                    inc = bool(flags & 16)
                    noover = bool(flags & 1) and not inc
                    old = self.db[d].get(lk)
                    if old is not None and noover:
                        exp = "KEY_EXISTS"
                    elif old is not None and inc:
                        if len(v) not in (4, 8) or len(old) not in (4, 8):
                            exp = "CANNOT_INCREMENT"
                        elif ph == 2:
                            exp = "HANDLER_ERROR"
                        else:
                            iv = int.from_bytes(v, "little", signed=True)
                            nv = (int.from_bytes(old, "little") + iv) % (1 << (8 * len(old)))
                            self.db[d][lk] = nv.to_bytes(len(old), "little")
                            exp = "OK"
                    elif ph == 2:
                        exp = "HANDLER_ERROR"
                    else:
                        self.db[d][lk] = v
                        exp = "OK"
            if exp is not None and o[0] != exp:
                self.db[d] = before
                if o[0] == "OK" and op == "put" and exp != "OK":
                    bad("put must fail with %s but succeeded" % exp)
                else:
                    bad("put returned %s, the reference map says %s" % (o[0], exp))
            if o[0] == "OK":
                self.mutated(d)
        elif op in ("get", "getcopy"):
            d = int(f[1]); k = unhex(f[2]); comp = int(f[3])
            if self.eff_err(d, k, comp):
                if o[0] != self.eff_err(d, k, comp):
                    bad("get with an invalid key must report %s" % self.eff_err(d, k, comp))
                return
            lk = logical(self.modes[d], k, comp)
            v = self.db[d].get(lk)
            if v is None:
                if o[0] != "NOTFOUND":
                    bad("get of an absent key must report NOTFOUND")
            elif op == "get":
                if o[0] != "OK" or o[1] != hexb(v):
                    bad("get returned a different value than the last one written (expected %s)" % hexb(v)[:80])
            else:
                bs = int(f[4])
                if o[0] != "OK" or int(o[1]) != len(v) or o[2] != hexb(v[:bs]):
                    bad("get_copy returned wrong size/bytes (expected %d %s)" % (len(v), hexb(v[:bs])[:80]))
        elif op == "del":
            d = int(f[1]); k = unhex(f[2]); comp = int(f[3])
            if self.eff_err(d, k, comp):
                if o[0] != self.eff_err(d, k, comp):
                    bad("del with an invalid key must report %s" % self.eff_err(d, k, comp))
                return
            lk = logical(self.modes[d], k, comp)
            if self.rdonly:
                return
            if lk in self.db[d]:
                if o[0] != "OK":
                    bad("del of an existing key failed")
                else:
                    del self.db[d][lk]
                    self.mutated(d, deleted=lk)
            elif o[0] != "NOTFOUND":
                bad("del of an absent key must report NOTFOUND")
        elif op == "setmeta":
            d = int(f[1])
            if o[0] == "OK" and not self.rdonly:
                self.meta[d] = unhex(f[2])
            elif not self.rdonly:
                bad("set_meta failed")
        elif op == "getmeta":
            d = int(f[1]); sz = int(f[2])
            if o[0] != "OK":
                bad("get_meta failed")
            elif self.meta[d] is not None:
                got = unhex(o[2])
                exp = self.meta[d][:sz]
                if got[:len(exp)] != exp or int(o[1]) < min(sz, len(self.meta[d])):
                    bad("metadata read back differs from what was set")
        elif op in ("dump", "rdump"):
            d = int(f[1])
            keys = self.order(d)
            if op == "rdump":
                keys = keys[::-1]
            exp = "OK" + "".join(" " + self.fmt(d, lk, self.db[d][lk]) for lk in keys)
            if out.strip() != exp.strip():
                got = o[1:]
                expl = exp.split()[1:]
                if sorted(got) != sorted(expl):
                    missing = [x for x in expl if x not in set(got)][:3]
                    extra = [x for x in got if x not in set(expl)][:3]
                    bad("scan returns a different record set than the reference map: missing %s extra %s (%d vs %d records)" % (
                        [m_[:60] for m_ in missing], [e[:60] for e in extra], len(got), len(expl)))
                else:
                    bad("scan returns the records in the wrong order")
        elif op == "struct":
            d = int(f[1])
            self.check_struct(i, d, out, bad)
        elif op == "copen":
            c = int(f[1]); d = int(f[2]); mv = int(f[3])
            self.cur.pop(c, None)
            if mv in (1, 2):
                if o[0] != "OK":
                    bad("cursor open failed")
                else:
                    self.cur[c] = {"db": d, "last": "BEGIN" if mv == 1 else "END", "stable": set(self.db[d].keys()), "cur": None}
            else:
                k = unhex(f[4]); comp = int(f[5])
                if self.eff_err(d, k, comp):
                    return
                self.poskey(c, d, mv, k, comp, o, bad, opening=True)
        elif op == "ctokey":
            c = int(f[1])
            if c not in self.cur:
                return
            d = self.cur[c]["db"]
            if "unknown_set" in self.cur[c]:
                self.cur[c].pop("unknown_set")
                self.uncertain.add(d)
                return
            k = unhex(f[3]); comp = int(f[4])
            if self.eff_err(d, k, comp):
                self.cur[c]["last"] = None
                return
            self.poskey(c, d, int(f[2]), k, comp, o, bad, opening=False)
        elif op == "cto":
            c = int(f[1]); mv = int(f[2])
            if c not in self.cur:
                return
            cs = self.cur[c]
            d = cs["db"]
            if "unknown_set" in cs:
                cs.pop("unknown_set")
                self.uncertain.add(d)
                return
            if mv in (1, 2):
                cs.pop("pending_move", None)
                cs.update(last="BEGIN" if mv == 1 else "END", stable=set(self.db[d].keys()), cur=None)
                return
            cs.pop("after_fail", None)
            if "pending_move" in cs:
                if cs["pending_move"][1] == "OK":
                    # two moves without a read in between: the oracle does not know the intermediate position
                    cs.update(last=None, stable=None)
                else:
                    # the earlier move found nothing: the scan had reached its end in that direction (nothing that existed
                    # throughout may lie ahead there) and the cursor is where it was - the new move continues from there
                    self.after_move(cs, d, cs["pending_move"], None, bad, keep=True)
            cs["pending_move"] = (mv, o[0])
            cs["cur"] = None
        elif op in ("cget", "ckey", "cval", "ccopyval", "ccopykey", "cmatch", "cmatchself"):
            c = int(f[1])
            if c not in self.cur:
                return
            cs = self.cur[c]
            d = cs["db"]
            m = self.modes[d]
            pm = cs.pop("pending_move", None)
            if op != "cget":
                # positioned reads must agree with the record the cursor is known to be on
                lk = cs.get("cur")
                if lk is not None and lk in self.db[d] and o[0] == "OK":
                    v = self.db[d][lk]
                    kb, kc = api_form(m, lk)
                    if op == "ckey" and o[1] != self.fmt(d, lk):
                        bad("cursor key read differs from the record under the cursor")
                    if op == "cval" and o[1] != hexb(v):
                        bad("cursor value read differs from the record under the cursor")
                    if op == "ccopyval" and (int(o[1]) != len(v) or o[2] != hexb(v[:int(f[2])])):
                        bad("cursor copy_val differs from the record under the cursor")
                    if op == "ccopykey" and (int(o[1]) != len(kb) or o[3] != hexb(kb[:int(f[2])]) or (m[2] == "1" and int(o[2]) != kc)):
                        bad("cursor copy_key differs from the record under the cursor")
                    if op == "cmatchself" and o[0] == "OK" and (int(o[1]) != 1 or (m[2] == "1" and int(o[2]) != kc)):
                        bad("is_matched_key does not match the key of the record under the cursor (number keys given as %s bytes)" % f[2])
                    if op == "cmatch":
                        ak = unhex(f[2])
                        if m[0] == "1":
                            exp = (len(ak) in (4, 8) and int.from_bytes(ak, "little") == int.from_bytes(kb, "little"))
                        else:
                            exp = ak == kb
                        if int(o[1]) != (1 if exp else 0):
                            bad("is_matched_key answer differs from the record under the cursor")
                return
            # cget: learn where the cursor is
            if pm and pm[1] != "OK":
                # the move reported the end of the scan (or failed): nothing that existed throughout may lie ahead
                self.after_move(cs, d, pm, None, bad)
                cs["cur"] = None
                pm = None
            if o[0] != "OK":
                if pm and pm[1] == "OK":
                    bad("cursor move succeeded but the record under the cursor cannot be read")
                return
            ks, vs = o[1].split("=")
            kh, kc = ks.split(":")
            kb = unhex(kh)
            lk = (int.from_bytes(kb, "little"), int(kc)) if m[0] == "1" else (kb, int(kc))
            if lk not in self.db[d]:
                bad("cursor returns a record that is not in the database (deleted or never written): %s" % ks[:80])
                cs["cur"] = None
                return
            was = cs.pop("after_fail", None)
            if was is not None and not pm and "unknown_set" not in cs and was in self.db[d] and was != lk:
                bad("after a positioning call that found nothing the cursor reads a record (%s) it was not positioned on" % ks[:60])
            if "unknown_set" in cs:
                self.db[d][lk] = cs.pop("unknown_set")
            if hexb(self.db[d][lk]) != vs:
                bad("cursor returns a stale value for key %s" % ks[:80])
            if pm:
                self.after_move(cs, d, pm, lk, bad)
            elif cs.get("cur") is not None and cs["cur"] in self.db[d] and cs["cur"] != lk:
                bad("cursor reads a different record (%s) than the one it was positioned on" % ks[:60])
            cs["cur"] = lk
        elif op == "cset":
            c = int(f[1])
            if c not in self.cur:
                return
            cs = self.cur[c]
            d = cs["db"]
            cs.pop("after_fail", None)
            lk = cs.get("cur")
            if lk is not None and lk in self.db[d]:
                if o[0] != "OK":
                    bad("cursor set on a positioned cursor failed")
                else:
                    self.db[d][lk] = unhex(f[2])
            elif o[0] == "OK":
                cs["unknown_set"] = unhex(f[2])   # position unknown to the oracle: resolved by the next cget
        elif op == "cdel":
            c = int(f[1])
            if c not in self.cur:
                return
            cs = self.cur[c]
            d = cs["db"]
            cs.pop("after_fail", None)
            lk = cs.get("cur")
            if lk is not None and lk in self.db[d]:
                if o[0] != "OK":
                    bad("cursor del on a positioned cursor failed")
                else:
                    del self.db[d][lk]
                    self.mutated(d, deleted=lk)
                    cs["last"] = lk
                    cs["cur"] = None
            elif o[0] == "OK":
                self.uncertain.add(d)           # the oracle cannot tell which record went: adopt the next dump
        elif op == "cclose":
            self.cur.pop(int(f[1]), None)

    opened_before = False
    resync = False

    def between(self, d, a, b, direction):
        """stable keys strictly between positions a and b in travel direction; a/b logical keys or BEGIN/END"""
        m = self.modes[d]
        sk = lambda lk: scan_sort_key(m, lk)
        def after(x, y):   # is y strictly after x in forward scan order
            if x == "BEGIN" or y == "END":
                return x != y
            if x == "END" or y == "BEGIN":
                return False
            return sk(y) < sk(x)
        return after

    def after_move(self, cs, d, pm, lk, bad, keep=False):
        mv, rc = pm
        last = cs.get("last")
        stable = cs.get("stable")
        after = self.between(d, None, None, None)
        fwd = mv == 3
        if last is None or stable is None:
            if lk is not None:
                cs.update(last=lk, stable=set(self.db[d].keys()))
            return
        ahead = (lambda x, y: after(x, y)) if fwd else (lambda x, y: after(y, x))
        if lk is None:
            # end of scan reported: nothing stable may lie ahead
            if rc == "NOTFOUND":
                rest = [k for k in stable if k in self.db[d] and ahead(last, k)]
                if rest:
                    bad("scan ended although %d record(s) that existed throughout lie ahead of the cursor, e.g. %s" % (
                        len(rest), self.fmt(d, rest[0])[:60]))
                if not keep:
                    cs.update(last=None, stable=None)
            return
        if not ahead(last, lk) and (lk in stable or (lk == last and not cs.get("last_gone"))):
            bad("cursor move did not advance in key order (repeats or goes back): now at %s" % self.fmt(d, lk)[:60])
        skipped = [k for k in stable if k in self.db[d] and ahead(last, k) and ahead(k, lk)]
        if skipped:
            bad("cursor skipped %d record(s) that existed throughout and lay ahead, e.g. %s" % (len(skipped), self.fmt(d, skipped[0])[:60]))
        cs.update(last=lk, stable=set(self.db[d].keys()), last_gone=False)

    def poskey(self, c, d, mv, k, comp, o, bad, opening):
        m = self.modes[d]
        lk = logical(m, k, comp)
        keys = self.order(d)
        if mv == 5:
            exp = lk if lk in self.db[d] else None
        else:
            sk = scan_sort_key(m, lk)
            ge = [x for x in keys if scan_sort_key(m, x) >= sk]
            exp = ge[-1] if ge else None
        if exp is None:
            if o[0] != "NOTFOUND":
                bad("cursor %s on a key with no match must report NOTFOUND" % ("EQ" if mv == 5 else "GE"))
            if not opening and c in self.cur:
                # a positioning call that found nothing: the cursor is where it was or nowhere - never on a third record
                # (so the scan position `last` and the set of keys that existed throughout stay as they are: a following NEXT / PREV
                # continues the scan from there and must not skip a record that lay ahead)
                was = self.cur[c].get("cur")
                pm = self.cur[c].get("pending_move")
                if pm is not None and pm[1] == "OK":
                    self.cur[c].update(last=None, stable=None)    # an unread successful move before it: position unknown to the oracle
                self.cur[c]["cur"] = None
                if was is not None and pm is None:
                    self.cur[c]["after_fail"] = was
                elif "after_fail" in self.cur[c] and pm is not None:
                    self.cur[c].pop("after_fail")
            return
        if o[0] != "OK":
            bad("cursor %s must position on %s but reported %s" % ("EQ" if mv == 5 else "GE", self.fmt(d, exp)[:60], o[0]))
            return
        self.cur[c] = {"db": d, "last": exp, "stable": set(self.db[d].keys()), "cur": exp, "expect": exp}

    def check_struct(self, i, d, out, bad):
        """well-formedness of the node chain as the library's own block reader shows it"""
        if not out.startswith("OK"):
            bad("structure walk failed")
            return
        m = self.modes[d]
        nodes = out.split(" |")[1:]
        total = 0
        for nd in nodes:
            hdr, rest = nd.split(":", 1)
            lvl, pnum, full, lkl = [int(x) for x in hdr.split("/")]
            if ";lk=" not in rest:
                bad("structure walk: the record block of a node cannot be read (%s)" % nd[:60])
                continue
            body, lk = rest.split(";lk=")
            keys = body.split(",")[1:]
            total += len(keys)
            if pnum < 1 or pnum > 32 or len(keys) != pnum:
                bad("node with %d records (must be 1..32)" % pnum)
                continue
            first = unhex(keys[0])
            if unhex(lk) != first[:115] or lkl != min(115, len(first)) or full != (1 if len(first) <= 115 else 0):
                bad("node does not carry the true prefix of its lowest key")
        if total != len(self.db[d]):
            bad("node chain holds %d records, the reference map %d" % (total, len(self.db[d])))


def canon_struct(out):
    """implementation's struct line -> the model's canonical form S|k,k|k,..."""
    if not out.startswith("OK"):
        return out
    res = "S"
    for nd in out.split(" |")[1:]:
        body = nd.split(":", 1)[1].split(";lk=")[0]
        res += "|" + ",".join(body.split(",")[1:])
    return res


# ------------------------------------------------------------------ running
def run_script(run, impl, model, lines, modes, workdir, check_model=True):
    """returns (violations [(idx,msg)], mismatches [(idx, impl, model)], impl outputs)"""
    # resolve @near lines (mutations relative to a cursor position) by running the implementation incrementally is
    # expensive; instead they are expanded by a first pass that tracks cursor keys from the implementation's answers.
    text = "\n".join(lines) + "\n"
    return None


class Session:
    """drives the implementation interactively (line in, line out) so that generated ops may depend on answers"""

    def __init__(self, exe, env=None):
        import subprocess
        vlib.keep_build(exe)
        self.p = subprocess.Popen([exe], stdin=subprocess.PIPE, stdout=subprocess.PIPE, stderr=subprocess.PIPE, env=env)
        self.dead = False

    def ask(self, line):
        if self.dead:
            return None
        try:
            self.p.stdin.write((line + "\n").encode())
            self.p.stdin.flush()
            out = self.p.stdout.readline()
            if not out:
                self.dead = True
                return None
            return out.decode("latin-1").rstrip("\n")
        except (BrokenPipeError, OSError):
            self.dead = True
            return None

    def close(self):
        try:
            self.p.stdin.close()
        except OSError:
            pass
        try:
            self.p.wait(timeout=20)
        except Exception:
            self.p.kill()
        err = self.p.stderr.read().decode("latin-1")[-2000:]
        return self.p.returncode, err


class Auditor:
    """the extracted Coq auditor (KV/Audit.v) as a line server"""

    def __init__(self):
        self.exe = vlib.build_model("audit")
        self.sess = Session(self.exe)
        self.runs = 0

    def audit(self, path):
        self.runs += 1
        return self.sess.ask("audit " + path)

    def recs(self, path, dbid):
        return self.sess.ask("recs %s %d" % (path, dbid))

    def struct(self, path, dbid):
        """node fields of one database as the independent reader (KV/Audit.v + KV/Codec.v) decodes them"""
        return self.sess.ask("struct %s %d" % (path, dbid))

    def close(self):
        self.sess.close()


def execute(impl, lines, modes, env=None, auditor=None):
    """run one script against the implementation with the oracle; returns (final lines, outputs, oracle)"""
    orc = Oracle(modes)
    cur_path, cur_wal = None, 0
    dbids = {}
    sess = Session(impl, env)
    final, outs = [], []
    for raw in lines:
        line = raw
        if raw.startswith("@near"):
            _, c, kind, vh = raw.split()
            c = int(c)
            cs = orc.cur.get(c)
            if not cs or cs.get("cur") is None:
                continue
            d = cs["db"]
            m = orc.modes[d]
            order = orc.order(d)
            lk = cs["cur"]
            idx = order.index(lk) if lk in order else None
            if idx is None:
                continue
            kind = int(kind)
            tgt = lk
            if kind == 1 and idx + 1 < len(order):
                tgt = order[idx + 1]
            if kind == 2 and idx > 0:
                tgt = order[idx - 1]
            kb, kc = api_form(m, tgt)
            if int(vh[:2] if vh != "-" else "0", 16) % 3 == 0:
                line = "del %d %s %d" % (d, hexb(kb), kc)
            else:
                if m[0] == "0" and m[1] == "0" and kind == 0:
                    kb = kb + b"!"       # a new key right next to the cursor's record
                line = "put %d %s %d %s 0 0" % (d, hexb(kb), kc, vh)
        out = sess.ask(line)
        i = len(final)
        final.append(line)
        outs.append(out)
        if line.startswith("open"):
            orc.step(i, line, out)
            orc.opened_before = True
            cur_path, cur_wal = line.split()[1], int(line.split()[2])
        else:
            orc.step(i, line, out)
        if line.startswith("db ") and out == "OK":
            dbids[int(line.split()[1])] = int(line.split()[2])
        if line.startswith("dbdestroy ") and out == "OK":
            dbids.pop(int(line.split()[1]), None)
        if out is None:
            break
        # independent reader of the file format: after a clean close always; without WAL (shared mapping of the
        # file) also in the middle of a history, between two operations
        if auditor is not None and cur_path and ((line == "close" and out == "OK") or
                                                (cur_wal == 0 and line.split()[0] in ("struct", "sync"))):
            verdict = auditor.audit(cur_path)
            if verdict != "WF":
                orc.bad.append((i, "independent reader of the file format rejects the image after `%s`: %s" % (line[:40], (verdict or "auditor died")[:300])))
            # field-level agreement of the two readers: what the implementation's block reader reports for the nodes of
            # this database (level, count, flag, prefix, data-block size, stored keys) is what the model reader decodes
            if line.split()[0] == "struct" and out and out.startswith("OK") and verdict == "WF":
                slot = int(line.split()[1])
                if slot in dbids:
                    mine = auditor.struct(cur_path, dbids[slot]) or ""
                    strip = lambda t: " ".join(x for x in t.split(" ") if not x.startswith("lcnt="))
                    if strip(out) != strip(mine):
                        orc.bad.append((i, "the independent reader decodes the nodes of the database differently from the implementation's own "
                                           "reader: implementation `%s` reader `%s`" % (out[:150], mine[:150])))
                    # ... and every record: stored key, value length and value bytes (hash) of every slot of every node, as
                    # _kvblk_key_peek / _kvblk_value_peek return them, against the model reader of the read-back theorem (C03)
                    his = sess.ask("recs %d" % slot)
                    mine = auditor.recs(cur_path, dbids[slot]) or ""
                    if his is not None and his.startswith("OK") and his != mine:
                        orc.bad.append((i, "the model reader (KV/Records.v) decodes the records of the database differently from the "
                                           "implementation's own readers: implementation `%s` reader `%s`" % (his[:150], mine[:150])))
                    auditor.nrecs = getattr(auditor, "nrecs", 0) + 1
    rc, err = sess.close()
    return final, outs, orc, rc, err


def compare_model(model, final, outs):
    """run the extracted model on the final script; returns list of (idx, impl, model)"""
    # `lower`: the model runs its multi-level search (KV/Skip.v) on its own chain with the node levels the implementation reports
    feed = []
    for i, l in enumerate(final):
        f = l.split()
        if f and f[0] == "lower" and outs[i] and outs[i].startswith("OK idx="):
            o = dict(x.split("=") for x in outs[i].split()[1:])
            feed.append("skiplower %s %s %s %s %s" % (f[1], f[2], f[3] if len(f) > 3 else "0", o["top"], o["lv"]))
        else:
            feed.append(l)
    rc, mo, err = vlib.run_lines(model, "\n".join(feed) + "\n", timeout=900)
    mism = []
    for i, l in enumerate(final):
        op = l.split()[0] if l.split() else ""
        if op in NOTCMP or outs[i] is None:
            continue
        a = outs[i]
        if op == "struct":
            a = canon_struct(a)
        if op == "lower" and a.startswith("OK idx="):
            a = a.split(" top=")[0]
        b = mo[i] if i < len(mo) else "<missing>"
        if b == "UNMODELLED":
            continue
        if a.strip() != b.strip():
            mism.append((i, a, b))
    return mism, (err if rc != 0 else None)


def shrink(impl, lines, modes, pred, budget=60, auditor=None):
    """delta-debug a failing script: pred(final, outs, orc, rc) -> True when the failure is still there"""
    import time
    cur = list(lines)
    n = 2
    tries = 0
    t0 = time.time()
    head = [l for l in cur if l.startswith("open") or l.startswith("db ")][: 1 + len(modes)]
    senv = dict(os.environ)
    senv["ASAN_OPTIONS"] = "detect_leaks=0:abort_on_error=1"
    senv["VERIF_KV_ALARM"] = "20"
    while len(cur) > 3 and tries < budget and time.time() - t0 < 300:   # a failing call may cost the watchdog time of the harness each try
        chunk = max(1, len(cur) // n)
        reduced = False
        for st in range(0, len(cur), chunk):
            cand = cur[:st] + cur[st + chunk:]
            if not any(l.startswith("open") for l in cand[:2]):
                continue
            tries += 1
            clean(cand)
            f, o, orc, rc, err = execute(impl, cand, modes, env=senv)
            if pred(f, o, orc, rc):
                cur = cand
                n = max(n - 1, 2)
                reduced = True
                break
            if tries >= budget or time.time() - t0 >= 300:
                break
        if not reduced:
            if chunk == 1:
                break
            n = min(len(cur), n * 2)
    return cur


def clean(lines):
    """remove the store files a script opens (fresh run)"""
    for l in lines:
        if l.startswith("open "):
            p = l.split()[1]
            for suf in ("", "-wal"):
                try:
                    os.unlink(p + suf)
                except OSError:
                    pass
            break


def drive(run, profile, nscripts, nops, theorem_pid=None, asan=False, reopen=False, extra_check=None, audit=False, geometry=0, boundary=0, bigfile=0, slack=True, destroy=0, thin=0, uplink=0, probe=0, hugekey=0, ringrun=0, skipfail=0, trailer=0, stalehead=0):
    """common body of the KV checks"""
    proofs_ok = run.proofs(theorem_pid or run.pid)
    impl = vlib.build_harness("h_kv", "asan" if asan else "plain")
    model = vlib.build_model("kv")
    work = tempfile.mkdtemp(prefix="iwkv-%s-" % run.pid, dir="/dev/shm" if os.path.isdir("/dev/shm") else None)
    mult = 1 if proofs_ok else 4
    total_mism = 0
    first_mism = None
    env = dict(os.environ)
    env["ASAN_OPTIONS"] = "detect_leaks=0:abort_on_error=1"
    auditor = Auditor() if audit else None
    try:
        # corpus first
        cdir = os.path.join(vlib.VERIF, "corpus", run.pid)
        scripts = []
        if os.path.isdir(cdir):
            for fn in sorted(os.listdir(cdir)):
                if fn.endswith(".ops"):
                    txt = open(os.path.join(cdir, fn)).read().replace("@PATH@", os.path.join(work, "c.db"))
                    ls = [l for l in txt.split("\n") if l.strip() and not l.startswith("#")]
                    modes = [l.split()[3] for l in ls if l.startswith("db ")]
                    # database slots in order of first appearance
                    seen = {}
                    for l in ls:
                        if l.startswith("db "):
                            seen.setdefault(int(l.split()[1]), l.split()[3])
                    modes = [seen[k] for k in sorted(seen)]
                    scripts.append(("corpus:" + fn, ls, {"modes": modes}))
        for n in range((geometry or 0) * mult):
            rng = run.rng.fork()
            ls, meta = geometry_script(rng, os.path.join(work, "g%d.db" % n), wal=rng.below(2))
            scripts.append(("geom%d" % n, ls, meta))
        for n in range(thin or 0):
            rng = run.rng.fork()
            ls, meta = thin_script(rng, os.path.join(work, "t%d.db" % n), wal=rng.below(2))
            scripts.append(("thin%d" % n, ls, meta))
        for n in range(trailer or 0):
            rng = run.rng.fork()
            ls, meta = trailer_script(rng, os.path.join(work, "tr%d.db" % n), wal=0)
            scripts.append(("trailer%d" % n, ls, meta))
        for n in range(skipfail or 0):
            rng = run.rng.fork()
            ls, meta = skipfail_script(rng, os.path.join(work, "sf%d.db" % n), wal=rng.below(2))
            scripts.append(("skipfail%d" % n, ls, meta))
        for n in range(stalehead or 0):
            rng = run.rng.fork()
            ls, meta = stalehead_script(rng, os.path.join(work, "sh%d.db" % n), wal=rng.below(2))
            scripts.append(("stalehead%d" % n, ls, meta))
        for n in range(ringrun or 0):
            rng = run.rng.fork()
            ls, meta = ringrun_script(rng, os.path.join(work, "rr%d.db" % n), wal=rng.below(2))
            scripts.append(("ringrun%d" % n, ls, meta))
        for n in range(hugekey or 0):
            rng = run.rng.fork()
            ls, meta = hugekey_script(rng, os.path.join(work, "h%d.db" % n), wal=rng.below(2))
            scripts.append(("hugekey%d" % n, ls, meta))
        for n in range(probe or 0):
            rng = run.rng.fork()
            ls, meta = probe_script(rng, os.path.join(work, "p%d.db" % n), wal=rng.below(2))
            scripts.append(("probe%d" % n, ls, meta))
        for n in range(uplink or 0):
            rng = run.rng.fork()
            ls, meta = uplink_script(rng, os.path.join(work, "u%d.db" % n), wal=rng.below(2))
            scripts.append(("uplink%d" % n, ls, meta))
        for n in range(destroy or 0):
            rng = run.rng.fork()
            ls, meta = destroy_script(rng, os.path.join(work, "d%d.db" % n), wal=rng.below(2))
            scripts.append(("destroy%d" % n, ls, meta))
        for n in range(bigfile or 0):
            rng = run.rng.fork()
            ls, meta = bigfile_script(rng, os.path.join(work, "big%d.db" % n))
            scripts.append(("bigfile%d" % n, ls, meta))
        for n in range(204 if (boundary and slack) else 0):
            rng = run.rng.fork()
            ls, meta = slack_script(n, rng, os.path.join(work, "k%d.db" % n), wal=rng.below(2))
            scripts.append(("slack%d" % n, ls, meta))
        for n in range((boundary or 0) * mult):
            rng = run.rng.fork()
            ls, meta = boundary_script(rng, os.path.join(work, "b%d.db" % n), wal=rng.below(2))
            scripts.append(("bound%d" % n, ls, meta))
        for n in range(nscripts * mult):
            rng = run.rng.fork()
            path = os.path.join(work, "s%d.db" % n)
            ls, meta = gen_script(rng, profile, rng.range(nops // 3, nops), path, allow_reopen=reopen)
            scripts.append(("gen%d" % n, ls, meta))
        nviol = 0
        for name, ls, meta in scripts:
            if nviol >= 6:
                # the verdict is settled; every further failing script costs the minimiser's and the watchdog's time
                run.cov["scripts_skipped_after_6_violations"] = run.cov.get("scripts_skipped_after_6_violations", 0) + 1
                continue
            clean(ls)
            final, outs, orc, rc, err = execute(impl, ls, meta["modes"], env=env, auditor=auditor)
            crashed = rc not in (0, None) or (outs and outs[-1] is None)
            nontriv = sum(1 for l in final if l.split()[0] in ("put", "del", "cset", "cdel")) > 20
            run.case(hashlib.sha256("\n".join(final).encode()).hexdigest(), nontrivial=nontriv,
                     sample={"script": name, "ops": len(final), "modes": meta["modes"], "first_lines": final[:6]})
            for l in final:
                run.dist(l.split()[0])
            run.dist("scripts")
            if extra_check:
                extra_check(run, name, final, outs, orc, meta, work)
            if orc.bad or crashed:
                why = orc.bad[0][1] if orc.bad else "the implementation crashed: rc=%s %s" % (rc, err[-400:])
                kind = "oracle" if orc.bad else "crash"
                # shrink
                first_msg = orc.bad[0][1].split("  [line")[0] if orc.bad else None

                def pred(f, o, oc, r):
                    if kind == "crash":
                        return r not in (0, None) or (o and o[-1] is None)
                    return any(b[1].split("  [line")[0] == first_msg for b in oc.bad)
                origin = name.rstrip("0123456789")
                if origin in ("ringrun", "trailer"):
                    # a directed reproduction keeps its identity (the known-findings file names it): not minimised, not counted
                    run.violation({"script": [l[:200] for l in final[:8]] + ["... (checks/kvcommon.py %s_script)" % origin], "modes": meta["modes"], "kind": kind,
                                   "class": first_msg or "crash", "origin": origin, "harness": "h_kv",
                                   "failures": [b[1] for b in orc.bad[:5]]}, why)
                    continue
                nviol += 1
                small = shrink(impl, final, meta["modes"], pred, auditor=auditor) if nviol <= 2 else final
                clean(small)
                run.violation({"script": small, "modes": meta["modes"], "kind": kind, "class": first_msg or "crash", "origin": origin,
                               "harness": "h_kv", "failures": [b[1] for b in orc.bad[:5]]}, why)
                continue
            if True:
                mism, merr = compare_model(model, final, outs)
                run.cov["traces_validated_against_impl"] += 1 if not mism else 0
                if merr:
                    run.broken.append("T2 model driver: " + merr[-300:])
                if mism:
                    total_mism += len(mism)
                    if first_mism is None:
                        i, a, b = mism[0]
                        first_mism = "script %s line %d `%s`: impl=`%s` model=`%s`" % (name, i, final[i][:120], a[:200], b[:200])
                        if os.environ.get("VERIF_DEBUG"):
                            print("MISMATCH", first_mism)
                            open("/tmp/kv_mismatch.ops", "w").write("\n".join(final))
        if total_mism:
            run.broken.append("T2 correspondence (node/cursor model vs implementation): %d differing answers; first: %s" % (total_mism, first_mism))
    finally:
        if auditor:
            run.cov["images_audited"] = auditor.runs
            run.cov["record_dumps_compared"] = getattr(auditor, "nrecs", 0)
            auditor.close()
        shutil.rmtree(work, ignore_errors=True)


def geometry_script(rng, path, wal=0):
    """directed scripts for cursor geometry: two full nodes A=[k131..k100], B=[k031..k000]; cursors parked on chosen
    slots (around the split pivot, node ends, the neighbouring node); one mutation chosen relative to them (insert that
    splits at a chosen slot, delete of a chosen slot, delete through a cursor, overwrite); then every scan continues."""
    K = lambda i: hexb(b"k%03d" % i)
    L = ["open %s %d 0 1 0" % (path, wal), "db 0 1 000"]
    for i in list(range(0, 32)) + list(range(100, 132)):
        L.append("put 0 %s 0 %s 0 0" % (K(i), hexb(rng.bytes(rng.choice([1, 8, 30])))))
    if rng.chance(1, 4):
        # a single-record node between the two full ones: [A: 32][k050][B: 32]; it is removed through a cursor or by key,
        # cursors sit on it and on both neighbours, every scan continues in both directions
        L.append("level %d" % rng.choice([0, 0, 1]))
        L.append("put 0 %s 0 %s 0 0" % (K(50), hexb(rng.bytes(3))))
        L += ["copen 0 0 5 %s 0" % K(50), "cget 0", "copen 1 0 5 %s 0" % K(100), "cget 1", "copen 2 0 5 %s 0" % K(31), "cget 2",
              "copen 3 0 5 %s 0" % K(50), "cget 3"]
        how = rng.choice(["cdel", "cdel", "del"])
        L.append("cdel %d" % rng.choice([0, 3]) if how == "cdel" else "del 0 %s 0" % K(50))
        if rng.chance(1, 3):
            L.append("put 0 %s 0 %s 0 0" % (K(rng.choice([50, 60, 40])), hexb(rng.bytes(2))))
        for c in range(4):
            mv = rng.choice([3, 4, 4])
            for _ in range(rng.choice([1, 2, 3, 35])):
                L.append("cto %d %d" % (c, mv))
                L.append("cget %d" % c)
            mv = 7 - mv
            for _ in range(rng.choice([1, 3])):
                L.append("cto %d %d" % (c, mv))
                L.append("cget %d" % c)
            L.append("cpeek %d" % c)
        L += ["dump 0", "rdump 0", "struct 0", "close"]
        return L, {"modes": ["000"], "wal": wal}
    node = rng.choice(["A", "B"])
    base = 100 if node == "A" else 0
    slot_key = lambda sl: base + 31 - sl          # key index at slot sl of the chosen node
    slots = rng.choice([[15, 16, 17, 18], [0, 1, 16, 17], [17, 30, 31, 16], [14, 17, 18, 31]])
    for c, sl in enumerate(slots):
        L.append("copen %d 0 5 %s 0" % (c, K(slot_key(sl))))
        L.append("cget %d" % c)
    # cursors on the neighbouring node: first slot of B / last slot of A
    L.append("copen 4 0 5 %s 0" % K(31)); L.append("cget 4")
    L.append("copen 5 0 5 %s 0" % K(100)); L.append("cget 5")
    if rng.chance(1, 3):
        L.append("cto %d %d" % (rng.below(4), rng.choice([3, 4])))   # one cursor moved without a read
    kind = rng.weighted([("split", 6), ("del", 3), ("cdel", 2), ("set", 1), ("drain", 1)])
    if kind == "split":
        idx = rng.choice([1, 2, 15, 16, 17, 18, 19, 30, 31])
        L.append("level %d" % rng.choice([0, 0, 1, 2]))
        L.append("put 0 %s 0 %s 0 0" % (hexb(b"k%03d!" % slot_key(idx)), hexb(rng.bytes(4))))
    elif kind == "del":
        L.append("del 0 %s 0" % K(slot_key(rng.choice([0, 15, 16, 17, 18, 31]))))
    elif kind == "cdel":
        L.append("cdel %d" % rng.below(4))
    elif kind == "set":
        L.append("cset %d %s 0" % (rng.below(4), hexb(rng.bytes(rng.choice([2, 600])))))
    else:
        for sl in range(0, 32):
            L.append("del 0 %s 0" % K(slot_key(sl)))
    if rng.chance(1, 2):
        L.append("put 0 %s 0 %s 0 0" % (hexb(b"k%03d!!" % slot_key(rng.choice([3, 17, 29]))), hexb(rng.bytes(3))))
    for c in range(6):
        mv = rng.choice([3, 4])
        for _ in range(rng.choice([2, 5, 40])):
            L.append("cto %d %d" % (c, mv))
            L.append("cget %d" % c)
        L.append("cpeek %d" % c)
    L += ["dump 0", "rdump 0", "struct 0", "close"]
    return L, {"modes": ["000"], "wal": wal}


def boundary_script(rng, path, wal=0):
    """directed scripts at the format boundaries of one node / data block:
    (a) keys around the 115-byte cached prefix: short and long keys sharing their first 115 bytes, the head key deleted
        and re-inserted so that the cached prefix and its 'full key' flag must be recomputed both ways;
    (b) pair lengths around the varint boundaries (127/128, 16383/16384): values overwritten in place growing and
        shrinking by one or two bytes until the data block has no spare byte."""
    L = ["open %s %d 0 1 0" % (path, wal), "db 0 1 000"]
    kind = rng.choice(["prefix", "prefix", "varint", "varint", "mixed", "long", "long"])
    keys = []

    def probes(around):
        # cursor GE / EQ with present and absent keys right at, just above and just below the given keys
        out = []
        for k in around:
            cands = [k, k + b"\x00", k[:-1] + bytes([max(0, k[-1] - 1)]) + b"\xff", k[:-1] + bytes([min(255, k[-1] + 1)])]
            if len(k) > 116:
                cands.append(k[:100] + bytes([k[100] ^ 1]) + k[101:])
                cands.append(k[:115])
            for q in cands:
                if q:
                    out.append("copen 1 0 %d %s 0" % (rng.choice([6, 6, 5]), hexb(q)))
                    out.append("cget 1")
                    if rng.chance(1, 3):
                        out += ["cto 1 %d" % rng.choice([3, 4]), "cget 1"]
                    out.append("cclose 1")
        return out
    if kind == "long":
        # keys longer than the 115-byte cached prefix with DIFFERENT leading bytes, a few short ones between them;
        # enough of them for one or two nodes; the first key of a node is deleted again and again
        n = rng.choice([4, 8, 20, 40])
        for i in range(n):
            ln = rng.choice([20, 115, 116, 117, 130, 200])
            keys.append(bytes([40 + (i * 5) % 200]) + rng.bytes(ln - 1))
        keys = list(dict.fromkeys(keys))
        for k in keys:
            L.append("put 0 %s 0 %s 0 0" % (hexb(k), hexb(rng.bytes(rng.choice([1, 5, 20])))))
        L.append("struct 0")
        order = sorted(keys, reverse=True)
        for rnd in range(rng.choice([3, 6, 12])):
            if not order:
                break
            i = rng.choice([0, 0, min(len(order) - 1, 32 - rng.below(3)), rng.below(len(order))])
            victim = order[i]
            L.append("del 0 %s 0" % hexb(victim))
            order.remove(victim)
            near = [victim] + order[max(0, i - 1):i + 1]
            L += probes(near)
            for k in near:
                L.append("get 0 %s 0" % hexb(k))
            L.append("struct 0")
            if rng.chance(1, 3):
                L.append("put 0 %s 0 %s 0 0" % (hexb(victim), hexb(rng.bytes(4))))
                order = sorted(order + [victim], reverse=True)
    if kind in ("prefix", "mixed"):
        common = rng.bytes(1) * rng.choice([112, 113, 114, 115, 116])
        for i in range(rng.choice([3, 6, 12])):
            keys.append(common + rng.bytes(rng.choice([0, 1, 2, 3, 40])) + bytes([65 + i]))
        for i in range(rng.choice([1, 2, 4])):
            keys.append(rng.choice([b"zzz", b"\xff\xff", common[:rng.choice([3, 60, 114, 115])] + b"\xff"]) + bytes([48 + i]))
        keys = list(dict.fromkeys(k for k in keys if k))
        for k in keys:
            L.append("put 0 %s 0 %s 0 0" % (hexb(k), hexb(rng.bytes(rng.choice([1, 5, 20])))))
        L.append("struct 0")
        order = sorted(keys, reverse=True)
        for rnd in range(rng.choice([2, 4, 8])):
            # remove the current head (greatest key) or another key, look everything up, sometimes put it back
            victim = order[0] if rng.chance(2, 3) else rng.choice(order)
            L.append("del 0 %s 0" % hexb(victim))
            order.remove(victim)
            for k in keys:
                L.append("get 0 %s 0" % hexb(k))
            if order:
                L.append("put 0 %s 0 %s 1 0" % (hexb(rng.choice(order)), hexb(rng.bytes(3))))     # NO_OVERWRITE on a present key
            L.append("struct 0")
            if rng.chance(1, 2):
                L += probes([victim] + order[:2])
            if rng.chance(1, 2):
                L.append("put 0 %s 0 %s 0 0" % (hexb(victim), hexb(rng.bytes(4))))
                order = sorted(order + [victim], reverse=True)
            if not order:
                break
    if kind in ("varint", "mixed"):
        ks = [bytes([97 + i]) for i in range(rng.choice([3, 4, 6]))]
        base = rng.choice([126, 126, 125, 127, 16380])
        size = {k: base for k in ks}
        for k in ks:
            L.append("put 0 %s 0 %s 0 0" % (hexb(k), hexb(rng.bytes(base))))
        for rnd in range(rng.choice([6, 12, 30])):
            k = rng.choice(ks)
            size[k] = max(1, size[k] + rng.choice([-2, -1, -1, 1, 1, 2]))
            L.append("put 0 %s 0 %s 0 0" % (hexb(k), hexb(rng.bytes(size[k]))))
            if rng.chance(1, 4):
                extra = bytes([48 + rng.below(10)])
                L.append("put 0 %s 0 %s 0 0" % (hexb(extra), hexb(rng.bytes(rng.choice([1, 53, 60])))))
            if rng.chance(1, 3):
                for kk in ks:
                    L.append("get 0 %s 0" % hexb(kk))
                L.append("struct 0")
    L += ["dump 0", "rdump 0", "struct 0", "close", "open %s %d 0 0 0" % (path, wal), "db 0 1 000", "dump 0", "struct 0", "close"]
    return L, {"modes": ["000"], "wal": wal}


def thin_script(rng, path, wal=0):
    """a database of many nodes is thinned out to a window of records (whole node pages of 16 nodes left with one or two
    live nodes in any slot), then the window itself is deleted key by key (each node vanishes when its last key goes),
    while ANOTHER database allocates space (large metadata, large values) that would land on any page released too
    early; everything is read back, structure walks and syncs in between let the independent reader look at the file."""
    L = ["open %s %d 0 1 0" % (path, wal), "db 0 1 000", "db 1 2 000"]
    n = rng.choice([481, 512, 520, 700, 1000])
    for i in range(n):
        L.append("put 0 %s 0 %s 0 0" % (hexb(b"k%05d" % i), hexb(b"v%d" % (i % 7))))
    width = rng.choice([2, 33, 40, 64, 65, 96])
    a = rng.choice([n - width, n - width - 1, 0, rng.below(max(1, n - width)), max(0, n - width - 32)])
    keep = list(range(a, min(n, a + width)))
    ks = set(keep)
    for i in range(n):
        if i not in ks:
            L.append("del 0 %s 0" % hexb(b"k%05d" % i))
    L += ["struct 0", "sync"]
    order = list(keep) if rng.chance(1, 2) else list(reversed(keep))
    cut = rng.choice([1, 2, len(order) // 2, max(1, len(order) - 33), max(1, len(order) - 1)])
    for j, i in enumerate(order[:cut]):
        L.append("del 0 %s 0" % hexb(b"k%05d" % i))
        if j % 16 == 15:
            L += ["struct 0"]
    L += ["struct 0", "sync"]
    L.append("setmeta 1 %s" % hexb(rng.bytes(rng.choice([4096, 9000]))))
    for i in range(rng.choice([3, 12])):
        L.append("put 1 %s 0 %s 0 0" % (hexb(b"o%04d" % i), hexb(rng.bytes(rng.choice([3000, 700])))))
    for i in order[cut:][:40]:
        L.append("get 0 %s 0" % hexb(b"k%05d" % i))
    L += ["dump 0", "struct 0", "dump 1", "sync", "close", "open %s %d 0 0 0" % (path, wal), "db 0 1 000", "db 1 2 000", "dump 0", "dump 1", "getmeta 1 10000", "close"]
    return L, {"modes": ["000", "000"], "wal": wal}


def trailer_script(rng, path, wal=0):
    """user data that looks like the trailer of an online-backup image: a 60000-byte value filled with 0x7f whose last twelve
    bytes are a little-endian u64 20480 and the u32 IWKV_BACKUP_MAGIC; its block ends the trimmed file, so after a clean close
    the file ends with these bytes.  Reproduces the recorded finding C03-backup-trailer-in-user-data (a read-write open takes
    the store for a backup image, truncates it and dies)."""
    val = b"\x7f" * (60000 - 12) + (20480).to_bytes(8, "little") + (0xBACBAC69).to_bytes(4, "little")
    L = ["open %s %d 0 1 0" % (path, wal), "db 0 1 000", "put 0 6b 0 %s 0 0" % hexb(val), "close",
         "open %s %d 0 0 0" % (path, wal), "db 0 1 000", "get 0 6b 0", "dump 0", "close"]
    return L, {"modes": ["000"], "wal": wal}


def skipfail_script(rng, path, wal=0):
    """a record is deleted under a cursor (by key or through the cursor itself) - the cursor then owes a step to its
    neighbour - and the NEXT call made through it finds nothing: a key probe for an absent key, NEXT at the end of the scan,
    PREV at its beginning; after that the scan is continued in either direction and must not skip a record that was there
    all the time.  Small databases (one node, a few nodes), first / middle / last records."""
    L = ["open %s %d 0 1 0" % (path, wal), "db 0 1 000"]
    n = rng.choice([3, 5, 33, 70])
    for i in range(n):
        L.append("put 0 %s 0 %s 0 0" % (hexb(b"k%03d" % (2 * i)), hexb(b"v%d" % i)))
    for c in range(rng.choice([1, 2, 3])):
        at = rng.choice([0, 0, n - 1, n - 1, 1, n // 2, rng.below(n)])
        key = hexb(b"k%03d" % (2 * at))
        L += ["put 0 %s 0 76 0 0" % key, "copen %d 0 5 %s 0" % (c, key), "cget %d" % c]
        L.append(rng.choice(["del 0 %s 0" % key, "cdel %d" % c]))
        for _ in range(rng.choice([1, 1, 2, 4])):
            how = rng.choice(["probe", "probe-ge", "next", "prev"])
            if how == "probe":
                L.append("ctokey %d 5 %s 0" % (c, hexb(b"k%03d" % (2 * rng.below(n) + 1))))
            elif how == "probe-ge":
                L.append("ctokey %d 6 %s 0" % (c, hexb(b"z")))
            else:
                L.append("cto %d %d" % (c, 3 if how == "next" else 4))      # fails when the cursor is at that end of the scan
        d1 = rng.choice([3, 4])
        for _ in range(rng.choice([1, 2, 40])):
            L += ["cto %d %d" % (c, d1), "cget %d" % c]
        for _ in range(rng.choice([1, 3, 80])):
            L += ["cto %d %d" % (c, 7 - d1), "cget %d" % c]
    L += ["dump 0", "close"]
    return L, {"modes": ["000"], "wal": wal}


def stalehead_script(rng, path, wal=0):
    """a skip list that is tall and then becomes flat under a long-lived cursor: T nodes of a forced level 3..6 and two
    level-0 nodes at the head of the chain (the last of them with one record); the cursor is moved to the first record
    and some steps on, many times (its ring of node copies is recycled, the database head lands in slots that held taller
    nodes or the taller head); all tall nodes are deleted through the plain API; then the cursor deletes the single
    record of the first node, which rewrites the database head from the cursor's copy - all 24 level links of it."""
    T = rng.choice([3, 4, 5, 7])
    lvl = rng.choice([3, 4, 5, 6])
    n = 32 * (T + 1)
    L = ["open %s %d 0 1 0" % (path, wal), "db 0 1 000"]
    for i in range(n + 1):
        L.append("level %d" % (lvl if i < 32 * T else 0))
        L.append("put 0 %s 0 %s 0 0" % (hexb(b"k%04d" % i), hexb(rng.bytes(2))))
    L.append("copen 0 0 1")
    for it in range(rng.choice([30, 60, 100])):
        L.append("cto 0 1")
        L += ["cto 0 3"] * (1 + (it * 7) % 71)
    L.append("cto 0 2")
    for i in range(32 * T):
        L.append("del 0 %s 0" % hexb(b"k%04d" % i))
    L += ["struct 0", "ctokey 0 5 %s 0" % hexb(b"k%04d" % n), "cdel 0", "cclose 0", "struct 0", "sync", "dump 0", "close",
          "open %s %d 0 0 0" % (path, wal), "db 0 1 000", "dump 0", "struct 0", "close"]
    return L, {"modes": ["000"], "wal": wal}


def ringrun_script(rng, path, wal=0):
    """one node on level 1 followed by a run of 60 / 80 nodes on level 0 (levels forced through the library's test hook),
    then a put that makes a new level-1 node behind the run: the search walks the whole run on level 0 and needs more node
    copies than the 50-slot ring of the search context holds.  Reproduces the recorded finding C06-ring-overrun."""
    L = ["open %s %d 0 1 0" % (path, wal), "db 0 1 000", "level 1", "put 0 %s 0 61 0 0" % hexb(b"k99999")]
    n = 32 * rng.choice([60, 80]) + 31
    for i in range(n, 0, -1):
        L.append("level 0")
        L.append("put 0 %s 0 62 0 0" % hexb(b"k%05d" % i))
    L += ["struct 0", "level 1", "put 0 %s 0 63 0 0" % hexb(b"k00000"), "struct 0", "sync", "dump 0", "close"]
    return L, {"modes": ["000"], "wal": wal}


def hugekey_script(rng, path, wal=0):
    """a pair whose KEY alone is at or beyond the record size limit (0xfffffff) must be refused before anything is touched:
    asked where a refusal that comes too late would hurt - a key that sorts into the middle (front, back) of a node that is
    full, so that the insertion would have to split it - in plain and compound byte-key modes; then everything is read back,
    the structure is walked, the store is reopened."""
    mode = rng.choice(["000", "001"])
    L = ["open %s %d 0 1 0" % (path, wal), "db 0 1 %s" % mode]
    n = rng.choice([32, 64, 33])
    for i in range(n):
        L.append("put 0 %s %d %s 0 0" % (hexb(b"k%03d" % i), 5 if mode == "001" else 0, hexb(b"v%d" % i)))
    lim = 0xfffffff
    for _ in range(rng.choice([1, 2, 3])):
        pre = rng.choice([b"k%03d" % rng.below(n) + b"x", b"k015x", b"a", b"z", b"k%03d" % (n - 1) + b"z"])
        ksz = rng.choice([lim, lim - 3, lim - 1, lim + 1, lim + 100, 1 << 29])    # every one refused: 4 + ksz > lim (an accepted 256 MB key is not this script's subject)
        L.append("putkbig 0 %s %d %d %s" % (hexb(pre), 5 if mode == "001" else 0, ksz, hexb(rng.bytes(rng.choice([0, 1, 8])))))
        for i in range(0, n, rng.choice([1, 3])):
            L.append("get 0 %s %d" % (hexb(b"k%03d" % i), 5 if mode == "001" else 0))
        L += ["struct 0"]
        L.append("put 0 %s %d %s 0 0" % (hexb(b"k%03dy" % rng.below(n)), 5 if mode == "001" else 0, hexb(b"w")))
    L += ["dump 0", "rdump 0", "struct 0", "close", "open %s %d 0 0 0" % (path, wal), "db 0 1 %s" % mode, "dump 0", "close"]
    return L, {"modes": [mode], "wal": wal}


def probe_script(rng, path, wal=0):
    """a positioned cursor survives searches that find nothing: many nodes (a search loads a node copy per node it visits,
    all from the cursor's own ring of block copies), a cursor positioned on a key, then runs of EQ probes for absent keys
    (and GE probes beyond the last key) through the SAME cursor; the cursor must still read, overwrite, delete and step from
    the record it was on."""
    L = ["open %s %d 0 1 0" % (path, wal), "db 0 1 000"]
    n = rng.choice([300, 700, 1500])
    for i in range(n):
        if rng.chance(1, 20):
            L.append("level %d" % rng.choice([1, 2, 3, 5]))
        L.append("put 0 %s 0 %s 0 0" % (hexb(b"k%05d" % (2 * i)), hexb(b"v%d" % i)))
    for rnd in range(rng.choice([2, 4])):
        at = rng.below(n)
        L += ["copen 0 0 5 %s 0" % hexb(b"k%05d" % (2 * at)), "cget 0"]
        for _ in range(rng.choice([3, 8, 20, 60])):
            if rng.chance(1, 8):
                L.append("ctokey 0 6 %s 0" % hexb(b"k%05d" % (2 * n + 1 + rng.below(50))))     # GE beyond the greatest key
            else:
                L.append("ctokey 0 5 %s 0" % hexb(b"k%05d" % (2 * rng.below(n) + 1)))              # EQ of an absent key
            if rng.chance(1, 6):
                L.append("cget 0")
        how = rng.choice(["cget", "cset", "cdel", "next", "prev"])
        if how == "cset":
            L += ["cget 0", "cset 0 %s 0" % hexb(rng.bytes(rng.choice([2, 40]))), "cget 0"]
        elif how == "cdel":
            L += ["cget 0", "cdel 0"]
        elif how in ("next", "prev"):
            L += ["cget 0", "cto 0 %d" % (3 if how == "next" else 4), "cget 0"]
        else:
            L += ["cget 0", "ckey 0", "cval 0"]
        L.append("cclose 0")
    L += ["dump 0", "close"]
    return L, {"modes": ["000"], "wal": wal}


def uplink_script(rng, path, wal=0):
    """cursors parked on nodes of every level; then runs of adjacent new keys split nodes elsewhere, each new node with a
    forced level, so that the parked nodes are predecessors of new nodes at upper levels (or lose such a successor when a
    run is deleted again); then every cursor writes through its node copy (set / delete) and the structure is walked."""
    L = ["open %s %d 0 1 0" % (path, wal), "db 0 1 000"]
    n = rng.choice([60, 100, 160])
    idx = list(range(n))
    if rng.chance(1, 2):
        for i in range(len(idx) - 1, 0, -1):
            j = rng.below(i + 1)
            idx[i], idx[j] = idx[j], idx[i]
    for i in idx:
        if rng.chance(1, 6):
            L.append("level %d" % rng.choice([0, 1, 1, 2, 3]))
        L.append("put 0 %s 0 %s 0 0" % (hexb(b"k%03d" % i), hexb(rng.bytes(rng.choice([2, 2, 30])))))
    ncur = rng.choice([1, 2, 3])
    for c in range(ncur):
        L += ["copen %d 0 5 %s 0" % (c, hexb(b"k%03d" % rng.below(n))), "cget %d" % c]
    for _ in range(rng.choice([1, 2, 3])):
        base = rng.below(n)
        run = rng.choice([20, 40, 70])
        for j in range(run):
            if rng.chance(1, 3):
                L.append("level %d" % rng.choice([1, 1, 2, 3]))
            L.append("put 0 %s 0 %s 0 0" % (hexb(b"k%03d.%02d" % (base, j)), hexb(rng.bytes(2))))
        if rng.chance(1, 3):
            for j in range(run):
                L.append("del 0 %s 0" % hexb(b"k%03d.%02d" % (base, j)))
    for c in range(ncur):
        how = rng.choice(["cset", "cdel", "cset"])
        L.append("cset %d %s 0" % (c, hexb(rng.bytes(rng.choice([1, 40, 300])))) if how == "cset" else "cdel %d" % c)
        L.append("cget %d" % c)
    L += ["struct 0", "sync", "dump 0", "rdump 0"]
    for c in range(ncur):
        L.append("cclose %d" % c)
    L += ["close", "open %s %d 0 0 0" % (path, wal), "db 0 1 000", "dump 0", "struct 0", "close"]
    return L, {"modes": ["000"], "wal": wal}


def destroy_script(rng, path, wal=0):
    """a database of many nodes (several node pages of 16 nodes) is thinned out to a few surviving nodes - a window of
    the key range, so that whole pages hold a single live node in any of their slots - and then destroyed; the other
    database stays; the independent reader must find every block of the destroyed one free again."""
    L = ["open %s %d 0 1 0" % (path, wal), "db 0 1 000", "db 1 2 000"]
    n = rng.choice([200, 400, 512, 520, 700, 1100])
    asc = rng.chance(2, 3)
    idx = list(range(n)) if asc else list(range(n - 1, -1, -1))
    if rng.chance(1, 5):
        for i in range(len(idx) - 1, 0, -1):
            j = rng.below(i + 1)
            idx[i], idx[j] = idx[j], idx[i]
    for i in idx:
        L.append("put 0 %s 0 %s 0 0" % (hexb(b"k%05d" % i), hexb(b"v")))
    for i in range(rng.choice([0, 3, 40])):
        L.append("put 1 %s 0 %s 0 0" % (hexb(b"o%04d" % i), hexb(rng.bytes(rng.choice([1, 30, 300])))))
    width = rng.choice([1, 1, 8, 32, 33, 64, 100])
    a = rng.choice([0, n - width, rng.below(max(1, n - width)), (rng.below(max(1, n // 32)) * 32) % max(1, n - width)])
    keep = set(range(a, min(n, a + width)))
    if rng.chance(1, 4):
        keep |= set(range(max(0, a - 3 * 32), max(0, a - 3 * 32) + rng.choice([1, 32])))
    for i in range(n):
        if i not in keep:
            L.append("del 0 %s 0" % hexb(b"k%05d" % i))
    L += ["struct 0", "sync", "dbdestroy 0", "struct 1", "sync"]
    if rng.chance(1, 2):
        L += ["db 0 1 000", "put 0 6161 0 62 0 0", "struct 0"]
    L += ["close", "open %s %d 0 0 0" % (path, wal), "db 1 2 000", "dump 1", "close"]
    return L, {"modes": ["000", "000"], "wal": wal}


def slack_script(n, rng, path, wal=0):
    """sweep of the spare space of one data block: three values at a varint boundary shrunk in place, a filler of size
    30+n%51 eats the slack, then the values grow back in place (the index entry of each widens by one byte)."""
    L = ["open %s %d 0 1 0" % (path, wal), "db 0 1 000"]
    base, d, nk = [(126, 1, 3), (126, 2, 3), (127, 1, 3), (126, 1, 4)][(n // 51) % 4]
    ks = [b"a", b"b", b"c", b"e"][:nk]
    for k in ks:
        L.append("put 0 %s 0 %s 0 0" % (hexb(k), hexb(rng.bytes(base))))
    for k in ks:
        L.append("put 0 %s 0 %s 0 0" % (hexb(k), hexb(rng.bytes(base - d))))
    L.append("put 0 %s 0 %s 0 0" % (hexb(b"d"), hexb(rng.bytes(30 + n % 51))))
    for k in ks:
        L.append("put 0 %s 0 %s 0 0" % (hexb(k), hexb(rng.bytes(base))))
    for k in ks + [b"d"]:
        L.append("get 0 %s 0" % hexb(k))
    L += ["struct 0", "dump 0", "close"]
    return L, {"modes": ["000"], "wal": wal}


def bigfile_script(rng, path):
    """a store that outgrows its first free-space bitmap (> 4 MB), with free extents of many sizes, closed with trim
    (the bitmap is relocated towards the start of the file) and reopened in every mode"""
    wal = rng.below(2)
    L = ["open %s %d 0 1 0" % (path, wal), "db 0 1 000", "db 1 2 100"]
    # metadata areas of odd block counts leave free extents that start off a page boundary when they shrink
    metas = [rng.range(1, 120) for _ in range(2)]
    L.append("setmeta 0 %s" % hexb(bytes([7]) * (metas[0] * 128)))
    n = rng.choice([560, 620, 700])
    vals = {}
    for i in range(n):
        k = b"big%04d" % i
        sz = rng.choice([7000, 8000, 8100, 9000])
        L.append("put 0 %s 0 %s 0 0" % (hexb(k), hexb(bytes([i % 251]) * sz)))
    for i in range(40):
        L.append("put 1 %s 0 %s 0 0" % (hexb((i * 77).to_bytes(8, "little")), hexb(rng.bytes(rng.choice([3, 300])))))
    L.append("setmeta 1 %s" % hexb(rng.bytes(500)))
    # holes of many sizes: delete runs, re-put smaller / larger values
    i = 0
    while i < n:
        run_len = rng.choice([1, 1, 2, 3, 5, 8])
        if rng.chance(2, 3):
            for j in range(i, min(n, i + run_len)):
                L.append("del 0 %s 0" % hexb(b"big%04d" % j))
        i += run_len + rng.choice([0, 1, 2])
    L.append("setmeta 0 %s" % hexb(bytes([9]) * rng.choice([1, 100, 128 * max(1, metas[0] // 3)])))
    for i in range(rng.choice([0, 30, 120])):
        L.append("put 0 %s 0 %s 0 0" % (hexb(b"sm%04d" % i), hexb(rng.bytes(rng.choice([10, 100, 1000, 3000])))))
    L += ["dump 1", "getmeta 1 1024", "close"]
    for rd, w2 in ((1, wal), (0, 1 - wal), (0, wal)):
        L += ["open %s %d %d 0 %d" % (path, w2, rd, rng.below(2)), "db 0 1 000", "db 1 2 100", "dump 0", "dump 1", "getmeta 1 1024"]
        if not rd:
            L += ["put 0 %s 0 %s 0 0" % (hexb(b"after"), hexb(rng.bytes(5000))), "del 0 %s 0" % hexb(b"big%04d" % rng.below(n))]
        L += ["struct 1", "close"]
    return L, {"modes": ["000", "100"], "wal": wal}

RULE = ("operation scripts generated from VERIF_SEED (key pools that fill nodes beyond 32 records, shared prefixes of 113..116 bytes, "
        "keys that are prefixes of one another, compound suffixes, integer/real-number keys, values 0..9000 bytes, forced skip-list levels); "
        "each script runs against the implementation (python reference-map oracle decides violations) and against the extracted Coq model "
        "(answers, node structure and cursor bookkeeping compared line by line); a case = one script, distinct by text, non-trivial = more than 20 mutations")
ASSUME = ["real-number keys: generator restricted to well-formed numerals (<= 15 integer digits, <= 10 fraction digits) where the long double "
          "comparator equals exact comparison", "malloc failure and I/O error paths are not exercised"]


def replay(run, path):
    r = json.load(open(path))
    impl = vlib.build_harness("h_kv")
    work = tempfile.mkdtemp(prefix="iwkv-replay-")
    ls = []
    for l in r["script"]:
        f = l.split()
        if f and f[0] == "open":
            f[1] = os.path.join(work, "r.db")
            l = " ".join(f)
        ls.append(l)
    clean(ls)
    aud = Auditor() if run.pid == "C06" else None
    final, outs, orc, rc, err = execute(impl, ls, r["modes"], auditor=aud)
    if aud:
        aud.close()
    for i, (l, o) in enumerate(zip(final, outs)):
        print("%4d %s -> %s" % (i, l[:100], (o or "<no answer>")[:140]))
    for b in orc.bad[:5]:
        print("VIOLATES@%d:" % b[0], b[1][:300])
    if rc not in (0, None):
        print("exit status", rc, err[-300:])
    return 1 if (orc.bad or rc not in (0, None)) else 0
