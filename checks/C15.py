# C15 - JSON Patch gives the RFC 6902 result and a failed patch changes nothing
# (shared helpers of the jpatch family live here; checks/C16.py imports them)
import os, json, struct, re
import vlib

LEVEL = "proof"
PID = "C15"


# ------------------------------------------------------------------------------------------------
# values: None, bool, int, ("D", bits) for doubles, bytes for strings, list, dict with bytes keys
def f64(x):
    return ("D", struct.unpack(">Q", struct.pack(">d", x))[0])


def to_json(v):
    """JSON text of a value (only what both parsers read the same way: see notes/jpatch.md)"""
    if v is None:
        return "null"
    if v is True:
        return "true"
    if v is False:
        return "false"
    if isinstance(v, int):
        return str(v)
    if isinstance(v, tuple):
        return repr(struct.unpack(">d", struct.pack(">Q", v[1]))[0])
    if isinstance(v, bytes):
        return json.dumps(v.decode("utf-8"), ensure_ascii=False)
    if isinstance(v, list):
        return "[" + ",".join(to_json(x) for x in v) + "]"
    if isinstance(v, dict):
        return "{" + ",".join(to_json(k) + ":" + to_json(x) for k, x in v.items()) + "}"
    raise ValueError(v)


class DumpError(Exception):
    pass


def parse_dump(s):
    """canonical dump of harness/driver -> value; '_' (no document) -> ('NONE',)"""
    pos = [0]

    def val():
        c = s[pos[0]]
        pos[0] += 1
        if c == "_":
            return ("NONE",)
        if c == "N":
            return None
        if c == "T":
            return True
        if c == "F":
            return False
        if c == "I":
            st = pos[0]
            while pos[0] < len(s) and (s[pos[0]].isdigit() or s[pos[0]] == "-"):
                pos[0] += 1
            return int(s[st:pos[0]])
        if c == "D":
            h = s[pos[0]:pos[0] + 16]
            pos[0] += 16
            return ("D", int(h, 16))
        if c == "S":
            return hexstr()
        if c == "[":
            out = []
            if s[pos[0]] == "]":
                pos[0] += 1
                return out
            while True:
                out.append(val())
                c2 = s[pos[0]]
                pos[0] += 1
                if c2 == "]":
                    return out
                if c2 != ",":
                    raise DumpError(s)
        if c == "{":
            out = {}
            if s[pos[0]] == "}":
                pos[0] += 1
                return out
            while True:
                k = hexstr()
                if s[pos[0]] != ":":
                    raise DumpError(s)
                pos[0] += 1
                v = val()
                if k in out:
                    raise DumpError("duplicate member " + s)
                out[k] = v
                c2 = s[pos[0]]
                pos[0] += 1
                if c2 == "}":
                    return out
                if c2 != ",":
                    raise DumpError(s)
        raise DumpError(s)

    def hexstr():
        if s[pos[0]] == "-":
            pos[0] += 1
            return b""
        st = pos[0]
        while pos[0] < len(s) and s[pos[0]] in "0123456789abcdef":
            pos[0] += 1
        return bytes.fromhex(s[st:pos[0]])

    try:
        v = val()
        if pos[0] != len(s):
            raise DumpError(s)
        return v
    except (IndexError, ValueError):
        raise DumpError(s)


def fields(line):
    """'rc=ok doc=... kl=... unchanged=1' -> dict"""
    out = {}
    for t in line.split():
        if "=" in t:
            k, v = t.split("=", 1)
            out[k] = v
        else:
            out.setdefault("_rest", []).append(t)
    return out


def hx(s):
    b = s.encode("utf-8") if isinstance(s, str) else s
    return b.hex() if b else "-"


# ------------------------------------------------------------------------------------------------
# ORACLE: RFC 6901 / RFC 6902 over python values.  Written from the RFC text, independent of the Coq model.
class PatchError(Exception):          # the RFC makes the operation an error
    pass


class TestFailed(PatchError):         # a `test` whose value differs
    pass


class Lenient(Exception):             # the RFC makes it an error for a reason the library deliberately reads otherwise
    pass


class Unspecified(Exception):         # extension used outside what its one-line description covers
    pass


def ptr_parse(p):
    if p == "":
        return []
    if not p.startswith("/"):
        raise PatchError("pointer must start with /")
    if len(p) > 1 and p.endswith("/"):
        raise Lenient("trailing empty segment is rejected by the library")
    segs = []
    for raw in p[1:].split("/"):
        i = 0
        out = ""
        while i < len(raw):
            if raw[i] == "~":
                if raw[i + 1:i + 2] == "0":
                    out += "~"
                elif raw[i + 1:i + 2] == "1":
                    out += "/"
                else:
                    raise PatchError("bad escape")
                i += 2
            else:
                out += raw[i]
                i += 1
        segs.append(out.encode("utf-8"))
    if segs == [b""]:
        raise Lenient("'/' is the library's alias of the root")
    return segs


def arr_index(seg, n, for_insert):
    """RFC 6901 array index; '-' only as insert position"""
    s = seg.decode("utf-8", "replace")
    if s == "-":
        if for_insert:
            return n
        if "array-index" in OPEN_ON:
            raise PatchError("array-index: '-' is the element after the last one (rfc6901 4): no such element")
        raise Lenient("'-' addresses the last element in the library")
    if s == "0" or (s.isascii() and s.isdigit() and s[0] != "0" and len(s) <= 9):
        i = int(s)
        if i < n or (for_insert and i == n):
            return i
        raise PatchError("index out of range")
    if "array-index" in OPEN_ON:
        raise PatchError("array-index: %r is no rfc6901 array index" % s)
    raise Lenient("array index %r is not rfc6901 syntax; the library reads it with iwatoi" % s)


def get(doc, segs):
    cur = doc
    for s in segs:
        if isinstance(cur, dict):
            if s not in cur:
                raise PatchError("no member")
            cur = cur[s]
        elif isinstance(cur, list):
            cur = cur[arr_index(s, len(cur), False)]
        else:
            raise PatchError("scalar on the way")
    return cur


def clone(v):
    if isinstance(v, list):
        return [clone(x) for x in v]
    if isinstance(v, dict):
        return {k: clone(x) for k, x in v.items()}
    return v


def p_add(doc, segs, v):
    if not segs:
        return v
    parent = get(doc, segs[:-1])
    s = segs[-1]
    if isinstance(parent, dict):
        parent[s] = v
    elif isinstance(parent, list):
        parent.insert(arr_index(s, len(parent), True), v)
    else:
        raise PatchError("parent is a scalar")
    return doc


def p_remove(doc, segs):
    if not segs:
        return ("NONE",)
    parent = get(doc, segs[:-1])
    s = segs[-1]
    if isinstance(parent, dict):
        if s not in parent:
            raise PatchError("missing target")
        v = parent.pop(s)
    elif isinstance(parent, list):
        v = parent.pop(arr_index(s, len(parent), False))
    else:
        raise PatchError("parent is a scalar")
    return doc, v


def is_num(v):
    return (isinstance(v, int) and not isinstance(v, bool)) or isinstance(v, tuple)


def num(v):
    return struct.unpack(">d", struct.pack(">Q", v[1]))[0] if isinstance(v, tuple) else v


def rfc_eq(a, b):
    if is_num(a) and is_num(b):
        if isinstance(a, tuple) != isinstance(b, tuple) and num(a) == num(b):
            raise Lenient("integer against double with the same numeric value: the library compares types first")
        return num(a) == num(b)
    if type(a) != type(b):
        return False
    if isinstance(a, list):
        return len(a) == len(b) and all(rfc_eq(x, y) for x, y in zip(a, b))
    if isinstance(a, dict):
        return a.keys() == b.keys() and all(rfc_eq(a[k], b[k]) for k in a)
    return a == b


RFC_OPS = ("add", "remove", "replace", "move", "copy", "test")
EXT_OPS = ("increment", "add_create", "swap")


def apply_op(doc, op):
    """returns the new document; raises PatchError / Lenient / Unspecified.  `doc` is consumed."""
    if not isinstance(op, dict):
        raise PatchError("operation is not an object")
    for k in op:
        if k not in ("op", "path", "from", "value") and "decoder-prefix" not in OPEN_ON:
            raise Lenient("unknown member %r (the library decodes member names by prefix)" % k)
    name = op.get("op")
    if "op" not in op:
        raise Lenient("no \"op\" member: the library applies the operation code 0 like add")
    if "path" not in op:
        raise Lenient("no \"path\" member: the library reads the root")
    if not isinstance(name, str) or not isinstance(op["path"], str):
        raise PatchError("op/path is not a string")
    if name not in RFC_OPS + EXT_OPS:
        if "decoder-prefix" in OPEN_ON:
            raise PatchError("decoder-prefix: %r is no operation name" % name)
        raise Lenient("operation name %r (the library decodes names by prefix)" % name)
    if doc == ("NONE",):
        raise Lenient("no document left after the root was removed")
    path = ptr_parse(op["path"])
    frm = None
    if name in ("move", "copy") and not path and "root-move-copy" not in OPEN_ON:
        raise Lenient("move/copy onto the root is ignored by the library")
    if name in EXT_OPS and not path:
        raise Unspecified("extension on the root")
    if name not in ("move", "copy", "swap") and "from" in op:
        # rfc6902 4: a member not defined for the operation MUST be ignored; the library decodes and parses every "from"
        if not isinstance(op["from"], str):
            raise Lenient("\"from\" of an operation that does not use it is not a string: the library rejects the object")
        try:
            if op["from"] != "/":
                ptr_parse(op["from"])
        except (PatchError, Lenient):
            raise Lenient("\"from\" of an operation that does not use it is no pointer: the library rejects the patch")
    if name in ("move", "copy", "swap"):
        if not isinstance(op.get("from"), str):
            raise PatchError("from missing")
        try:
            frm = ptr_parse(op["from"])
        except Lenient:
            if op["from"] == "/":
                frm = [b""]      # `from` has no root alias in the library either
            else:
                raise
    if name in ("add", "replace", "test", "increment", "add_create") and "value" not in op:
        raise PatchError("value missing")
    v = clone(from_py(op["value"])) if "value" in op else None
    if name == "test":
        return doc if rfc_eq(get(doc, path), v) else _raise(TestFailed("test failed"))
    if name == "add":
        return p_add(doc, path, v)
    if name == "remove":
        r = p_remove(doc, path)
        return r if r == ("NONE",) else r[0]
    if name == "replace":
        if not path:
            return v
        doc, _ = p_remove(doc, path)
        return p_add(doc, path, v)
    if name in ("move", "copy") and not path:       # rfc6902 4.4 / 4.5 onto the whole document (class root-move-copy)
        return doc if not frm else clone(get(doc, frm))
    if name == "move":
        if not path:
            raise Lenient("move onto the root is ignored by the library")
        if len(frm) < len(path) and path[:len(frm)] == frm:
            # rfc6902 4.4: from MUST NOT be a proper prefix of path
            raise Lenient("move into one's own child") if frm else PatchError("move of the root")
        x = get(doc, frm)
        doc, x = p_remove(doc, frm)
        return p_add(doc, path, x)
    if name == "copy":
        if not path:
            raise Lenient("copy onto the root is ignored by the library")
        return p_add(doc, path, clone(get(doc, frm)))
    # ---- extensions (iwjson.h: "Value increment", "Create intermediate object nodes for missing path segments",
    #      "Swap values of two nodes")
    if not path:
        raise Unspecified("extension on the root")
    if name == "increment":      # "Value increment": the addressed member / array element (since 9cc9d5a) gets the operand added
        parent = get(doc, path[:-1])
        if isinstance(parent, list):
            key = arr_index(path[-1], len(parent), False)     # "-" is no existing element (eca2cba)
        elif isinstance(parent, dict):
            key = path[-1]
            if key not in parent:
                raise PatchError("no such member")
        else:
            raise PatchError("parent is a scalar")
        if not is_num(v) or isinstance(v, bool):
            raise PatchError("increment by a non-number")
        cur = parent[key]
        if not is_num(cur) or isinstance(cur, bool):
            raise PatchError("target is not a number")
        if isinstance(cur, tuple):
            parent[key] = f64(num(cur) + float(num(v)))
        else:
            if isinstance(v, tuple) and not (-9223372036854775808.0 <= num(v) < 9223372036854775808.0):
                if "increment-overflow" in OPEN_ON:
                    raise PatchError("increment-overflow: the double operand is no int64")
                raise Unspecified("double operand outside of int64")
            r = cur + (int(num(v)) if isinstance(v, tuple) else v)
            if not -(1 << 63) <= r < (1 << 63):
                if "increment-overflow" in OPEN_ON:
                    raise PatchError("increment-overflow: the sum is no int64")
                raise Unspecified("signed overflow")
            parent[key] = r
        return doc
    if name == "add_create":
        cur = doc
        for s in path[:-1]:
            if not isinstance(cur, dict):
                raise Unspecified("add_create through a non-object")
            if s not in cur:
                cur[s] = {}
            cur = cur[s]
        try:
            return p_add(doc, path, v)
        except PatchError:
            raise Unspecified("add_create failed after creating parents")
    if name == "swap":
        if "swap-nested" in OPEN_ON and len(frm) != len(path) and frm[:min(len(frm), len(path))] == path[:min(len(frm), len(path))]:
            raise PatchError("swap-nested: a location cannot change places with a part of itself")
        a = get(doc, frm)
        pre = min(len(frm), len(path))
        if frm[:pre] == path[:pre]:
            if frm == path:
                return doc
            if "swap-nested" in OPEN_ON:
                raise PatchError("swap-nested: a location cannot change places with a part of itself")
            raise Unspecified("swap of nested locations")
        try:
            b = get(doc, path)
        except PatchError:
            raise Unspecified("swap with a missing location")
        pa = get(doc, frm[:-1])
        pb = get(doc, path[:-1])
        ia = frm[-1] if isinstance(pa, dict) else arr_index(frm[-1], len(pa), False)
        ib = path[-1] if isinstance(pb, dict) else arr_index(path[-1], len(pb), False)
        pa[ia], pb[ib] = b, a
        return doc
    raise PatchError("unknown")


def _raise(e):
    raise e


def from_py(v):
    """value given in generator form (str for strings, float for doubles) -> oracle form"""
    if isinstance(v, str):
        return v.encode("utf-8")
    if isinstance(v, float):
        return f64(v)
    if isinstance(v, list):
        return [from_py(x) for x in v]
    if isinstance(v, dict):
        return {k.encode("utf-8"): from_py(x) for k, x in v.items()}
    return v


def pointers_clean(program):
    for op in program:
        if not isinstance(op, dict):
            return False
        # every operation object is decoded before the first one is applied: a later malformed object stops the call first
        if op.get("op") not in RFC_OPS + EXT_OPS or any(k not in ("op", "path", "from", "value") for k in op):
            return False
        for k in ("path", "from"):
            if k in op:
                try:
                    if not isinstance(op[k], str) or (op[k] != "/" and ptr_parse(op[k]) is None):
                        return False
                except (PatchError, Lenient):
                    return False
    return True


def oracle(doc, program):
    """-> (kind, value): kind 'ok' (value = result), 'err' (an operation fails per RFC), 'lenient', 'unspecified'"""
    cur = clone(from_py(doc))
    if not isinstance(program, list):
        return ("lenient", "patch document is not an array")
    kind = "ok"
    for k, op in enumerate(program):
        before = clone(cur) if isinstance(op, dict) and op.get("op") == "test" else None
        try:
            cur = apply_op(cur, op)
        except TestFailed as e:
            # a failing `test` changes nothing: the tree API must stop with the document as it was before that operation
            # (the library parses every pointer of the patch before it applies the first operation)
            return ("err", str(e), before if pointers_clean(program) else None)
        except PatchError as e:
            return ("err", str(e))
        except Lenient as e:
            return ("lenient", str(e))
        except Unspecified as e:
            return ("unspecified", str(e))
        except (KeyError, IndexError, TypeError, AttributeError) as e:
            return ("err", "malformed: %r" % (e,))
    return (kind, cur)


def gen_json(v):
    """JSON text of a generator-form value (str/float/dict with str keys)"""
    return to_json(from_py(v))


# ------------------------------------------------------------------------------------------------
# generators
KEYS = ["a", "b", "ab", "abc", "a/b", "m~n", "0", "1", "01", "-", "k é", "x\"y", "value", "op", "path", "foo"]
STRS = ["", "s", "str", "a/b", "é", "two words", "q\"uote", "back\\slash", "tab\there", "line\nfeed", "0", "~"]
I64_MIN, I64_MAX = -(1 << 63), (1 << 63) - 1
# integers at the places where C integer handling goes wrong (int / uint32 / double-mantissa / int64 limits); pairs of them differ
# by 2^31, 2^32, k*2^32, 2^53, 2^63
INTS = [0, 1, -1, 2, 7, 42, 127, 128, -129, 65536, 2147483647, 2147483648, -2147483648, -2147483649, 4294967295, 4294967296,
        4294967297, -4294967296, -4294967295, 8589934592, 8589934594, 1 << 53, (1 << 53) + 1, -(1 << 53), 1 << 62, I64_MAX, I64_MAX - 1, I64_MIN + 1, I64_MIN]
FLTS = [0.5, 1.5, -2.5, 100.5, 1e10 + 0.5]
# doubles whose JSON text (python repr) iwstrtod and OCaml's float_of_string read to the same bits (checked one by one: iwstrtod is
# not correctly rounded, 0.75 / 0.3 / 1e23 come out one ulp off - C13's subject, kept out of here)
DBLS = [0.5, -0.5, 0.25, 1.25, 1.75, 1.5, 2.5, -2.5, 100.25, 100.5, 0.125, 65536.5, 2147483648.5, 4294967296.5, 4294967297.5,
        8589934592.5, 1e10 + 0.5, 1e10 + 1.5, 9007199254740992.0, 9007199254740994.0, 1e20, 1e21, 1e22, 1e300, 1e301, 1.5e300,
        1e-8, 2e-8, 1e-7, 0.1, 0.2, 3.14, 0.0, 1.0, 2.0, -1.0, -3.0, 42.0, 4294967296.0, -4294967296.0, 9223372036854775808.0,
        18446744073709551616.0, 1e10]
# pairs of different doubles a comparison by difference / by text / by integer part gets wrong
DBL_NEAR = [(0.5, -0.5), (2.5, -2.5), (0.25, 0.5), (1.25, 1.75), (1.25, 1.5), (100.25, 100.5), (0.125, 0.25), (0.5, 4294967296.5),
            (0.5, 2147483648.5), (4294967296.5, 4294967297.5), (4294967296.5, 8589934592.5), (0.5, 8589934592.5),
            (1e10 + 0.5, 1e10 + 1.5), (1e10, 1e10 + 0.5), (9007199254740992.0, 9007199254740994.0), (1e20, 1e21), (1e21, 1e22),
            (1e22, 1e300), (1e300, 1e301), (1e300, 1.5e300), (1e-8, 2e-8), (1e-8, 1e-7), (0.0, 1e-8), (0.1, 0.2), (1.0, 2.0),
            (1.0, -1.0), (0.0, 4294967296.0), (4294967296.0, -4294967296.0), (9223372036854775808.0, 18446744073709551616.0),
            (1.0, 1.25), (42.0, 100.5), (-3.0, 3.14)]
# an integer and the double with the same value (the library compares types first: documented reading, oracle class `lenient`)
INT_DBL = {0: 0.0, 1: 1.0, 2: 2.0, -1: -1.0, -3: -3.0, 42: 42.0, 4294967296: 4294967296.0, -4294967296: -4294967296.0,
           1 << 53: 9007199254740992.0}

# Input classes on which the library contradicted RFC 6902 before its repairs (notes/jpatch.md).  All are generated and judged on
# every run (the switch VERIF_JPATCH_OPEN that used to gate them is gone: nothing of this family is tolerated any more).
OPEN_CLASSES = ("f64-text-compare", "nul-in-string", "increment-overflow", "array-index", "parent-pointers")
# f64-text-compare / nul-in-string are repaired in /repo (ef0c81e, e38ce78): generated on every run.  The others are findings of
# the deepening round (notes/jpatch.md; repaired since): increment-overflow (signed overflow in `increment`), array-index (array index segments
# are read with iwatoi; "-" addresses the last element), parent-pointers (children taken over by _jbl_copy_node_data keep the
# `parent` pointer of the node they came from).
OPEN_ON = set(OPEN_CLASSES)     # all repaired in /repo (ef0c81e, e38ce78, 9a2bde2, eca2cba, 61c2a75): generated and judged on every run
# Round 7 (notes/jpatch.md): re-decided as genuine and repaired in /repo (22df63c, 63ac2d6, da6f72b): generated and judged on every run
#   root-move-copy   move / copy with path "" must make the value at `from` the whole document (before 22df63c: rc 0, nothing done)
#   decoder-prefix   members that are no "op" / "path" / "from" / "value" must be ignored, operation names must be exact (63ac2d6)
#   swap-nested      swap of a location with a part of itself must be an error (before da6f72b: rc 0, data lost)
R7_CLASSES = ("root-move-copy", "decoder-prefix", "swap-nested")
OPEN_ON |= set(R7_CLASSES)
DBL_NEAR_OPEN = [(0.5, 0.500000001), (1e-9, 2e-9), (0.0, 1e-9)]      # equal in "%.8Lf" text; and 0.0 / -0.0 differ in it
STR_NEAR_OPEN = [("a\x00b", "a\x00c"), ("\x00a", "\x00b"),("x\x00yz", "x\x00zy")]   # same length, equal up to a 0 byte


def gen_scalar(rng):
    k = rng.below(10)
    if k == 0:
        return None
    if k == 1:
        return rng.chance(1, 2)
    if k <= 5:
        return rng.choice(INTS) if rng.chance(1, 3) else rng.range(-3, 12)
    if k == 6:
        return rng.choice(FLTS)
    return rng.choice(STRS)


def gen_value(rng, depth, want=None):
    k = want or rng.weighted([("s", 5), ("a", 3 if depth > 0 else 0), ("o", 3 if depth > 0 else 0)])
    if k == "s":
        return gen_scalar(rng)
    if k == "a":
        n = rng.weighted([(0, 2), (1, 2), (2, 3), (3, 3), (4, 2), (6, 1)])
        return [gen_value(rng, depth - 1) for _ in range(n)]
    n = rng.weighted([(0, 2), (1, 3), (2, 3), (3, 2), (5, 1)])
    out = {}
    for _ in range(n):
        out[rng.choice(KEYS)] = gen_value(rng, depth - 1)
    return out


def esc(seg):
    return seg.replace("~", "~0").replace("/", "~1")


def all_paths(v, pre=""):
    """(pointer, value) of every location of a generator-form value"""
    out = [(pre, v)]
    if isinstance(v, dict):
        for k, x in v.items():
            out += all_paths(x, pre + "/" + esc(k))
    elif isinstance(v, list):
        for i, x in enumerate(v):
            out += all_paths(x, pre + "/" + str(i))
    return out


def to_gen(v):
    """oracle form -> generator form"""
    if isinstance(v, bytes):
        return v.decode("utf-8")
    if isinstance(v, tuple):
        return struct.unpack(">d", struct.pack(">Q", v[1]))[0] if v[0] == "D" else None
    if isinstance(v, list):
        return [to_gen(x) for x in v]
    if isinstance(v, dict):
        return {k.decode("utf-8"): to_gen(x) for k, x in v.items()}
    return v


LENIENT_IDX = ["01", "+1", " 1", "1x", "abc", "", "-1", "4294967296", "4294967297", "00", "1e0", "2147483648"]


def gen_program(rng, doc, run=None):
    """1..8 operations; tracks the expected document so that most paths exist when they are used"""
    cur = doc
    nops = rng.weighted([(1, 3), (2, 3), (3, 3), (4, 2), (5, 2), (6, 1), (8, 1)])
    ops = []
    arrays = [p for p, v in all_paths(cur) if isinstance(v, list)]
    hot = rng.choice(arrays) if arrays and rng.chance(3, 4) else None
    fail_at = rng.below(nops) if rng.chance(1, 4) else -1
    lenient = rng.chance(1, 10)
    for i in range(nops):
        paths = all_paths(cur) if not (isinstance(cur, tuple)) else [("", None)]
        hotv = None
        if hot is not None:
            for p, v in paths:
                if p == hot and isinstance(v, list):
                    hotv = v
        def some_path(existing=True, container=False):
            cand = [p for p, v in paths if p != "" and (not container or isinstance(v, (list, dict)))]
            if hotv is not None and rng.chance(3, 5) and not container:
                if hotv and existing:
                    return hot + "/" + str(rng.below(len(hotv)))
                return hot + "/" + rng.choice([str(len(hotv)), "-", str(len(hotv) + 1), "0"])
            if existing and cand:
                return rng.choice(cand)
            base = rng.choice([p for p, v in paths if isinstance(v, (list, dict))] or [""])
            bv = dict(paths)[base]
            if isinstance(bv, list):
                return base + "/" + rng.choice([str(len(bv)), "-", str(len(bv) + 2), str(rng.below(len(bv) + 1))])
            return base + "/" + esc(rng.choice(KEYS + ["zz", "new"]))
        kind = rng.weighted([("add", 5), ("remove", 5), ("replace", 4), ("move", 4), ("copy", 4), ("test", 4),
                             ("increment", 1), ("add_create", 1), ("swap", 1)])
        op = {"op": kind}
        if i == fail_at:
            kind = "test"
            op = {"op": "test"}
        if kind == "test":
            p = some_path(True) if rng.chance(9, 10) else ""
            op["path"] = p
            tv = dict(paths).get(p)
            if i == fail_at or rng.chance(1, 5):
                op["value"] = mutated(rng, tv) if rng.chance(2, 3) else gen_value(rng, 1)
            else:
                op["value"] = tv if rng.chance(4, 5) else shuffled(rng, tv)
        elif kind == "add":
            op["path"] = some_path(rng.chance(1, 3))
            op["value"] = gen_value(rng, 2)
            if rng.chance(1, 25):
                del op["value"]
        elif kind == "remove":
            op["path"] = some_path(rng.chance(7, 8))
        elif kind == "replace":
            op["path"] = some_path(rng.chance(7, 8))
            op["value"] = gen_value(rng, 2)
        elif kind in ("move", "copy", "swap"):
            op["from"] = some_path(rng.chance(9, 10))
            r = rng.below(10)
            if r < 2 and op["from"].count("/") >= 1:       # path below from / from below path
                op["path"] = op["from"] + "/" + esc(rng.choice(KEYS[:4] + ["0", "-"]))
            elif r < 4 and op["from"].count("/") >= 2:
                op["path"] = op["from"].rsplit("/", 1)[0]
            elif r < 5:
                op["path"] = op["from"]
            else:
                op["path"] = some_path(kind == "swap" or rng.chance(1, 3))
            if rng.chance(1, 30):
                del op["from"]
        elif kind == "increment":
            nums = [p for p, v in paths if isinstance(v, (int, float)) and not isinstance(v, bool) and p]
            op["path"] = rng.choice(nums) if nums and rng.chance(4, 5) else some_path(True)
            op["value"] = rng.choice([1, 2, -5, 1.5, "x", True]) if rng.chance(1, 4) else rng.range(-3, 9)
        elif kind == "add_create":
            base = some_path(True, container=True) if rng.chance(1, 2) else ""
            op["path"] = base + "".join("/" + esc(rng.choice(KEYS[:5] + ["n1", "n2"])) for _ in range(rng.range(1, 3)))
            op["value"] = gen_value(rng, 1)
        if lenient and rng.chance(1, 2):
            r = rng.below(6)
            if r == 0 and "path" in op and op["path"].count("/") >= 1:
                op["path"] = op["path"].rsplit("/", 1)[0] + "/" + rng.choice(LENIENT_IDX)
            elif r == 1:
                op["path"] = rng.choice(["/", op.get("path", "") + "/", "a", ""])
            elif r == 2:
                op["op"] = rng.choice(["re", "a", "", "t", "mov", "adds", "ADD", "add_", "s", "incr"])
            elif r == 3:
                nk = rng.choice([("op", "o"), ("path", "pa"), ("value", "v"), ("from", "fro"), ("path", "p"), ("op", "")])
                if nk[0] in op:
                    op = {(nk[1] if k == nk[0] else k): v for k, v in op.items()}
            elif r == 4 and "from" in op and op["from"].count("/") >= 1:
                op["from"] = op["from"].rsplit("/", 1)[0] + "/" + rng.choice(["-"] + LENIENT_IDX)
            elif r == 5:
                op["path"] = rng.choice(["", "/"])
        if rng.chance(1, 60):
            op["path"] = ""
        ops.append(op)
        orc1 = oracle(cur, [op])
        k, v = orc1[0], orc1[1]
        if k == "ok":
            cur = to_gen(v) if v != ("NONE",) else ("NONE",)
            if isinstance(cur, tuple):
                break
        elif k in ("lenient", "unspecified"):
            break           # the expected document is not known any more; stop extending the program
    return ops


def int_near(rng, v):
    """an int64 different from v, placed where C integer handling of a comparison goes wrong: same low 32 bits (difference
    k*2^32), difference 2^31 / 2^32-1 (sign of a truncated difference), beyond the double mantissa, sign flips, int64 limits"""
    k = rng.weighted([("m32", 7), ("p31", 2), ("big", 2), ("sign", 2), ("words", 2), ("small", 3)])
    if k == "m32":
        m = rng.choice([1, 2, 3, 5, 255, 256, 65535, 65536, 1 << 20, 1 << 30, (1 << 31) - 1, 1 << 31]) << 32
        c = [v + m, v - m]
    elif k == "p31":
        d = rng.choice([1 << 31, (1 << 31) - 1, (1 << 31) + 1, (1 << 32) - 1, (1 << 32) + 1, 1 << 16, 1 << 8, 1 << 33])
        c = [v + d, v - d]
    elif k == "big":
        d = rng.choice([1 << 52, 1 << 53, (1 << 53) + 1, 1 << 62, 1 << 63, (1 << 63) - 1, (1 << 64) - 1])
        c = [v + d, v - d]
    elif k == "sign":
        c = [-v, ~v, v + (1 << 63), v - (1 << 63), I64_MAX - v if v >= 0 else I64_MIN - v]
    elif k == "words":          # keep one 32-bit half, change / drop the other
        lo, hi = v & 0xffffffff, v >> 32
        c = [lo, lo - (1 << 32) if lo >= 1 << 31 else lo + (1 << 32), hi, hi << 32, (lo << 32) | (hi & 0xffffffff),
             v ^ 0xffffffff00000000, (v ^ 0xffffffff00000000) - (1 << 64)]
    else:
        d = rng.choice([1, 2, 10, 256])
        c = [v + d, v - d]
    c = [x for x in c if I64_MIN <= x <= I64_MAX and x != v]
    if c:
        return rng.choice(c)
    return v + 1 if v < I64_MAX else v - 1


def dbl_near(rng, v):
    c = [b if a == v else a for a, b in DBL_NEAR + (DBL_NEAR_OPEN if "f64-text-compare" in OPEN_ON else []) if v in (a, b)]
    if c and rng.chance(4, 5):
        return rng.choice(c)
    w = rng.choice(DBLS)
    return w if w != v else (1.5 if v != 1.5 else 2.5)


def str_near(rng, v):
    if "nul-in-string" in OPEN_ON:
        for a, b in STR_NEAR_OPEN:
            if v in (a, b):
                return b if v == a else a
    r = rng.below(8)
    if not v:
        return rng.choice(["x", " ", "0", "\u00e9"])
    if r == 0:
        return v + rng.choice(["x", " "])
    if r == 1:
        return v[:-1]
    if r == 2:          # same length, last / first byte differs
        return v[:-1] + ("y" if v[-1] != "y" else "z")
    if r == 3:
        return ("Y" if v[0] != "Y" else "Z") + v[1:]
    if r == 4:          # lengths differ by 256 / 65536: a length difference cut to a char or a short is 0
        return v + "x" * rng.choice([256, 256, 512, 65536])
    if r == 5:          # differs in a byte >= 0x80 only
        return v[:-1] + ("\u00e9" if v[-1] != "\u00e9" else "\u00e8")
    if r == 6:
        return v.swapcase() if v.swapcase() != v else v + v
    return v[::-1] if v[::-1] != v else v + "\u00e8"


def mutated(rng, v):
    """a value that differs from v in one place deep inside (same shape otherwise)"""
    if isinstance(v, dict) and v:
        k = rng.choice(list(v.keys()))
        r = rng.below(8)
        if r == 0:
            return {kk: vv for kk, vv in v.items() if kk != k}
        if r == 1:
            out = dict(v)
            out[k + "x"] = out.pop(k)
            return out
        if r == 2:          # same-length member name: the sort by (length, bytes) pairs it with the same position
            nk = k[:-1] + ("y" if k[-1:] != "y" else "z") if k else "~"
            if nk not in v:
                return {(nk if kk == k else kk): vv for kk, vv in v.items()}
        if r == 3 and len(v) >= 2:          # same names, same multiset of values, two values exchanged
            k2 = rng.choice([kk for kk in v if kk != k])
            if gen_json(v[k]) != gen_json(v[k2]):
                return {kk: (v[k2] if kk == k else v[k] if kk == k2 else vv) for kk, vv in v.items()}
        if r == 4 and "zz" not in v:
            out = dict(v)
            out["zz"] = None
            return out
        return {kk: (mutated(rng, vv) if kk == k else vv) for kk, vv in v.items()}
    if isinstance(v, list) and v:
        i = rng.below(len(v))
        r = rng.below(6)
        if r == 0:
            return v[:i] + v[i + 1:]
        if r == 1 and len(v) > 1:
            w = list(v)
            w[0], w[-1] = w[-1], w[0]
            return w if gen_json(w) != gen_json(v) else v + [None]
        if r == 2:
            return v + [v[i]]
        return [mutated(rng, x) if j == i else x for j, x in enumerate(v)]
    if isinstance(v, bool):
        return rng.choice([not v, not v, int(v), "true" if v else "false", None if not v else 1.0])
    if isinstance(v, int):
        r = rng.below(10)
        if r == 0:
            return str(v)
        if r == 1:
            return v != 0 if v in (0, 1) else [v]
        return int_near(rng, v)
    if isinstance(v, float):
        if rng.chance(1, 8):
            return rng.choice([repr(v), [v], int(v) + 1 if abs(v) < 1e15 else 0])
        return dbl_near(rng, v)
    if isinstance(v, str):
        if v.isascii() and v.isdigit() and rng.chance(1, 4):
            return int(v)
        return str_near(rng, v)
    if v is None:
        return rng.choice([False, 0, "", [], {}, "null", 0.0])
    return rng.choice([None, 1, "m", [] if isinstance(v, dict) else {}, [[]], {"a": {}}])      # empty containers


def same_number(rng, v):
    """v with one number written in the other form (1 <-> 1.0): equal for rfc6902, the library compares the types first"""
    locs = [(p, x) for p, x in all_paths(v) if not isinstance(x, bool) and
            ((isinstance(x, int) and x in INT_DBL) or (isinstance(x, float) and x in INT_DBL.values()))]
    if not locs:
        return None
    p, x = rng.choice(locs)
    y = INT_DBL[x] if isinstance(x, int) else [i for i, d in INT_DBL.items() if d == x][0]

    def put(w, pre):
        if pre == p:
            return y
        if isinstance(w, dict):
            return {k: put(z, pre + "/" + esc(k)) for k, z in w.items()}
        if isinstance(w, list):
            return [put(z, pre + "/" + str(i)) for i, z in enumerate(w)]
        return w
    return put(v, "")


def eq_scalar(rng):
    k = rng.weighted([("i", 6), ("d", 3), ("s", 2), ("b", 1), ("n", 1)])
    if k == "i":
        return rng.choice(INTS) if rng.chance(3, 4) else rng.range(-3, 12)
    if k == "d":
        if "f64-text-compare" in OPEN_ON and rng.chance(1, 3):
            return rng.choice(DBL_NEAR_OPEN)[0]
        return rng.choice(DBLS)
    if k == "s":
        if "nul-in-string" in OPEN_ON and rng.chance(1, 2):
            return rng.choice(STR_NEAR_OPEN)[0]
        return rng.choice(STRS)
    if k == "b":
        return rng.chance(1, 2)
    return None


def eq_value(rng, depth):
    """a value whose leaves sit at the boundaries above, to be compared by `test`"""
    k = rng.weighted([("s", 4), ("a", 3 if depth > 0 else 0), ("o", 3 if depth > 0 else 0)])
    if k == "s":
        return eq_scalar(rng)
    n = rng.weighted([(1, 3), (2, 3), (3, 2), (4, 1)])
    if k == "a":
        return [eq_value(rng, depth - 1) for _ in range(n)]
    out = {}
    for _ in range(n):
        out[rng.choice(KEYS + (["k\x00a"] * 4 if "nul-in-string" in OPEN_ON else []))] = eq_value(rng, depth - 1)
    return out


def eq_pair(rng, v):
    """(w, kind): w to be compared with v - a near miss, the same value (members reordered), or another form of a number"""
    r = rng.below(20)
    if "f64-text-compare" in OPEN_ON and isinstance(v, float) and v == 0.0 and r < 10:
        return -v, "same"
    if r < 14:
        w = mutated(rng, v)
        if gen_json(w) != gen_json(v):
            return w, "near"
    elif r < 17:
        w = same_number(rng, v)
        if w is not None:
            return w, "form"
    return (shuffled(rng, v) if rng.chance(2, 3) else v), "same"


def nest(rng, d, leaf):
    """`leaf` wrapped in d containers, each of which ENDS with the next one: all d levels close at once after the leaf"""
    v = leaf
    for _ in range(d):
        pre = [rng.choice([1, "s", None, True, [], {}, 0.5, [7]]) for _ in range(rng.weighted([(0, 3), (1, 2), (2, 1)]))]
        if rng.chance(1, 2):
            v = pre + [v]
        else:
            o = {}
            for i, x in enumerate(pre):
                o[rng.choice(["p", "q", "0", "a/b"]) + str(i)] = x
            o[rng.choice(["a", "b", "c", "m~n", "1"])] = v
            v = o
    return v


def deep_value(rng):
    """a container in whose serialisation 2..4 levels close at once and a sibling FOLLOWS ('}},' ']],' ']},' '}],'): a tree walk
    that rebuilds the value (jbn_clone behind `copy`, the binary conversion) has to climb several levels in one step"""
    def leaf():
        return rng.choice([1, 2, "c", None, [1, 2], {"c": 1}, [], {}, 4294967296])
    d = rng.choice([2, 2, 2, 3, 3, 4])
    first = nest(rng, d, leaf())
    nsib = rng.weighted([(1, 3), (2, 2), (3, 1)])
    sibs = [rng.choice([2, "d", [3], {"e": 5}, nest(rng, rng.choice([1, 2, 3]), leaf()), None]) for _ in range(nsib)]
    if rng.chance(1, 2):
        v = [first] + sibs
    else:
        v = {"a": first}
        for i, x in enumerate(sibs):
            v[["d", "e", "f"][i]] = x
    if rng.chance(1, 4):          # the multi-level close below the top of the copied value
        v = nest(rng, 1, v)
        if isinstance(v, list):
            v = v + [rng.choice([9, "t"])]
        else:
            v["z"] = 9
    return v


def gen_deep_case(rng):
    """copy / move / add / replace of values of nesting depth 2-6 whose siblings follow multi-level closes; the source is a sibling,
    an ancestor or a descendant of the target; then `test` of the new location (and of the source) against the literal value"""
    s = deep_value(rng)
    inner = [p for p, x in all_paths(s) if p and isinstance(x, (list, dict))]
    lay = rng.below(3)
    if lay == 0:
        doc, src = {"src": s, "k": [0, 1], "o": {"in": {}}}, "/src"
    elif lay == 1:
        doc, src = [0, s, {"k": []}], "/1"
    else:
        doc, src = {"w": {"src": s, "x": 1}, "k": [0]}, "/w/src"
    top = isinstance(doc, dict)
    fresh = "/dst" if top else "/2/dst"
    arr = "/k" if top else "/2/k"
    klen = (2, 0, 1)[lay]
    r = rng.below(11)
    ops = []
    if r == 0:          # sibling
        ops = [{"op": "copy", "from": src, "path": fresh}, {"op": "test", "path": fresh, "value": s}]
    elif r == 1:        # an ancestor copied into its own descendant
        t = rng.choice(inner) if inner else ""
        tv = dict(all_paths(s)).get(t, s)
        dst = src + t + ("/-" if isinstance(tv, list) else "/new")
        ops = [{"op": "copy", "from": src, "path": dst}]
        if not dst.endswith("/-"):
            ops.append({"op": "test", "path": dst, "value": s})
    elif r == 2:        # a descendant copied over its ancestor
        t = rng.choice(inner) if inner else ""
        tv = dict(all_paths(s)).get(t, s)
        ops = [{"op": "copy", "from": src + t, "path": src}, {"op": "test", "path": src, "value": tv}]
    elif r == 3:        # into an array: in front, at the end
        ops = [{"op": "copy", "from": src, "path": arr + rng.choice(["/0", "/-", "/" + str(klen)])},
               {"op": "copy", "from": src, "path": arr + "/0"}, {"op": "test", "path": arr + "/0", "value": s}]
    elif r == 4:
        ops = [{"op": "move", "from": src, "path": fresh}, {"op": "test", "path": fresh, "value": s}]
    elif r == 5:        # a copy of the copy
        ops = [{"op": "copy", "from": src, "path": fresh}, {"op": "copy", "from": fresh, "path": fresh + "2"},
               {"op": "test", "path": fresh + "2", "value": s}]
    elif r == 6:        # the literal value through add / replace
        ops = [{"op": "add", "path": fresh, "value": s}, {"op": "replace", "path": arr, "value": s},
               {"op": "test", "path": arr, "value": s}, {"op": "copy", "from": arr, "path": fresh + "2"}]
    elif r == 7:        # part of the value: the nested chain itself, and what follows it
        t = rng.choice(inner) if inner else ""
        ops = [{"op": "copy", "from": src + t, "path": fresh}, {"op": "test", "path": fresh, "value": dict(all_paths(s)).get(t, s)}]
    elif r == 8:        # copy, then change the copy: the source must stay
        ops = [{"op": "copy", "from": src, "path": fresh}, {"op": "remove", "path": fresh + ("/0" if isinstance(s, list) else "/" + esc(list(s.keys())[0]))},
               {"op": "test", "path": src, "value": s}]
    elif r == 9:        # the whole document below one of its members / the root replaced by a deep member
        ops = [{"op": "copy", "from": "", "path": fresh}] if rng.chance(1, 2) else [{"op": "copy", "from": src, "path": ""}]
    else:               # moved to the end of an array and copied back
        ops = [{"op": "move", "from": src, "path": arr + "/-"}, {"op": "copy", "from": arr + "/" + str(klen), "path": src},
               {"op": "test", "path": src, "value": s}]
    if rng.chance(1, 2):
        ops.append({"op": "test", "path": src, "value": s})       # holds or fails per RFC; the oracle decides
    return doc, ops


def gen_eq_case(rng):
    """document holding a boundary value at some depth; patch = [optional harmless op,] test <near miss | equal>, modifying op.
    A `test` that passes wrongly makes the following operation visible in the tree and in the binary form."""
    v = eq_value(rng, rng.choice([0, 0, 1, 1, 2]))
    place = rng.weighted([("member", 4), ("item", 2), ("deep", 3), ("root", 1 if isinstance(v, (list, dict)) else 0), ("head", 1)])
    if place == "member":
        doc, path = {"rev": v, "state": "draft"}, "/rev"
    elif place == "item":
        doc, path = {"items": [10, v, 30]}, "/items/1"
    elif place == "deep":
        doc, path = {"o": {"in": [{"id": v}], "z": 0}, "k": [1]}, "/o/in/0/id"
    elif place == "head":
        doc, path = [v, "t"], "/0"
    else:
        doc, path = v, ""
    w, kind = eq_pair(rng, v)
    ops = []
    if rng.chance(1, 4) and isinstance(doc, dict):
        ops.append({"op": "add", "path": "/pre", "value": rng.choice(INTS)})
    ops.append({"op": "test", "path": path, "value": w})
    m = rng.below(4)
    if m == 0 and path:
        ops.append({"op": "remove", "path": path})
    elif m == 1 and path:
        ops.append({"op": "replace", "path": path, "value": eq_scalar(rng)})
    elif isinstance(doc, dict):
        ops.append({"op": "add", "path": "/state", "value": "published"})
    else:
        ops.append({"op": "add", "path": "/-", "value": "published"})
    if rng.chance(1, 5):
        ops.append({"op": "test", "path": path, "value": w})
    return doc, ops, kind


# ------------------------------------------------------------------------------------------------
# results the binary form cannot hold (round 5).  The binn object behind jbl_patch / jbl_merge_patch refuses a member whose
# name is longer than 255 bytes (binn_object_set_raw: keylen > 255) or equals a name already stored up to ASCII letter case
# (SearchForKey: same length byte and strncasecmp == 0, which also stops at a 0 byte).  Written from iwbinn.c / the binn
# format description, independent of the Coq model (WriteBack.v).
BINN_KEY_MAX = 255


def ckey(k):
    return (len(k), k.split(b"\x00")[0].lower())         # bytes.lower() folds ASCII letters only, like the "C" locale


def representable(v):
    """can the binary form hold this value (oracle form: dict with bytes keys)?"""
    if isinstance(v, list):
        return all(representable(x) for x in v)
    if isinstance(v, dict):
        seen = set()
        for k, x in v.items():
            if len(k) > BINN_KEY_MAX or ckey(k) in seen or not representable(x):
                return False
            seen.add(ckey(k))
    return True


TWIN_NAMES = ["name", "key", "a", "Id", "x", "ab", "Zz", "kéy", "k1", "value", "op", "n_m", "a/b", "m~n"]


def case_twin(rng, k):
    """k with the case of 1..all of its ASCII letters flipped (never equal to k); None if k has no ASCII letter"""
    pos = [i for i, c in enumerate(k) if c.isascii() and c.isalpha()]
    if not pos:
        return None
    r = rng.below(4)
    if r == 0:
        flip = set(pos)
    elif r == 1:
        flip = {pos[0]}
    elif r == 2:
        flip = {pos[-1]}
    else:
        flip = {i for i in pos if rng.chance(1, 2)} or {rng.choice(pos)}
    return "".join(c.swapcase() if i in flip else c for i, c in enumerate(k))


def near_twin(rng, k):
    """a name that looks like a twin of k but is not one for the binn object: other length, another letter, non-ASCII case"""
    c = [k + "s", k + "S", k.upper() + "_", "_" + k, k[:-1] + ("y" if k[-1:] != "y" else "z"), k + k]
    if len(k) > 1:
        c.append(k[:-1].upper())
    if "é" in k:
        c.append(k.replace("é", "É"))     # E-acute: two other bytes, not an ASCII case pair
    c = [x for x in c if x and x != k and ckey(x.encode()) != ckey(k.encode())]
    return rng.choice(c)


def long_name(rng, n):
    stem = rng.choice(["L", "k", "name_", "Key"])
    return (stem * (n // len(stem) + 1))[:n]


LONG_LENS = [254, 255, 255, 256, 256, 257, 300, 300, 511, 1000]


def wb_site(rng, k):
    """-> (doc, pointer prefix of the object S in which the collision will arise, S).  S holds `k` as first / middle / last member;
    S itself is the root, the first / a middle / the last member of its parent, an array item, or sits at depth 3"""
    fill = [1, "s", None, True, [1, 2], {"in": 1}, 0.5, [], {}]
    S = {}
    nf = rng.weighted([(0, 2), (1, 3), (2, 3), (3, 1)])
    at = rng.below(nf + 1)
    for i in range(nf + 1):
        if i == at:
            S[k] = rng.choice(fill)
        if i < nf:
            S["m%d" % i] = rng.choice(fill)
    lay = rng.below(7)
    if lay == 0:
        return S, "", S
    if lay == 1:
        return {"a": 1, "s": S, "c": [1, 2, 3], "d": "tail"}, "/s", S
    if lay == 2:
        return {"a": 1, "s": S}, "/s", S
    if lay == 3:
        return {"s": S, "z": 0}, "/s", S
    if lay == 4:
        return [0, S, {"t": 1}], "/1", S
    if lay == 5:
        return {"w": {"p": [S, 5], "q": 2}, "e": [7]}, "/w/p/0", S
    return {"arr": [10, 20, 30, 40], "s": {"deep": {"er": S, "after": 1}, "n": 5}, "tail": [1]}, "/s/deep/er", S


def gen_unrep_case(rng):
    """(document, patch) whose RFC result contains member names the binary form cannot hold - case-only twins, names of
    256+ bytes - at any depth and position (first / middle / last member; in objects that are not the last member of their
    parent; below arrays), produced by add / copy / move / add_create / a literal value, after earlier successful operations
    and followed by further ones; mixed with the near misses the binary form CAN hold (255 bytes, other length, non-ASCII
    case, twin removed again later in the same patch).  Through the tree API all of them succeed."""
    k = rng.choice(TWIN_NAMES)
    doc, P, S = wb_site(rng, k)
    what = rng.weighted([("twin", 8), ("near", 2), ("long", 5), ("value", 3), ("heal", 2), ("doc", 1)])
    K = case_twin(rng, k) if what in ("twin", "heal") else None
    if what in ("twin", "heal") and K is None:
        what = "long"
    ops = []
    # earlier operations of the same patch, all successful
    if rng.chance(1, 2):
        pre = rng.below(4)
        if pre == 0 and isinstance(doc, dict):
            ops.append({"op": "add", "path": "/pre", "value": rng.choice([1, "p", [0], {"q": 1}])})
        elif pre == 1 and isinstance(doc, dict) and "arr" in doc:
            ops += [{"op": "remove", "path": "/arr/0"}, {"op": "add", "path": "/arr/1", "value": 25}, {"op": "add", "path": "/arr/-", "value": 50}]
        elif pre == 2:
            ops.append({"op": "replace", "path": P + "/" + esc(k), "value": rng.choice([2, "r", [1], {"x": {"y": 1}}])})
        else:
            ops.append({"op": "test", "path": P + "/" + esc(k), "value": S[k]})
    fillers = [m for m in S if m != k]
    if what in ("twin", "heal", "near"):
        name = K if what != "near" else near_twin(rng, k)
        how = rng.below(6)
        if how == 0:
            ops.append({"op": "add", "path": P + "/" + esc(name), "value": rng.choice([2, "t", [1, {"u": 1}], {"v": 1}])})
        elif how == 1:
            ops.append({"op": "copy", "from": P + "/" + esc(k), "path": P + "/" + esc(name)})
        elif how == 2 and fillers:
            ops.append({"op": "move", "from": P + "/" + esc(rng.choice(fillers)), "path": P + "/" + esc(name)})
        elif how == 3:
            ops.append({"op": "add_create", "path": P + "/" + esc(name) + rng.choice(["", "/sub", "/sub/x"]), "value": rng.choice([3, {"w": 1}])})
        elif how == 4 and P:      # moved in from outside the object
            tmp = "/" + str(len(doc)) if isinstance(doc, list) else "/tmp"
            ops += [{"op": "add", "path": "/-" if isinstance(doc, list) else "/tmp", "value": {"from": "outside"}},
                    {"op": "move", "from": tmp, "path": P + "/" + esc(name)}]
        else:
            ops.append({"op": "add", "path": P + "/" + esc(name), "value": S[k]})
        if what == "heal":         # the intermediate document cannot be stored, the final one can
            h = rng.below(3)
            if h == 0:
                ops.append({"op": "remove", "path": P + "/" + esc(name)})
            elif h == 1:
                ops.append({"op": "remove", "path": P + "/" + esc(k)})
            else:
                ops.append({"op": "move", "from": P + "/" + esc(name), "path": P + "/" + esc(name) + "_moved"})
    elif what == "long":
        n = rng.choice(LONG_LENS)
        name = long_name(rng, n)
        how = rng.below(4)
        if how == 0:
            ops.append({"op": "add", "path": P + "/" + name, "value": rng.choice([1, "v", {"in": [1]}])})
        elif how == 1:
            ops.append({"op": "move", "from": P + "/" + esc(k), "path": P + "/" + name})
        elif how == 2:
            ops.append({"op": "copy", "from": P + "/" + esc(k), "path": P + "/" + name})
        else:
            ops.append({"op": "add", "path": P + "/new", "value": {"x": 1, name: {"y": 2}, "z": 3}})
        if rng.chance(1, 4):       # a second name of the same length that differs in the last byte / only in case beyond byte 255
            ops.append({"op": "add", "path": P + "/" + name[:-1] + rng.choice(["#", name[-1].swapcase()]), "value": 0})
    elif what == "value":          # the collision is inside a literal value of the patch
        K2 = case_twin(rng, k) or long_name(rng, 256)
        inner = rng.choice([{k: 1, K2: 2}, {k: 1, "mid": [1], K2: 2, "z": 3}, {"o": {k: 1, K2: {"d": 1}}, "after": 0},
                            [{k: 1, K2: 2}, 5], [[{K2: 1, "m": 0, k: 2}], {"t": 1}]])
        how = rng.below(3)
        if how == 0:
            ops.append({"op": "add", "path": P + "/new", "value": inner})
        elif how == 1:
            ops.append({"op": "replace", "path": P + "/" + esc(k), "value": inner})
        else:
            ops += [{"op": "add", "path": P + "/new", "value": inner}, {"op": "copy", "from": P + "/new", "path": P + "/new2"}]
    else:                          # the document itself cannot be stored: jbl_from_json refuses it, the tree API works on it
        K2 = case_twin(rng, k) or long_name(rng, 300)
        S[K2] = rng.choice([9, {"q": 1}])
        if rng.chance(1, 2):
            S["zlast"] = 0
        ops.append({"op": "add", "path": P + "/extra", "value": 1})
    # operations after the collision: what follows the refused member in serialisation order
    post = rng.below(5)
    if post == 0:
        ops.append({"op": "add", "path": P + "/zz", "value": rng.choice([1, [2], {"y": 0}])})
    elif post == 1 and isinstance(doc, dict):
        ops.append({"op": "add", "path": "/post", "value": "p"})
    elif post == 2:
        ops.append({"op": "test", "path": P + "/" + esc(k), "value": "no such value é"})       # fails unless k was removed: per RFC an error
    return doc, ops, what


# ------------------------------------------------------------------------------------------------
# the decoder (_jbl_create_patch / _jbl_patch_node): operation objects with members missing, renamed to prefixes, doubled, of the
# wrong type; and pairs of calls in which the second patch lacks what the first one had (nothing of an earlier call - stack or
# pool leftovers - may show in the decoded operation)
DEC_DOC = {"a": 1, "b": {"c": [1, 2, 3], "d": "s"}, "arr": [10, 20, 30], "n": 5}
DEC_OPS = [{"op": "add", "path": "/b/n", "value": 5}, {"op": "remove", "path": "/a"}, {"op": "replace", "path": "/b/d", "value": "t"},
           {"op": "move", "from": "/a", "path": "/b/m"}, {"op": "copy", "from": "/b/c", "path": "/cc"},
           {"op": "test", "path": "/a", "value": 1}, {"op": "swap", "from": "/a", "path": "/b/d"},
           {"op": "increment", "path": "/n", "value": 2}, {"op": "add_create", "path": "/q/r/s", "value": [1]},
           {"op": "add", "path": "/arr/1", "value": 15}, {"op": "move", "from": "/arr/0", "path": "/arr/-"}]
KEY_PREFIX = {"op": ["o", ""], "path": ["p", "pa", "pat"], "value": ["v", "va", "valu"], "from": ["f", "fr", "fro"]}
OP_PREFIX = ["", "a", "ad", "r", "re", "rem", "rep", "repl", "c", "co", "m", "mo", "t", "te", "i", "inc", "s", "sw", "add_", "add_c",
             "ADD", "merge", "adds", "remove ", "x"]


def gen_decoder_case(rng):
    doc = clone(DEC_DOC)
    nops = rng.range(1, 3)
    prog, what = [], "plain"
    hit = rng.below(nops)
    for i in range(nops):
        op = dict(rng.choice(DEC_OPS))
        if i == hit:
            r = rng.below(9)
            if r == 0:
                k = rng.choice(list(op.keys()))
                del op[k]
                what = "drop-" + k
            elif r == 1:
                k = rng.choice(list(op.keys()))
                nk = rng.choice(KEY_PREFIX[k])
                op = {(nk if kk == k else kk): v for kk, v in op.items()}
                what = "keyprefix"
            elif r == 2:
                op["op"] = rng.choice(OP_PREFIX)
                what = "opprefix"
            elif r == 3:        # an unknown member that is a prefix of a known name, after the real one: it wins
                k, v = rng.choice([("p", "/zz"), ("pa", "/b/zz"), ("v", 99), ("f", "/b"), ("o", "remove"), ("", "test"), ("fr", "/n")])
                op[k] = v
                what = "extra-prefix"
            elif r == 4:        # an unknown member that is no prefix of anything: ignored (rfc6902 4)
                op[rng.choice(["note", "x", "opp", "paths", "values", "from2", "Op"])] = rng.choice([1, "s", None, [1], {"op": "remove"}])
                what = "extra-ignored"
            elif r == 5:
                k = rng.choice(["op", "path", "from"])
                op[k] = rng.choice([5, None, ["x"], {"x": 1}, True, 1.5])
                what = "nonstring-" + k
            elif r == 6:
                op = rng.choice([5, "add", None, [{"op": "remove", "path": "/a"}], True])
                what = "nonobject"
            elif r == 7:        # the real member first, then its prefix twin BEFORE it in the text: the later one decides
                k = rng.choice(["path", "from", "value", "op"])
                if k in op:
                    nk = rng.choice(KEY_PREFIX[k])
                    alt = {"path": "/zz", "from": "/b/d", "value": 77, "op": "test"}[k]
                    op = dict([(nk, alt)] + list(op.items()))
                    what = "prefix-first"
            else:
                what = "valid"
        prog.append(op)
    return doc, prog, "dec-" + what


def gen_hist_pair(rng):
    docA = {"a": {"x": 1, "y": [1, 2]}, "b": 2, "c": [5, 6, 7], "d": {"k": "v"}}
    k = rng.range(1, 4)
    withfrom = [{"op": "copy", "from": "/a/x", "path": "/e%d"}, {"op": "copy", "from": "/c/0", "path": "/a/y/-"},
                {"op": "copy", "from": "/d", "path": "/f%d"}, {"op": "move", "from": "/b", "path": "/g%d"},
                {"op": "swap", "from": "/a/x", "path": "/d/k"}, {"op": "copy", "from": "/c", "path": "/h%d"}]
    A, B = [], []
    for i in range(k):
        o = dict(rng.choice(withfrom))
        if "%d" in o["path"]:
            o["path"] = o["path"] % i
        if o["op"] == "move" and any(x["op"] == "move" for x in A):
            o["op"] = "copy"
        A.append(o)
        r = rng.below(4)
        if r == 0:
            b = dict(o)
            del b["from"]
        elif r == 1:
            b = {"op": rng.choice(["move", "copy", "swap"]), "path": "/zz%d" % i}
        elif r == 2:
            b = {"op": "add", "path": "/v%d" % i, "value": i}
        else:
            b = {"path": "/w%d" % i, "value": i}
        B.append(b)
    if all("from" in b for b in B if b.get("op") in ("move", "copy", "swap")) and rng.chance(2, 3):
        B[rng.below(k)] = {"op": rng.choice(["move", "copy", "swap"]), "path": "/yy"}
    return (docA, A), (clone(docA), B)


SWAP_DOC = {"a": {"b": {"x": 1, "y": [1, 2]}, "k": 2}, "c": [1, {"q": [5, 6], "r": {"s": 0}}, 3], "e": "s"}


def gen_swap_case(rng):
    """swap of locations that contain one another, that are the same node under two spellings, whose target is missing below
    `from`, into and out of arrays"""
    doc = clone(SWAP_DOC)
    pairs = [("/a", "/a/b"), ("/a/b", "/a"), ("/a", "/a/b/y/0"), ("/c/1/q/0", "/c"), ("/c", "/c/1/r/s"), ("/c/1", "/c/1/q"),
             ("/c/01", "/c/1/q"), ("/c/1/q", "/c/01"), ("/c/-", "/c/2"), ("/c/2", "/c/02"), ("/c/1", "/c/1/q/-"),
             ("/a", "/a/zz"), ("/a/b", "/a/b/zz/yy"), ("/a/k", "/a/k/z"), ("/c/0", "/c/3"), ("/c/0", "/c/4"), ("/c/0", "/c/-"),
             ("/c/-", "/c/-"), ("/c/1/q", "/c/1/q/2"), ("/c/1/q", "/c/1/q/-"), ("/a/b", "/c/1"), ("/e", "/a/b/x"), ("/e", "/c/0"),
             ("/a/b/y", "/c/1/q"), ("/a/b/y/0", "/a/b/y/1"), ("/a", "/a"), ("/zz", "/a"), ("/a", "/zz/yy"), ("/c/1/r", "/c/1/r/s/t"),
             ("/c/1", "/c/1/r/new"), ("/a/b/y/1", "/a/b/y/-"), ("/c/2", "/a/b/y/2"), ("/a", "/e/x")]
    prog = []
    if rng.chance(1, 3):
        prog.append(rng.choice([{"op": "add", "path": "/c/0", "value": {"n": 1}}, {"op": "remove", "path": "/c/0"},
                                {"op": "add", "path": "/a/b/y/-", "value": 3}]))
    f, p = rng.choice(pairs)
    prog.append({"op": "swap", "from": f, "path": p})
    if rng.chance(1, 2):
        prog.append(rng.choice([{"op": "test", "path": "/e", "value": "s"}, {"op": "add", "path": "/z", "value": 1},
                                {"op": "swap", "from": "/e", "path": "/a"}, {"op": "remove", "path": "/c/0"}]))
    return doc, prog


def gen_move_shift_case(rng):
    """move / copy between items of one array whose removal or insertion shifts the target's parent (rfc6902 4.4: remove, then
    add): the parent must be resolved AFTER the source is taken out"""
    n = rng.range(3, 5)
    arr = [{"id": i, "l": [i, i + 10]} for i in range(n)]
    doc = {"arr": arr, "o": {"p": 1}} if rng.chance(2, 3) else arr
    pre = "/arr" if isinstance(doc, dict) else ""
    i, j = rng.below(n), rng.below(n)
    kind = rng.choice(["move", "move", "move", "copy"])
    tail = rng.choice(["/first", "/l/-", "/l/0", "/id", "/l/2", "/new/x"])
    prog = [{"op": kind, "from": "%s/%d" % (pre, i), "path": "%s/%d%s" % (pre, j, tail)}]
    r = rng.below(4)
    if r == 0:
        prog.append({"op": "move", "from": "%s/%d/l/0" % (pre, rng.below(n - 1)), "path": "%s/0/m" % pre})
    elif r == 1:
        prog.insert(0, {"op": "add", "path": "%s/0" % pre, "value": {"id": -1, "l": []}})
    elif r == 2:
        prog.append({"op": "test", "path": "%s/0/id" % pre, "value": rng.choice([0, 1])})
    return doc, prog


INC_BOUND_DBL = [9223372036854775808.0, 9223372036854774784.0, 9223372036854777856.0, -9223372036854775808.0,
                 -9223372036854777856.0, -9223372036854774784.0, 4611686018427387904.0, -4611686018427387904.0,
                 18446744073709551616.0, 1e19, -1e19, 9.3e18, -9.3e18, 9007199254740992.0, 9007199254740994.0, 1024.5, -0.5]
INC_BOUND_INT = [0, 1, -1, 5, -5, 1023, 1024, 1025, -1024, 2048, 4611686018427387904, -4611686018427387904,
                 9223372036854775807, 9223372036854774783, -9223372036854775808, -9223372036854775807]


def gen_inc_boundary_case(rng):
    """increment by a double at the edges of the double -> int64 conversion (2^63 itself, its neighbours 2^63-1024 and 2^63+2048,
    -2^63 and -2^63-2048, 2^62, 2^64) against integer targets of both signs, as a member and as an array element; the refused
    ones must leave the document as it was (binary modes: byte for byte)"""
    t1, t2 = rng.choice(INC_BOUND_INT), rng.choice(INC_BOUND_INT)
    doc = {"n": t1, "arr": [7, t2], "d": 0.5}
    ops = []
    if rng.chance(1, 3):
        ops.append({"op": "increment", "path": "/d", "value": rng.choice([1, 2.5])})
    ops.append({"op": "increment", "path": rng.choice(["/n", "/arr/1"]), "value": rng.choice(INC_BOUND_DBL)})
    if rng.chance(1, 3):
        ops.append({"op": "increment", "path": rng.choice(["/n", "/arr/1"]), "value": rng.choice(INC_BOUND_DBL + INC_BOUND_INT)})
    return doc, ops


def gen_inc_overflow_case(rng):
    big = rng.choice([9223372036854775807, 9223372036854775806, 9223372036854775000, -9223372036854775808, -9223372036854775807])
    doc = {"n": big, "arr": [1, big], "d": 1.5}
    v = rng.choice([1, 2, 808, 9223372036854775807, 1e300, 1e19]) if big > 0 else rng.choice([-1, -2, -9223372036854775807, -1e300, -1e19])
    prog = [{"op": "increment", "path": rng.choice(["/n", "/arr/1"]), "value": v}]
    if rng.chance(1, 2):
        prog.insert(0, {"op": "increment", "path": "/d", "value": 2})
    return doc, prog


def open_class(*texts):
    """the open-finding class (OPEN_CLASSES) a case falls into, judged from its JSON texts; None = none"""
    t = " ".join(texts)
    if "\\u0000" in t:
        return "nul-in-string"
    if re.search(r"-0(\.0+)?(?![0-9.eE])", t) or re.search(r"-0(\.0+)?[eE]", t):
        return "f64-text-compare"
    ds = {}
    for m in re.finditer(r"-?\d+\.\d+(?:[eE][-+]?\d+)?|-?\d+[eE][-+]?\d+", t):
        try:
            x = float(m.group(0))
        except ValueError:
            continue
        if abs(x) < 1e21:
            ds.setdefault("%.8f" % x, set()).add(x)
    if any(len(g) > 1 for g in ds.values()):
        return "f64-text-compare"
    return None


def shuffled(rng, v):
    """same value, object members in another order (rfc6902 4.6: still equal)"""
    if isinstance(v, dict):
        ks = list(v.keys())
        for i in range(len(ks) - 1, 0, -1):
            j = rng.below(i + 1)
            ks[i], ks[j] = ks[j], ks[i]
        return {k: shuffled(rng, v[k]) for k in ks}
    if isinstance(v, list):
        return [shuffled(rng, x) for x in v]
    return v


# ------------------------------------------------------------------------------------------------
def run_robust(exe, lines, env=None, timeout=None, max_restarts=5):
    """feeds the script; a crash at line i yields the answer 'CRASH <stderr summary>' for it and a restart after it"""
    out = []
    crashes = 0
    start = 0
    if timeout is None:      # a healthy run answers thousands of lines per second; a corrupted tree can make the library loop
        timeout = 12 + len(lines) // 50
    while start < len(lines):
        rc, o, err = vlib.run_lines(exe, "\n".join(lines[start:]) + "\n", timeout=timeout, env=env)
        complete, partial = o[:-1], o[-1] if o else ""      # the last piece has no newline: empty, or cut by the crash
        n = len(complete)
        if n >= len(lines) - start:
            out += complete[:len(lines) - start]
            break
        # line start+n did not get a complete answer
        out += complete[:n]
        if rc == 124:
            # the whole batch ran out of time: on a loaded machine (sanitizer build, many checks at once) that says nothing about
            # this line.  Every line is a self-contained query: ask it again alone with a generous limit before calling it a hang.
            rc1, o1, err1 = vlib.run_lines(exe, lines[start + n] + "\n", timeout=max(120, timeout), env=env)
            if rc1 != 124 and len(o1) >= 2:
                out.append(o1[0])
                start += n + 1
                continue
            if rc1 != 124:
                rc, err, partial = rc1, err1, (o1[-1] if o1 else "")
        why = "timeout" if rc == 124 else "exit %d" % rc
        m = [l for l in err.split("\n") if "ERROR: AddressSanitizer" in l or "SUMMARY" in l or "runtime error" in l or "Assertion" in l]
        msg = re.sub(r"0x[0-9a-f]+", "ADDR", re.sub(r"==\d+==", "", m[0].strip()))[:160] if m else ""
        out.append("CRASH " + why + (" " + msg if msg else "") + (" partial=" + partial[:200] if partial else ""))
        crashes += 1
        start += n + 1
        if crashes > max_restarts:
            out += ["SKIPPED"] * (len(lines) - len(out))
            break
    return out, crashes


MODES = ["tn", "ta", "bs", "bj"]


def eq_unordered(a, b, binary=False):
    if binary:          # an emptied struct jbl and one holding `null` are the same bytes
        a = None if a == ("NONE",) else a
        b = None if b == ("NONE",) else b
    return a == b       # dicts compare unordered, lists ordered, ("D", bits) exactly


def check(run):
    tier = run.tier
    rng = run.rng
    proofs_ok = run.proofs()
    impl = vlib.build_harness("h_jpatch")
    model = vlib.build_model("jpatch")
    mult = 1 if proofs_ok else 10
    N = (260 if tier == "quick" else 6000) * mult
    cases = []   # (doc text, patch text, doc value, program, origin)
    cdir = os.path.join(vlib.VERIF, "corpus", PID)
    for cf in sorted(os.listdir(cdir)) if os.path.isdir(cdir) else []:
        for l in open(os.path.join(cdir, cf)):
            l = l.strip()
            if not l or l.startswith("#"):
                continue
            r = json.loads(l)
            cases.append((json.dumps(r["doc"], ensure_ascii=False, separators=(",", ":")),
                          json.dumps(r["patch"], ensure_ascii=False, separators=(",", ":")), r["doc"], r["patch"], "corpus"))
    if os.environ.get("VERIF_NO_CORPUS"):       # debugging aid: judge the generators alone
        cases = []

    def admit(dt, pt):      # classes the unmodified library is known to get wrong are generated only on request
        c = open_class(dt, pt)
        return c is None or c in OPEN_ON
    for _ in range(N):
        doc = gen_value(rng, rng.choice([3, 3, 3, 4]), want=rng.choice(["a", "o", "o"]))
        prog = gen_program(rng, doc)
        if admit(gen_json(doc), gen_json(prog)):
            cases.append((gen_json(doc), gen_json(prog), doc, prog, "gen"))
    # equality of `test` at the boundaries of C number/string handling, followed by a modifying operation
    for _ in range((N * 3) // 4):
        doc, prog, kind = gen_eq_case(rng)
        if admit(gen_json(doc), gen_json(prog)):
            cases.append((gen_json(doc), gen_json(prog), doc, prog, "eq-" + kind))
    # values of nesting depth 2-6 copied / moved / added (tree walks that rebuild a subtree: jbn_clone, binary conversion)
    for _ in range(N // 2):
        doc, prog = gen_deep_case(rng)
        cases.append((gen_json(doc), gen_json(prog), doc, prog, "deep"))
    # results the binary form cannot hold (case-only twin names, names of 256+ bytes) and their near misses
    for _ in range(N // 2):
        doc, prog, what = gen_unrep_case(rng)
        cases.append((gen_json(doc), gen_json(prog), doc, prog, "wb-" + what))
    # the decoder as a grammar: members missing / renamed to prefixes / doubled / of the wrong type
    for _ in range(N // 3):
        doc, prog, what = gen_decoder_case(rng)
        cases.append((gen_json(doc), gen_json(prog), doc, prog, what))
    # swap of nested / identical / missing locations; move and copy inside one array (parent resolved after the removal)
    for _ in range(N // 4):
        doc, prog = gen_swap_case(rng)
        cases.append((gen_json(doc), gen_json(prog), doc, prog, "swap"))
    for _ in range(N // 4):
        doc, prog = gen_move_shift_case(rng)
        cases.append((gen_json(doc), gen_json(prog), doc, prog, "move-shift"))
    if "increment-overflow" in OPEN_ON:
        for _ in range(N // 8):
            doc, prog = gen_inc_overflow_case(rng)
            cases.append((gen_json(doc), gen_json(prog), doc, prog, "inc-overflow"))
        for _ in range(N // 3):
            doc, prog = gen_inc_boundary_case(rng)
            cases.append((gen_json(doc), gen_json(prog), doc, prog, "inc-bound"))
    if "root-move-copy" in OPEN_ON:
        for _ in range(N // 8):
            doc = gen_value(rng, 3, want="o")
            paths = [p for p, v in all_paths(doc) if p]
            frm = rng.choice(paths) if paths and rng.chance(5, 6) else rng.choice(["", "/zz"])
            prog = [{"op": rng.choice(["move", "copy"]), "from": frm, "path": ""}]
            if rng.chance(1, 2):
                prog.append({"op": "add", "path": "/after", "value": 1})
            cases.append((gen_json(doc), gen_json(prog), doc, prog, "root-move"))
    # pairs of calls (same mode, one after the other): the second patch lacks members the first one had
    groups = [[ci] for ci in range(len(cases))]
    for _ in range(N // 6):
        (da, pa), (db, pb) = gen_hist_pair(rng)
        cases.append((gen_json(da), gen_json(pa), da, pa, "hist-a"))
        cases.append((gen_json(db), gen_json(pb), db, pb, "hist-b"))
        groups.append([len(cases) - 2, len(cases) - 1])
    # the same equality asked directly (jbn_compare_nodes == 0, both argument orders)
    pairs = []
    for _ in range(N * 2):
        a = eq_value(rng, rng.choice([0, 0, 1, 2, 3]))
        b, kind = eq_pair(rng, a)
        if admit(gen_json(a), gen_json(b)):
            pairs.append((gen_json(a), gen_json(b), a, b, kind))
    lines, meta, line_of = [], [], {}
    for g in groups:
        if len(g) == 1:
            order = [(ci, mi) for ci in g for mi in range(len(MODES))]
        else:       # the calls of a pair follow one another in the same mode
            order = [(ci, mi) for mi in range(len(MODES)) for ci in g]
        for ci, mi in order:
            line_of[(ci, mi)] = len(lines)
            lines.append("patch %s %s %s" % (MODES[mi], hx(cases[ci][0]), hx(cases[ci][1])))
            meta.append((ci, MODES[mi]))
    npatch = len(lines)
    for pi, (at, bt, a, b, kind) in enumerate(pairs):
        lines.append("cmp %s %s" % (hx(at), hx(bt)))
        meta.append((pi, "cmp"))
    # node identities (which node of the document / of the patch document / fresh node ends up where): jbn_patch, jbn_patch_auto
    nid0 = len(lines)
    id_cases = [ci for ci in range(len(cases)) if isinstance(cases[ci][3], list) and (ci % 2 == 0 or cases[ci][4] != "gen")]
    for ci in id_cases:
        for m in ("tn", "ta"):
            lines.append("idpatch %s %s %s" % (m, hx(cases[ci][0]), hx(cases[ci][1])))
            meta.append((ci, "id-" + m))
    impl_env = dict(os.environ, H_JPATCH_PAR="1") if "parent-pointers" in OPEN_ON else None
    out_i, crashes = run_robust(impl, lines, env=impl_env)
    rc2, out_m, err2 = vlib.run_lines(model, "\n".join(lines) + "\n", timeout=600)
    if rc2 != 0 or len(out_m) < len(lines):
        run.broken.append("T2 model driver failed: rc=%d %s" % (rc2, err2[-300:]))
    # ---- T2: extracted model against the implementation
    mism, unmodelled = [], 0
    for i in range(len(lines)):
        a = out_i[i] if i < len(out_i) else "<missing>"
        b = out_m[i] if i < len(out_m) else "<missing>"
        if "UNMODELLED" in b or "MODEL-EXN" in b:
            unmodelled += 1
            continue
        if a == "SKIPPED":
            continue
        if a != b:
            mism.append(i)
    run.cov["traces_validated_against_impl"] = len(lines) - len(mism) - unmodelled
    run.cov["unmodelled_inputs"] = unmodelled
    if mism:
        i = mism[0]
        ci, m = meta[i]
        src = pairs if m == "cmp" else cases
        run.broken.append("T2 correspondence: %d of %d queries differ, first: mode %s doc `%s` patch `%s` impl=`%s` model=`%s`" % (
            len(mism), len(lines), m, src[ci][0][:200], src[ci][1][:300], (out_i[i] if i < len(out_i) else None),
            (out_m[i] if i < len(out_m) else None)))
        if os.environ.get("VERIF_DEBUG"):
            for i in mism[:30]:
                ci, m = meta[i]
                src = pairs if m == "cmp" else cases
                print("MISMATCH mode %s doc `%s` patch `%s`\n   impl =`%s`\n   model=`%s`" % (m, src[ci][0][:300], src[ci][1][:300], out_i[i][:400], out_m[i][:400]))
    # ---- ORACLE: RFC 6902 on the implementation's answers
    nviol = 0
    for ci, (dt, pt, doc, prog, origin) in enumerate(cases):
        orc = oracle(doc, prog)
        kind, exp = orc[0], orc[1]
        stopped_at = orc[2] if len(orc) > 2 else None
        opnames = "+".join(sorted(set(str(o.get("op", o.get("o", "?"))) if isinstance(o, dict) else "?" for o in prog))) if isinstance(prog, list) else "?"
        # the RFC result exists, but the binary form cannot hold it (a member name of 256+ bytes / two names equal up to ASCII case)
        unrep = kind == "ok" and exp != ("NONE",) and not representable(exp)
        run.dist("result:" + ("unrepresentable" if unrep else kind))
        run.dist("origin:" + origin)
        run.dist("len:%d" % (len(prog) if isinstance(prog, list) else 0))
        for o in (prog if isinstance(prog, list) else []):
            if isinstance(o, dict):
                run.dist("op:" + str(o.get("op", "?")))
        run.case(dt + "|" + pt, nontrivial=True,
                 sample=({"doc": dt, "patch": pt, "oracle": kind, "impl": out_i[line_of[(ci, 0)]] if line_of[(ci, 0)] < len(out_i) else None}
                         if ci % max(1, len(cases) // 5) == 0 else None))
        orig = from_py(doc)
        for mi, m in enumerate(MODES):
            i = line_of[(ci, mi)]
            if i >= len(out_i) or out_i[i] == "SKIPPED":
                continue
            o = out_i[i]
            rep = {"kind": "patch", "mode": m, "doc": dt, "patch": pt, "impl": o, "oracle": kind}
            if open_class(dt, pt):
                rep["class"] = open_class(dt, pt)
            if kind == "err" and isinstance(exp, str) and exp.split(":")[0] in OPEN_CLASSES:
                rep["class"] = exp.split(":")[0]
            if " par=bad" in o:
                rep["class"] = "parent-pointers"

            def viol(why):
                nonlocal nviol
                nviol += 1
                if nviol <= 40:
                    run.violation(rep, why)

            if o.startswith("CRASH"):
                viol("the implementation crashed/hung applying the patch (%s): doc %s patch %s" % (o, dt, pt))
                continue
            f = fields(o)
            binary = m[0] == "b"
            if "docparse" in f:     # jbl_from_json / jbn_from_json refused the document: no patch call was made
                if not (binary and f["docparse"] == "creation" and not representable(orig)):
                    viol("the document is refused (%s) although it %s: doc %s" % (
                        f["docparse"], "can be held by the binary form" if binary else "is well-formed JSON", dt))
                else:
                    run.dist("result:document-not-storable")
                continue
            if binary and not representable(orig):
                viol("jbl_from_json accepted a document the binary form cannot hold (a member is lost or mangled): doc %s -> %s" % (dt, o[:200]))
                continue
            if "rc" not in f:
                run.broken.append("T2 harness: unexpected answer `%s`" % o[:200])
                continue
            try:
                got = parse_dump(f["doc"]) if "doc" in f else None
            except DumpError:
                got = ("BAD",)
                if kind in ("ok", "err"):
                    viol("the resulting tree is not a well-formed document (cycle/duplicate member): %s" % o[:200])
                    continue
            if "doc" not in f:      # the harness' own exact decoding of the patch document rejected it; no API call was made
                if kind == "ok":
                    viol("RFC 6902 applies this patch, decoding reports %s: doc %s patch %s" % (f["rc"], dt, pt))
                continue
            if f.get("par") == "bad":
                viol("after the patch a child's `parent` pointer is not the node that lists it (taken over by _jbl_copy_node_data "
                     "from a node of the patch document): doc %s patch %s" % (dt, pt))
                continue
            if f.get("links") == "bad" and kind in ("ok", "err"):
                viol("sibling links of the tree are inconsistent after the patch: doc %s patch %s" % (dt, pt))
                continue
            # a failed patch leaves the binary document exactly as it was - for every input
            if binary and f["rc"] != "ok":
                if f.get("unchanged") != "1" or not eq_unordered(got, orig, True):
                    viol("failed patch (rc=%s) changed the binary document: doc %s patch %s -> %s" % (f["rc"], dt, pt, o[:200]))
                    continue
            if kind == "ok":
                if binary and unrep and f["rc"] == "creation":
                    pass        # reported, and (checked above) the binary document is byte for byte the one before the call
                elif f["rc"] != "ok":
                    viol("RFC 6902 applies this patch, the library reports %s: doc %s patch %s" % (f["rc"], dt, pt))
                elif not eq_unordered(got, exp, binary):
                    viol("result differs from RFC 6902 (mode %s): doc %s patch %s -> %s, expected %s" % (m, dt, pt, f["doc"], to_json(exp) if exp != ("NONE",) else "(no document)"))
            elif kind == "err":
                if f["rc"] == "ok":
                    viol("RFC 6902 makes this patch an error (%s), the library reports success: doc %s patch %s -> %s" % (exp, dt, pt, f["doc"]))
                elif not binary and stopped_at is not None and not eq_unordered(got, stopped_at):
                    viol("a `test` operation fails (%s) but the tree is not the document as it was before that operation "
                         "(evaluation went on, or the test changed something): doc %s patch %s -> %s" % (exp, dt, pt, f["doc"]))
    # ---- ORACLE for the direct comparisons: rfc6902 4.6 equality, in both argument orders
    for pi, (at, bt, a, b, pkind) in enumerate(pairs):
        i = npatch + pi
        try:
            exp = "eq=%d rev=%d" % ((1, 1) if rfc_eq(from_py(a), from_py(b)) else (0, 0))
        except Lenient:
            exp = None
        run.dist("cmp:" + (pkind if exp is not None else "lenient"))
        run.case("cmp|" + at + "|" + bt, nontrivial=True)
        if i >= len(out_i) or out_i[i] == "SKIPPED" or exp is None:
            continue
        if out_i[i] != exp:
            nviol += 1
            rep = {"kind": "cmp", "mode": "cmp", "doc": at, "patch": bt, "impl": out_i[i], "oracle": exp}
            if open_class(at, bt):
                rep["class"] = open_class(at, bt)
            if nviol <= 40:
                run.violation(rep, "the equality used by `test` (jbn_compare_nodes == 0) differs from rfc6902 4.6: %s against %s -> %s, "
                              "expected %s" % (at[:300], bt[:300], out_i[i], exp))
    # ---- ORACLE for the node identities: the result is a tree (no node listed twice); a node of the patch document in the result
    #      is a node of some operation's "value" (only operands are linked in); parent pointers (gated class parent-pointers)
    def value_ranges(prog):
        """depth-first numbers (as the harness numbers the patch document) of the nodes inside the "value" members"""
        ok, cnt = set(), [0]

        def walk(v, inside):
            me = cnt[0]
            cnt[0] += 1
            if inside:
                ok.add(me)
            if isinstance(v, list):
                for x in v:
                    walk(x, inside)
            elif isinstance(v, dict):
                for k2, x in v.items():
                    walk(x, inside)
        cnt[0] = 1      # 0 is the patch array itself
        for o in prog:
            me = cnt[0]
            cnt[0] += 1
            if isinstance(o, dict):
                for k2, x in o.items():
                    walk(x, "value".startswith(k2) and not "op".startswith(k2))
            elif isinstance(o, list):
                for x in o:
                    walk(x, False)
        return ok
    for k, ci in enumerate(id_cases):
        dt, pt, doc, prog, origin = cases[ci]
        okp = None
        for mi, m in enumerate(("tn", "ta")):
            i = nid0 + 2 * k + mi
            if i >= len(out_i) or out_i[i] == "SKIPPED":
                continue
            o = out_i[i]
            run.dist("identity:" + m)
            rep = {"kind": "idpatch", "mode": m, "doc": dt, "patch": pt, "impl": o, "oracle": "identity"}
            if o.startswith("CRASH"):
                nviol += 1
                if nviol <= 40:
                    run.violation(rep, "the implementation crashed/hung applying the patch (%s): doc %s patch %s" % (o, dt, pt))
                continue
            f = fields(o)
            if "own" not in f:
                continue
            if f.get("dup") != "0":
                nviol += 1
                if nviol <= 40:
                    run.violation(rep, "after the patch a node is listed twice (the tree is not a tree): doc %s patch %s -> %s" % (dt, pt, o[:200]))
                continue
            own = f["own"].split(",")
            ps = [int(x[1:]) for x in own if x.startswith("p")]
            ds = [x for x in own if x.startswith("d")]
            if okp is None:
                okp = value_ranges(prog)
            if len(set(ps)) != len(ps) or len(set(ds)) != len(ds) or any(x not in okp for x in ps):
                nviol += 1
                if nviol <= 40:
                    run.violation(rep, "a node of the patch document that is no operand value ended up in the result, or a node is linked "
                                       "at two places: doc %s patch %s -> %s" % (dt, pt, o[:200]))
                continue
            if f.get("par") == "bad" and "parent-pointers" in OPEN_ON:
                rep["class"] = "parent-pointers"
                nviol += 1
                if nviol <= 40:
                    run.violation(rep, "after the patch a child's `parent` pointer is not the node that lists it: doc %s patch %s -> %s" % (dt, pt, o[:200]))
    return run.finish(level=LEVEL,
                      rule="(document, patch program) pairs: documents of depth <= 3 over a small key alphabet (escaped '/', '~', "
                           "numeric-looking keys, prefixes of one another), programs of 1-8 operations generated against the "
                           "expected document so that paths exist, 60% of the operations aimed at one array ('-', index = length, "
                           "length+1), from/path nested in either direction, failing test midway, 10% with non-RFC syntax; every pair "
                           "is applied through jbn_patch (struct), jbn_patch_auto, jbl_patch (struct) and jbl_patch_from_json; "
                           "plus (origin:eq-*) documents holding a boundary value (int64 at 2^31/2^32/k*2^32/2^53/2^63 steps, doubles "
                           "less than 1 / 2^32 apart / in exponent form, strings by last byte / length+256, members renamed or with "
                           "exchanged values) at depth 0-4 with `test <near miss | same value reordered | 1 vs 1.0>` followed by a "
                           "modifying operation; plus (cmp:*) such value pairs given to jbn_compare_nodes directly in both orders; "
                           "plus (origin:wb-*) patches whose RFC result holds member names the binary form cannot store (case-only "
                           "twins, 256-1000 bytes; first/middle/last member, nested objects that are not the last member, below "
                           "arrays; via add/copy/move/add_create/literal values; after earlier successful operations and followed by "
                           "more) and their storable near misses (255 bytes, other length, non-ASCII case, twin removed again); "
                           "plus (origin:dec-*) operation objects with members missing / renamed to prefixes / doubled / of the wrong "
                           "type / not objects, (origin:hist-a|b) pairs of consecutive calls in one mode whose second patch lacks "
                           "`from` / `op` / `value` where the first had them, (origin:swap) swap of nested, identical (two spellings) "
                           "and missing locations, (origin:move-shift) move / copy between items of one array; "
                           "a case is one pair; distinct = distinct (document, patch) text",
                      assumptions=["oracle domain: patches the RFC applies or rejects; inputs the library reads more leniently than the "
                                   "RFC (iwatoi indices, '-' as last element, '/' as root, names by prefix) are only compared with the model "
                                   "and checked for 'failed => binary unchanged' (classes counted under result:lenient/unspecified)",
                                   "JSON texts use only syntax on which text parsing is not in question (no \\r, no control characters, "
                                   "doubles x.5) - text parsing is C13's subject",
                                   "object member names are distinct (qsort order of equal keys in _jbl_compare_objects is unspecified)",
                                   "binary-form modes, RFC result not storable in the binary form (result:unrepresentable): the call must "
                                   "either succeed with exactly the RFC result or report JBL_ERROR_CREATION with the binary document byte "
                                   "for byte as before; a document that is itself not storable must be refused by jbl_from_json",
                                   "doubles come from a fixed list whose JSON text iwstrtod reads exactly (it is not correctly rounded: "
                                   "C13); the classes on which the library contradicted rfc6902 before its repairs (notes/jpatch.md) are "
                                   "generated and judged on every run: %s" % ", ".join(sorted(OPEN_ON))])


def replay(run, path):
    r = json.load(open(path))
    if "doc" not in r:
        print(json.dumps(r, indent=1))
        return 1
    variant = r.get("variant", "plain")
    impl = vlib.build_harness("h_jpatch", variant)
    if r.get("kind") == "cmp":
        line = "cmp %s %s" % (hx(r["doc"]), hx(r["patch"]))
    elif r.get("kind") == "patch":
        line = "patch %s %s %s" % (r["mode"], hx(r["doc"]), hx(r["patch"]))
    elif r.get("kind") == "idpatch":
        line = "idpatch %s %s %s" % (r["mode"], hx(r["doc"]), hx(r["patch"]))
    elif r.get("kind") == "mpath":
        line = "mpath %s %s %s %s" % (r["mode"], hx(r["doc"]), hx(r["path"]), hx(r["val"]) if r.get("val") is not None else "-")
    elif r.get("kind") == "regs":
        line = "regs %s %s" % (hx(r["doc"]), hx(r["steps"]))
    elif r.get("kind") == "msub":
        line = "msub %s %s %s" % (hx(r["doc"]), hx(r["path"]), hx(r["patch"]))
    elif r.get("kind") == "mdeep":
        line = "mdeep %d" % r["depth"]
    elif r.get("kind") == "reg":
        line = "reg %s %s %s %s" % (r["mode"][1:], hx(r["doc"]), hx(r["path"]), hx(r["val"]) if r.get("val") is not None else "-")
    else:
        line = "merge %s %s %s" % (r["mode"], hx(r["doc"]), hx(r["patch"]))
    env = dict(os.environ, ASAN_OPTIONS="detect_leaks=1", LSAN_OPTIONS="exitcode=0", H_JPATCH_PAR="1" if " par=bad" in r.get("impl", "") else "")
    if not env["H_JPATCH_PAR"]:
        del env["H_JPATCH_PAR"]
    out, crashes = run_robust(impl, [line], env=env)
    print("doc   :", r["doc"])
    print("patch :", r.get("patch", r.get("path", r.get("steps"))))
    print("mode  :", r["mode"], "(see harness/h_jpatch.c)")
    print("impl  :", out[0][:600])
    print("recorded:", r.get("impl", "")[:600])
    print("note  :", r.get("note"))
    return 1 if out[0] == r.get("impl") else 0
