# C15 - JSON Patch gives the RFC 6902 result and a failed patch changes nothing
# (shared helpers of the jpatch family live here; checks/C16.py imports them)
import os, json, struct, re
import vlib

LEVEL = "proof"
PID = "C15"


# ------------------------------------------------------------------------------------------------
# values: None, bool, int, ("D", bits) for doubles, bytes for strings, list, dict with bytes keys
def f64(x):
    return ("D", struct.unpack(">Q", struct.pack(">d", x))[0])


def to_json(v):
    """JSON text of a value (only what both parsers read the same way: see notes/jpatch.md)"""
    if v is None:
        return "null"
    if v is True:
        return "true"
    if v is False:
        return "false"
    if isinstance(v, int):
        return str(v)
    if isinstance(v, tuple):
        return repr(struct.unpack(">d", struct.pack(">Q", v[1]))[0])
    if isinstance(v, bytes):
        return json.dumps(v.decode("utf-8"), ensure_ascii=False)
    if isinstance(v, list):
        return "[" + ",".join(to_json(x) for x in v) + "]"
    if isinstance(v, dict):
        return "{" + ",".join(to_json(k) + ":" + to_json(x) for k, x in v.items()) + "}"
    raise ValueError(v)


class DumpError(Exception):
    pass


def parse_dump(s):
    """canonical dump of harness/driver -> value; '_' (no document) -> ('NONE',)"""
    pos = [0]

    def val():
        c = s[pos[0]]
        pos[0] += 1
        if c == "_":
            return ("NONE",)
        if c == "N":
            return None
        if c == "T":
            return True
        if c == "F":
            return False
        if c == "I":
            st = pos[0]
            while pos[0] < len(s) and (s[pos[0]].isdigit() or s[pos[0]] == "-"):
                pos[0] += 1
            return int(s[st:pos[0]])
        if c == "D":
            h = s[pos[0]:pos[0] + 16]
            pos[0] += 16
            return ("D", int(h, 16))
        if c == "S":
            return hexstr()
        if c == "[":
            out = []
            if s[pos[0]] == "]":
                pos[0] += 1
                return out
            while True:
                out.append(val())
                c2 = s[pos[0]]
                pos[0] += 1
                if c2 == "]":
                    return out
                if c2 != ",":
                    raise DumpError(s)
        if c == "{":
            out = {}
            if s[pos[0]] == "}":
                pos[0] += 1
                return out
            while True:
                k = hexstr()
                if s[pos[0]] != ":":
                    raise DumpError(s)
                pos[0] += 1
                v = val()
                if k in out:
                    raise DumpError("duplicate member " + s)
                out[k] = v
                c2 = s[pos[0]]
                pos[0] += 1
                if c2 == "}":
                    return out
                if c2 != ",":
                    raise DumpError(s)
        raise DumpError(s)

    def hexstr():
        if s[pos[0]] == "-":
            pos[0] += 1
            return b""
        st = pos[0]
        while pos[0] < len(s) and s[pos[0]] in "0123456789abcdef":
            pos[0] += 1
        return bytes.fromhex(s[st:pos[0]])

    try:
        v = val()
        if pos[0] != len(s):
            raise DumpError(s)
        return v
    except (IndexError, ValueError):
        raise DumpError(s)


def fields(line):
    """'rc=ok doc=... kl=... unchanged=1' -> dict"""
    out = {}
    for t in line.split():
        if "=" in t:
            k, v = t.split("=", 1)
            out[k] = v
        else:
            out.setdefault("_rest", []).append(t)
    return out


def hx(s):
    b = s.encode("utf-8") if isinstance(s, str) else s
    return b.hex() if b else "-"


# ------------------------------------------------------------------------------------------------
# ORACLE: RFC 6901 / RFC 6902 over python values.  Written from the RFC text, independent of the Coq model.
class PatchError(Exception):          # the RFC makes the operation an error
    pass


class TestFailed(PatchError):         # a `test` whose value differs
    pass


class Lenient(Exception):             # the RFC makes it an error for a reason the library deliberately reads otherwise
    pass


class Unspecified(Exception):         # extension used outside what its one-line description covers
    pass


def ptr_parse(p):
    if p == "":
        return []
    if not p.startswith("/"):
        raise PatchError("pointer must start with /")
    if len(p) > 1 and p.endswith("/"):
        raise Lenient("trailing empty segment is rejected by the library")
    segs = []
    for raw in p[1:].split("/"):
        i = 0
        out = ""
        while i < len(raw):
            if raw[i] == "~":
                if raw[i + 1:i + 2] == "0":
                    out += "~"
                elif raw[i + 1:i + 2] == "1":
                    out += "/"
                else:
                    raise PatchError("bad escape")
                i += 2
            else:
                out += raw[i]
                i += 1
        segs.append(out.encode("utf-8"))
    if segs == [b""]:
        raise Lenient("'/' is the library's alias of the root")
    return segs


def arr_index(seg, n, for_insert):
    """RFC 6901 array index; '-' only as insert position"""
    s = seg.decode("utf-8", "replace")
    if s == "-":
        if for_insert:
            return n
        raise Lenient("'-' addresses the last element in the library")
    if s == "0" or (s.isascii() and s.isdigit() and s[0] != "0" and len(s) <= 9):
        i = int(s)
        if i < n or (for_insert and i == n):
            return i
        raise PatchError("index out of range")
    raise Lenient("array index %r is not rfc6901 syntax; the library reads it with iwatoi" % s)


def get(doc, segs):
    cur = doc
    for s in segs:
        if isinstance(cur, dict):
            if s not in cur:
                raise PatchError("no member")
            cur = cur[s]
        elif isinstance(cur, list):
            cur = cur[arr_index(s, len(cur), False)]
        else:
            raise PatchError("scalar on the way")
    return cur


def clone(v):
    if isinstance(v, list):
        return [clone(x) for x in v]
    if isinstance(v, dict):
        return {k: clone(x) for k, x in v.items()}
    return v


def p_add(doc, segs, v):
    if not segs:
        return v
    parent = get(doc, segs[:-1])
    s = segs[-1]
    if isinstance(parent, dict):
        parent[s] = v
    elif isinstance(parent, list):
        parent.insert(arr_index(s, len(parent), True), v)
    else:
        raise PatchError("parent is a scalar")
    return doc


def p_remove(doc, segs):
    if not segs:
        return ("NONE",)
    parent = get(doc, segs[:-1])
    s = segs[-1]
    if isinstance(parent, dict):
        if s not in parent:
            raise PatchError("missing target")
        v = parent.pop(s)
    elif isinstance(parent, list):
        v = parent.pop(arr_index(s, len(parent), False))
    else:
        raise PatchError("parent is a scalar")
    return doc, v


def is_num(v):
    return (isinstance(v, int) and not isinstance(v, bool)) or isinstance(v, tuple)


def num(v):
    return struct.unpack(">d", struct.pack(">Q", v[1]))[0] if isinstance(v, tuple) else v


def rfc_eq(a, b):
    if is_num(a) and is_num(b):
        if isinstance(a, tuple) != isinstance(b, tuple) and num(a) == num(b):
            raise Lenient("integer against double with the same numeric value: the library compares types first")
        return num(a) == num(b)
    if type(a) != type(b):
        return False
    if isinstance(a, list):
        return len(a) == len(b) and all(rfc_eq(x, y) for x, y in zip(a, b))
    if isinstance(a, dict):
        return a.keys() == b.keys() and all(rfc_eq(a[k], b[k]) for k in a)
    return a == b


RFC_OPS = ("add", "remove", "replace", "move", "copy", "test")
EXT_OPS = ("increment", "add_create", "swap")


def apply_op(doc, op):
    """returns the new document; raises PatchError / Lenient / Unspecified.  `doc` is consumed."""
    if not isinstance(op, dict):
        raise PatchError("operation is not an object")
    for k in op:
        if k not in ("op", "path", "from", "value"):
            raise Lenient("unknown member %r (the library decodes member names by prefix)" % k)
    name = op.get("op")
    if not isinstance(name, str) or "path" not in op or not isinstance(op["path"], str):
        if isinstance(name, str) and name not in RFC_OPS + EXT_OPS:
            raise Lenient("operation name decoded by prefix")
        raise PatchError("op/path missing")
    if name not in RFC_OPS + EXT_OPS:
        raise Lenient("operation name %r (the library decodes names by prefix)" % name)
    if doc == ("NONE",):
        raise Lenient("no document left after the root was removed")
    path = ptr_parse(op["path"])
    frm = None
    if name in ("move", "copy") and not path:
        raise Lenient("move/copy onto the root is ignored by the library")
    if name in EXT_OPS and not path:
        raise Unspecified("extension on the root")
    if name in ("move", "copy", "swap"):
        if not isinstance(op.get("from"), str):
            raise PatchError("from missing")
        try:
            frm = ptr_parse(op["from"])
        except Lenient:
            if op["from"] == "/":
                frm = [b""]      # `from` has no root alias in the library either
            else:
                raise
    if name in ("add", "replace", "test", "increment", "add_create") and "value" not in op:
        raise PatchError("value missing")
    v = clone(from_py(op["value"])) if "value" in op else None
    if name == "test":
        return doc if rfc_eq(get(doc, path), v) else _raise(TestFailed("test failed"))
    if name == "add":
        return p_add(doc, path, v)
    if name == "remove":
        r = p_remove(doc, path)
        return r if r == ("NONE",) else r[0]
    if name == "replace":
        if not path:
            return v
        doc, _ = p_remove(doc, path)
        return p_add(doc, path, v)
    if name == "move":
        if not path:
            raise Lenient("move onto the root is ignored by the library")
        if len(frm) < len(path) and path[:len(frm)] == frm:
            # rfc6902 4.4: from MUST NOT be a proper prefix of path
            raise Lenient("move into one's own child") if frm else PatchError("move of the root")
        x = get(doc, frm)
        doc, x = p_remove(doc, frm)
        return p_add(doc, path, x)
    if name == "copy":
        if not path:
            raise Lenient("copy onto the root is ignored by the library")
        return p_add(doc, path, clone(get(doc, frm)))
    # ---- extensions (iwjson.h: "Value increment", "Create intermediate object nodes for missing path segments",
    #      "Swap values of two nodes")
    if not path:
        raise Unspecified("extension on the root")
    if name == "increment":
        parent = get(doc, path[:-1])
        if not isinstance(parent, dict):
            raise Unspecified("increment below an array")
        if not is_num(v) or isinstance(v, bool):
            raise PatchError("increment by a non-number")
        if path[-1] not in parent:
            raise PatchError("no such member")
        cur = parent[path[-1]]
        if not is_num(cur) or isinstance(cur, bool):
            raise PatchError("target is not a number")
        if isinstance(cur, tuple):
            parent[path[-1]] = f64(num(cur) + float(num(v)))
        else:
            r = cur + (int(num(v)) if isinstance(v, tuple) else v)
            if not -(1 << 63) <= r < (1 << 63):
                raise Unspecified("signed overflow")
            parent[path[-1]] = r
        return doc
    if name == "add_create":
        cur = doc
        for s in path[:-1]:
            if not isinstance(cur, dict):
                raise Unspecified("add_create through a non-object")
            if s not in cur:
                cur[s] = {}
            cur = cur[s]
        try:
            return p_add(doc, path, v)
        except PatchError:
            raise Unspecified("add_create failed after creating parents")
    if name == "swap":
        a = get(doc, frm)
        pre = min(len(frm), len(path))
        if frm[:pre] == path[:pre]:
            if frm == path:
                return doc
            raise Unspecified("swap of nested locations")
        try:
            b = get(doc, path)
        except PatchError:
            raise Unspecified("swap with a missing location")
        pa = get(doc, frm[:-1])
        pb = get(doc, path[:-1])
        ia = frm[-1] if isinstance(pa, dict) else arr_index(frm[-1], len(pa), False)
        ib = path[-1] if isinstance(pb, dict) else arr_index(path[-1], len(pb), False)
        pa[ia], pb[ib] = b, a
        return doc
    raise PatchError("unknown")


def _raise(e):
    raise e


def from_py(v):
    """value given in generator form (str for strings, float for doubles) -> oracle form"""
    if isinstance(v, str):
        return v.encode("utf-8")
    if isinstance(v, float):
        return f64(v)
    if isinstance(v, list):
        return [from_py(x) for x in v]
    if isinstance(v, dict):
        return {k.encode("utf-8"): from_py(x) for k, x in v.items()}
    return v


def pointers_clean(program):
    for op in program:
        if not isinstance(op, dict):
            return False
        for k in ("path", "from"):
            if k in op:
                try:
                    if not isinstance(op[k], str) or (op[k] != "/" and ptr_parse(op[k]) is None):
                        return False
                except (PatchError, Lenient):
                    return False
    return True


def oracle(doc, program):
    """-> (kind, value): kind 'ok' (value = result), 'err' (an operation fails per RFC), 'lenient', 'unspecified'"""
    cur = clone(from_py(doc))
    if not isinstance(program, list):
        return ("lenient", "patch document is not an array")
    kind = "ok"
    for k, op in enumerate(program):
        before = clone(cur) if isinstance(op, dict) and op.get("op") == "test" else None
        try:
            cur = apply_op(cur, op)
        except TestFailed as e:
            # a failing `test` changes nothing: the tree API must stop with the document as it was before that operation
            # (the library parses every pointer of the patch before it applies the first operation)
            return ("err", str(e), before if pointers_clean(program) else None)
        except PatchError as e:
            return ("err", str(e))
        except Lenient as e:
            return ("lenient", str(e))
        except Unspecified as e:
            return ("unspecified", str(e))
        except (KeyError, IndexError, TypeError, AttributeError) as e:
            return ("err", "malformed: %r" % (e,))
    return (kind, cur)


def gen_json(v):
    """JSON text of a generator-form value (str/float/dict with str keys)"""
    return to_json(from_py(v))


# ------------------------------------------------------------------------------------------------
# generators
KEYS = ["a", "b", "ab", "abc", "a/b", "m~n", "0", "1", "01", "-", "k é", "x\"y", "value", "op", "path", "foo"]
STRS = ["", "s", "str", "a/b", "é", "two words", "q\"uote", "back\\slash", "tab\there", "line\nfeed", "0", "~"]
INTS = [0, 1, -1, 2, 7, 42, 127, 128, -129, 65536, 2147483647, -2147483648, 4294967296, 9007199254740993,
        (1 << 63) - 1, -(1 << 63) + 1]     # INT64_MIN itself leaves errno = ERANGE behind in the text parser (C17)
FLTS = [0.5, 1.5, -2.5, 100.5, 1e10 + 0.5]


def gen_scalar(rng):
    k = rng.below(10)
    if k == 0:
        return None
    if k == 1:
        return rng.chance(1, 2)
    if k <= 5:
        return rng.choice(INTS) if rng.chance(1, 3) else rng.range(-3, 12)
    if k == 6:
        return rng.choice(FLTS)
    return rng.choice(STRS)


def gen_value(rng, depth, want=None):
    k = want or rng.weighted([("s", 5), ("a", 3 if depth > 0 else 0), ("o", 3 if depth > 0 else 0)])
    if k == "s":
        return gen_scalar(rng)
    if k == "a":
        n = rng.weighted([(0, 2), (1, 2), (2, 3), (3, 3), (4, 2), (6, 1)])
        return [gen_value(rng, depth - 1) for _ in range(n)]
    n = rng.weighted([(0, 2), (1, 3), (2, 3), (3, 2), (5, 1)])
    out = {}
    for _ in range(n):
        out[rng.choice(KEYS)] = gen_value(rng, depth - 1)
    return out


def esc(seg):
    return seg.replace("~", "~0").replace("/", "~1")


def all_paths(v, pre=""):
    """(pointer, value) of every location of a generator-form value"""
    out = [(pre, v)]
    if isinstance(v, dict):
        for k, x in v.items():
            out += all_paths(x, pre + "/" + esc(k))
    elif isinstance(v, list):
        for i, x in enumerate(v):
            out += all_paths(x, pre + "/" + str(i))
    return out


def to_gen(v):
    """oracle form -> generator form"""
    if isinstance(v, bytes):
        return v.decode("utf-8")
    if isinstance(v, tuple):
        return struct.unpack(">d", struct.pack(">Q", v[1]))[0] if v[0] == "D" else None
    if isinstance(v, list):
        return [to_gen(x) for x in v]
    if isinstance(v, dict):
        return {k.decode("utf-8"): to_gen(x) for k, x in v.items()}
    return v


LENIENT_IDX = ["01", "+1", " 1", "1x", "abc", "", "-1", "4294967296", "4294967297", "00", "1e0", "2147483648"]


def gen_program(rng, doc, run=None):
    """1..8 operations; tracks the expected document so that most paths exist when they are used"""
    cur = doc
    nops = rng.weighted([(1, 3), (2, 3), (3, 3), (4, 2), (5, 2), (6, 1), (8, 1)])
    ops = []
    arrays = [p for p, v in all_paths(cur) if isinstance(v, list)]
    hot = rng.choice(arrays) if arrays and rng.chance(3, 4) else None
    fail_at = rng.below(nops) if rng.chance(1, 4) else -1
    lenient = rng.chance(1, 10)
    for i in range(nops):
        paths = all_paths(cur) if not (isinstance(cur, tuple)) else [("", None)]
        hotv = None
        if hot is not None:
            for p, v in paths:
                if p == hot and isinstance(v, list):
                    hotv = v
        def some_path(existing=True, container=False):
            cand = [p for p, v in paths if p != "" and (not container or isinstance(v, (list, dict)))]
            if hotv is not None and rng.chance(3, 5) and not container:
                if hotv and existing:
                    return hot + "/" + str(rng.below(len(hotv)))
                return hot + "/" + rng.choice([str(len(hotv)), "-", str(len(hotv) + 1), "0"])
            if existing and cand:
                return rng.choice(cand)
            base = rng.choice([p for p, v in paths if isinstance(v, (list, dict))] or [""])
            bv = dict(paths)[base]
            if isinstance(bv, list):
                return base + "/" + rng.choice([str(len(bv)), "-", str(len(bv) + 2), str(rng.below(len(bv) + 1))])
            return base + "/" + esc(rng.choice(KEYS + ["zz", "new"]))
        kind = rng.weighted([("add", 5), ("remove", 5), ("replace", 4), ("move", 4), ("copy", 4), ("test", 4),
                             ("increment", 1), ("add_create", 1), ("swap", 1)])
        op = {"op": kind}
        if i == fail_at:
            kind = "test"
            op = {"op": "test"}
        if kind == "test":
            p = some_path(True) if rng.chance(9, 10) else ""
            op["path"] = p
            tv = dict(paths).get(p)
            if i == fail_at or rng.chance(1, 5):
                op["value"] = mutated(rng, tv) if rng.chance(2, 3) else gen_value(rng, 1)
            else:
                op["value"] = tv if rng.chance(4, 5) else shuffled(rng, tv)
        elif kind == "add":
            op["path"] = some_path(rng.chance(1, 3))
            op["value"] = gen_value(rng, 2)
            if rng.chance(1, 25):
                del op["value"]
        elif kind == "remove":
            op["path"] = some_path(rng.chance(7, 8))
        elif kind == "replace":
            op["path"] = some_path(rng.chance(7, 8))
            op["value"] = gen_value(rng, 2)
        elif kind in ("move", "copy", "swap"):
            op["from"] = some_path(rng.chance(9, 10))
            r = rng.below(10)
            if r < 2 and op["from"].count("/") >= 1:       # path below from / from below path
                op["path"] = op["from"] + "/" + esc(rng.choice(KEYS[:4] + ["0", "-"]))
            elif r < 4 and op["from"].count("/") >= 2:
                op["path"] = op["from"].rsplit("/", 1)[0]
            elif r < 5:
                op["path"] = op["from"]
            else:
                op["path"] = some_path(kind == "swap" or rng.chance(1, 3))
            if rng.chance(1, 30):
                del op["from"]
        elif kind == "increment":
            nums = [p for p, v in paths if isinstance(v, (int, float)) and not isinstance(v, bool) and p]
            op["path"] = rng.choice(nums) if nums and rng.chance(4, 5) else some_path(True)
            op["value"] = rng.choice([1, 2, -5, 1.5, "x", True]) if rng.chance(1, 4) else rng.range(-3, 9)
        elif kind == "add_create":
            base = some_path(True, container=True) if rng.chance(1, 2) else ""
            op["path"] = base + "".join("/" + esc(rng.choice(KEYS[:5] + ["n1", "n2"])) for _ in range(rng.range(1, 3)))
            op["value"] = gen_value(rng, 1)
        if lenient and rng.chance(1, 2):
            r = rng.below(6)
            if r == 0 and "path" in op and op["path"].count("/") >= 1:
                op["path"] = op["path"].rsplit("/", 1)[0] + "/" + rng.choice(LENIENT_IDX)
            elif r == 1:
                op["path"] = rng.choice(["/", op.get("path", "") + "/", "a", ""])
            elif r == 2:
                op["op"] = rng.choice(["re", "a", "", "t", "mov", "adds", "ADD", "add_", "s", "incr"])
            elif r == 3:
                nk = rng.choice([("op", "o"), ("path", "pa"), ("value", "v"), ("from", "fro"), ("path", "p"), ("op", "")])
                if nk[0] in op:
                    op = {(nk[1] if k == nk[0] else k): v for k, v in op.items()}
            elif r == 4 and "from" in op and op["from"].count("/") >= 1:
                op["from"] = op["from"].rsplit("/", 1)[0] + "/" + rng.choice(["-"] + LENIENT_IDX)
            elif r == 5:
                op["path"] = rng.choice(["", "/"])
        if rng.chance(1, 60):
            op["path"] = ""
        ops.append(op)
        orc1 = oracle(cur, [op])
        k, v = orc1[0], orc1[1]
        if k == "ok":
            cur = to_gen(v) if v != ("NONE",) else ("NONE",)
            if isinstance(cur, tuple):
                break
        elif k in ("lenient", "unspecified"):
            break           # the expected document is not known any more; stop extending the program
    return ops


def mutated(rng, v):
    """a value that differs from v in one place deep inside (same shape otherwise)"""
    if isinstance(v, dict) and v:
        k = rng.choice(list(v.keys()))
        r = rng.below(4)
        if r == 0:
            return {kk: vv for kk, vv in v.items() if kk != k}
        if r == 1:
            out = dict(v)
            out[k + "x"] = out.pop(k)
            return out
        return {kk: (mutated(rng, vv) if kk == k else vv) for kk, vv in v.items()}
    if isinstance(v, list) and v:
        i = rng.below(len(v))
        r = rng.below(4)
        if r == 0:
            return v[:i] + v[i + 1:]
        if r == 1 and len(v) > 1:
            w = list(v)
            w[0], w[-1] = w[-1], w[0]
            return w if w != v else v + [None]
        return [mutated(rng, x) if j == i else x for j, x in enumerate(v)]
    if isinstance(v, bool):
        return not v
    if isinstance(v, int):
        w = v + rng.choice([1, -1, 256])
        return w if -(1 << 63) < w < (1 << 63) else v // 2
    if isinstance(v, float):
        return v + 1.0
    if isinstance(v, str):
        return v + rng.choice(["x", " "]) if rng.chance(1, 2) or not v else v[:-1]
    if v is None:
        return rng.choice([False, 0, "", [], {}])
    return rng.choice([None, 1, "m"])      # empty containers


def shuffled(rng, v):
    """same value, object members in another order (rfc6902 4.6: still equal)"""
    if isinstance(v, dict):
        ks = list(v.keys())
        for i in range(len(ks) - 1, 0, -1):
            j = rng.below(i + 1)
            ks[i], ks[j] = ks[j], ks[i]
        return {k: shuffled(rng, v[k]) for k in ks}
    if isinstance(v, list):
        return [shuffled(rng, x) for x in v]
    return v


# ------------------------------------------------------------------------------------------------
def run_robust(exe, lines, env=None, timeout=None, max_restarts=5):
    """feeds the script; a crash at line i yields the answer 'CRASH <stderr summary>' for it and a restart after it"""
    out = []
    crashes = 0
    start = 0
    if timeout is None:      # a healthy run answers thousands of lines per second; a corrupted tree can make the library loop
        timeout = 12 + len(lines) // 50
    while start < len(lines):
        rc, o, err = vlib.run_lines(exe, "\n".join(lines[start:]) + "\n", timeout=timeout, env=env)
        complete, partial = o[:-1], o[-1] if o else ""      # the last piece has no newline: empty, or cut by the crash
        n = len(complete)
        if n >= len(lines) - start:
            out += complete[:len(lines) - start]
            break
        # line start+n did not get a complete answer
        out += complete[:n]
        why = "timeout" if rc == 124 else "exit %d" % rc
        m = [l for l in err.split("\n") if "ERROR: AddressSanitizer" in l or "SUMMARY" in l or "runtime error" in l or "Assertion" in l]
        msg = re.sub(r"0x[0-9a-f]+", "ADDR", re.sub(r"==\d+==", "", m[0].strip()))[:160] if m else ""
        out.append("CRASH " + why + (" " + msg if msg else "") + (" partial=" + partial[:200] if partial else ""))
        crashes += 1
        start += n + 1
        if crashes > max_restarts:
            out += ["SKIPPED"] * (len(lines) - len(out))
            break
    return out, crashes


MODES = ["tn", "ta", "bs", "bj"]


def eq_unordered(a, b, binary=False):
    if binary:          # an emptied struct jbl and one holding `null` are the same bytes
        a = None if a == ("NONE",) else a
        b = None if b == ("NONE",) else b
    return a == b       # dicts compare unordered, lists ordered, ("D", bits) exactly


def check(run):
    tier = run.tier
    rng = run.rng
    proofs_ok = run.proofs()
    impl = vlib.build_harness("h_jpatch")
    model = vlib.build_model("jpatch")
    mult = 1 if proofs_ok else 10
    N = (260 if tier == "quick" else 6000) * mult
    cases = []   # (doc text, patch text, doc value, program, origin)
    cdir = os.path.join(vlib.VERIF, "corpus", PID)
    for cf in sorted(os.listdir(cdir)) if os.path.isdir(cdir) else []:
        for l in open(os.path.join(cdir, cf)):
            l = l.strip()
            if not l or l.startswith("#"):
                continue
            r = json.loads(l)
            cases.append((json.dumps(r["doc"], ensure_ascii=False, separators=(",", ":")),
                          json.dumps(r["patch"], ensure_ascii=False, separators=(",", ":")), r["doc"], r["patch"], "corpus"))
    for _ in range(N):
        doc = gen_value(rng, 3, want=rng.choice(["a", "o", "o"]))
        prog = gen_program(rng, doc)
        cases.append((gen_json(doc), gen_json(prog), doc, prog, "gen"))
    lines, meta = [], []
    for ci, (dt, pt, doc, prog, origin) in enumerate(cases):
        for m in MODES:
            lines.append("patch %s %s %s" % (m, hx(dt), hx(pt)))
            meta.append((ci, m))
    out_i, crashes = run_robust(impl, lines)
    rc2, out_m, err2 = vlib.run_lines(model, "\n".join(lines) + "\n", timeout=600)
    if rc2 != 0 or len(out_m) < len(lines):
        run.broken.append("T2 model driver failed: rc=%d %s" % (rc2, err2[-300:]))
    # ---- T2: extracted model against the implementation
    mism, unmodelled = [], 0
    for i in range(len(lines)):
        a = out_i[i] if i < len(out_i) else "<missing>"
        b = out_m[i] if i < len(out_m) else "<missing>"
        if "UNMODELLED" in b or "MODEL-EXN" in b:
            unmodelled += 1
            continue
        if a == "SKIPPED":
            continue
        if a != b:
            mism.append(i)
    run.cov["traces_validated_against_impl"] = len(lines) - len(mism) - unmodelled
    run.cov["unmodelled_inputs"] = unmodelled
    if mism:
        i = mism[0]
        ci, m = meta[i]
        run.broken.append("T2 correspondence: %d of %d queries differ, first: mode %s doc `%s` patch `%s` impl=`%s` model=`%s`" % (
            len(mism), len(lines), m, cases[ci][0][:200], cases[ci][1][:300], (out_i[i] if i < len(out_i) else None),
            (out_m[i] if i < len(out_m) else None)))
        if os.environ.get("VERIF_DEBUG"):
            for i in mism[:30]:
                ci, m = meta[i]
                print("MISMATCH mode %s doc `%s` patch `%s`\n   impl =`%s`\n   model=`%s`" % (m, cases[ci][0], cases[ci][1], out_i[i][:400], out_m[i][:400]))
    # ---- ORACLE: RFC 6902 on the implementation's answers
    nviol = 0
    for ci, (dt, pt, doc, prog, origin) in enumerate(cases):
        orc = oracle(doc, prog)
        kind, exp = orc[0], orc[1]
        stopped_at = orc[2] if len(orc) > 2 else None
        opnames = "+".join(sorted(set(str(o.get("op", o.get("o", "?"))) if isinstance(o, dict) else "?" for o in prog))) if isinstance(prog, list) else "?"
        run.dist("result:" + kind)
        run.dist("len:%d" % (len(prog) if isinstance(prog, list) else 0))
        for o in (prog if isinstance(prog, list) else []):
            if isinstance(o, dict):
                run.dist("op:" + str(o.get("op", "?")))
        run.case(dt + "|" + pt, nontrivial=True,
                 sample=({"doc": dt, "patch": pt, "oracle": kind, "impl": out_i[4 * ci] if 4 * ci < len(out_i) else None}
                         if ci % max(1, len(cases) // 5) == 0 else None))
        orig = from_py(doc)
        for mi, m in enumerate(MODES):
            i = 4 * ci + mi
            if i >= len(out_i) or out_i[i] == "SKIPPED":
                continue
            o = out_i[i]
            rep = {"kind": "patch", "mode": m, "doc": dt, "patch": pt, "impl": o, "oracle": kind}

            def viol(why):
                nonlocal nviol
                nviol += 1
                if nviol <= 40:
                    run.violation(rep, why)

            if o.startswith("CRASH"):
                viol("the implementation crashed/hung applying the patch (%s): doc %s patch %s" % (o, dt, pt))
                continue
            f = fields(o)
            if "rc" not in f:
                run.broken.append("T2 harness: unexpected answer `%s`" % o[:200])
                continue
            try:
                got = parse_dump(f["doc"]) if "doc" in f else None
            except DumpError:
                got = ("BAD",)
                if kind in ("ok", "err"):
                    viol("the resulting tree is not a well-formed document (cycle/duplicate member): %s" % o[:200])
                    continue
            binary = m[0] == "b"
            if "doc" not in f:      # the harness' own exact decoding of the patch document rejected it; no API call was made
                if kind == "ok":
                    viol("RFC 6902 applies this patch, decoding reports %s: doc %s patch %s" % (f["rc"], dt, pt))
                continue
            if f.get("links") == "bad" and kind in ("ok", "err"):
                viol("sibling links of the tree are inconsistent after the patch: doc %s patch %s" % (dt, pt))
                continue
            # a failed patch leaves the binary document exactly as it was - for every input
            if binary and f["rc"] != "ok":
                if f.get("unchanged") != "1" or not eq_unordered(got, orig, True):
                    viol("failed patch (rc=%s) changed the binary document: doc %s patch %s -> %s" % (f["rc"], dt, pt, o[:200]))
                    continue
            if kind == "ok":
                if f["rc"] != "ok":
                    viol("RFC 6902 applies this patch, the library reports %s: doc %s patch %s" % (f["rc"], dt, pt))
                elif not eq_unordered(got, exp, binary):
                    viol("result differs from RFC 6902 (mode %s): doc %s patch %s -> %s, expected %s" % (m, dt, pt, f["doc"], to_json(exp) if exp != ("NONE",) else "(no document)"))
            elif kind == "err":
                if f["rc"] == "ok":
                    viol("RFC 6902 makes this patch an error (%s), the library reports success: doc %s patch %s -> %s" % (exp, dt, pt, f["doc"]))
                elif not binary and stopped_at is not None and not eq_unordered(got, stopped_at):
                    viol("a `test` operation fails (%s) but the tree is not the document as it was before that operation "
                         "(evaluation went on, or the test changed something): doc %s patch %s -> %s" % (exp, dt, pt, f["doc"]))
    return run.finish(level=LEVEL,
                      rule="(document, patch program) pairs: documents of depth <= 3 over a small key alphabet (escaped '/', '~', "
                           "numeric-looking keys, prefixes of one another), programs of 1-8 operations generated against the "
                           "expected document so that paths exist, 60% of the operations aimed at one array ('-', index = length, "
                           "length+1), from/path nested in either direction, failing test midway, 10% with non-RFC syntax; every pair "
                           "is applied through jbn_patch (struct), jbn_patch_auto, jbl_patch (struct) and jbl_patch_from_json; "
                           "a case is one pair; distinct = distinct (document, patch) text",
                      assumptions=["oracle domain: patches the RFC applies or rejects; inputs the library reads more leniently than the "
                                   "RFC (iwatoi indices, '-' as last element, '/' as root, names by prefix) are only compared with the model "
                                   "and checked for 'failed => binary unchanged' (classes counted under result:lenient/unspecified)",
                                   "JSON texts use only syntax on which text parsing is not in question (no \\r, no control characters, "
                                   "doubles x.5) - text parsing is C13's subject",
                                   "object member names are distinct (qsort order of equal keys in _jbl_compare_objects is unspecified)"])


def replay(run, path):
    r = json.load(open(path))
    if "doc" not in r:
        print(json.dumps(r, indent=1))
        return 1
    variant = r.get("variant", "plain")
    impl = vlib.build_harness("h_jpatch", variant)
    if r.get("kind") == "patch":
        line = "patch %s %s %s" % (r["mode"], hx(r["doc"]), hx(r["patch"]))
    elif r.get("kind") == "mpath":
        line = "mpath %s %s %s %s" % (r["mode"], hx(r["doc"]), hx(r["path"]), hx(r["val"]) if r.get("val") is not None else "-")
    else:
        line = "merge %s %s %s" % (r["mode"], hx(r["doc"]), hx(r["patch"]))
    env = dict(os.environ, ASAN_OPTIONS="detect_leaks=1", LSAN_OPTIONS="exitcode=0")
    out, crashes = run_robust(impl, [line], env=env)
    print("doc   :", r["doc"])
    print("patch :", r.get("patch", r.get("path")))
    print("mode  :", r["mode"], "(see harness/h_jpatch.c)")
    print("impl  :", out[0][:600])
    print("recorded:", r.get("impl", "")[:600])
    print("note  :", r.get("note"))
    return 1 if out[0] == r.get("impl") else 0
