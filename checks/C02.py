import json, os
import vlib, kvcommon

LEVEL = "proof"

def check(run):
    n = 24 if run.tier == "quick" else 400
    ops = 300 if run.tier == "quick" else 2000
    kvcommon.drive(run, "cursor", n, ops, reopen=False, geometry=(25 if run.tier == "quick" else 600),
                   boundary=(40 if run.tier == "quick" else 1500), probe=(12 if run.tier == "quick" else 400), skipfail=(30 if run.tier == "quick" else 1500))
    return run.finish(level=LEVEL, rule=kvcommon.RULE, assumptions=kvcommon.ASSUME)

def replay(run, path):
    return kvcommon.replay(run, path)
