import json, os
import vlib, kvcommon

LEVEL = "proof"

def check(run):
    n = 24 if run.tier == "quick" else 400
    ops = 300 if run.tier == "quick" else 2000
    kvcommon.drive(run, "concurrent-cursors", n, ops, reopen=False, geometry=(60 if run.tier == "quick" else 1500), audit=True, uplink=(40 if run.tier == "quick" else 1500), skipfail=(60 if run.tier == "quick" else 3000))
    return run.finish(level=LEVEL, rule=kvcommon.RULE, assumptions=kvcommon.ASSUME)

def replay(run, path):
    return kvcommon.replay(run, path)
