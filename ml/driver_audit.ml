(* audit <path> : run the extracted Coq auditor on a file image *)
let cs = function
  | CBadMagic w -> "BadMagic:" ^ string_of_z w | CBadDb a -> "BadDb:" ^ string_of_z a
  | CChainLoop (d, l) -> "ChainLoop:" ^ string_of_z d ^ "/" ^ string_of_z l
  | CNodeHeader (b, w) -> "NodeHeader:" ^ string_of_z b ^ "/" ^ string_of_z w
  | CNodeEmpty b -> "NodeEmpty:" ^ string_of_z b
  | CNodeSlots (b, w) -> "NodeSlots:" ^ string_of_z b ^ "/" ^ string_of_z w
  | CNodeOrder b -> "NodeOrder:" ^ string_of_z b | CGlobalOrder b -> "GlobalOrder:" ^ string_of_z b
  | CPrefix b -> "Prefix:" ^ string_of_z b | CBackLink b -> "BackLink:" ^ string_of_z b
  | CLevelChain (d, l) -> "LevelChain:" ^ string_of_z d ^ "/" ^ string_of_z l
  | CLevelCount (d, l) -> "LevelCount:" ^ string_of_z d ^ "/" ^ string_of_z l
  | CKvblk (b, w) -> "Kvblk:" ^ string_of_z b ^ "/" ^ string_of_z w
  | CSlotOverlap b -> "SlotOverlap:" ^ string_of_z b | CBlocksOverlap b -> "BlocksOverlap:" ^ string_of_z b
  | CLeak b -> "Leak:" ^ string_of_z b | CUnallocated b -> "Unallocated:" ^ string_of_z b
  | CBeyondFile b -> "BeyondFile:" ^ string_of_z b
let small = Array.init 256 z_of_int
let handle = function
  | ["audit"; path] ->
    let ic = open_in_bin path in
    let n = in_channel_length ic in
    let b = really_input_string ic n in
    close_in ic;
    let rd z = let i = int_of_z z in if i >= 0 && i < n then small.(Char.code b.[i]) else Z0 in
    let r = audit rd (z_of_int n) in
    (* canonical form of every data-block index: re-encoding what was decoded gives the bytes that are there *)
    let rc = if r = [] then recode_all rd (z_of_int n) else [] in
    if r = [] && rc = [] then "WF"
    else "BAD " ^ String.concat " " (List.map cs r @ List.map (fun b -> "Recode:" ^ string_of_z b) rc)
  | ["struct"; path; dbid] ->
    (* the node fields of one database as the independent reader decodes them, in the format of the harness `struct` line *)
    let ic = open_in_bin path in
    let n = in_channel_length ic in
    let b = really_input_string ic n in
    close_in ic;
    let rd z = let i = int_of_z z in if i >= 0 && i < n then small.(Char.code b.[i]) else Z0 in
    (match struct_db rd (z_of_int n) (z_of_string dbid) with
     | None -> "NODB"
     | Some (top, nodes) ->
       "OK dblvl=" ^ string_of_z top ^
       String.concat "" (List.map (fun ((((((lvl, pnum), full), lkl), szpow), keys), lk) ->
         " |" ^ string_of_z lvl ^ "/" ^ string_of_z pnum ^ "/" ^ string_of_z full ^ "/" ^ string_of_z lkl ^ ":p" ^ string_of_z szpow
         ^ String.concat "" (List.map (fun k -> "," ^ hex_of_bytes k) keys) ^ ";lk=" ^ hex_of_bytes lk) nodes))
  | ["recs"; path; dbid] ->
    (* every record of one database as the model reader (KV/Records.v: chain_recs) decodes it, in the format of the harness `recs` line *)
    let ic = open_in_bin path in
    let n = in_channel_length ic in
    let b = really_input_string ic n in
    close_in ic;
    let rd z = let i = int_of_z z in if i >= 0 && i < n then small.(Char.code b.[i]) else Z0 in
    let fnv v = List.fold_left (fun h x -> ((h lxor (int_of_z x)) * 16777619) land 0xffffffff) 2166136261 v in
    (match db_recs rd (z_of_int n) (z_of_string dbid) with
     | None -> "NONE"
     | Some nodes ->
       (* canon: the image holds the encoding (write_sblk / write_kvblk_head / write_rec) of every decoded node *)
       (if db_canonical rd (z_of_int n) (z_of_string dbid) then "OK" else "NOTCANONICAL") ^ String.concat "" (List.map (fun recs ->
         " |" ^ String.concat "," (List.map (fun (k, v) -> hex_of_bytes k ^ ":" ^ string_of_int (List.length v) ^ ":" ^ string_of_int (fnv v)) recs)) nodes))
  | [] -> ""
  | _ -> "?"
let () = main_loop handle
