(* audit <path> : run the extracted Coq auditor on a file image *)
let cs = function
  | CBadMagic w -> "BadMagic:" ^ string_of_z w | CBadDb a -> "BadDb:" ^ string_of_z a
  | CChainLoop (d, l) -> "ChainLoop:" ^ string_of_z d ^ "/" ^ string_of_z l
  | CNodeHeader (b, w) -> "NodeHeader:" ^ string_of_z b ^ "/" ^ string_of_z w
  | CNodeEmpty b -> "NodeEmpty:" ^ string_of_z b
  | CNodeSlots (b, w) -> "NodeSlots:" ^ string_of_z b ^ "/" ^ string_of_z w
  | CNodeOrder b -> "NodeOrder:" ^ string_of_z b | CGlobalOrder b -> "GlobalOrder:" ^ string_of_z b
  | CPrefix b -> "Prefix:" ^ string_of_z b | CBackLink b -> "BackLink:" ^ string_of_z b
  | CLevelChain (d, l) -> "LevelChain:" ^ string_of_z d ^ "/" ^ string_of_z l
  | CLevelCount (d, l) -> "LevelCount:" ^ string_of_z d ^ "/" ^ string_of_z l
  | CKvblk (b, w) -> "Kvblk:" ^ string_of_z b ^ "/" ^ string_of_z w
  | CSlotOverlap b -> "SlotOverlap:" ^ string_of_z b | CBlocksOverlap b -> "BlocksOverlap:" ^ string_of_z b
  | CLeak b -> "Leak:" ^ string_of_z b | CUnallocated b -> "Unallocated:" ^ string_of_z b
  | CBeyondFile b -> "BeyondFile:" ^ string_of_z b
let small = Array.init 256 z_of_int
let handle = function
  | ["audit"; path] ->
    let ic = open_in_bin path in
    let n = in_channel_length ic in
    let b = really_input_string ic n in
    close_in ic;
    let rd z = let i = int_of_z z in if i >= 0 && i < n then small.(Char.code b.[i]) else Z0 in
    let r = audit rd (z_of_int n) in
    if r = [] then "WF" else "BAD " ^ String.concat " " (List.map cs r)
  | [] -> ""
  | _ -> "?"
let () = main_loop handle
