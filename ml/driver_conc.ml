(* C07 section model driver.  Input line `B <event> ...`: 1 if the call's lock events are balanced, else 0.  Input line:  <wal 0|1> <kmax> <event> ...   events as printed by harness/h_preempt.c
   (a<class><r|w> acquire, r<class> release).  Output: <unguarded log records> <segments> <stale bit for k = 0..kmax> <log records outside the outer locks> *)
let cls_of s = match s with
  | "store" -> CStore | "db" -> CDb | "fsm" -> CFsm | "exf" -> CExf | "wal" -> CWal | "wk" -> CWk | "spin" -> CSpin
  | _ -> COther
let ev_of t =
  let n = String.length t in
  if t.[0] = 'a' then EA (cls_of (String.sub t 1 (n - 2)), (t.[n - 1] = 'w'))
  else ER (cls_of (String.sub t 1 (n - 1)))
let handle toks = match toks with
  | "B" :: evs -> if trace_balanced (List.map ev_of evs) then "1" else "0"   (* lock balance of one call *)
  | w :: kmax :: evs ->
    let tr = List.map ev_of evs in
    let wal = (w = "1") in
    let km = int_of_string kmax in
    let b = Buffer.create 64 in
    for k = 0 to km do
      Buffer.add_char b (if stale_after wal tr (nat_of_int k) then '1' else '0')
    done;
    Printf.sprintf "%d %d %s %d" (int_of_nat (unguarded_logs tr)) (List.length (compile tr)) (Buffer.contents b)
      (int_of_nat (outer_violations tr))
  | _ -> "?"
let () = main_loop handle
