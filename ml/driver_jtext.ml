(* C13 driver: same line protocol as harness/h_jtext.c (see there) *)
let z16 = z_of_int 16
let z_of_hexstr s =
  let acc = ref Z0 in
  String.iter (fun c ->
    let d = if c >= '0' && c <= '9' then Char.code c - 48 else (Char.code c lor 32) - 87 in
    acc := Z.add (Z.mul !acc z16) (z_of_int d)) s;
  !acc
let hexstr_of_z16 z =
  let b = Bytes.make 16 '0' in
  let z = ref z in
  for i = 15 downto 0 do
    let (q, r) = Z.div_eucl !z z16 in
    Bytes.set b i "0123456789abcdef".[int_of_z r]; z := q
  done; Bytes.to_string b
let hexs l = String.concat "" (List.map (fun z -> Printf.sprintf "%02x" ((int_of_z z) land 255)) l)
let unhexs h = List.init (String.length h / 2) (fun i -> z_of_int (int_of_string ("0x" ^ String.sub h (2 * i) 2)))
let err_name = function
  | E_JSON -> "E_JSON" | E_UNQ -> "E_UNQ" | E_CP -> "E_CP" | E_NEST -> "E_NEST" | E_UTF8 -> "E_UTF8"
  | E_OOB -> "E_OOB" | E_FUEL -> "E_FUEL"
let rec trunc0 = function [] -> [] | c :: r -> if c = Z0 then [] else c :: trunc0 r

(* dump of a value as tokens *)
let rec dump b = function
  | JNull -> Buffer.add_string b " n"
  | JBool true -> Buffer.add_string b " t"
  | JBool false -> Buffer.add_string b " f"
  | JI64 n -> Buffer.add_string b (" i" ^ string_of_z n)
  | JF64 x -> Buffer.add_string b (" d" ^ hexstr_of_z16 x)
  | JStr s -> Buffer.add_string b (" s" ^ hexs s)
  | JArr l -> Buffer.add_string b " ["; List.iter (dump b) l; Buffer.add_string b " ]"
  | JObj l -> Buffer.add_string b " {";
    List.iter (fun (k, v) -> Buffer.add_string b (" k" ^ hexs k); dump b v) l; Buffer.add_string b " }"

(* tokens -> value; doubles come as d<bits>:<hex of the text iwjson_ftoa writes> and fill the table *)
let ftab : (z * z list) list ref = ref []
let rec rd_val = function
  | [] -> failwith "eof"
  | t :: r ->
    let body = String.sub t 1 (String.length t - 1) in
    (match t.[0] with
     | 'n' -> (JNull, r) | 't' -> (JBool true, r) | 'f' -> (JBool false, r)
     | 'i' -> (JI64 (z_of_string body), r)
     | 'd' -> (match String.split_on_char ':' body with
         | [bits; txt] -> let z = z_of_hexstr bits in ftab := (z, unhexs txt) :: !ftab; (JF64 z, r)
         | _ -> (JF64 (z_of_hexstr body), r))
     | 's' -> (JStr (unhexs body), r)
     | '[' -> let rec items acc = function
         | "]" :: r -> (JArr (List.rev acc), r)
         | l -> let (v, r) = rd_val l in items (v :: acc) r in items [] r
     | '{' -> let rec mem acc = function
         | "}" :: r -> (JObj (List.rev acc), r)
         | k :: l -> let (v, r) = rd_val l in mem ((unhexs (String.sub k 1 (String.length k - 1)), v) :: acc) r
         | [] -> failwith "eof" in mem [] r
     | _ -> failwith ("token " ^ t))

(* the table is long for long numbers (one entry per possible number start): entries are decoded when they are asked for *)
let ora_of tbl =
  let ents = if tbl = "-" then [] else String.split_on_char ';' tbl in
  fun p ->
    let key = string_of_int (List.length p) ^ ":" in
    let kl = String.length key in
    let e = List.find (fun e -> String.length e > kl && String.sub e 0 kl = key) ents in
    match String.split_on_char ':' e with
    | [_; bits; k; er] -> ((z_of_hexstr bits, nat_of_int (int_of_string k)), er = "1")
    | _ -> failwith "table"

(* print channels: the model's chunks folded into the model of the sink each channel of the harness uses *)
let rec firstn_z n l = if n <= 0 then [] else match l with [] -> [] | x :: r -> x :: firstn_z (n - 1) r
let chunk_desc = function
  | CCh (ch, n) -> if n = z_of_int 1 then " c" ^ string_of_z ch else " c" ^ string_of_z ch ^ "x" ^ string_of_z n
  | CBuf (d, size, count) ->
    let bytes = if sign_of_z size < 0 then cstr0 d else firstn_z (int_of_z size) d in
    " b" ^ hex_of_bytes bytes ^ "/" ^ string_of_z size ^ "/" ^ string_of_z count
let channels prefix r =
  let names = [("xstr", 0); ("fmem", 1); ("file", 1); ("count", 2); ("rec", 3); ("alloc", 4)] in
  let answer kind = match r with
    | Err e -> ((if kind = 2 then "#" else "") ^ "err " ^ err_name e)
    | Ok cs -> (match kind with
        | 0 -> "ok " ^ hex_of_bytes (chan_xstr cs)
        | 1 -> "ok " ^ hex_of_bytes (chan_fstream cs)
        | 2 -> "ok #" ^ string_of_z (chan_count cs)
        | 3 -> "ok " ^ hex_of_bytes (chunks_bytes cs)
        | _ -> "ok " ^ hex_of_bytes (cstr0 (chan_xstr cs))) in
  let memo = Hashtbl.create 8 in
  let answer k = match Hashtbl.find_opt memo k with Some a -> a | None -> let a = answer k in Hashtbl.add memo k a; a in
  let res = List.map (fun (n, k) -> (prefix ^ "." ^ n, answer k)) names in
  let keys = List.fold_left (fun acc (_, a) -> if List.mem a acc then acc else acc @ [a]) [] res in
  String.concat " | " (List.map (fun a ->
    let shown = if String.length a > 0 && a.[0] = '#' then String.sub a 1 (String.length a - 1) else a in
    shown ^ " " ^ String.concat "," (List.map fst (List.filter (fun (_, b) -> b = a) res))) keys)
let with_tree toks f =
  ftab := [];
  let (v, _) = rd_val toks in
  f (fun z -> List.assoc z !ftab) v

let handle = function
  | "chan" :: pf :: toks -> with_tree toks (fun fo v -> channels "n" (as_json_chunks fo (z_of_string pf) v))
  | "tchan" :: pf :: toks -> with_tree toks (fun fo v -> channels "t" (as_json_chunks fo (z_of_string pf) v))
  | "jchan" :: pf :: toks -> with_tree toks (fun fo v -> channels "b" (jbl_as_json_chunks fo (z_of_string pf) v))
  | "chunks" :: pf :: toks -> with_tree toks (fun fo v ->
      match as_json_chunks fo (z_of_string pf) v with
      | Err e -> "err " ^ err_name e | Ok cs -> "ok" ^ String.concat "" (List.map chunk_desc cs))
  | "jchunks" :: pf :: toks -> with_tree toks (fun fo v ->
      match jbl_as_json_chunks fo (z_of_string pf) v with
      | Err e -> "err " ^ err_name e | Ok cs -> "ok" ^ String.concat "" (List.map chunk_desc cs))
  | ["parse"; h; tbl] ->
    (match from_json (ora_of tbl) (trunc0 (bytes_of_hex h)) with
     | Err e -> "err " ^ err_name e
     | Ok None -> "ok none"
     | Ok (Some v) -> let b = Buffer.create 256 in dump b v; "ok" ^ Buffer.contents b)
  | "print" :: pf :: toks ->
    ftab := [];
    let (v, _) = rd_val toks in
    let fo z = List.assoc z !ftab in
    (match as_json fo (z_of_string pf) v with
     | Err e -> "err " ^ err_name e
     | Ok t -> "ok " ^ hex_of_bytes t)
  | "jprint" :: pf :: toks ->
    ftab := [];
    let (v, _) = rd_val toks in
    let fo z = List.assoc z !ftab in
    (match jbl_as_json fo (z_of_string pf) v with
     | Err e -> "err " ^ err_name e
     | Ok t -> "ok " ^ hex_of_bytes t)
  | ["unesc"; h; dlen] ->
    (match unescape (z_of_int 34) (trunc0 (bytes_of_hex h)) (z_of_string dlen) with
     | Err e -> "err " ^ err_name e
     | Ok ((n, out), e) ->
       Printf.sprintf "ok %s %s %d" (string_of_z n) (hex_of_bytes out) (List.length (trunc0 (bytes_of_hex h)) - List.length e))
  | ["enc"; cp] ->
    let c = z_of_string cp in
    Printf.sprintf "%d %s" (if codepoint_valid c then 1 else 0) (hex_of_bytes (encode_char c))
  | ["iter"; h] ->
    (match iterate (bytes_of_hex h) with
     | None -> "err"
     | Some (cp, sz) -> Printf.sprintf "%s %s" (string_of_z cp) (string_of_z sz))
  | ["strtoll"; h] ->
    let ((v, k), er) = strtoll0 (trunc0 (bytes_of_hex h)) in
    Printf.sprintf "%s %d %d" (string_of_z v) (int_of_nat k) (if er then 1 else 0)
  | ["strtod"; h] -> string_of_int (int_of_nat (strtod_end (trunc0 (bytes_of_hex h))))
  | [] -> ""
  | l -> "?" ^ String.concat " " l
let () = main_loop handle
