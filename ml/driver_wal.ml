(* driver around the extracted WAL model; commands mirror harness/h_wal.c where both sides answer:
     wal <dir> <crc>      recovery step alone on <dir>/db + <dir>/db-wal (model: Proto.recover_open = Replay.recover mode 1
                          under the options <crc> of the recovering process)
     chk <dir> <crc>      model only: parse the intact log, encode back, wf_log, crc_ok, savepoint offsets
     scan <dir>           model only: fpos rpos
     crash <dir> <crc> <bufsz> <i>   C04_recover_is_prefix on a real trace: history with operation brackets (dir/eventsb),
                          Proto.after_effects after the first i effects of Proto.run from the files found after open
                          (the kernel's view after a kill there), recovery of those, the theorem's hypotheses and its
                          conclusion evaluated (done_items, sync_floor, state_after) *)
let zb = Array.init 256 z_of_int
let read_file p =
  try
    let ic = open_in_bin p in
    let n = in_channel_length ic in
    let s = really_input_string ic n in
    close_in ic; s
  with Sys_error _ -> ""
let zlist_of_string s =
  let r = ref [] in
  for i = String.length s - 1 downto 0 do r := zb.(Char.code s.[i]) :: !r done; !r
let crc_tab = Array.init 256 (fun n ->
  let c = ref n in
  for _ = 0 to 7 do c := if !c land 1 = 1 then 0xedb88320 lxor (!c lsr 1) else !c lsr 1 done; !c)
let zcrc_of_zlist l =
  let c = ref 0xffffffff in
  List.iter (fun z -> let b = (int_of_z z) land 255 in c := crc_tab.((!c lxor b) land 255) lxor (!c lsr 8)) l;
  (!c lxor 0xffffffff) land 0xffffffff
let fnv ops =
  let h = ref 0xcbf29ce484222325L in
  List.iter (fun op ->
    let ((a, b), c) = aop_sig op in
    List.iter (fun z ->
      let v = Int64.of_string (string_of_z z) in
      for k = 0 to 7 do
        h := Int64.logxor !h (Int64.logand (Int64.shift_right v (8 * k)) 0xffL);
        h := Int64.mul !h 1099511628211L
      done) [a; b; c]) ops;
  Printf.sprintf "%016Lx" !h
let vs = function VOk -> "0" | VCorrupt -> "CORRUPTED_WAL" | VFault -> "FAULT"
let cfg_of crc = { c_bufsz = z_of_int ((if crc land 2 <> 0 then 4096 else 8 * 1024 * 1024) - 12); c_ccrc = crc land 1 = 1 }
let parse_ev l = match split_ws l with
  | ["W"; off; h] -> Some (VWrite (z_of_string off, bytes_of_hex h))
  | ["S"; off; v; len] -> Some (VSet (z_of_string off, z_of_string v, z_of_string len))
  | ["C"; off; len; noff] -> Some (VCopy (z_of_string off, z_of_string len, z_of_string noff))
  | ["R"; o; n] -> Some (VResize (z_of_string o, z_of_string n))
  | ["Y"] -> Some VSynced
  | ["P"; sync] -> Some (VSavepoint (Z0, sync = "1"))
  | ["K"] -> Some (VCheckpoint Z0)
  | _ -> None
(* history with operation brackets: "(" listener calls ")" per operation, P / K lines between operations *)
let read_items path : hitem list =
  let items = ref [] and cur = ref None in
  List.iter (fun l -> match split_ws l with
    | ["("] -> cur := Some []
    | [")"] -> (match !cur with Some evs -> items := HOp (List.rev evs) :: !items; cur := None | None -> ())
    | _ -> (match parse_ev l with
        | None -> ()
        | Some e -> (match !cur with
            | Some evs -> cur := Some (e :: evs)
            | None -> (match e with
                | VSavepoint (ts, sy) -> items := HSync (ts, sy) :: !items
                | VCheckpoint ts -> items := HCkpt ts :: !items
                | e -> items := HOp [e] :: !items)))) (String.split_on_char '\n' (read_file path));
  List.rev !items
let rec take n l = if n <= 0 then [] else match l with [] -> [] | x :: t -> x :: take (n - 1) t
(* timestamps and segment checksums masked, as in `proto` *)
let masked_crc (bytes : z list) =
  let log = Array.of_list (List.map int_of_z bytes) in
  let n = Array.length log in
  let pos = ref 0 in
  (try while !pos < n do
    let op = log.(!pos) in
    let rd32 o = log.(o) lor (log.(o+1) lsl 8) lor (log.(o+2) lsl 16) lor (log.(o+3) lsl 24) in
    if op = 127 then (for k = 4 to 7 do log.(!pos + k) <- 0 done; pos := !pos + 12)
    else if op = 5 then (for k = 4 to 11 do if !pos + k < n then log.(!pos + k) <- 0 done; pos := !pos + 12)
    else if op = 1 then pos := !pos + 24 else if op = 2 then pos := !pos + 28
    else if op = 3 then pos := !pos + 20 + rd32 (!pos + 8)
    else if op = 4 then pos := !pos + 20 else if op = 6 then pos := !pos + 4 else raise Exit
  done with _ -> ());
  zcrc_of_zlist (List.map (fun b -> zb.(b land 255)) (Array.to_list log))
let handle = function
  | ["crash"; dir; crc; bufsz; i] ->
    let ccrc = (int_of_string crc) land 1 = 1 in
    let c = { c_bufsz = z_of_string bufsz; c_ccrc = ccrc } in
    let s0 = { p_buf = []; p_log = zlist_of_string (read_file (dir ^ "/wal0")); p_disk = zlist_of_string (read_file (dir ^ "/db0"));
               p_rfoff = Z0; p_stage = Z0; p_fatal = false } in
    let h = read_items (dir ^ "/eventsb") in
    let (_, fx) = run c s0 (flat h) in
    let n = int_of_string i in
    let (log, disk) = after_effects s0.p_log s0.p_disk (take n fx) in
    let ((v, m), _) = recover ccrc (z_of_int 1) Z0 log disk in
    (* the theorem is about runs from a freshly opened store (empty log, empty buffer).  On a real trace it is evaluated
       on the part of the history that follows the last checkpoint item after the last operation with an _onresize
       call (after a checkpoint the model's state is again fresh: log and buffer empty), from the main file of that moment *)
    let has_growth it = (match it with HOp evs -> List.exists (fun e -> match e with VResize _ -> true | _ -> false) evs | _ -> false) in
    let idx = List.mapi (fun i it -> (i, it)) h in
    let lastg = List.fold_left (fun a (i, it) -> if has_growth it then i else a) (-1) idx in
    let cut = List.fold_left (fun a (i, it) -> match it with HCkpt _ when i > lastg && a < 0 -> i + 1 | _ -> a) (-1) idx in
    let cut = if lastg < 0 && s0.p_log = [] then 0 else cut in
    let rec drop n l = if n <= 0 then l else match l with [] -> [] | _ :: t -> drop (n - 1) t in
    let (hyps, items, dn, fl, thm) =
      if cut < 0 then ("-----", List.length h, 0, 0, "n/a-growth")
      else begin
        let (sc, fxc) = run c s0 (flat (take cut h)) in
        let h' = drop cut h in
        let n' = n - List.length fxc in
        let hyp = [hist_shape h'; no_growth_in_ops h'; no_copy_in_ops h'; hist_range h'; cfg_ok c] in
        let hs = String.concat "" (List.map (fun b -> if b then "1" else "0") hyp) in
        if not (sc.p_log = [] && sc.p_buf = []) then (hs, List.length h', 0, 0, "n/a-not-fresh")
        else if n' < 0 then (hs, List.length h', 0, 0, "n/a-before")
        else if not (List.for_all (fun b -> b) hyp) then (hs, List.length h', 0, 0, "n/a-hyp")
        else begin
          let dn = int_of_nat (done_items c sc h' (nat_of_int n')) in
          let fl = int_of_nat (sync_floor (take dn h')) in
          let hi = min (dn + 1) (List.length h') in
          let ok = ref false in
          if v = VOk then
            for k = fl to hi do
              if not !ok then (match state_after sc.p_disk h' (nat_of_int k) with Some mk when mk = m -> ok := true | _ -> ())
            done;
          (hs, List.length h', dn, fl, if !ok then "ok" else "fail")
        end
      end in
    Printf.sprintf "crash n=%d of=%d log=%d:%08x disk=%d:%08x rc=%s main=%d:%08x hyp=%s items=%d done=%d floor=%d thm=%s"
      n (List.length fx) (List.length log) (masked_crc log) (List.length disk) (zcrc_of_zlist disk) (vs v)
      (List.length m) (zcrc_of_zlist m) hyps items dn fl thm
  | ["wal"; dir; crc; "ops"] ->
    (* decoding half only (Replay.replay_ops): verdict and applied-record trace *)
    let wal = read_file (dir ^ "/db-wal") in
    let ccrc = (int_of_string crc) land 1 = 1 in
    let (v, ops) = replay_ops ccrc (z_of_int 1) Z0 (zlist_of_string wal) in
    Printf.sprintf "wal exit=0 rc=%s applied=%d:%s main=- walsz=%d" (vs v) (List.length ops) (fnv ops)
      (if v = VOk then 0 else String.length wal)
  | ["wal"; dir; crc] ->
    let wal = read_file (dir ^ "/db-wal") and main = read_file (dir ^ "/db") in
    (* <crc> = option flags of the RECOVERING process (harness/h_wal.c mkopts: 1 checksums, 2 small log buffer);
       Proto.recover_open takes the whole configuration and does not read the buffer size *)
    let ((v, m), ops) = recover_open (cfg_of (int_of_string crc)) (zlist_of_string wal) (zlist_of_string main) in
    Printf.sprintf "wal exit=0 rc=%s applied=%d:%s main=%d:%08x walsz=%d" (vs v) (List.length ops) (fnv ops)
      (List.length m) (zcrc_of_zlist m) (if v = VOk then 0 else String.length wal)
  | ["chk"; dir; crc] ->
    let wal = zlist_of_string (read_file (dir ^ "/db-wal")) in
    (match parse wal with
     | None -> "chk parse=fail"
     | Some rs ->
       Printf.sprintf "chk parse=ok nrec=%d roundtrip=%b wf=%b crc=%b crcfull=%b fit=%b layout=%b sp=%s" (List.length rs)
         (encode rs = wal) (wf_log rs) (crc_ok rs) (crc_full rs) (sep_fit rs Z0 (size rs)) layout_ok
         (String.concat "," (List.map string_of_z (sp_offsets rs Z0))))
  | ["scan"; dir] ->
    let (f, r) = scan (zlist_of_string (read_file (dir ^ "/db-wal"))) in
    Printf.sprintf "scan %s %s" (string_of_z f) (string_of_z r)
  | ["proto"; dir; crc; bufsz] ->
    (* Proto.run on the listener/API events of a real run (dir/events), from the files found after open *)
    let ccrc = (int_of_string crc) land 1 = 1 in
    let c = { c_bufsz = z_of_string bufsz; c_ccrc = ccrc } in
    let s0 = { p_buf = []; p_log = zlist_of_string (read_file (dir ^ "/wal0")); p_disk = zlist_of_string (read_file (dir ^ "/db0"));
               p_rfoff = Z0; p_stage = Z0; p_fatal = false } in
    let evs = List.filter_map (fun l -> match split_ws l with
      | ["W"; off; h] -> Some (VWrite (z_of_string off, bytes_of_hex h))
      | ["S"; off; v; len] -> Some (VSet (z_of_string off, z_of_string v, z_of_string len))
      | ["C"; off; len; noff] -> Some (VCopy (z_of_string off, z_of_string len, z_of_string noff))
      | ["R"; o; n] -> Some (VResize (z_of_string o, z_of_string n))
      | ["Y"] -> Some VSynced
      | ["P"; sync] -> Some (VSavepoint (Z0, sync = "1"))
      | ["K"] -> Some (VCheckpoint Z0)
      | _ -> None) (String.split_on_char '\n' (read_file (dir ^ "/events"))) in
    let (s1, fx) = run c s0 evs in
    let oc = open_out (dir ^ "/pfx") in
    List.iter (fun e -> let (((k, f), o), l) = effect_sig e in
      Printf.fprintf oc "%s %s %s %s\n" (string_of_z k) (string_of_z f) (string_of_z o) (string_of_z l)) fx;
    close_out oc;
    (* mask what the model cannot know: savepoint timestamps (and segment checksums, which cover them) *)
    let log = Array.of_list (List.map int_of_z s1.p_log) in
    let n = Array.length log in
    let pos = ref 0 in
    (try while !pos < n do
      let op = log.(!pos) in
      let rd32 o = log.(o) lor (log.(o+1) lsl 8) lor (log.(o+2) lsl 16) lor (log.(o+3) lsl 24) in
      if op = 127 then (for k = 4 to 7 do log.(!pos + k) <- 0 done; pos := !pos + 12)
      else if op = 5 then (for k = 4 to 11 do if !pos + k < n then log.(!pos + k) <- 0 done; pos := !pos + 12)
      else if op = 1 then pos := !pos + 24 else if op = 2 then pos := !pos + 28
      else if op = 3 then pos := !pos + 20 + rd32 (!pos + 8)
      else if op = 4 then pos := !pos + 20 else if op = 6 then pos := !pos + 4 else raise Exit
    done with _ -> ());
    let mcrc = zcrc_of_zlist (List.map (fun b -> zb.(b land 255)) (Array.to_list log)) in
    Printf.sprintf "proto n=%d log=%d:%08x disk=%d:%08x buf=%d fatal=%b" (List.length fx) n mcrc
      (List.length s1.p_disk) (zcrc_of_zlist s1.p_disk) (List.length s1.p_buf) s1.p_fatal
  | "bkp" :: dir :: crc :: bufsz :: rest ->
    let want_snap = (rest = ["snap"]) in
    (* Backup.backup_run: events before the call (dir/events), while the main file is copied (dir/eventsM),
       at the end of WAL_COPY1 (dir/eventsA); prints the predicted image with timestamps/segment checksums masked *)
    let ccrc = (int_of_string crc) land 1 = 1 in
    let c = { c_bufsz = z_of_string bufsz; c_ccrc = ccrc } in
    let s0 = { p_buf = []; p_log = zlist_of_string (read_file (dir ^ "/wal0")); p_disk = zlist_of_string (read_file (dir ^ "/db0"));
               p_rfoff = Z0; p_stage = Z0; p_fatal = false } in
    let evs f = List.filter_map (fun l -> match split_ws l with
      | ["W"; off; h] -> Some (VWrite (z_of_string off, bytes_of_hex h))
      | ["S"; off; v; len] -> Some (VSet (z_of_string off, z_of_string v, z_of_string len))
      | ["C"; off; len; noff] -> Some (VCopy (z_of_string off, z_of_string len, z_of_string noff))
      | ["R"; o; n] -> Some (VResize (z_of_string o, z_of_string n))
      | ["Y"] -> Some VSynced
      | ["P"; sync] -> Some (VSavepoint (Z0, sync = "1"))
      | ["K"] -> Some (VCheckpoint Z0)
      | _ -> None) (String.split_on_char '\n' (read_file (dir ^ "/" ^ f))) in
    let (s1, _) = run c s0 (evs "events") in
    let (img, s2) = backup_run c s1 Z0 Z0 (evs "eventsM") (evs "eventsA") in
    (* C08_backup_image_is_snapshot evaluated on this run: when the writers' events satisfy its hypotheses (no growth,
       no COPY), the image must open to the state at the call + every store of eventsM and eventsA *)
    let evw = evs "eventsM" @ evs "eventsA" in
    let snap =
      if not want_snap then "-" else
      if not (List.for_all ev_okb evw && cfg_ok c) then "n/a" else begin
        let (s1c, _) = checkpoint c (set_stage s1 (z_of_int 2)) false Z0 in
        let ((v, m), _) = open_image ccrc img in
        match apply_ops s1c.p_disk (evs_ops evw) with
        | Some want when v = VOk && want = m -> "ok"
        | _ -> "fail"
      end in
    let a = Array.of_list (List.map int_of_z img) in
    let n = Array.length a in
    let rd k o = let r = ref 0 in for i = k - 1 downto 0 do r := (!r lsl 8) lor a.(o + i) done; !r in
    let mlen = if n >= 12 then rd 8 (n - 12) else 0 in
    let pos = ref mlen in
    (try while !pos < n - 12 do
      let op = a.(!pos) in
      if op = 127 then (for k = 4 to 7 do a.(!pos + k) <- 0 done; pos := !pos + 12)
      else if op = 5 then (for k = 4 to 11 do a.(!pos + k) <- 0 done; pos := !pos + 12)
      else if op = 1 then pos := !pos + 24 else if op = 2 then pos := !pos + 28
      else if op = 3 then pos := !pos + 20 + rd 4 (!pos + 8)
      else if op = 4 then pos := !pos + 20 else if op = 6 then pos := !pos + 4 else raise Exit
    done with _ -> ());
    let mcrc = zcrc_of_zlist (List.map (fun b -> zb.(b land 255)) (Array.to_list a)) in
    Printf.sprintf "bkp image=%d:%08x main=%d livelog=%d rfoff=%s snap=%s" n mcrc mlen (List.length s2.p_log) (string_of_z s2.p_rfoff) snap
  | ["img"; dir; crc] ->
    (* Backup.open_image on <dir>/bkp *)
    let img = zlist_of_string (read_file (dir ^ "/bkp")) in
    let ccrc = (int_of_string crc) land 1 = 1 in
    let sp = (match split_image img with Some (m, w) -> Printf.sprintf "%d+%d" (List.length m) (List.length w) | None -> "no") in
    let ((v, m), ops) = open_image ccrc img in
    Printf.sprintf "img split=%s rc=%s applied=%d:%s main=%d:%08x" sp (vs v) (List.length ops) (fnv ops) (List.length m) (zcrc_of_zlist m)
  | ["crc"; h] -> string_of_z (crc32 (bytes_of_hex h) Z0)
  | [] -> ""
  | l -> "?" ^ String.concat " " l
let () = main_loop handle
