(* driver of the extracted JSON Patch / Merge Patch models; same line protocol as harness/h_jpatch.c *)
exception Parse_error

let str_of_hex h = if h = "-" then "" else
  String.init (String.length h / 2) (fun i -> Char.chr (int_of_string ("0x" ^ String.sub h (2 * i) 2)))
let zl_of_string s = List.init (String.length s) (fun i -> z_of_int (Char.code s.[i]))
let string_of_zl l = String.concat "" (List.map (fun z -> String.make 1 (Char.chr ((int_of_z z) land 255))) l)
let hexs s = if s = "" then "-" else String.concat "" (List.init (String.length s) (fun i -> Printf.sprintf "%02x" (Char.code s.[i])))

(* ---- a small JSON reader producing nodes the way jbn_from_json does (items numbered, members with klidx = key length) *)
let parse_json (s : string) : node =
  let n = String.length s in
  let pos = ref 0 in
  let peek () = if !pos < n then s.[!pos] else '\000' in
  let adv () = incr pos in
  let rec ws () = if !pos < n && (s.[!pos] = ' ' || s.[!pos] = '\n' || s.[!pos] = '\t' || s.[!pos] = '\r') then (adv (); ws ()) in
  let utf8 b cp =
    if cp < 0x80 then Buffer.add_char b (Char.chr cp)
    else if cp < 0x800 then (Buffer.add_char b (Char.chr (0xc0 lor (cp lsr 6))); Buffer.add_char b (Char.chr (0x80 lor (cp land 0x3f))))
    else (Buffer.add_char b (Char.chr (0xe0 lor (cp lsr 12))); Buffer.add_char b (Char.chr (0x80 lor ((cp lsr 6) land 0x3f)));
          Buffer.add_char b (Char.chr (0x80 lor (cp land 0x3f)))) in
  let pstring () =
    if peek () <> '"' then raise Parse_error; adv ();
    let b = Buffer.create 16 in
    let rec go () =
      if !pos >= n then raise Parse_error;
      let c = s.[!pos] in adv ();
      if c = '"' then ()
      else if c = '\\' then begin
        if !pos >= n then raise Parse_error;
        let e = s.[!pos] in adv ();
        (match e with
         | '"' -> Buffer.add_char b '"' | '\\' -> Buffer.add_char b '\\' | '/' -> Buffer.add_char b '/'
         | 'b' -> Buffer.add_char b '\b' | 'f' -> Buffer.add_char b '\012' | 'n' -> Buffer.add_char b '\n'
         | 'r' -> Buffer.add_char b '\r' | 't' -> Buffer.add_char b '\t'
         | 'u' -> if !pos + 4 > n then raise Parse_error;
                  let cp = (try int_of_string ("0x" ^ String.sub s !pos 4) with _ -> raise Parse_error) in pos := !pos + 4; utf8 b cp
         | _ -> raise Parse_error); go () end
      else (Buffer.add_char b c; go ()) in
    go (); Buffer.contents b in
  let rec pvalue (kl : z) (key : z list) : node =
    ws ();
    match peek () with
    | '{' -> adv (); ws ();
      let ms = ref [] in
      if peek () = '}' then adv () else begin
        let rec go () =
          ws (); let k = pstring () in ws ();
          if peek () <> ':' then raise Parse_error; adv ();
          let v = pvalue (z_of_int (String.length k)) (zl_of_string k) in
          ms := v :: !ms; ws ();
          if peek () = ',' then (adv (); go ()) else if peek () = '}' then adv () else raise Parse_error in
        go () end;
      Node (kl, key, TObj, Z0, [], List.rev !ms)
    | '[' -> adv (); ws ();
      let items = ref [] in let i = ref 0 in
      if peek () = ']' then adv () else begin
        let rec go () =
          let v = pvalue (z_of_int !i) [] in
          items := v :: !items; incr i; ws ();
          if peek () = ',' then (adv (); go ()) else if peek () = ']' then adv () else raise Parse_error in
        go () end;
      Node (kl, key, TArr, Z0, [], List.rev !items)
    | '"' -> let v = pstring () in Node (kl, key, TStr, Z0, zl_of_string v, [])
    | 't' -> if !pos + 4 <= n && String.sub s !pos 4 = "true" then (pos := !pos + 4; Node (kl, key, TBool, z_of_int 1, [], [])) else raise Parse_error
    | 'f' -> if !pos + 5 <= n && String.sub s !pos 5 = "false" then (pos := !pos + 5; Node (kl, key, TBool, Z0, [], [])) else raise Parse_error
    | 'n' -> if !pos + 4 <= n && String.sub s !pos 4 = "null" then (pos := !pos + 4; Node (kl, key, TNull, Z0, [], [])) else raise Parse_error
    | c when c = '-' || (c >= '0' && c <= '9') ->
      let st = !pos in
      let isf = ref false in
      while !pos < n && (let c = s.[!pos] in (c >= '0' && c <= '9') || c = '-' || c = '+' || c = '.' || c = 'e' || c = 'E') do
        (if s.[!pos] = '.' || s.[!pos] = 'e' || s.[!pos] = 'E' then isf := true); adv () done;
      let t = String.sub s st (!pos - st) in
      if !isf then
        let bits = Int64.bits_of_float (try float_of_string t with _ -> raise Parse_error) in
        Node (kl, key, TF64, z_of_string (Printf.sprintf "%Lu" bits), [], [])
      else begin
        (* an integer token is -?[0-9]+ : a lone `-`, `1-2`, `+1` are no numbers *)
        let body = if String.length t > 0 && t.[0] = '-' then String.sub t 1 (String.length t - 1) else t in
        if body = "" || (let bad = ref false in String.iter (fun c -> if c < '0' || c > '9' then bad := true) body; !bad) then raise Parse_error;
        Node (kl, key, TI64, z_of_string t, [], [])
      end
    | _ -> raise Parse_error in
  let v = pvalue Z0 [] in
  ws (); if !pos <> n then raise Parse_error; v

(* ---- doubles as bit patterns *)
let z_of_i64u (b : int64) = z_of_string (Printf.sprintf "%Lu" b)
let i64_of_z (z : z) : int64 = Int64.of_string ("0u" ^ string_of_z z)
let fl z = Int64.float_of_bits (i64_of_z z)
let zf f = z_of_i64u (Int64.bits_of_float f)
let fo = { f_add = (fun a b -> zf (fl a +. fl b)); f_of_i = (fun i -> zf (float_of_string (string_of_z i)));
           f_to_i = (fun a -> z_of_string (Printf.sprintf "%Ld" (Int64.of_float (fl a)))); f_eq = (fun a b -> fl a = fl b);
           f_fits = (fun a -> let d = fl a in d >= -9223372036854775808.0 && d < 9223372036854775808.0) }

(* ---- canonical dump, as in the harness *)
let firstn_key (Node (kl, key, _, _, _, _)) =
  let k = int_of_z kl in
  let rec take i l = if i <= 0 then [] else match l with [] -> [] | x :: r -> x :: take (i - 1) r in
  string_of_zl (take k key)
let rec dump b (Node (kl, key, ty, vi, vs, ch)) =
  match ty with
  | TNone -> Buffer.add_string b "_"
  | TNull -> Buffer.add_string b "N"
  | TBool -> Buffer.add_string b (if vi = Z0 then "F" else "T")
  | TI64 -> Buffer.add_string b ("I" ^ string_of_z vi)
  | TF64 -> Buffer.add_string b (Printf.sprintf "D%016Lx" (i64_of_z vi))
  | TStr -> Buffer.add_string b ("S" ^ hexs (string_of_zl vs))
  | TArr -> Buffer.add_string b "["; List.iteri (fun i c -> if i > 0 then Buffer.add_string b ","; dump b c) ch; Buffer.add_string b "]"
  | TObj -> Buffer.add_string b "{";
    List.iteri (fun i c -> if i > 0 then Buffer.add_string b ","; Buffer.add_string b (hexs (firstn_key c)); Buffer.add_string b ":"; dump b c) ch;
    Buffer.add_string b "}"
let dumps n = let b = Buffer.create 64 in dump b n; Buffer.contents b
let dump_kl n =
  let b = Buffer.create 32 in
  let first = ref true in
  let rec go (Node (_, _, ty, _, _, ch)) =
    match ty with
    | TArr | TObj ->
      List.iter (fun c -> (if ty = TArr then begin
                              Buffer.add_string b ((if !first then "" else ",") ^ string_of_z (n_kl c)); first := false end);
                          go c) ch;
      if ty = TArr then (Buffer.add_string b ";"; first := true)
    | _ -> () in
  go n; Buffer.contents b

let rcname = function
  | RcOk -> "ok" | RcNotFound -> "notfound" | RcNoValue -> "novalue" | RcTargetInvalid -> "tinvalid" | RcBadIdx -> "badidx"
  | RcTestFailed -> "testfail" | RcInvalidValue -> "ivalue" | RcPtr -> "badptr" | RcPatchInvalid -> "pinvalid"
  | RcBadOp -> "badop" | RcInvArgs -> "invargs" | RcNotImpl -> "notimpl" | RcCreation -> "creation" | RcUnmodelled -> "UNMODELLED"

(* the write-back step of the binary-form modes is the extracted writer (WriteBack.v: wb_store = _jbl_from_node_impl with the
   member rule of the binn object); a document the binary form cannot hold is refused by jbl_from_json before any patch *)
let storable n = (match wb_store n with Some _ -> true | None -> false)
let dumpb n = match n_ty n with TNull -> "_" | _ -> dumps n      (* an emptied jbl and a jbl holding null are the same bytes *)
let out_tree r t kl = Printf.sprintf "rc=%s doc=%s%s links=ok" (rcname r) (dumps t) (if kl then " kl=" ^ dump_kl t else "")

let handle = function
  | ["patch"; mode; dh; ph] ->
    let doc = (try parse_json (str_of_hex dh) with Parse_error -> raise Exit) in
    let ops_of_patch exact pn =
      if exact then (match n_ty pn with TArr -> decode_ops_exact (n_ch pn) | _ -> Inl RcPatchInvalid)
      else create_patch pn in
    (match mode with
     | ("bs" | "bj") when not (storable doc) -> "docparse=creation"
     | "tn" | "bs" ->
       let pn = parse_json (str_of_hex ph) in
       (match ops_of_patch true pn with
        | Inl e -> "rc=" ^ rcname e
        | Inr ops ->
          if mode = "tn" then let (r, t) = patch_node fo doc ops in out_tree r t true
          else let (r, b) = jbl_patch_model fo doc ops in
            Printf.sprintf "rc=%s doc=%s%s" (rcname r) (dumpb b) (if r <> RcOk then Printf.sprintf " unchanged=%d" (if dumps b = dumps doc then 1 else 0) else ""))
     | "ta" ->
       let pn = parse_json (str_of_hex ph) in
       let (r, t) = jbn_patch_auto fo doc pn in out_tree r t true
     | "bj" ->
       let pn = parse_json (str_of_hex ph) in
       let (r, b) = (match n_ty pn with
           | TArr -> (match create_patch pn with Inl e -> (e, doc) | Inr ops -> jbl_patch_model fo doc ops)
           | TObj -> (RcNotImpl, doc)
           | _ -> (RcPatchInvalid, doc)) in
       Printf.sprintf "rc=%s doc=%s%s" (rcname r) (dumpb b) (if r <> RcOk then Printf.sprintf " unchanged=%d" (if dumps b = dumps doc then 1 else 0) else "")
     | _ -> "?")
  | ["merge"; mode; dh; ph] ->
    let doc = parse_json (str_of_hex dh) in
    let patch = (try Some (parse_json (str_of_hex ph)) with Parse_error -> None) in
    (match mode, patch with
     | ("bj" | "bb"), _ when not (storable doc) -> "docparse=creation"
     | "bb", Some p when not (storable p) -> "patchparse=creation"
     | "tj", None -> Printf.sprintf "rc=parse doc=%s links=ok" (dumps doc)
     | "bj", None -> Printf.sprintf "rc=parse doc=%s unchanged=1" (dumps doc)
     | _, None -> "patchparse=parse"
     | "tp", Some p -> let (r, t) = jbn_merge_patch_pool doc p in out_tree r t false
     | "tj", Some p -> out_tree RcOk (jbn_merge_patch_node doc p) false
     | "ta", Some p -> let (r, t) = jbn_patch_auto fo doc p in out_tree r t false
     | "th", Some p ->
       let (h0, root) = heap_of doc in
       (match jbn_merge_patch_heap h0 root p with
        | Inl DoubleFree -> "CRASH double-free"
        | Inl UseAfterFree -> "CRASH use-after-free"
        | Inr ((r, h1), t) ->
          (match destroy h1 t with
           | Inl _ -> out_tree r (forget t) false ^ " CRASH free of the result"
           | Inr h2 -> out_tree r (forget t) false ^ Printf.sprintf " leak=%d" (if h_live h2 = [] then 0 else 1)))
     | ("bj" | "bb"), Some p ->
       let (r, b) = jbl_merge_model doc p in
       Printf.sprintf "rc=%s doc=%s unchanged=%d" (rcname r) (dumpb b) (if dumps b = dumps doc then 1 else 0)
     | _ -> "?")
  | ["mpath"; mode; dh; pathh; vh] ->
    let doc = parse_json (str_of_hex dh) in
    let path = zl_of_string (str_of_hex pathh) in
    let v = if vh = "-" then None else Some (parse_json (str_of_hex vh)) in
    (match mode with
     | "tp" -> let (r, t) = jbn_merge_patch_path_pool doc path v in out_tree r t false
     | "th" ->
       let (h0, root) = heap_of doc in
       (match jbn_merge_patch_path_heap h0 root path v with
        | Inl DoubleFree -> "CRASH double-free"
        | Inl UseAfterFree -> "CRASH use-after-free"
        | Inr ((r, h1), t) ->
          (match destroy h1 t with
           | Inl _ -> out_tree r (forget t) false ^ " CRASH free of the result"
           | Inr h2 -> out_tree r (forget t) false ^ Printf.sprintf " leak=%d" (if h_live h2 = [] then 0 else 1)))
     | _ -> "?")
  | ["msub"; _; _; _] -> "UNMODELLED (merge into a member of a larger tree: implementation and oracle only)"
  | ["mdeep"; _] -> "UNMODELLED (value built node by node beyond the nesting limit: implementation and oracle only)"
  | ["idpatch"; mode; dh; ph] ->
    (* node identities: document nodes 0.., patch document nodes 1000000.., nodes allocated by the call 2000000.. *)
    let doc = (try parse_json (str_of_hex dh) with Parse_error -> raise Exit) in
    let pn = parse_json (str_of_hex ph) in
    let (_, idoc) = i_of_node Z0 Z0 doc in
    let pbase = z_of_int 1000000 in
    let (_, ipn) = i_of_node pbase Z0 pn in
    (* the operand of an operation is a node OF the patch document: found again by physical identity *)
    let tab = ref [] in
    let rec zip (n : node) (i : inode) = tab := (n, i) :: !tab; List.iter2 zip (n_ch n) (i_ch i) in
    zip pn ipn;
    let inode_of (n : node) = snd (List.find (fun (m, _) -> m == n) !tab) in
    let ops = (match mode with
        | "tn" -> (match n_ty pn with TArr -> decode_ops_exact (n_ch pn) | _ -> Inl RcPatchInvalid)
        | _ -> (match n_ty pn with TArr -> create_patch pn | _ -> Inl RcInvArgs)) in
    (match ops with
     | Inl e -> if mode = "tn" then "rc=" ^ rcname e     (* the harness' own decoding: no call is made *)
       else Printf.sprintf "rc=%s own=%s dup=0 par=ok" (rcname e) (String.concat "," (List.map (fun z -> "d" ^ string_of_z z) (i_ids idoc)))
     | Inr raw ->
       (match raw, parse_ops raw with
        | [], _ -> "rc=ok own=" ^ String.concat "," (List.map (fun z -> "d" ^ string_of_z z) (i_ids idoc)) ^ " dup=0 par=ok"
        | _, Inl e -> let cls z = "d" ^ string_of_z z in
          Printf.sprintf "rc=%s own=%s dup=0 par=ok" (rcname e) (String.concat "," (List.map cls (i_ids idoc)))
        | _, Inr pops ->
          let ipops = List.map (fun o -> { ip_op = o.p_op; ip_path = o.p_path; ip_from = o.p_from;
                                           ip_val = (match o.p_val with Some v -> Some (inode_of v) | None -> None) }) pops in
          let (_, (r, t0)) = i_apply_ops lib_reparent fo (z_of_int 2000000) idoc ipops in
          (* the harness walks the children of containers only (a scalar root may keep children after add_create) *)
          let rec prune (INode (i, p, kl, k, ty, vi, vs, ch)) =
            INode (i, p, kl, k, ty, vi, vs, (match ty with TObj | TArr -> List.map prune ch | _ -> [])) in
          let t = prune t0 in
          let ids = i_ids t in
          let cls z = let i = int_of_z z in
            if i < 1000000 then Printf.sprintf "d%d" i else if i < 2000000 then Printf.sprintf "p%d" (i - 1000000) else "n" in
          let rec dupl = function [] -> false | x :: r -> List.mem x r || dupl r in
          Printf.sprintf "rc=%s own=%s dup=%d par=%s" (rcname r) (String.concat "," (List.map cls ids))
            (if dupl (List.filter (fun z -> int_of_z z < 2000000) ids) then 1 else 0) (if i_parents_ok t then "ok" else "bad")))
  | ["reg"; mode; dh; pathh; vh] ->
    (* the registry holds a heap-allocated tree; one call; the last reference frees the tree *)
    let doc = (try parse_json (str_of_hex dh) with Parse_error -> raise Exit) in
    let path = zl_of_string (str_of_hex pathh) in
    let v = if vh = "-" then None else Some (parse_json (str_of_hex vh)) in
    let (h0, root) = heap_of doc in
    let res =
      (match mode.[0], v with
       | 'm', _ -> Some (iwjsreg_merge_model h0 root false path v)
       | 's', Some n when (match n_ty n with TStr | TI64 | TF64 | TBool | TNull -> true | _ -> false) ->
         Some (iwjsreg_merge_scalar h0 root false path (n_ty n) (n_vi n) (n_vs n))
       | 'r', _ -> None
       | _ -> None) in
    (match res with
     | None -> if mode.[0] = 'r' then "UNMODELLED (iwjsreg_replace: implementation and oracle only)" else "?"
     | Some (Inl DoubleFree) -> "CRASH double-free"
     | Some (Inl UseAfterFree) -> "CRASH use-after-free"
     | Some (Inr (((r, h1), t), dirty)) ->
       (match destroy h1 t with
        | Inl _ -> out_tree r (forget t) false ^ " CRASH free of the result"
        | Inr h2 -> out_tree r (forget t) false ^ Printf.sprintf " dirty=%d leak=%d" (if dirty then 1 else 0) (if h_live h2 = [] then 0 else 1)))
  | ["regs"; dh; sh] ->
    (* several calls on one registry; a sequence that contains iwjsreg_replace is not modelled *)
    let doc = (try parse_json (str_of_hex dh) with Parse_error -> raise Exit) in
    let steps = parse_json (str_of_hex sh) in
    let (h0, root) = heap_of doc in
    let step_of st = (match n_ch st with
        | [k; p] -> (string_of_zl (n_vs k), n_vs p, None)
        | [k; p; v] -> (string_of_zl (n_vs k), n_vs p, Some v)
        | _ -> ("?", [], None)) in
    let sts = List.map step_of (n_ch steps) in
    if List.exists (fun (k, _, _) -> k <> "m") sts then "UNMODELLED (iwjsreg_replace: implementation and oracle only)"
    else begin
      let rec go h t dirty rcs = function
        | [] -> Inr (h, t, dirty, List.rev rcs)
        | (_, p, v) :: rest ->
          (match iwjsreg_merge_model h t dirty p v with
           | Inl e -> Inl e
           | Inr (((r, h1), t1), d1) -> go h1 t1 d1 (rcname r :: rcs) rest) in
      (match go h0 root false [] sts with
       | Inl DoubleFree -> "CRASH double-free"
       | Inl UseAfterFree -> "CRASH use-after-free"
       | Inr (h1, t, dirty, rcs) ->
         (match destroy h1 t with
          | Inl _ -> "CRASH free of the result"
          | Inr h2 -> Printf.sprintf "rcs=%s %s dirty=%d leak=%d" (String.concat "," rcs) (out_tree RcOk (forget t) false)
                        (if dirty then 1 else 0) (if h_live h2 = [] then 0 else 1)))
    end
  | ["cmp"; ah; bh] ->
    let a = parse_json (str_of_hex ah) in
    let b = parse_json (str_of_hex bh) in
    Printf.sprintf "eq=%d rev=%d" (if nodes_eq fo a b then 1 else 0) (if nodes_eq fo b a then 1 else 0)
  | [] -> ""
  | _ -> "?"
let () = main_loop handle
