(* C12 driver: same line protocol as harness/h_exf.c, answered by the extracted model (coq/FS/Exf.v, coq/FS/ExfFile.v).
   `limit <n>` / `maplimit <d>` set the oracle of the operating system handed to every later call:
   os_limits (Some n) (Some b) - RLIMIT_FSIZE = n, and b = bytes mapped by the windows at that moment + d is the budget for mmap;
   a negative argument lifts the respective limit.  `locks 1` makes the next handle use the lock model (lstep). *)
let q = tree_quirks
let rcname rc =
  if rc = Z0 then "OK"
  else if rc = eXF_E_OOB then "OOB" else if rc = eXF_E_NOT_ALIGNED then "NOTALIGNED"
  else if rc = eXF_E_OVERFLOW then "OVERFLOW" else if rc = eXF_E_MAXOFF then "MAXOFF"
  else if rc = eXF_E_POLFAIL then "POLFAIL" else if rc = eXF_E_OVERLAP then "OVERLAP"
  else if rc = eXF_E_NOTMM then "NOTMM" else if rc = eXF_CRASH then "CRASH" else if rc = eXF_E_IO then "IOERR"
  else if rc = eXF_E_ERRNO then "ERRNO" else if rc = eXF_E_READONLY then "READONLY" else if rc = eXF_E_INVARGS then "INVARGS"
  else if rc = eXF_E_NOT_EXISTS then "NOTEXISTS" else if rc = eXF_HANG then "HANG"
  else "E" ^ string_of_z rc

let kfile : z list option ref = ref None   (* the data file as the kernel keeps it across close/open; None = it does not exist *)
let st : exf option ref = ref None
let poisoned = ref false
let ro = ref false
let ro_writes = ref false
let lim : z option ref = ref None
let maplim : z option ref = ref None
let locks_next = ref false
let locks = ref false
let held = ref Z0
let ok () = os_limits !lim !maplim

let klen () = match !kfile with None -> "-1" | Some f -> string_of_z (zlen f)
let tail () =
  match !st with
  | Some s when not !poisoned -> if not !ro then kfile := Some s.file;
    Printf.sprintf " fsize=%s stat=%s" (string_of_z s.fsize) (klen ())
  | _ -> Printf.sprintf " fsize=-1 stat=%s" (klen ())

let patbyte seed i = z_of_int ((seed * 131 + i * 31 + (i lsr 8) * 7) mod 251 + 1)
let pattern len seed = List.init len (fun i -> patbyte seed i)

(* one call of the method table: through the lock model when the handle was opened with use_locks *)
let call s o =
  if !locks then begin
    let ((r, h'), s') = lstep q (ok ()) !held s o in
    held := h'; (r, s')
  end else step q (ok ()) s o

let policy pol rest = match pol, rest with
  | "fibo", _ -> PFibo Z0
  | "mul", n :: dn :: _ -> PMul (z_of_string n, z_of_string dn)
  | "mul", _ -> PMul (Z0, Z0)
  | "muln", _ -> PMulNull
  | _ -> PDefault

(* the plain file *)
let kraw : z list option ref = ref None
let pf : pfile option ref = ref None
let pf_tmp = ref false
let fstat () = match !pf with
  | Some p -> string_of_z (zlen p.pf_bytes)
  | None -> (match !kraw with None -> "-1" | Some f -> string_of_z (zlen f))
let rawstat () = match !pf with                     (* the size of <path>.raw itself (an IWFS_OTMP handle is another file) *)
  | Some p when not !pf_tmp -> string_of_z (zlen p.pf_bytes)
  | _ -> (match !kraw with None -> "-1" | Some f -> string_of_z (zlen f))
let oct n = Printf.sprintf "%o" n
let fclose_k () = match !pf with
  | Some p -> (if not !pf_tmp then kraw := pf_close p); pf := None; pf_tmp := false
  | None -> ()

let fhandle op args =
  match op, args with
  | "fraw", [len; seed] ->
    if !pf <> None then "fraw ERR fstat=" ^ rawstat ()
    else (kraw := Some (pattern (int_of_string len) (int_of_string seed)); "fraw OK fstat=" ^ fstat ())
  | "frm", _ ->
    if !pf <> None || !kraw = None then "frm ERR fstat=" ^ rawstat () else (kraw := None; "frm OK fstat=-1")
  | "fhold", _ -> "fhold OK fstat=" ^ fstat ()      (* only used by the leak script, which is not run on the model *)
  | "fopen", [om; lk] ->
    fclose_k ();
    let o = { fo_omode = z_of_string om; fo_lock = z_of_string lk; fo_filemode = Z0 } in
    let tmp = has (norm_opts o).fo_omode eXF_OTMP in
    let ((rc, h), k') = file_open o (if tmp then None else !kraw) in
    if not tmp then kraw := k';
    pf := h; pf_tmp := tmp && h <> None;
    (match h with
     | Some p -> Printf.sprintf "fopen OK open=1 os=%s om=%s lk=%s fm=%s tmp=%d fstat=%s" (string_of_z p.pf_ostatus)
                   (string_of_z p.pf_opts.fo_omode) (string_of_z p.pf_opts.fo_lock) (oct (int_of_z p.pf_opts.fo_filemode))
                   (if tmp then 1 else 0) (fstat ())
     | None -> Printf.sprintf "fopen %s open=0 os=0 om=0 lk=0 fm=0 tmp=0 fstat=%s" (rcname rc) (fstat ()))
  | _ ->
    match !pf with
    | None -> op ^ " NOTOPEN fstat=" ^ fstat ()
    | Some p ->
      (match op, args with
       | "fwrite", [off; h] ->
         let ((rc, sp), p') = pf_write p (z_of_string off) (bytes_of_hex h) in
         pf := Some p';
         Printf.sprintf "fwrite %s %s fstat=%s" (rcname rc) (match sp with Some n -> string_of_z n | None -> "x") (fstat ())
       | "fread", [off; n] ->
         let ((rc, sp), b) = pf_read p (z_of_string off) (z_of_string n) in
         Printf.sprintf "fread %s %s %s fstat=%s" (rcname rc) (string_of_z sp) (hex_of_bytes b) (fstat ())
       | "fcopy", [off; siz; noff] ->
         let (rc, p') = pf_copy q p (z_of_string off) (z_of_string siz) (z_of_string noff) in
         pf := Some p';
         Printf.sprintf "fcopy %s fstat=%s" (rcname rc) (fstat ())
       | "fsync", _ -> "fsync OK fstat=" ^ fstat ()
       | "fstate", _ ->
         Printf.sprintf "fstate OK open=1 os=%s om=%s lk=%s fstat=%s" (string_of_z p.pf_ostatus) (string_of_z p.pf_opts.fo_omode)
           (string_of_z p.pf_opts.fo_lock) (fstat ())
       | "fclose", _ ->
         let left = if has p.pf_opts.fo_omode eXF_OUNLINK then "-1" else fstat () in
         fclose_k (); "fclose OK fstat=" ^ left
       | _ -> op ^ " BADOP")

let handle toks =
  match toks with
  | [] -> ""
  | ["limit"; n] ->
    let v = z_of_string n in
    lim := (if sign_of_z v < 0 then None else Some v);
    "limit OK" ^ tail ()
  | ["maplimit"; n] ->
    let v = z_of_string n in
    let cur = match !st with Some s when not !poisoned -> mapped_total s.slots | _ -> Z0 in
    maplim := (if sign_of_z v < 0 then None else Some (Z.add cur v));
    "maplimit OK" ^ tail ()
  | ["locks"; n] -> locks_next := (n <> "0"); "locks OK" ^ tail ()
  | ["rowrites"; n] -> ro_writes := (n <> "0"); "rowrites OK" ^ tail ()
  | ["raw"; len; seed] ->
    if !st <> None && not !poisoned then "raw BUSY" ^ tail ()
    else (kfile := Some (pattern (int_of_string len) (int_of_string seed)); "raw OK" ^ tail ())
  | op :: args when String.length op > 1 && op.[0] = 'f' -> fhandle op args
  | "open" :: trunc :: isz :: mo :: pol :: rest ->
    let trunc = trunc <> "0" in
    st := None;
    if !poisoned && not trunc then "open POISONED" else begin
      poisoned := false; ro := false; locks := !locks_next; held := Z0;
      let k = if trunc then [] else (match !kfile with Some f -> f | None -> []) in
      let (rc, s) = exfile_open q (ok ()) k (z_of_string isz) (z_of_string mo) (policy pol rest) in
      if rc <> eXF_E_INVARGS then kfile := Some k;   (* the file has been created / truncated by then *)
      if rc = Z0 then st := Some s;
      "open " ^ rcname rc ^ tail ()
    end
  | "openro" :: isz :: mo :: pol :: rest ->
    st := None;
    if !poisoned then "openro POISONED" else begin
      ro := true; locks := !locks_next; held := Z0;
      match !kfile with
      | None -> "openro NOTEXISTS" ^ tail ()
      | Some k ->
        let (rc, s) = exfile_open_ro q k (z_of_string isz) (z_of_string mo) (policy pol rest) in
        if rc = Z0 then st := Some s;
        "openro " ^ rcname rc ^ tail ()
    end
  | op :: args ->
    if !poisoned then op ^ " POISONED" else
    match !st with
    | None -> op ^ " NOTOPEN"
    | Some s ->
      if !ro && not (List.mem op ["read"; "state"; "probe"; "syncmm"; "close"])
             && not (!ro_writes && List.mem op ["addmm"; "rmmm"; "write"; "copy"]) then op ^ " ROMODE" ^ tail () else
      if !ro && op = "write" then
        (match args with
         | [off; h] -> let (rc, sp) = exfile_write_ro s (z_of_string off) (bytes_of_hex h) in
           Printf.sprintf "write %s %s%s" (rcname rc) (string_of_z sp) (tail ())
         | _ -> "write BADOP" ^ tail ())
      else if !ro && op = "copy" then
        (match args with
         | [off; siz; noff] -> "copy " ^ rcname (exfile_copy_ro s (z_of_string off) (z_of_string siz) (z_of_string noff)) ^ tail ()
         | _ -> "copy BADOP" ^ tail ())
      else
      let run o fmt =
        let (r, s') = call s o in
        if r.o_rc = eXF_CRASH then (poisoned := true; op ^ " CRASH")
        else if r.o_rc = eXF_HANG then (poisoned := true; op ^ " HANG")
        else (st := Some s'; fmt r ^ tail ()) in
      let plain r = op ^ " " ^ rcname r.o_rc in
      let withsp r = Printf.sprintf "%s %s %s" op (rcname r.o_rc) (string_of_z r.o_sp) in
      (match op, args with
       | "write", [off; h] -> run (OWrite (z_of_string off, bytes_of_hex h)) withsp
       | "read", [off; n] ->
         run (ORead (z_of_string off, z_of_string n))
           (fun r -> Printf.sprintf "read %s %s %s" (rcname r.o_rc) (string_of_z r.o_sp) (hex_of_bytes r.o_data))
       | "copy", [off; siz; noff] -> run (OCopy (z_of_string off, z_of_string siz, z_of_string noff)) plain
       | "truncate", [sz] -> run (OTruncate (z_of_string sz)) plain
       | "ensure", [sz] -> run (OEnsure (z_of_string sz)) plain
       | "addmm", [off; ml; fl] -> run (OAddMmap (z_of_string off, z_of_string ml, z_of_string fl)) plain
       | "rmmm", [off] -> run (ORemoveMmap (z_of_string off)) plain
       | "probe", [off] -> run (OProbe (z_of_string off)) withsp
       | "acquire", [off] -> run (OAcquire (z_of_string off)) withsp
       | "release", _ -> run ORelease plain
       | "syncmm", [off] -> run (OSyncMmap (z_of_string off)) plain
       | "sync", _ -> run OSync plain
       | "remap", _ -> run ORemap plain
       | "state", _ -> run OState (fun _ -> "state OK")
       | "close", _ ->
         if !locks && sign_of_z !held > 0 then (poisoned := true; "close HANG")
         else begin
           if not !ro then kfile := Some s.file;
           st := None; "close OK" ^ tail ()
         end
       | _ -> op ^ " BADOP" ^ tail ())

(* ftrunc/pread on a file of some hundred thousand bytes recurse that deep: run with a large stack (re-exec once under ulimit -s) *)
let () =
  if Sys.getenv_opt "EXF_DEEP" = None then
    exit (Sys.command ("ulimit -s 4000000 2>/dev/null || ulimit -s unlimited 2>/dev/null; EXF_DEEP=1 exec " ^ Filename.quote Sys.executable_name))
  else main_loop handle
