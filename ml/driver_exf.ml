(* C12 driver: same line protocol as harness/h_exf.c, answered by the extracted model (coq/FS/Exf.v).
   `limit <n>` sets the oracle of the operating system handed to every later call: os_limit n (RLIMIT_FSIZE = n),
   `limit -1` = os_any (no refusal). *)
let q = tree_quirks
let rcname rc =
  if rc = Z0 then "OK"
  else if rc = eXF_E_OOB then "OOB" else if rc = eXF_E_NOT_ALIGNED then "NOTALIGNED"
  else if rc = eXF_E_OVERFLOW then "OVERFLOW" else if rc = eXF_E_MAXOFF then "MAXOFF"
  else if rc = eXF_E_POLFAIL then "POLFAIL" else if rc = eXF_E_OVERLAP then "OVERLAP"
  else if rc = eXF_E_NOTMM then "NOTMM" else if rc = eXF_CRASH then "CRASH" else if rc = eXF_E_IO then "IOERR"
  else "E" ^ string_of_z rc

let kfile : z list ref = ref []        (* the file as the kernel keeps it across close/open *)
let st : exf option ref = ref None
let poisoned = ref false
let lim : z option ref = ref None
let ok () = match !lim with None -> os_any | Some l -> os_limit l

let tail () =
  match !st with
  | Some s when not !poisoned -> kfile := s.file;
    Printf.sprintf " fsize=%s stat=%s" (string_of_z s.fsize) (string_of_z (zlen s.file))
  | _ -> Printf.sprintf " fsize=-1 stat=%s" (string_of_z (zlen !kfile))

let fin op rc s' =
  if rc = eXF_CRASH then (poisoned := true; op ^ " CRASH")
  else (st := Some s'; op ^ " " ^ rcname rc ^ tail ())

let handle toks =
  match toks with
  | [] -> ""
  | ["limit"; n] ->
    let v = z_of_string n in
    lim := (if sign_of_z v < 0 then None else Some v);
    "limit OK" ^ tail ()
  | "open" :: trunc :: isz :: mo :: pol :: rest ->
    let trunc = trunc <> "0" in
    st := None;
    if !poisoned && not trunc then "open POISONED" else begin
      poisoned := false;
      if trunc then kfile := [];
      let p = match pol, rest with
        | "fibo", _ -> PFibo Z0
        | "mul", n :: dn :: _ -> PMul (z_of_string n, z_of_string dn)
        | "mul", _ -> PMul (Z0, Z0)
        | "muln", _ -> PMulNull
        | _ -> PDefault in
      let (rc, s) = exfile_open (ok ()) !kfile (z_of_string isz) (z_of_string mo) p in
      if rc = Z0 then st := Some s;
      "open " ^ rcname rc ^ tail ()
    end
  | op :: args ->
    if !poisoned then op ^ " POISONED" else
    match !st with
    | None -> op ^ " NOTOPEN"
    | Some s ->
      (match op, args with
       | "write", [off; h] ->
         let ((rc, sp), s') = exfile_write q (ok ()) s (z_of_string off) (bytes_of_hex h) in
         if rc = eXF_CRASH then (poisoned := true; "write CRASH")
         else (st := Some s'; Printf.sprintf "write %s %s%s" (rcname rc) (string_of_z sp) (tail ()))
       | "read", [off; n] ->
         let ((rc, sp), b) = exfile_read s (z_of_string off) (z_of_string n) in
         if rc = eXF_CRASH then (poisoned := true; "read CRASH")
         else Printf.sprintf "read %s %s %s%s" (rcname rc) (string_of_z sp) (hex_of_bytes b) (tail ())
       | "copy", [off; siz; noff] ->
         let (rc, s') = exfile_copy q (ok ()) s (z_of_string off) (z_of_string siz) (z_of_string noff) in fin "copy" rc s'
       | "truncate", [sz] -> let (rc, s') = truncate_lw (ok ()) s (z_of_string sz) in fin "truncate" rc s'
       | "ensure", [sz] -> let (rc, s') = ensure_size_lw q (ok ()) s (z_of_string sz) in fin "ensure" rc s'
       | "addmm", [off; ml; fl] ->
         let (rc, s') = add_mmap_lw s (z_of_string off) (z_of_string ml) (z_of_string fl) in fin "addmm" rc s'
       | "rmmm", [off] -> let (rc, s') = remove_mmap_lw s (z_of_string off) in fin "rmmm" rc s'
       | "probe", [off] ->
         let (rc, sp) = probe_mmap s.slots (z_of_string off) in
         Printf.sprintf "probe %s %s%s" (rcname rc) (string_of_z sp) (tail ())
       | "sync", _ -> "sync OK" ^ tail ()
       | "remap", _ -> fin "remap" Z0 (remap_all s)
       | "state", _ -> "state OK" ^ tail ()
       | "close", _ -> kfile := s.file; st := None; "close OK" ^ tail ()
       | _ -> op ^ " BADOP" ^ tail ())

let () = main_loop handle
