(* shared helpers for the drivers around extracted code; `open M` gives Coq's Z/positive/nat *)
open M
let rec pos_of_int n = if n = 1 then XH else if n land 1 = 0 then XO (pos_of_int (n lsr 1)) else XI (pos_of_int (n lsr 1))
let z_of_int n = if n = 0 then Z0 else if n > 0 then Zpos (pos_of_int n) else Zneg (pos_of_int (-n))
let rec int_of_pos = function XH -> 1 | XO p -> 2 * int_of_pos p | XI p -> 2 * int_of_pos p + 1
let int_of_z = function Z0 -> 0 | Zpos p -> int_of_pos p | Zneg p -> - (int_of_pos p)
let rec nat_of_int n = if n <= 0 then O else S (nat_of_int (n - 1))
let rec int_of_nat = function O -> 0 | S n -> 1 + int_of_nat n
let z10 = z_of_int 10
let z_of_string s =
  let neg = String.length s > 0 && s.[0] = '-' in
  let acc = ref Z0 in
  String.iteri (fun i c -> if c >= '0' && c <= '9' then
    acc := Z.add (Z.mul !acc z10) (z_of_int (Char.code c - 48))) s;
  if neg then Z.opp !acc else !acc
let string_of_z z =
  match z with Z0 -> "0" | _ ->
  let neg = (match z with Zneg _ -> true | _ -> false) in
  let z = ref (if neg then Z.opp z else z) in
  let b = Buffer.create 24 in
  while !z <> Z0 do
    let (q, r) = Z.div_eucl !z z10 in
    Buffer.add_char b (Char.chr (48 + int_of_z r)); z := q
  done;
  let s = Buffer.contents b in
  let n = String.length s in
  (if neg then "-" else "") ^ String.init n (fun i -> s.[n - 1 - i])
let bytes_of_hex h =
  if h = "-" then [] else
  let n = String.length h / 2 in
  List.init n (fun i -> z_of_int (int_of_string ("0x" ^ String.sub h (2 * i) 2)))
let hex_of_bytes l =
  if l = [] then "-" else String.concat "" (List.map (fun z -> Printf.sprintf "%02x" ((int_of_z z) land 255)) l)
let sign_of_z = function Z0 -> 0 | Zpos _ -> 1 | Zneg _ -> -1
let split_ws s = List.filter (fun x -> x <> "") (String.split_on_char ' ' s)
let main_loop f =
  try while true do
    let line = input_line stdin in
    (try print_string (f (split_ws line)) with e -> print_string ("MODEL-EXN " ^ Printexc.to_string e));
    print_newline ()
  done with End_of_file -> ()
