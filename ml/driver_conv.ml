let mode s = { km_vnum = s.[0] = '1'; km_real = s.[1] = '1'; km_compound = s.[2] = '1' }
let tie_of s = if s = "strncmp" then strncmp else memcmp
let handle = function
  | ["vnum64"; v] ->
    let e = set_vnum64 (z_of_string v) in
    let r = if e = [] then "oob" else (match read_vnum (e @ [z_of_int 77]) with
      | Some (n, st) -> Printf.sprintf "%s %d" (string_of_z n) (int_of_nat st) | None -> "oob") in
    Printf.sprintf "%d %s %s sz=%s" (List.length e) (hex_of_bytes e) r (string_of_z (iW_VNUMSIZE (z_of_string v)))
  | ["vnum32"; v] ->
    let e = set_vnum32 (z_of_string v) in
    let r = if e = [] then "oob" else (match read_vnum (e @ [z_of_int 77]) with
      | Some (n, st) -> Printf.sprintf "%s %d" (string_of_z n) (int_of_nat st) | None -> "oob") in
    Printf.sprintf "%d %s %s sz=%s" (List.length e) (hex_of_bytes e) r (string_of_z (iW_VNUMSIZE32 (z_of_string v)))
  | ["readv"; h] ->
    (match read_vnum (bytes_of_hex h) with
     | Some (n, st) -> Printf.sprintf "%s %d" (string_of_z n) (int_of_nat st) | None -> "oob")
  | ["itoa"; v; max] ->
    let mx = int_of_string max in
    let m0 = { m_len = z_of_int (if mx < 0 then 0 else mx); m_init = (fun _ -> z_of_int 0x55); m_wr = [] } in
    (match itoa (z_of_string v) m0 (z_of_int mx) with
     | None -> "OOB"
     | Some (ret, m) -> Printf.sprintf "%s %s" (string_of_z ret) (hex_of_bytes (cstr (nat_of_int 40) m Z0)))
  | ["atoi"; h] -> string_of_z (atoi (bytes_of_hex h))
  | ["bin2hex"; h] -> hex_of_bytes (bin2hex (bytes_of_hex h))
  | ["hex2bin"; h] -> hex_of_bytes (hex2bin (bytes_of_hex h))
  | ["cmp"; tie; md; v1; kd; kc] ->
    let m = mode md in
    Printf.sprintf "%d %d" (sign_of_z (cmp_keys (tie_of tie) m (bytes_of_hex v1) (bytes_of_hex kd) (z_of_string kc)))
      (sign_of_z (cmp_keys_prefix (tie_of tie) m (bytes_of_hex v1) (bytes_of_hex kd) (z_of_string kc)))
  | ["kcmp"; tie; md; ad; ac; bd; bc] ->
    let m = mode md in
    let st = stored m (bytes_of_hex ad) (z_of_string ac) in
    Printf.sprintf "%d %d" (sign_of_z (kcmp (tie_of tie) m (bytes_of_hex ad, z_of_string ac) (bytes_of_hex bd, z_of_string bc)))
      (sign_of_z (sblk_cmp_key_full (tie_of tie) m st (bytes_of_hex bd) (z_of_string bc)))
  | ["sblkcmp"; md; lk; full; kd; kc] ->
    (match sblk_cmp_key memcmp (mode md) (bytes_of_hex lk) (full = "1") (bytes_of_hex kd) (z_of_string kc) with
     | None -> "NONE"
     | Some r -> string_of_int (sign_of_z r))
  | ["afcmp"; tie; a; b] -> string_of_int (sign_of_z (afcmp (tie_of tie) (bytes_of_hex a) (bytes_of_hex b)))
  | ["macro"; "overlap"; a; b; c; d] -> string_of_z (iW_RANGES_OVERLAP (z_of_string a) (z_of_string b) (z_of_string c) (z_of_string d))
  | ["macro"; "roundup"; a; b] -> string_of_z (iW_ROUNDUP (z_of_string a) (z_of_string b))
  | ["macro"; "rounddown"; a; b] -> string_of_z (iW_ROUNDOWN (z_of_string a) (z_of_string b))
  | [] -> ""
  | l -> "?" ^ String.concat " " l
let () = main_loop handle
