(* C20: replays an event trace of the real executor on the extracted transition system.
   line:  stw <limit> <blocking> <cb> <hook> <variant> | tid:kind:a:b:c ...
          tp  <nthreads> <limit> <ovf> <hook> <variant> | ...
   variant: 0 = code as found, 1 = with the shutdown re-check fixes, 3 = 1 + overflow threads registered (tp),
            5 = 1 + self-shutdown guard of iwstw_shutdown releases the mutex (stw, fixes/exec-stw-self-shutdown-unlock.diff),
            2 = try 3, 1, 0 (tp) / 5, 1, 0 (stw).
   answer: ok variant=v n=.. acc=.. enq=.. done=.. disc=.. repl=.. started=.. pending=.. uaf=b freed=b wdead=b shut=b
              [tp: regs=.. busy=.. workers=..]
           reject at=<index> ev=<token> variant=v ... [tp: regs=<model registry> ...]
   Tokens of kind 18 / 19 (tp only) are observations of the harness, not events: 18 = tid:18:id0:id1:.. is the content of
   tp->threads seen by the mutex holder; it must equal the model's registry (Tp.regs) at that point, otherwise the trace
   is rejected at that token.  19 = tid:19:id (pthread_detach) is skipped. *)
let n = nat_of_int
let i = int_of_nat
type item = Ev of (nat * ev) | Regs of int list | Skip
let item_of_token ev_of_token tok =
  match List.map int_of_string (String.split_on_char ':' tok) with
  | _ :: 18 :: ids -> Regs ids
  | _ :: 19 :: _ -> Skip
  | _ -> Ev (ev_of_token tok)
let ev_of_token tok =
  let f = Array.of_list (List.map int_of_string (String.split_on_char ':' tok)) in
  let g k = if k < Array.length f then f.(k) else 0 in
  let t = g 0 and a = g 2 and b = g 3 and c = g 4 in
  let e = match g 1 with
    | 1 -> ELock | 2 -> EUnlock | 3 -> EWait (n a) | 4 -> EWake (n a)
    | 5 -> ESignal (n a, None) | 6 -> EBcast (n a)
    | 7 -> EEnq (n a) | 8 -> EDeq (n a) | 9 -> ERun (n a) | 10 -> EDone (n a) | 11 -> EDiscard (n a)
    | 12 -> ECall (n a, n b, c <> 0) | 13 -> ERet (n a, b <> 0)
    | 14 -> ESpawn (n a) | 15 -> EExit | 16 -> EJoin (n a) | 17 -> EFree
    | k -> failwith ("bad event kind " ^ string_of_int k) in
  (n t, e)

let lst l = if l = [] then "-" else String.concat "," (List.map (fun x -> string_of_int (i x)) l)
let b2s b = if b then "1" else "0"

(* generic replay: step, hidden, fixsig (fills the waiter released by a signal) *)
let replay step hidden fixsig regs hook s0 evs =
  let s = ref s0 and bad = ref (-1) and k = ref 0 in
  (try
    List.iter (function
    | Skip -> incr k
    | Regs ids -> if regs !s <> ids then (bad := !k; raise Exit); incr k
    | Ev (t, e) ->
      if not hook then begin
        let go = ref true in
        while !go do
          match hidden !s t with
          | Some h -> (match step !s t h with Some s' -> s := s' | None -> go := false)
          | None -> go := false
        done
      end;
      (match step !s t (fixsig !s e) with
       | Some s' -> s := s'
       | None -> bad := !k; raise Exit);
      incr k) evs
  with Exit -> ());
  (!s, !bad, !k)

let view (acc, (enq, (don, (disc, (repl, (started, (pending, (uaf, (freed, (wdead, shut)))))))))) =
  Printf.sprintf "acc=%s enq=%s done=%s disc=%s repl=%s started=%s pending=%s uaf=%s freed=%s wdead=%s shut=%s"
    (lst acc) (lst enq) (lst don) (lst disc) (lst repl) (lst started) (lst pending) (b2s uaf) (b2s freed) (b2s wdead) (b2s shut)

let handle toks =
  let rec split acc = function "|" :: r -> (List.rev acc, r) | x :: r -> split (x :: acc) r | [] -> (List.rev acc, []) in
  let (hd, evt) = split [] toks in
  let evs = List.map (item_of_token ev_of_token) evt in
  let toka = Array.of_list evt in
  match hd with
  | [kind; p1; p2; p3; hook; variant] ->
    let p1 = int_of_string p1 and p2 = int_of_string p2 and p3 = int_of_string p3 in
    let hook = hook <> "0" and variant = int_of_string variant in
    let one v =
      if kind = "stw" then begin
        let c = stw_cfg (n p1) (p2 <> 0) (p3 <> 0) (v >= 1) (v = 5) in
        let (s, bad, k) = replay (stw_step c) (stw_hidden c) (fun _ e -> e) (fun _ -> []) hook stw_init evs in
        (bad, k, view (stw_view s))
      end else begin
        let c = tp_cfg (n p1) (n p2) (n p3) (v >= 1) (v = 3) in
        let fixsig s e = match e with
          | ESignal (cv, _) -> (match tp_waitc s with w :: _ -> ESignal (cv, Some w) | [] -> ESignal (cv, None))
          | _ -> e in
        let ints l = List.map i l in
        let (s, bad, k) = replay (tp_step c) (tp_hidden c) fixsig (fun s -> ints (tp_regs s)) hook (tp_init c) evs in
        (bad, k, Printf.sprintf "%s regs=%s busy=%d workers=%s" (view (tp_view c s)) (lst (tp_regs s)) (i (tp_busy s))
                   (lst (tp_workers s)))
      end in
    let show v (bad, k, vw) =
      if bad < 0 then Printf.sprintf "ok variant=%d n=%d %s" v k vw
      else Printf.sprintf "reject at=%d ev=%s variant=%d %s" bad toka.(bad) v vw in
    if variant = 2 then begin
      let cands = if kind = "stw" then [5; 1; 0] else [3; 1; 0] in
      let best = ref None in
      (try List.iter (fun v ->
         let (b, _, _) as r = one v in
         if b < 0 then (best := Some (v, r); raise Exit)
         else (match !best with
               | Some (_, (b0, _, _)) when b0 >= b -> ()
               | _ -> best := Some (v, r))) cands
       with Exit -> ());
      (match !best with Some (v, r) -> show v r | None -> "bad-line")
    end else show variant (one variant)
  | _ -> "bad-line"

let () = main_loop handle
