(* C14 driver: same line protocol as harness/h_jbinn.c, fields the model can produce only *)
let z16 = z_of_int 16
let z_of_hex s =
  let acc = ref Z0 in
  String.iter (fun c -> acc := Z.add (Z.mul !acc z16) (z_of_int (int_of_string ("0x" ^ String.make 1 c)))) s; !acc
let hex16_of_z z =
  let b = Bytes.make 16 '0' in
  let z = ref z in
  for i = 15 downto 0 do
    let (q, r) = Z.div_eucl !z z16 in
    Bytes.set b i "0123456789abcdef".[int_of_z r]; z := q
  done; Bytes.to_string b
let hexraw l = String.concat "" (List.map (fun z -> Printf.sprintf "%02x" ((int_of_z z) land 255)) l)

exception Bad
let parse_dump (s : string) : jval =
  let n = String.length s in
  let i = ref 0 in
  let upto c = let st = !i in (while !i < n && s.[!i] <> c do incr i done);
    if !i >= n then raise Bad; let r = String.sub s st (!i - st) in incr i; r in
  let hexbytes h = List.init (String.length h / 2) (fun k -> z_of_int (int_of_string ("0x" ^ String.sub h (2 * k) 2))) in
  let rec v () =
    if !i >= n then raise Bad;
    let c = s.[!i] in incr i;
    match c with
    | 'n' -> JNull | 't' -> JBool true | 'f' -> JBool false
    | 'i' -> JI64 (z_of_string (upto ';'))
    | 'd' -> if !i + 16 > n then raise Bad; let h = String.sub s !i 16 in i := !i + 16; JF64 (z_of_hex h)
    | 's' -> JStr (hexbytes (upto ';'))
    | '[' -> let items = ref [] in
      while !i < n && s.[!i] <> ']' do items := v () :: !items done;
      if !i >= n then raise Bad; incr i; JArr (List.rev !items)
    | '{' -> let ms = ref [] in
      while !i < n && s.[!i] = 'K' do incr i; let k = hexbytes (upto ';') in let x = v () in ms := (k, x) :: !ms done;
      if !i >= n || s.[!i] <> '}' then raise Bad; incr i; JObj (List.rev !ms)
    | _ -> raise Bad in
  let r = v () in if !i <> n then raise Bad; r

let rec dump b = function
  | JNull -> Buffer.add_char b 'n'
  | JBool x -> Buffer.add_char b (if x then 't' else 'f')
  | JI64 z -> Buffer.add_char b 'i'; Buffer.add_string b (string_of_z z); Buffer.add_char b ';'
  | JF64 z -> Buffer.add_char b 'd'; Buffer.add_string b (hex16_of_z z)
  | JStr s -> Buffer.add_char b 's'; Buffer.add_string b (hexraw s); Buffer.add_char b ';'
  | JArr l -> Buffer.add_char b '['; List.iter (dump b) l; Buffer.add_char b ']'
  | JObj ms -> Buffer.add_char b '{';
    List.iter (fun (k, x) -> Buffer.add_char b 'K'; Buffer.add_string b (hexraw k); Buffer.add_char b ';'; dump b x) ms;
    Buffer.add_char b '}'
let dumps v = let b = Buffer.create 256 in dump b v; Buffer.contents b

let ecode z = match int_of_z z with 1 -> "INV" | 2 -> "NEST" | 3 -> "FUEL" | 4 -> "DECODE" | n -> "E" ^ string_of_int n
let at_str = function
  | AtFound v -> "0:" ^ dumps v | AtNotFound -> "NF:" | AtPtrErr -> "PTR:" | AtPtrUndef -> "UNDEF:" | AtErr e -> ecode e ^ ":"
let ptr_str path = match ptr_parse3 path with
  | PErr -> "p=PTR:" | PUndef -> "p=UNDEF:"
  | POk ss -> Printf.sprintf "p=0:%d:%s" (List.length ss) (String.concat "," (List.map hex_of_bytes ss))

let rec has_dbl = function
  | JF64 _ -> true
  | JArr l -> List.exists has_dbl l
  | JObj ms -> List.exists (fun (_, x) -> has_dbl x) ms
  | _ -> false
let rec has_nul = function
  | JStr s -> List.exists (fun c -> c = Z0) s
  | JArr l -> List.exists has_nul l
  | JObj ms -> List.exists (fun (_, x) -> has_nul x) ms
  | _ -> false

(* printed texts: "<rc>:<hex>" as the harness prints them *)
let no_fo _ = []
let text_str = function
  | Ok t -> "0:" ^ hex_of_bytes t
  | Err E_UTF8 -> "PARSE:"
  | Err _ -> "MODEL-ERR:"
let btext_str = function
  | BOk t -> "0:" ^ hex_of_bytes t
  | BErr (BE_TEXT E_UTF8) -> "PARSE:"
  | BErr BE_INVALID -> "INV:"
  | BErr _ -> "MODEL-ERR:"
let zi n = z_of_int n
let fuel_of bs = S (nat_of_int (List.length bs))

let pipeline v =
  let enc = binn_encode v in
  let dbl = has_dbl v in
  let head = match enc with
    | None -> (match v with JObj _ | JArr _ -> "rc=CRE" | _ -> "rc=ARGS")
    | Some bs ->
      let back = match binn_decode bs with Some x -> dumps x | None -> "ERR" in
      let cl = match binn_clone bs with Some x -> hex_of_bytes x | None -> "ERR" in
      let clp = match binn_clone_into_pool bs with Some x -> hex_of_bytes x | None -> "ERR" in
      Printf.sprintf "rc=0 binn=%s back=%s back0=%s bcl=%s bclp=%s" (hex_of_bytes bs) back back cl clp ^
      (if dbl then "" else " jb=" ^ btext_str (jbl_as_json_binn no_fo Z0 bs)) in
  let guard = match v with
    | JObj _ | JArr _ when cdom v -> if wf v && fits v then " g=1" else " g=0"
    | _ -> "" in
  head ^ " ncl=" ^ dumps (jbn_clone v) ^ (if dbl then "" else " jt=" ^ text_str (as_json no_fo Z0 v)) ^ guard

(* mxc: the value-level consumers of the matrix the model answers: cnt, it, js/jsp (tree: tjs/tjsp, binary: bjs/bjsp) *)
let matrix_values v =
  match binn_encode v with
  | None -> ""
  | Some bs ->
    (match root_bval bs with
     | None -> ""
     | Some b ->
       let cnt = Printf.sprintf " cnt=%d:%d sz=%d" (int_of_z (jbl_type b)) (int_of_z (jbl_count b)) (int_of_z (jbl_size b)) in
       let it = (match jbl_members b with
         | None -> " it=ERR-CRE"
         | Some l ->
           let obj = (match v with JObj _ -> true | _ -> false) in
           let buf = Buffer.create 256 in
           Buffer.add_char buf (if obj then '{' else '[');
           List.iter (fun ((k, _), bv) ->
             (match k with Some k -> Buffer.add_char buf 'K'; Buffer.add_string buf (hexraw k); Buffer.add_char buf ';' | None -> ());
             (match dec_node (fuel_of bs) bv with Some x -> dump buf x | None -> Buffer.add_string buf "ERR")) l;
           Buffer.add_char buf (if obj then '}' else ']');
           " it=" ^ Buffer.contents buf) in
       let texts = if has_dbl v then "" else
         " tjs=" ^ text_str (as_json no_fo Z0 v) ^ " tjsp=" ^ text_str (as_json no_fo (zi 1) v) ^
         " bjs=" ^ btext_str (jbl_as_json_binn no_fo Z0 bs) ^ " bjsp=" ^ btext_str (jbl_as_json_binn no_fo (zi 1) bs) in
       cnt ^ it ^ texts)

(* pr: both printers under the eight flag sets *)
let pr_flags = [0; 1; 2; 3; 5; 7; 9; 11]
let print_all v =
  if has_dbl v then "dbl=1" else
  let t = String.concat " " (List.map (fun pf -> Printf.sprintf "t%d=%s" pf (text_str (as_json no_fo (zi pf) v))) pr_flags) in
  match binn_encode v with
  | None -> (match v with JObj _ | JArr _ -> "rc=CRE " | _ -> "rc=ARGS ") ^ t
  | Some bs ->
    "rc=0 " ^ t ^ " " ^
    String.concat " " (List.map (fun pf -> Printf.sprintf "b%d=%s" pf (btext_str (jbl_as_json_binn no_fo (zi pf) bs))) pr_flags)

(* bget cell of the matrix: jbl_object_get_type / _fill_jbl and the typed getter of the type reported *)
let gname z = match int_of_z z with 0 -> "0" | 1 -> "NOTOBJ" | 2 -> "CRE" | _ -> "UNMODELLED"
let bget v bs seg =
  match root_bval bs with
  | None -> ""
  | Some b ->
    let ty = int_of_z (jbl_object_get_type b seg) in
    let (rc, bv) = jbl_object_get_fill b seg in
    let first = Printf.sprintf "%d:%s:" ty (if int_of_z rc = 2 then "NF" else gname rc) ^
      (match bv with Some bv -> (match dec_node (fuel_of bs) bv with Some x -> dumps x | None -> "ERR") | None -> "") in
    let typed =
      if ty = 3 then (let (r, n) = jbl_object_get_i64 b seg in Printf.sprintf "%s:i%s;" (gname r) (string_of_z n))
      else if ty = 4 then (let (r, d) = jbl_object_get_f64 b seg in Printf.sprintf "%s:d%s" (gname r) (hex16_of_z d))
      else if ty = 2 then (let (r, t) = jbl_object_get_bool b seg in Printf.sprintf "%s:%c" (gname r) (if t then 't' else 'f'))
      else if ty = 5 && not (has_nul v) then (let (r, s) = jbl_object_get_str b seg in Printf.sprintf "%s:s%s;" (gname r) (hexraw s))
      else "" in
    " bget=" ^ first ^ "+" ^ typed

let handle = function
  | ["conv"; d] -> (try pipeline (parse_dump d) with Bad -> "BAD-DUMP")
  | ["tree"; d] -> (try pipeline (parse_dump d) with Bad -> "BAD-DUMP")
  | "mxc" :: d :: _ -> (try let v = parse_dump d in pipeline v ^ matrix_values v with Bad -> "BAD-DUMP")
  | ["pr"; d] -> (try print_all (parse_dump d) with Bad -> "BAD-DUMP")
  | ["at"; d; ph] | "mx" :: d :: ph :: _ ->
    (try
      let v = parse_dump d in
      let path = bytes_of_hex ph in
      let p3 = ptr_parse3 path in
      let t = at_tree v path in
      let t2 = (match p3 with POk ss -> " t2=" ^ at_str (at_tree2 v ss) | _ -> "") in
      let b = (match binn_encode v with
        | None -> (match v with JObj _ | JArr _ -> " b=NA-CRE" | _ -> " b=NA-ARGS")
        | Some bs -> " b=" ^ at_str (at_binn bs path) ^
                     (match p3 with POk ss -> " b2=" ^ at_str (at_binn2 bs ss) | _ -> "")) in
      let bg = (match p3, v, binn_encode v with
        | POk [seg], JObj _, Some bs -> bget v bs seg
        | _ -> "") in
      ptr_str path ^ " t=" ^ at_str t ^ t2 ^ b ^ bg
    with Bad -> "BAD-DUMP")
  | ["dec"; h] ->
    let bs = bytes_of_hex h in
    (match root_bval bs with
     | None -> "rc=BUF"
     | Some _ -> "rc=0 back=" ^ (match binn_decode bs with Some x -> dumps x | None -> "ERR"))
  | ["ptr"; ph] ->
    let path = bytes_of_hex ph in
    ptr_str path ^ (match ptr_parse3 path with
      | POk ss ->
        let t = ptr_serialize ss in
        " ser=0:" ^ hex_of_bytes t ^ " again=" ^
        (match ptr_parse3 t with POk ss2 -> if ss2 = ss then "same" else "other" | _ -> "PTR")
      | _ -> "")
  | ["pcmp"; h1; h2] ->
    (match ptr_cmp (bytes_of_hex h1) (bytes_of_hex h2) with
     | None -> "c=NA"
     | Some z -> "c=" ^ string_of_int (sign_of_z z))
  | [] -> ""
  | l -> "?" ^ String.concat " " l
let () = main_loop handle
