(* C17 driver: the same line protocol as harness/h_safety.c (without the errno prefix, which the check strips);
   only the modelled commands are answered. *)
let cells n l =
  let rec go k l acc = if k = 0 then Some (List.rev acc) else
    match l with Some x :: r -> go (k - 1) r (x :: acc) | _ -> None in
  go n l []
let term l = l @ [Z0]
let errno_in = ref Z0
(* regex: the answer of harness `rem` (ret, then every slot of the array).  BIG = program too large to be worth running
   here (the model is a list machine); the check then relies on the sanitizer/determinism oracles alone *)
let re_big = 1200
let re_answer p t n =
  (* both are C strings for the implementation: they end at their first 0 byte *)
  let rec cstr = function [] -> [] | c :: r -> if c = Z0 then [] else c :: cstr r in
  let pat = cstr (bytes_of_hex p) and text = cstr (bytes_of_hex t) in
  if int_of_z (re_size pat) > re_big then "BIG" else
  match re_query pat text (z_of_int n) with
  | Oob i -> "OOB " ^ string_of_z i
  | Fuel -> "FUEL"
  | Ok RNoCompile -> "nocompile"
  | Ok (RMatch (r, slots)) ->
    if sign_of_z r < 0 then "-1 EINVAL untouched" else
    String.concat " " (string_of_z r :: List.map (fun c -> match c with
      | CNull -> "-1" | COff o -> string_of_z o | CStale -> "S") slots)
let rec handle l =
  match List.rev l with
  | e :: r when String.length e > 1 && e.[0] = '@' ->      (* trailing @<errno>: the ambient errno the call starts with *)
    errno_in := z_of_string (String.sub e 1 (String.length e - 1));
    let a = handle1 (List.rev r) in errno_in := Z0; a
  | _ -> handle1 l
and handle1 = function
  | ["ptr"; h] ->
    (match ptr_current (term (bytes_of_hex h)) with
     | Oob i -> "OOB r" ^ string_of_z i
     | Fuel -> "FUEL"
     | Ok r ->
       (match ptr_observe r with
        | QErr -> "E"
        | QSegs l ->
          if List.exists (fun o -> match o with OStr _ -> false | _ -> true) l then "UNINIT"
          else String.concat " " (["0"; string_of_int (List.length l)] @
                 List.map (fun o -> match o with OStr s -> hex_of_bytes s | _ -> "?") l)))
  | ["hex2bin"; h; mx] ->
    let max = int_of_string mx in
    let out = List.init (if max > 0 then max else 0) (fun _ -> None) in
    (match hex2bin_current (bytes_of_hex h) out (z_of_int max) with
     | Oob i -> "OOB w" ^ string_of_z i
     | Fuel -> "FUEL"
     | Ok (n, o) ->
       (match cells (int_of_z n) o with
        | Some b -> Printf.sprintf "%d %s" (int_of_z n) (hex_of_bytes b)
        | None -> "UNINIT"))
  | ["atoi2"; h] ->
    (match atoi2_current (bytes_of_hex h) with
     | Oob i -> "OOB r" ^ string_of_z i
     | Fuel -> "FUEL"
     | Ok AUB -> "UB"
     | Ok (AVal v) -> string_of_z v)
  | ["unesc"; q; h] ->
    (match unesc2 (z_of_int (int_of_string q)) (term (bytes_of_hex h)) Z0 with
     | Oob i -> "OOB " ^ string_of_z i
     | Fuel -> "FUEL"
     | Ok (UErrCp, _) -> "Ecp"
     | Ok (UErrUnq, _) -> "Eunq"
     | Ok (UOk (len, e, _), UOk (len2, e2, o)) ->
       let n = min (int_of_z len) (int_of_z len2) in
       (match cells n o with
        | Some b -> Printf.sprintf "%d %d %d %d %s" (int_of_z len) (int_of_z len2) (int_of_z e) (int_of_z e2) (hex_of_bytes b)
        | None -> "UNINIT")
     | Ok (UOk _, UErrCp) -> "E2cp"
     | Ok (UOk _, UErrUnq) -> "E2unq")
  | ["num"; h] ->
    (match num_current !errno_in (term (bytes_of_hex h)) with
     | Oob i -> "OOB r" ^ string_of_z i
     | Fuel -> "FUEL"
     | Ok NErr -> "E"
     | Ok (NI64 (v, e)) -> Printf.sprintf "I %s %d" (string_of_z v) (int_of_z e)
     | Ok (NF64 _) -> "F?")
  | "xstr" :: siz :: ops ->
    (match xcreate (z_of_string siz) with
     | Oob i -> "OOB " ^ string_of_z i
     | Fuel -> "FUEL"
     | Ok x0 ->
       let pre = Buffer.create 16 in
       let rec go x = function
         | [] -> Ok x
         | o :: r ->
           let arg = String.sub o 1 (String.length o - 1) in
           let step = (match o.[0] with
             | 'c' -> xcat x (bytes_of_hex arg)
             | 'u' -> xunshift x (bytes_of_hex arg)
             | 's' -> xshift x (z_of_string arg)
             | 'p' -> xpop x (z_of_string arg)
             | _ ->
               let k = String.index arg ':' in
               let pos = z_of_string (String.sub arg 0 k) and d = bytes_of_hex (String.sub arg (k + 1) (String.length arg - k - 1)) in
               (match xinsert x pos d with
                | Ok (Some x') -> Ok x'
                | Ok None -> Buffer.add_string pre "oob "; Ok x
                | Oob i -> Oob i | Fuel -> Fuel)) in
           (match step with Ok x' -> go x' r | e -> e) in
       (match go x0 ops with
        | Oob i -> "OOB " ^ string_of_z i
        | Fuel -> "FUEL"
        | Ok x ->
          let n = int_of_z x.x_size in
          (match cells n x.x_buf with
           | None -> "UNINIT"
           | Some b ->
             let rec slen k = function [] -> k | c :: r -> if c = Z0 then k else slen (k + 1) r in
             Printf.sprintf "%s%d %d %s" (Buffer.contents pre) n (slen 0 b) (hex_of_bytes b))))
  | ["rem"; p; t; n] -> re_answer p t (int_of_string n)
  | ["re"; p; t] -> re_answer p t 16
  | ["facts"] ->
    Printf.sprintf "ptr_tilde_strict=%b hex2bin_checks_max=%b atoi2_inf_bounded=%b num_clears_errno=%b num_big_as_double=%b"
      fact_ptr_tilde_strict fact_hex2bin_checks_max fact_atoi2_inf_bounded fact_num_clears_errno fact_num_big_as_double
  | [] -> ""
  | l -> "?" ^ String.concat " " l
let () = main_loop handle
