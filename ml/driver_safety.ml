(* C17 driver: the same line protocol as harness/h_safety.c (without the errno prefix, which the check strips);
   only the modelled commands are answered. *)
let cells n l =
  let rec go k l acc = if k = 0 then Some (List.rev acc) else
    match l with Some x :: r -> go (k - 1) r (x :: acc) | _ -> None in
  go n l []
let term l = l @ [Z0]
let errno_in = ref Z0
(* regex: the answer of harness `rem` (ret, then every slot of the array).  BIG = program too large to be worth running
   here (the model is a list machine); the check then relies on the sanitizer/determinism oracles alone *)
let re_big = 1200
let re_answer p t n =
  (* both are C strings for the implementation: they end at their first 0 byte *)
  let rec cstr = function [] -> [] | c :: r -> if c = Z0 then [] else c :: cstr r in
  let pat = cstr (bytes_of_hex p) and text = cstr (bytes_of_hex t) in
  if re_refused pat then "nocompile" else                 (* the estimate exceeds the limit: refused before anything is compiled *)
  if int_of_z (re_size pat) > re_big then "BIG" else
  match re_query pat text (z_of_int n) with
  | Oob i -> "OOB " ^ string_of_z i
  | Fuel -> "FUEL"
  | Ok RNoCompile -> "nocompile"
  | Ok (RMatch (r, slots)) ->
    if sign_of_z r < 0 then "-1 EINVAL untouched" else
    String.concat " " (string_of_z r :: List.map (fun c -> match c with
      | CNull -> "-1" | COff o -> string_of_z o | CStale -> "S") slots)
let rec cstr0 = function [] -> [] | c :: r -> if c = Z0 then [] else c :: cstr0 r
(* does iwstrtod on the number text at offset i end with errno == ERANGE (a non finite double)?  A floating point verdict
   that the index-level model takes as a parameter; here a sound approximation from the decimal magnitude:
   Some false / Some true when certain, None = too close to the limits of the double range to tell without doing the
   arithmetic (the query is then answered `?` and not compared). *)
let jsk_unsure = ref false
let strtod_range (txt : int array) (i : int) : bool option =
  let n = Array.length txt in
  let at k = if k >= 0 && k < n then txt.(k) else 0 in
  let isd c = c >= 48 && c <= 57 in
  let p = ref i in
  while at !p = 32 || (at !p >= 9 && at !p <= 13) do incr p done;
  if at !p = 45 || at !p = 43 then incr p;
  (* mantissa: lead = decimal exponent of the first non zero digit *)
  let ip = !p in
  while isd (at !p) do incr p done;
  let ni = !p - ip in
  let lead = ref None in
  for k = 0 to ni - 1 do if !lead = None && at (ip + k) <> 48 then lead := Some (ni - 1 - k) done;
  if at !p = 46 then begin
    incr p;
    let fp = !p in
    while isd (at !p) do incr p done;
    for k = 0 to !p - fp - 1 do if !lead = None && at (fp + k) <> 48 then lead := Some (- (k + 1)) done
  end;
  let e = ref 0 in
  if at !p = 69 || at !p = 101 then begin
    incr p;
    let neg = at !p = 45 in
    if at !p = 45 || at !p = 43 then incr p;
    while isd (at !p) do (if !e < 100000 then e := !e * 10 + (at !p - 48)); incr p done;
    if neg then e := - !e
  end;
  match !lead with
  | None -> Some false                                   (* all digits zero: the value is 0 *)
  | Some l ->
    let t = l + !e in
    if !e = -308 then None
    else if l <= 300 && t <= 300 then Some false
    else if l >= 310 || (t >= 310 && l >= -290) then Some true
    else None
(* jbn_from_json / jbn_from_js as callers see them: (rc class or ok, nodes, depth); rootless = success without a node *)
let jdoc_run js h =
  let b = cstr0 (bytes_of_hex h) @ [Z0] in
  let txt = Array.of_list (List.map int_of_z b) in
  jsk_unsure := false;
  let rng i = match strtod_range txt (int_of_z i) with Some v -> v | None -> jsk_unsure := true; false in
  let r = jdoc_current js rng b in
  if !jsk_unsure then None else Some r
let jdoc_answer js h =
  match jdoc_run js h with
  | None -> "?"
  | Some (Oob i) -> "OOB " ^ string_of_z i
  | Some Fuel -> "FUEL"
  | Some (Ok (o, st)) ->
    (match o with
     | JErr EJson -> "Ejson" | JErr ENest -> "Enest" | JErr ECp -> "Ecp" | JErr EUnq -> "Eunq"
     | JAt _ -> "ok") ^ " " ^ string_of_z st.j_nodes ^ " " ^ string_of_z st.j_deep
let rootless h =
  match jdoc_run false h with
  | Some (Ok (JAt _, st)) -> st.j_nodes = Z0
  | _ -> false
let jsk_answer js h =
  let b = cstr0 (bytes_of_hex h) @ [Z0] in
  let txt = Array.of_list (List.map int_of_z b) in
  jsk_unsure := false;
  let rng i = match strtod_range txt (int_of_z i) with Some v -> v | None -> jsk_unsure := true; false in
  let r = jparse js rng b in
  if !jsk_unsure then "?" else
  match r with
  | Oob i -> "OOB " ^ string_of_z i
  | Fuel -> "FUEL"
  | Ok (o, st) ->
    (match o with
     | JErr EJson -> "Ejson" | JErr ENest -> "Enest" | JErr ECp -> "Ecp" | JErr EUnq -> "Eunq"
     | JAt i -> string_of_z i) ^ " " ^ string_of_z st.j_nodes ^ " " ^ string_of_z st.j_deep
let rec handle l =
  match List.rev l with
  | e :: r when String.length e > 1 && e.[0] = '@' ->      (* trailing @<errno>: the ambient errno the call starts with *)
    errno_in := z_of_string (String.sub e 1 (String.length e - 1));
    let a = handle1 (List.rev r) in errno_in := Z0; a
  | _ -> handle1 l
and handle1 = function
  | ["ptr"; h] ->
    (match ptr_current (term (bytes_of_hex h)) with
     | Oob i -> "OOB r" ^ string_of_z i
     | Fuel -> "FUEL"
     | Ok r ->
       (match ptr_observe r with
        | QErr -> "E"
        | QSegs l ->
          if List.exists (fun o -> match o with OStr _ -> false | _ -> true) l then "UNINIT"
          else String.concat " " (["0"; string_of_int (List.length l)] @
                 List.map (fun o -> match o with OStr s -> hex_of_bytes s | _ -> "?") l)))
  | ["hex2bin"; h; mx] ->
    let max = int_of_string mx in
    let out = List.init (if max > 0 then max else 0) (fun _ -> None) in
    (match hex2bin_current (bytes_of_hex h) out (z_of_int max) with
     | Oob i -> "OOB w" ^ string_of_z i
     | Fuel -> "FUEL"
     | Ok (n, o) ->
       (match cells (int_of_z n) o with
        | Some b -> Printf.sprintf "%d %s" (int_of_z n) (hex_of_bytes b)
        | None -> "UNINIT"))
  | ["atoi2"; h] ->
    (match atoi2_current (bytes_of_hex h) with
     | Oob i -> "OOB r" ^ string_of_z i
     | Fuel -> "FUEL"
     | Ok AUB -> "UB"
     | Ok (AVal v) -> string_of_z v)
  | ["unesc"; q; h] ->
    (match unesc2 (z_of_int (int_of_string q)) (term (bytes_of_hex h)) Z0 with
     | Oob i -> "OOB " ^ string_of_z i
     | Fuel -> "FUEL"
     | Ok (UErrCp, _) -> "Ecp"
     | Ok (UErrUnq, _) -> "Eunq"
     | Ok (UOk (len, e, _), UOk (len2, e2, o)) ->
       let n = min (int_of_z len) (int_of_z len2) in
       (match cells n o with
        | Some b -> Printf.sprintf "%d %d %d %d %s" (int_of_z len) (int_of_z len2) (int_of_z e) (int_of_z e2) (hex_of_bytes b)
        | None -> "UNINIT")
     | Ok (UOk _, UErrCp) -> "E2cp"
     | Ok (UOk _, UErrUnq) -> "E2unq")
  | ["num"; h] ->
    (match num_current !errno_in (term (bytes_of_hex h)) with
     | Oob i -> "OOB r" ^ string_of_z i
     | Fuel -> "FUEL"
     | Ok NErr -> "E"
     | Ok (NI64 (v, e)) -> Printf.sprintf "I %s %d" (string_of_z v) (int_of_z e)
     | Ok (NF64 _) -> "F?")
  | "xstr" :: siz :: ops ->
    (match xcreate (z_of_string siz) with
     | Oob i -> "OOB " ^ string_of_z i
     | Fuel -> "FUEL"
     | Ok x0 ->
       let pre = Buffer.create 16 in
       let rec go x = function
         | [] -> Ok x
         | o :: r ->
           let arg = String.sub o 1 (String.length o - 1) in
           let step = (match o.[0] with
             | 'c' -> xcat x (bytes_of_hex arg)
             | 'u' -> xunshift x (bytes_of_hex arg)
             | 's' -> xshift x (z_of_string arg)
             | 'p' -> xpop x (z_of_string arg)
             | 'k' -> xclone x
             | _ ->
               let k = String.index arg ':' in
               let pos = z_of_string (String.sub arg 0 k) and d = bytes_of_hex (String.sub arg (k + 1) (String.length arg - k - 1)) in
               (match xinsert x pos d with
                | Ok (Some x') -> Ok x'
                | Ok None -> Buffer.add_string pre "oob "; Ok x
                | Oob i -> Oob i | Fuel -> Fuel)) in
           (match step with Ok x' -> go x' r | e -> e) in
       (match go x0 ops with
        | Oob i -> "OOB " ^ string_of_z i
        | Fuel -> "FUEL"
        | Ok x ->
          let n = int_of_z x.x_size in
          (match cells n x.x_buf with
           | None -> "UNINIT"
           | Some b ->
             let rec slen k = function [] -> k | c :: r -> if c = Z0 then k else slen (k + 1) r in
             Printf.sprintf "%s%d %d %s" (Buffer.contents pre) n (slen 0 b) (hex_of_bytes b))))
  | ["ini"; h] ->
    (match ini_query (cstr0 (bytes_of_hex h)) with
     | Oob i -> "OOB " ^ string_of_z i
     | Fuel -> "FUEL"
     | Ok (rc, evs) ->
       let os = function None -> "~" | Some s -> hex_of_bytes s in
       "ini" ^ String.concat "" (List.map (fun (Ev (s, n, v)) -> " [" ^ hex_of_bytes s ^ "|" ^ os n ^ "|" ^ os v ^ "]") evs)
       ^ " rc=" ^ string_of_z rc)
  | ["jdoc"; h] -> jdoc_answer false h
  | ["jsdoc"; h] -> jdoc_answer true h
  (* the callers of jbn_from_json dereference *node: a success without a node is a NULL dereference there *)
  | ["jbl"; h] -> if rootless h then "NULLROOT" else "?"
  | ["jblpatch"; d; p] | ["jblmerge"; d; p] -> if rootless d || rootless p then "NULLROOT" else "?"
  | "replace" :: d :: kv ->
    let rec pairs = function k :: v :: r -> (cstr0 (bytes_of_hex k), cstr0 (bytes_of_hex v)) :: pairs r | _ -> [] in
    let tbl = pairs kv in
    (* the harness' mapper answers with the value of the FIRST table entry whose key is equal *)
    let keys = List.map (fun (k, _) -> (k, Some (List.assoc k tbl))) tbl in
    (match replace_current (cstr0 (bytes_of_hex d)) keys with
     | Oob i -> "OOB " ^ string_of_z i
     | Fuel -> "FUEL"
     | Ok r -> "0 " ^ hex_of_bytes r)
  | ["jsk"; h] -> jsk_answer false h
  | ["jssk"; h] -> jsk_answer true h
  | ["sde"; h] ->
    (match sde_query (term (cstr0 (bytes_of_hex h))) with
     | Oob i -> "OOB " ^ string_of_z i | Fuel -> "FUEL" | Ok e -> string_of_z e)
  | ["wstrtoll"; h] ->
    (match iw_strtoll_current !errno_in (term (cstr0 (bytes_of_hex h))) with
     | Oob i -> "OOB " ^ string_of_z i | Fuel -> "FUEL" | Ok WErr -> "E" | Ok (WVal v) -> string_of_z v)
  | ["uuid"; h] ->
    (match uuid_valid (term (cstr0 (bytes_of_hex h))) with
     | Oob i -> "OOB " ^ string_of_z i | Fuel -> "FUEL" | Ok true -> "1" | Ok false -> "0")
  | ["split"; h; c; ws] ->
    (match split (term (cstr0 (bytes_of_hex h))) (term (cstr0 (bytes_of_hex c))) (ws <> "0") with
     | Oob i -> "OOB " ^ string_of_z i | Fuel -> "FUEL"
     | Ok [] -> "none"
     | Ok l -> String.concat " " (List.map hex_of_bytes l))
  | "csv" :: len :: cols ->
    (match csv_query (z_of_string len) (List.map bytes_of_hex cols) with
     | Oob i -> "OOB " ^ string_of_z i | Fuel -> "FUEL"
     | Ok None -> "inv"
     | Ok (Some (oks, line)) ->
       String.concat "" (List.map (fun b -> if b then "1 " else "0 ") oks) ^
       (match line with None -> "null" | Some l -> hex_of_bytes l))
  | ["rem"; p; t; n] -> re_answer p t (int_of_string n)
  | ["re"; p; t] -> re_answer p t 16
  | ["facts"] ->
    Printf.sprintf "ptr_tilde_strict=%b hex2bin_checks_max=%b atoi2_inf_bounded=%b num_clears_errno=%b num_big_as_double=%b strto_clears_errno=%b json_rejects_rootless=%b replace_skips_empty_key=%b"
      fact_ptr_tilde_strict fact_hex2bin_checks_max fact_atoi2_inf_bounded fact_num_clears_errno fact_num_big_as_double fact_strto_clears_errno fact_json_rejects_rootless fact_replace_skips_empty_key
  | [] -> ""
  | l -> "?" ^ String.concat " " l
let () = main_loop handle
