(* C18 driver: the same line protocol as harness/h_cont.c, answered by the extracted models
   (all eight containers; lines whose effect is not modelled answer "nomodel"). *)
type key = KI of z | KS of z list

let soz = string_of_z
let ioz = int_of_z
let nat = nat_of_int
let ion = int_of_nat
let join sep f l = if l = [] then "-" else String.concat sep (List.map f l)

(* CRC-32 (zlib polynomial) of the live contents: the brief state line of the long directed scripts.  The live
   region is read straight from the model's array (slots / bytes start .. start+num-1) in one pass. *)
let crc_tab = Array.init 256 (fun n ->
  let c = ref n in
  for _ = 0 to 7 do c := if !c land 1 = 1 then 0xedb88320 lxor (!c lsr 1) else !c lsr 1 done; !c)
let crc_byte c b = crc_tab.((c lxor b) land 0xff) lxor (c lsr 8)
let crc_bytes c (l : z list) = List.fold_left (fun c z -> crc_byte c ((int_of_z z) land 255)) c l
let crc_fin c = (c lxor 0xffffffff) land 0xffffffff
let rec drop n l = if n <= 0 then l else match l with [] -> [] | _ :: t -> drop (n - 1) t
let take n l =
  let rec go n l acc = if n <= 0 then List.rev acc else match l with [] -> List.rev acc | x :: t -> go (n - 1) t (x :: acc) in
  go n l []

(* ---------------------------------------------------------------- hash map *)
(* the map lives under the allocation oracle of coq/UT/Hmap_af.v (repaired variant, code = false); without `hm failat`
   the oracle never fails and every function is the one of Hmap.v (C18_hmap_af_nofail) *)
let hm : key amap option ref = ref None
let hm_kind = ref 0
let hm_hash = ref (fun (_ : key) -> Z0)
let keq (a : key) (b : key) = (a = b)
let keyrepr = function KI z -> soz z | KS s -> hex_of_bytes s
let okeyrepr = function None -> "0" | Some k -> keyrepr k
let parse_key s = if !hm_kind = 2 || !hm_kind = 4 then KS (bytes_of_hex s) else KI (z_of_string s)
let flog m =
  let l = h_log m in
  let s = if l = [] then "-" else String.concat "," (List.map (fun (k, v) -> okeyrepr k ^ "/" ^ soz v) l) in
  (* kind skv: kv_free_fn = iwhmap_kv_free, the harness sees no callback *)
  " f=" ^ (if !hm_kind = 4 then "-" else s) ^ (if h_fault m then " FAULT" else "")
let two32 = z_of_string "4294967296"
let two64 = z_of_string "18446744073709551616"
let zmod a b = snd (Z.div_eucl a b)

(* `hm failat <n> <sites>`: the n-th allocation call from now on whose site is listed returns NULL (one shot).
   The oracle is a function of the history of allocation sites (newest first), as in Hmap_af.v. *)
let site_name = function
  | SCreateHm -> "chm" | SCreateBk -> "cbk" | SAdd -> "add" | SReadd -> "readd" | SRehash -> "rehash"
  | SNode -> "node" | SShrink -> "shrink" | SClear -> "clear" | SStrdup -> "strdup"
let hm_hist : site list ref = ref []
let hm_af : string list ref = ref []
let hm_code = false
let hm_orc : (site list -> bool) ref = ref (fun _ -> false)
let hm_arm n sites =
  let base = List.length !hm_hist in
  let listed s = sites = ["all"] || List.mem (site_name s) sites in
  hm_orc := (fun h ->
    match h with
    | [] -> false
    | cur :: _ ->
      let recent = take (List.length h - base) h in
      let r = n > 0 && listed cur && List.length (List.filter listed recent) = n in
      if r then hm_af := !hm_af @ [site_name cur];
      r)
let put_af () =
  let s = if !hm_af = [] then "" else " af=" ^ String.concat "," !hm_af in
  hm_af := []; s

(* `hm iter`: iwhmap_iter_init + iwhmap_iter_next step by step *)
let hm_iter_line m =
  let ((l, itf), c) = hiter_steps m in
  let s = "it=" ^ join "," (fun (k, v) -> keyrepr k ^ ":" ^ soz v) l ^
          Printf.sprintf " st=%d ib=%d ie=%s" (ion c) (ion itf.it_bucket) (soz itf.it_entry) ^
          (if itf.it_fault then " FAULT" else "") in
  (s, itf)

let hm_line = function
  | ["new"; kind; lru] ->
    let k = (match kind with "u32" -> 0 | "u64" -> 1 | "str" -> 2 | "skv" -> 4 | _ -> 3) in
    hm_kind := k;
    hm_hash := (fun key -> match key with
      | KI z -> if k = 0 then hash_u32 z else if k = 1 then hash_u64 z else hash_ptr z
      | KS s -> hash_str s);
    let l = int_of_string lru in
    let ikp = if k = 0 then cONT_hmap_u32_ikp <> Z0 else if k = 1 then cONT_hmap_u64_ikp <> Z0 else false in
    (match !hm with Some a -> hm_hist := a.a_hist | None -> ());
    let (h, r) = hcreate_f !hm_orc !hm_hist true (if l >= 0 then Some (z_of_int l) else None) ikp in
    hm_hist := h; hm := r;
    (match r with Some _ -> "ok" | None -> "null" ^ put_af ())
  | ["failat"; n; sites] ->
    (match !hm with Some a -> hm_hist := a.a_hist | None -> ());
    hm_af := [];
    hm_arm (int_of_string n) (String.split_on_char ',' sites); "ok"
  | ["failoff"] -> hm_af := []; hm_orc := (fun _ -> false); "ok"
  | ["create0"] -> (match (hcreate false None false : key hmap option) with None -> "null=1" | Some _ -> "null=0")
  | ["null"] | ["kvfree"] -> "ok"
  | ["iter0"] ->
    let m = hnew None false in
    let (it1, r1) = iter_next true m (iter_init false) in
    let (it2, r2) = iter_next true m it1 in
    Printf.sprintf "r=%d%d ib=%d ie=%s%s" (if r1 then 1 else 0) (if r2 then 1 else 0) (ion it2.it_bucket)
      (soz it2.it_entry) (if it2.it_fault then " FAULT" else "")
  | op :: args ->
    (match !hm with
     | None -> "nohm"
     | Some a ->
       let a = with_m a (clear_log a.a_m) in
       let m = a.a_m in
       let orc = !hm_orc in
       let fin a' s = hm := Some a'; hm_hist := a'.a_hist; s ^ " n=" ^ soz (h_count a'.a_m) ^ flog a'.a_m ^ put_af () in
       let rc ok = if ok then "rc=0" else "rc=err" in
       (match op, args with
        | "put", [k; v] ->
          (* iwhmap_put_u32 takes a uint32_t key *)
          let key = (match parse_key k with KI z when !hm_kind = 0 -> KI (zmod z two32) | x -> x) in
          let (a', ok) = (if !hm_kind = 2 || !hm_kind = 4 then hput_str_f else hput_f) keq !hm_hash orc hm_code a key (z_of_string v) in
          fin a' (rc ok)
        | "get", [k] ->
          let (a', v) = hget_f keq !hm_hash orc a (parse_key k) in
          fin a' ("v=" ^ (if v = Z0 then "nil" else soz v))
        | "rm", [k] ->
          let (a', r) = hremove_f keq !hm_hash orc hm_code a (parse_key k) in
          fin a' (if r then "r=1" else "r=0")
        | "ren", [x; y] ->
          let (a', ok) = hrename_f keq !hm_hash orc hm_code a (parse_key x) (parse_key y) in
          fin a' (rc ok)
        | "clear", [] ->
          let a' = hclear_f orc a in
          hm := Some a'; hm_hist := a'.a_hist; "n=" ^ soz (h_count a'.a_m) ^ flog a'.a_m ^ put_af ()
        | "count", [] -> "n=" ^ soz (h_count m)
        | "iter", [] -> fst (hm_iter_line m)
        | "iterx", [] ->
          (* the call after the end: false, iterator unchanged (guard = true is the code since e161ae8; the code before read
             past the bucket array there: C18_hmap_iter_next_after_end_refuted) *)
          let (s, itf) = hm_iter_line m in
          let (it2, again) = iter_next true m itf in
          s ^ Printf.sprintf " again=%d ib2=%d" (if again then 1 else 0) (ion it2.it_bucket)
        | "lruinit", [n] -> hm := Some (with_m a (hlruinit m (zmod (z_of_string n) two32))); "ok"
        | "evmax", [n] -> if hevmax m (zmod (z_of_string n) two32) then "r=1" else "r=0"
        | "lru", [] ->
          let (ks, ok) = hlru m in
          Printf.sprintf "wf=%d lru=%s" (if ok then 1 else 0) (join "," keyrepr ks)
        | "shape", [] ->
          let (mask, l) = hshape m in
          Printf.sprintf "mask=%s b=%s" (soz mask)
            (join "," (fun ((i, u), t) -> Printf.sprintf "%d:%s/%s" (ion i) (soz u) (soz t)) l)
        | "destroy", [] ->
          let a' = hdestroy_f a in
          hm := None; hm_hist := a'.a_hist; "d" ^ flog a'.a_m ^ put_af ()
        | _ -> "?"))
  | _ -> "?"

(* ---------------------------------------------------------------- unit list *)
let ul : ulist option ref = ref None
let unit_of h us =
  let b = bytes_of_hex h in
  List.init us (fun i -> if i < List.length b then List.nth b i else Z0)
let hexu u = hex_of_bytes u
let ul_brief = ref false
let ul_full l =
  Printf.sprintf " n=%d st=%d an=%d d=%s" (ion l.u_num) (ion l.u_start) (ion l.u_anum) (join "." hexu (u_units l))
let ul_state l =
  if not !ul_brief then ul_full l else begin
    let n = ion l.u_num and us = ion l.u_usize in
    let live = take (n * us) (drop (ion l.u_start * us) l.u_arr) in
    let e = if n = 0 then "none" else if us = 0 then "-" else "" in
    let hd = if e <> "" then e else hexu (take us live) in
    let tl = if e <> "" then e else hexu (drop ((n - 1) * us) live) in
    Printf.sprintf " n=%d st=%d an=%d crc=%08x hd=%s tl=%s" n (ion l.u_start) (ion l.u_anum)
      (crc_fin (crc_bytes 0xffffffff live)) hd tl
  end
let urcs = function U_OK -> "0" | U_OOB -> "oob"

let ul_line = function
  | ["new"; us; il] | ["newinit"; us; il] ->
    let l = u_init (nat (int_of_string il)) (nat (int_of_string us)) in
    ul_brief := false;
    ul := Some l; "ok" ^ ul_state l
  | ["brief"; b] -> ul_brief := (int_of_string b <> 0); "ok"
  | op :: args ->
    (match !ul with
     | None -> "noul"
     | Some l ->
       let us = ion l.u_usize in
       let fin (l', rc) = ul := Some l'; "rc=" ^ urcs rc ^ ul_state l' in
       (match op, args with
        | "push", [h] -> fin (u_push l (unit_of h us), U_OK)
        | "unshift", [h] -> fin (u_unshift l (unit_of h us), U_OK)
        | "pop", [] -> fin (u_pop l)
        | "shift", [] -> fin (u_shift l)
        | "insert", [i; h] -> fin (u_insert l (nat (int_of_string i)) (unit_of h us))
        | "set", [i; h] -> fin (u_set l (nat (int_of_string i)) (unit_of h us))
        | "rm", [i] -> fin (u_remove l (nat (int_of_string i)))
        | "rmby", [h] ->
          let (l', r) = u_remove_first_by l (unit_of h us) in
          ul := Some l'; (if r then "r=1" else "r=0") ^ ul_state l'
        | "find", [h] -> (match u_find_first l (unit_of h us) with Some i -> Printf.sprintf "i=%d" (ion i) | None -> "i=-1")
        | "at", [i] ->
          (match u_get l (nat (int_of_string i)) with
           | Some u -> "rc=0 v=" ^ hexu u ^ " same=1"
           | None -> "rc=oob v=nil same=1")
        | "clone", [] -> "c" ^ ul_state (u_clone l)
        | "copy", [il] -> "rc=0" ^ ul_state (u_copy l (u_init (nat (int_of_string il)) l.u_usize))
        | "copy", [il; pre] ->
          let tgt = List.fold_left (fun t h -> u_push t (unit_of h us)) (u_init (nat (int_of_string il)) l.u_usize) (String.split_on_char '.' pre) in
          "rc=0" ^ ul_state (u_copy l tgt)
        | "clear", [] -> fin (u_clear l, U_OK)
        | "reset", [] -> fin (u_reset l, U_OK)
        | "sort", [] -> fin (u_sort l, U_OK)
        | "dump", [] -> "rc=0" ^ ul_full l ^ " arr=1"
        | "destroy", [] -> ul := None; "d"
        | _ -> "?"))
  | _ -> "?"

(* ---------------------------------------------------------------- sorted array helpers *)
let sa : (z * z) list option ref = ref None
let sa_cap = ref 0
let sa_cmp (a : z * z) (b : z * z) = (match Z.compare (fst a) (fst b) with Lt -> Zneg XH | Gt -> Zpos XH | Eq -> Z0)
let sa_dflt = (Z0, Z0)
let sa_state l = Printf.sprintf " n=%d d=%s" (List.length l) (join "," (fun (k, t) -> soz k ^ ":" ^ soz t) l)

let sa_line = function
  | ["new"; cap] -> sa := Some []; sa_cap := int_of_string cap; "ok"
  | op :: args ->
    (match !sa with
     | None -> "nosa"
     | Some l ->
       (match op, args with
        | "ins", [k; t; sk] ->
          if List.length l >= !sa_cap then "full" else
          let (l', i) = sorted_insert sa_cmp sa_dflt l (z_of_string k, z_of_string t) (sk <> "0") in
          sa := Some l'; "i=" ^ soz i ^ sa_state l'
        | "rm", (k :: _) ->
          let (l', i) = sorted_remove sa_cmp sa_dflt l (z_of_string k, Z0) in
          sa := Some l'; "i=" ^ soz i ^ sa_state l'
        | "find", (k :: _) -> "i=" ^ soz (sorted_find sa_cmp sa_dflt l (z_of_string k, Z0))
        | "find2", (k :: _) ->
          let (i, f) = sorted_find2 sa_cmp sa_dflt l (z_of_string k, Z0) in
          Printf.sprintf "i=%s found=%d" (soz i) (if f then 1 else 0)
        | _ -> "?"))
  | _ -> "?"

(* ---------------------------------------------------------------- ring buffer *)
let rbs : (z list rb * int) option ref = ref None
let rb_state r =
  Printf.sprintf "pos=%s n=%s pk=%s it=%s" (soz r.r_pos) (soz (rb_num_cached r))
    (match rb_peek [] r with Some u -> hexu u | None -> "nil") (join "." hexu (rb_iter [] r))

let rb_line = function
  | ["new"; us; len] ->
    (match rb_create_opt [] (z_of_string len) with
     | None -> rbs := None; "null"
     | Some r -> rbs := Some (r, int_of_string us); rb_state r)
  | ["wrap"; us; bl] ->
    (match rb_wrap [] (z_of_string bl) (z_of_string us) with
     | None -> rbs := None; "null"
     | Some r -> rbs := Some (r, int_of_string us); Printf.sprintf "len=%s inbuf=1 %s" (soz r.r_len) (rb_state r))
  | op :: args ->
    (match !rbs with
     | None -> "norb"
     | Some (r, us) ->
       let fin r' = rbs := Some (r', us); rb_state r' in
       (match op, args with
        | "put", [h] -> fin (rb_put r (unit_of h us))
        | "back", [] -> fin (rb_back r)
        | "clear", [] -> fin (rb_clear r)
        | "state", [] -> rb_state r
        | "destroy", [] -> rbs := None; "d"
        | _ -> "?"))
  | _ -> "?"

(* ---------------------------------------------------------------- growable string *)
let xs : xstr option ref = ref None
let xs_state x =
  let t = x_term x in
  Printf.sprintf " sz=%d asz=%d d=%s z=%d" (ion x.x_size) (ion x.x_asize) (hex_of_bytes (x_data x))
    (if ion x.x_size < ion x.x_asize then (if t = Z0 then 1 else 0) else -1)
let xrcs = function X_OK -> "0" | X_OOB -> "oob"
(* bytes up to the first NUL: what strlen / "%s" see *)
let rec cstr = function [] -> [] | b :: t -> if b = Z0 then [] else b :: cstr t
let fmt_sd s v = cstr (bytes_of_hex s) @ List.map (fun c -> z_of_int (Char.code c)) (List.of_seq (String.to_seq (":" ^ string_of_int v)))

let xu : xud ref = ref xu_new
let tokz = function None -> "0" | Some t -> string_of_int (ion t)
(* the destructor calls since the last answer *)
let xu_seen = ref 0
let xu_tail (log : nat option list) =
  let l = drop !xu_seen log in
  xu_seen := List.length log;
  " ud=" ^ (if l = [] then "-" else String.concat "," (List.map tokz l))

let xs_line = function
  | ["new"; siz] -> let x = x_create (nat (int_of_string siz)) in xs := Some x; xu := xu_new; xu_seen := 0; "ok" ^ xs_state x
  | ["empty"] -> let x = x_create aUNIT in xs := Some x; xu := xu_new; xu_seen := 0; "ok" ^ xs_state x
  | ["palloc"; s; v] ->
    let txt = fmt_sd s (int_of_string v) in
    let x = x_printf_alloc txt in
    "v=" ^ hex_of_bytes (x_data x) ^ " us=" ^ (if ion x.x_asize >= List.length txt + 1 && x_term x = Z0 then "1" else "0")
  | ["newprintf"; s; v] -> "c" ^ xs_state (x_new_printf (fmt_sd s (int_of_string v)))
  | op :: args ->
    (match !xs with
     | None -> "noxs"
     | Some x ->
       let fin (x', rc) = xs := Some x'; "rc=" ^ xrcs rc ^ xs_state x' in
       (match op, args with
        | "cat", [h] -> fin (x_cat x (bytes_of_hex h), X_OK)
        | "cat2", [h] -> fin (x_cat x (cstr (bytes_of_hex h)), X_OK)
        | "unshift", [h] -> fin (x_unshift x (bytes_of_hex h), X_OK)
        | "shift", [n] -> fin (x_shift x (nat (int_of_string n)), X_OK)
        | "pop", [n] -> fin (x_pop x (nat (int_of_string n)), X_OK)
        | "insert", [p; h] -> fin (x_insert x (nat (int_of_string p)) (bytes_of_hex h))
        | "printf", [s; v] -> fin (x_cat x (fmt_sd s (int_of_string v)), X_OK)
        | "iprintf", [p; s; v] -> fin (x_insert x (nat (int_of_string p)) (fmt_sd s (int_of_string v)))
        | "clear", [] -> fin (x_clear x, X_OK)
        | "clone", [] -> "c" ^ xs_state (x_clone x)
        | "wrap", [h; a] ->
          let asz = int_of_string a in
          let b = bytes_of_hex h in
          let l = min (List.length b) asz in
          let buf = List.init (max asz 1) (fun i -> if i < l then List.nth b i else z_of_int 170) in
          "c" ^ xs_state (x_wrap buf (nat l) (nat asz))
        | "setsize", [k; fill; tb] ->
          let k = int_of_string k and old = ion x.x_size in
          let x1 = x_set_size x (nat k) in
          let x2 = if k > old then x_poke x1 (nat old) (List.init (k - old) (fun _ -> z_of_int (int_of_string fill land 255)) @ [z_of_int (int_of_string tb land 255)]) else x1 in
          fin (x2, X_OK)
        | "cat2null", [] -> fin (x, X_OK)
        | "ud", [t; fn] ->
          let t = int_of_string t in
          xu := xu_set !xu (if t = 0 then None else Some (nat t)) (fn <> "0");
          "ok" ^ xu_tail !xu.xu_log
        | "udget", [] -> "v=" ^ tokz (xu_get !xu) ^ xu_tail !xu.xu_log
        | "uddetach", [] -> let (u', d) = xu_detach !xu in xu := u'; "v=" ^ tokz d ^ xu_tail u'.xu_log
        | "keepptr", [] ->
          let r = Printf.sprintf "d v=%s z=%d" (hex_of_bytes (x_data x)) (if x_term x = Z0 then 1 else 0) ^ xu_tail (xu_destroy !xu) in
          xs := None; xu := xu_new; xu_seen := 0; r
        | "destroy", [] -> let r = "d" ^ xu_tail (xu_destroy !xu) in xs := None; xu := xu_new; xu_seen := 0; r
        | _ -> "?"))
  | _ -> "?"

(* ---------------------------------------------------------------- pointer list *)
let pl : plist option ref = ref None
let hexi b = hex_of_bytes b   (* "-" for the empty item *)
let pl_brief = ref false
let pl_full l =
  Printf.sprintf " n=%d st=%d an=%d d=%s z=1" (ion l.pl_num) (ion l.pl_start) (ion l.pl_anum) (join "." hexi (pl_items l))
let pl_state l =
  if not !pl_brief then pl_full l else begin
    let n = ion l.pl_num in
    let live = List.map (function Some b -> b | None -> []) (take n (drop (ion l.pl_start) l.pl_arr)) in
    let c = List.fold_left (fun c b -> crc_bytes (crc_byte c ((List.length b) land 255)) b) 0xffffffff live in
    let hd = if n = 0 then "none" else hexi (List.hd live) in
    let tl = if n = 0 then "none" else hexi (List.nth live (n - 1)) in
    Printf.sprintf " n=%d st=%d an=%d crc=%08x hd=%s tl=%s z=1" n (ion l.pl_start) (ion l.pl_anum) (crc_fin c) hd tl
  end
let plrcs = function PL_OK -> "0" | PL_OOB -> "oob"
let slots = function Some b -> hexi b | None -> "nil"

let pl_line = function
  | ["new"; an] | ["newinit"; an] -> let l = pl_init (nat (int_of_string an)) in pl_brief := false; pl := Some l; "ok" ^ pl_state l
  | ["brief"; b] -> pl_brief := (int_of_string b <> 0); "ok"
  | op :: args ->
    (match !pl with
     | None -> "nopl"
     | Some l ->
       let fin (l', rc) = pl := Some l'; "rc=" ^ plrcs rc ^ pl_state l' in
       let finv (l', (rc, v)) = pl := Some l'; "rc=" ^ plrcs rc ^ " v=" ^ (if rc = PL_OK then slots v else "nil") ^ pl_state l' in
       (match op, args with
        | "push", [h] -> fin (pl_push l (bytes_of_hex h), PL_OK)
        | "unshift", [h] -> fin (pl_unshift l (bytes_of_hex h), PL_OK)
        | "pop", ([] | ["n"]) -> finv (pl_pop l)
        | "shift", ([] | ["n"]) -> finv (pl_shift l)
        | "rm", ([i] | [i; "n"]) -> finv (pl_remove l (nat (int_of_string i)))
        | "insert", [i; h] -> fin (pl_insert l (nat (int_of_string i)) (bytes_of_hex h))
        | "set", [i; h] -> fin (pl_set l (nat (int_of_string i)) (bytes_of_hex h))
        | "at", ([i] | [i; "n"]) ->
          let (rc, v) = pl_at l (nat (int_of_string i)) in
          "rc=" ^ plrcs rc ^ " v=" ^ (if rc = PL_OK then slots v else "nil") ^ " same=1"
        | "clone", [] -> "c" ^ pl_state (pl_clone l)
        | "sort", [] -> fin (pl_sort l, PL_OK)
        | "dump", [] -> "rc=0" ^ pl_full l
        | "destroy", [] -> pl := None; "d"
        | _ -> "?"))
  | _ -> "?"

(* ---------------------------------------------------------------- AVL tree *)
let av : tree ref = ref Leaf
let rec av_text = function
  | Leaf -> "."
  | Node (l, k, bf, r) -> Printf.sprintf "(%s %s %s %s)" (soz k) (soz bf) (av_text l) (av_text r)
(* io / ro / po come from the stepwise parent-pointer walks of UT/AvlWalk.v (iwavl_first/next/prev/last_in_order,
   iwavl_first/next_in_postorder), not from the recursive in-order function *)
let av_state t =
  let io = av_walk_fwd t in
  Printf.sprintf " n=%d t=%s pp=1 io=%s ro=%s" (ion (av_size t)) (av_text t) (join "," soz io) (join "," soz (av_walk_bwd t))
let optz = function Some z -> soz z | None -> "nil"
(* parent key of the node holding k: the nearest frame of the position the search reaches *)
let rec av_parent_of t k par =
  match t with
  | Leaf -> None
  | Node (l, x, _, r) -> if Z.ltb k x then av_parent_of l k (Some x) else if Z.ltb x k then av_parent_of r k (Some x) else Some par

let av_line = function
  | ["new"] -> av := Leaf; "ok"
  | ["destroy"] -> let t = !av in av := Leaf; "d po=" ^ join "," soz (av_walk_post t)
  | ["post"] -> Printf.sprintf "io=%s ro=%s po=%s" (join "," soz (av_walk_fwd !av)) (join "," soz (av_walk_bwd !av)) (join "," soz (av_walk_post !av))
  | ["lookn"; k] ->
    let z = z_of_string k in
    let f = av_lookup !av z in
    Printf.sprintf "r=%d unl=1,0 par=%s" (if f then 1 else 0)
      (match av_parent_of !av z None with Some (Some p) -> soz p | _ -> "nil")
  | ["ins"; k] -> let (t, ex) = av_insert !av (z_of_string k) in av := t; (if ex then "r=1" else "r=0") ^ av_state t
  | ["rm"; k] -> let (t, was) = av_remove !av (z_of_string k) in av := t; (if was then "r=1" else "r=0") ^ av_state t
  | ["find"; k] ->
    let z = z_of_string k in
    let (lb, ub) = av_bounds !av z in
    Printf.sprintf "r=%d lb=%s ub=%s" (if av_lookup !av z then 1 else 0) (optz lb) (optz ub)
  | _ -> "?"

(* ---------------------------------------------------------------- memory pool (allocation arithmetic only) *)
let po : pool option ref = ref None   (* None: no pool, or the model lost track (split_string / after destroy) *)
let po_state p = Printf.sprintf " us=%d as=%d units=%d" (ion p.p_usiz) (ion p.p_asiz) (List.length p.p_units)
let po_where (u, off) = Printf.sprintf " unit=%d off=%d in=1 al=1" (ion u) (ion off)
let hexlen h = if h = "-" then 0 else String.length h / 2

let po_line = function
  | ["new"; siz] -> let p = p_create (nat (int_of_string siz)) in po := Some p; "ok" ^ po_state p
  | ["newempty"] -> po := Some p_create_empty; "ok" ^ po_state p_create_empty
  | op :: args ->
    (match !po with
     | None -> "nomodel"
     | Some p ->
       (match op, args with
        | ("alloc" | "calloc"), [n] ->
          let n = int_of_string n in
          if p.p_units = [] && n = 0 then "p=0 z=1 unit=-1" ^ po_state p   (* iwpool_alloc(0) of an empty pool: NULL *)
          else
            let (p', w) = p_alloc p (nat n) in
            po := Some p'; "p=1 z=1" ^ po_where w ^ po_state p'
        | ("allocbig" | "callocbig" | "strndupbig"), [n] ->
          (* size_t requests near SIZE_MAX (UT/PoolBig.v); guard = true is the code since fix 435f237, the unguarded variant stays
             only for the refutation theorem *)
          let guard = true in
          let z = z_of_string n in
          let (p', r) = (match op with
            | "allocbig" -> p_alloc_z guard p z
            | "callocbig" -> let ((p', r), _) = p_calloc_z guard p z in (p', r)
            | _ -> let ((p', r), _) = p_strndup_z guard p z in (p', r)) in
          po := Some p';
          (match r with
           | ZNull -> "p=0 unit=-1"
           | ZZero (u, off) -> if p'.p_units = [] then "p=0 unit=-1" else "p=1" ^ po_where (u, off)
           | ZOk w -> "p=1" ^ po_where w) ^ po_state p'
        | "strdup", [h] ->
          let (p', w) = p_strndup p (nat (hexlen h)) in
          po := Some p'; "rc=0 v=" ^ h ^ po_where w ^ po_state p'
        | "printf", [h; v] ->
          let txt = fmt_sd h (int_of_string v) in
          let (p', _) = p_alloc p (nat (List.length txt + 1)) in
          po := Some p'; "v=" ^ hex_of_bytes txt ^ po_state p'
        | "cstrarr", [l] ->
          if l = "none" then "v=null" ^ po_state p
          else
            let items = String.split_on_char '.' l in
            let (p', _) = p_cstrarr p (List.map (fun h -> nat (hexlen h)) items) in
            po := Some p'; "v=" ^ l ^ " term=1" ^ po_state p'
        | "printfva", [h; v] ->
          let txt = fmt_sd h (int_of_string v) in
          let (p', _) = p_alloc p (nat (List.length txt + 1)) in
          po := Some p'; "v=" ^ hex_of_bytes txt ^ po_state p'
        | "strdupx", [k; h] ->
          (* iwpool_strdup / strdup2 stop at the first NUL byte (strlen), iwpool_strndup2 copies len bytes *)
          let b = bytes_of_hex h in
          let s = cstr b in
          let len = if k = "0" then List.length b else List.length s in
          let (p', w) = p_strndup p (nat len) in
          po := Some p'; "rc=0 v=" ^ hex_of_bytes s ^ po_where w ^ po_state p'
        | "split", [h; sc; ws] ->
          let hay = cstr (bytes_of_hex h) and seps = cstr (bytes_of_hex sc) in
          let (toks, flt) = split_string hay seps (ws <> "0") in
          let (p', _) = p_split p hay seps (ws <> "0") in
          po := Some p';
          "v=" ^ (if toks = [] then "none" else String.concat "." (List.map hex_of_bytes toks)) ^ (if flt then " FAULT" else "") ^ po_state p'
        | "psplit", [h; v; sc; ws] ->
          let hay = fmt_sd h (int_of_string v) and seps = cstr (bytes_of_hex sc) in
          let (toks, flt) = split_string hay seps (ws <> "0") in
          let (p', _) = p_split p hay seps (ws <> "0") in
          po := Some p';
          "v=" ^ (if toks = [] then "none" else String.concat "." (List.map hex_of_bytes toks)) ^ (if flt then " FAULT" else "") ^ po_state p'
        | "destroy", _ -> "nomodel"
        | _ -> "nomodel"))
  | _ -> "?"

(* ---------------------------------------------------------------- pool forest: hierarchy x reference counting (UT/Pforest.v) *)
let pf : forest ref = ref f_empty
let pf_strs : (int, z list list) Hashtbl.t = Hashtbl.create 16   (* driver bookkeeping for `chk`: strings put into pool id *)
let oid = function None -> "-" | Some i -> string_of_int (ion i)
let pf_ptr f = function None -> "-" | Some i -> if live f i then string_of_int (ion i) else "!"
(* the child chain as the harness walks it: stops at the first pointer that is not a live pool *)
let pf_kids f (c : cell) =
  let rec go o n acc =
    match o with
    | None -> List.rev acc
    | Some i ->
      if n > 600 then List.rev ("~" :: acc)
      else (match get f i with
            | None -> List.rev ("!" :: acc)
            | Some cc -> go cc.c_next (n + 1) (string_of_int (ion i) :: acc)) in
  match go c.c_children 0 [] with [] -> "-" | l -> String.concat "," l
let pf_events f n0 =
  let evs = drop n0 f.f_log in
  let tok = function
    | EUnits (_, n) -> let k = ion n in if k = 0 then [] else ["b" ^ string_of_int (2 * k)]
    | EUd (_, t) -> ["d" ^ (match t with None -> "0" | Some t -> string_of_int (ion t))]
    | EFree i -> ["f" ^ string_of_int (ion i)] in
  match List.concat_map tok evs with [] -> "-" | l -> String.concat "," l
let pf_tail f n0 =
  let b = Buffer.create 256 in
  Buffer.add_string b (" ev=" ^ pf_events f n0 ^ (if f.f_fault then " FAULT" else "") ^ " |");
  List.iteri (fun i s ->
    match s with
    | Freed -> ()
    | Live c ->
      Buffer.add_string b (Printf.sprintf " %d:%s:%s:%s:%s:%d:%d:%d:%s:%d" i (soz c.c_refs) (pf_ptr f c.c_parent) (pf_kids f c)
        (pf_ptr f c.c_next) (ion c.c_pool.p_usiz) (ion c.c_pool.p_asiz) (List.length c.c_pool.p_units)
        (match c.c_ud with None -> "0" | Some t -> string_of_int (ion t)) (if c.c_udfn then 1 else 0))) f.f_slots;
  Buffer.contents b
let pf_live i = live !pf (nat i)
let pf_do res f' = let n0 = List.length !pf.f_log in pf := f'; res ^ pf_tail f' n0
let pf_pool siz = if siz = "e" then p_create_empty else p_create (nat (int_of_string siz))
let pf_tok t = let t = int_of_string t in if t = 0 then None else Some (nat t)

let pf_line = function
  | ["reset"] -> pf := f_empty; Hashtbl.reset pf_strs; "ok"
  | ["new"; siz] -> let (f', r) = f_create !pf (pf_pool siz) in pf_do ("id=" ^ string_of_int (ion r)) f'
  | ["attach"; q; siz] ->
    if q <> "nil" && not (pf_live (int_of_string q)) then "dead"
    else
      let (f', r) = f_attach !pf (if q = "nil" then None else Some (nat (int_of_string q))) (pf_pool siz) in
      pf_do ("id=" ^ string_of_int (ion r)) f'
  | ["destroy"; "nil"] -> pf_do "r=0" !pf
  | ["drain"] -> pf_do "ok" (f_drain !pf)
  | ["end"] ->
    let n = List.length (List.filter (function Live _ -> true | Freed -> false) !pf.f_slots) in
    let r = Printf.sprintf "live=%d dirty=0" n in
    pf := f_empty; Hashtbl.reset pf_strs; r
  | op :: id :: args ->
    let i = int_of_string id in
    if not (pf_live i) then "dead"
    else
      let p = nat i in
      (match op, args with
       | "ref", [] -> let (f', n) = f_ref !pf p in pf_do ("refs=" ^ soz n) f'
       | "destroy", [] -> let (f', r) = f_destroy !pf p in pf_do (if r then "r=1" else "r=0") f'
       | "freefn", [] -> let (f', _) = f_destroy !pf p in pf_do "r=-" f'
       | "alloc", [n] ->
         let n = int_of_string n in
         (match get !pf p with
          | Some c when c.c_pool.p_units = [] && n = 0 -> pf_do "p=0 unit=-1" !pf
          | _ -> let (f', w) = f_alloc !pf p (nat n) in pf_do ("p=1" ^ po_where w) f')
       | "put", [h] ->
         let (f', w) = f_alloc !pf p (nat (hexlen h + 1)) in
         Hashtbl.replace pf_strs i ((try Hashtbl.find pf_strs i with Not_found -> []) @ [bytes_of_hex h]);
         pf_do ("v=" ^ h ^ po_where w) f'
       | "chk", [] ->
         let l = try Hashtbl.find pf_strs i with Not_found -> [] in
         let c = List.fold_left crc_bytes 0xffffffff l in
         pf_do (Printf.sprintf "n=%d t=1 crc=%08x" (List.length l) (crc_fin c)) !pf
       | "ud", [t; fn] -> pf_do "ok" (f_ud_set !pf p (pf_tok t) (fn <> "0"))
       | "udget", [] -> let (f', t) = f_ud_get !pf p in pf_do ("ud=" ^ (match t with None -> "0" | Some t -> string_of_int (ion t))) f'
       | "uddetach", [] -> let (f', t) = f_ud_detach !pf p in pf_do ("ud=" ^ (match t with None -> "0" | Some t -> string_of_int (ion t))) f'
       | _ -> "?")
  | _ -> "?"

let handle = function
  | "hm" :: r -> hm_line r
  | "ul" :: r -> ul_line r
  | "sa" :: r -> sa_line r
  | "rb" :: r -> rb_line r
  | "xs" :: r -> xs_line r
  | "pl" :: r -> pl_line r
  | "av" :: r -> av_line r
  | "po" :: r -> po_line r
  | "pf" :: r -> pf_line r
  | [] -> ""
  | _ -> "?"
let () = main_loop handle
