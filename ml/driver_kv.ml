(* model side of the KV line protocol (see harness/h_kv.c) *)
let ndb = 8
let rdonly = ref false
let dbs : db option array = Array.make ndb None
let curdb = Array.make 8 (-1)
let mode s = { km_vnum = s.[0] = '1'; km_real = s.[1] = '1'; km_compound = s.[2] = '1' }
let rcn = function
  | ROk -> "OK" | RNotFound -> "NOTFOUND" | RKeyExists -> "KEY_EXISTS" | RMaxKvSz -> "MAXKVSZ"
  | RKeyNumValueSize -> "KEY_NUM_VALUE_SIZE" | ROverflow -> "OVERFLOW" | RInvalidArgs -> "INVALID_ARGS"
  | RCannotIncrement -> "CANNOT_INCREMENT" | RHandlerError -> "HANDLER_ERROR"
let getdb s = match dbs.(s) with Some d -> d | None -> failwith "nodb"
let key_str m k = let (b, c) = api_key m k in hex_of_bytes b ^ ":" ^ string_of_z c
let rec take n l = if n <= 0 then [] else match l with [] -> [] | x :: r -> x :: take (n - 1) r
let dump_str d rev =
  let l = flat d.d_chain in
  let l = if rev then List.rev l else l in
  "OK" ^ String.concat "" (List.map (fun (k, v) -> " " ^ key_str d.d_mode k ^ "=" ^ hex_of_bytes v) l)
let drop_cursors () =
  Array.iteri (fun i d -> match d with Some d0 -> dbs.(i) <- Some (with_curs d0 []) | None -> ()) dbs;
  Array.fill curdb 0 8 (-1)
let optkey tl = match tl with [k; c] -> Some (bytes_of_hex k, z_of_string c) | _ -> None
let handle = function
  | "db" :: s :: _ :: md :: _ ->
    let s = int_of_string s in
    (match dbs.(s) with
     | Some d -> "OK"
     | None -> dbs.(s) <- Some (db_empty (mode md)); "OK")
  | ["dbdestroy"; s] -> drop_cursors (); dbs.(int_of_string s) <- None; "OK"
  | ("sync" | "checkpoint") :: _ -> drop_cursors (); "-"
  | ("put" | "putbig" | "putkbig" | "del" | "cset" | "cdel") :: _ when !rdonly -> "READONLY"
  | "put" :: s :: k :: c :: v :: fl :: rest ->
    let s = int_of_string s in
    let ph = (match rest with [p] -> p | _ -> "0") in
    let (r, d) = db_put (getdb s) (bytes_of_hex k) (z_of_string c) (bytes_of_hex v) (z_of_string fl) (z_of_string ph) in
    dbs.(s) <- Some d; rcn r
  | ["putbig"; s; k; c; sz] ->
    (* only the size matters: the model is asked with a value of that length only when it is rejected *)
    let s = int_of_string s in
    let d = getdb s in
    (match eff_key d.d_mode (bytes_of_hex k) (z_of_string c) with
     | (ROk, ek) ->
       let ks = stored_size d.d_mode ek in
       if Z.compare (Z.add (Z.add (iW_VNUMSIZE ks) ks) (z_of_string sz)) (z_of_int 0xfffffff) = Gt then "MAXKVSZ" else "UNMODELLED"
     | (e, _) -> rcn e)
  | ["putkbig"; s; _; c; ksz; v] ->
    (* a key of ksz bytes (byte-key modes only): only the sizes matter, the model answers when the pair is rejected *)
    let d = getdb (int_of_string s) in
    let ks = Z.add (z_of_string ksz) (if d.d_mode.km_compound then iW_VNUMSIZE (z_of_string c) else Z0) in
    if Z.compare (Z.add (Z.add (iW_VNUMSIZE ks) ks) (z_of_int (List.length (bytes_of_hex v)))) (z_of_int 0xfffffff) = Gt then "MAXKVSZ" else "UNMODELLED"
  | ["get"; s; k; c] ->
    let (r, v) = db_get (getdb (int_of_string s)) (bytes_of_hex k) (z_of_string c) in
    if r = ROk then "OK " ^ hex_of_bytes v else rcn r ^ " -"
  | ["getcopy"; s; k; c; bs] ->
    let (r, v) = db_get (getdb (int_of_string s)) (bytes_of_hex k) (z_of_string c) in
    if r = ROk then Printf.sprintf "OK %d %s" (List.length v) (hex_of_bytes (take (int_of_string bs) v))
    else rcn r ^ " 0 -"
  | ["del"; s; k; c] ->
    let s = int_of_string s in
    let (r, d) = db_del (getdb s) (bytes_of_hex k) (z_of_string c) in
    dbs.(s) <- Some d; rcn r
  | "copen" :: c :: s :: op :: tl ->
    let c = int_of_string c and s = int_of_string s in
    (* a cursor slot belongs to one db; reopening closes the previous cursor *)
    (if curdb.(c) >= 0 && curdb.(c) <> s then
       (match dbs.(curdb.(c)) with Some d0 -> dbs.(curdb.(c)) <- Some (with_curs d0 (cur_del d0.d_curs (nat_of_int c))) | None -> ()));
    let (r, d) = db_copen (getdb s) (nat_of_int c) (z_of_string op) (optkey tl) in
    dbs.(s) <- Some d; curdb.(c) <- (if r = ROk then s else -1); rcn r
  | ["cto"; c; op] ->
    let c = int_of_string c in
    if curdb.(c) < 0 then "INVALID_ARGS" else
    let s = curdb.(c) in
    let (r, d) = db_cto (getdb s) (nat_of_int c) (z_of_string op) None in
    dbs.(s) <- Some d; rcn r
  | ["ctokey"; c; op; k; comp] ->
    let c = int_of_string c in
    if curdb.(c) < 0 then "INVALID_ARGS" else
    let s = curdb.(c) in
    let (r, d) = db_cto (getdb s) (nat_of_int c) (z_of_string op) (Some (bytes_of_hex k, z_of_string comp)) in
    dbs.(s) <- Some d; rcn r
  | [("cget" | "ckey" | "cval") as op; c] ->
    let c = int_of_string c in
    if curdb.(c) < 0 then "INVALID_ARGS -" else
    let d = getdb curdb.(c) in
    (match db_cread d (nat_of_int c) with
     | Some (k, v) -> "OK " ^ (if op = "cget" then key_str d.d_mode k ^ "=" ^ hex_of_bytes v
                                else if op = "ckey" then key_str d.d_mode k else hex_of_bytes v)
     | None -> "NOTFOUND -")
  | ["ccopyval"; c; bs] ->
    let c = int_of_string c in
    if curdb.(c) < 0 then "INVALID_ARGS 0 -" else
    (match db_ccopyval (getdb curdb.(c)) (nat_of_int c) (nat_of_int (int_of_string bs)) with
     | Some (len, out) -> Printf.sprintf "OK %d %s" (int_of_nat len) (hex_of_bytes out)
     | None -> "NOTFOUND 0 -")
  | ["ccopykey"; c; bs] ->
    let c = int_of_string c in
    if curdb.(c) < 0 then "INVALID_ARGS 0 0 -" else
    (match db_ccopykey (getdb curdb.(c)) (nat_of_int c) (nat_of_int (int_of_string bs)) with
     | Some ((len, comp), out) -> Printf.sprintf "OK %d %s %s" (int_of_nat len) (string_of_z comp) (hex_of_bytes out)
     | None -> "NOTFOUND 0 0 -")
  | ["cmatch"; c; k; comp] ->
    let c = int_of_string c in
    if curdb.(c) < 0 then "INVALID_ARGS 0 0" else
    let d = getdb curdb.(c) in
    (match db_cread d (nat_of_int c), db_cmatch d (nat_of_int c) (bytes_of_hex k) with
     | Some (k0, _), Some r -> let (_, cp) = api_key d.d_mode k0 in
       Printf.sprintf "OK %d %s" (if r then 1 else 0)
         (if d.d_mode.km_compound || d.d_mode.km_vnum then string_of_z cp else "0")
     | _, _ -> "NOTFOUND 0 0")
  | ["cmatchself"; c; w] ->
    let c = int_of_string c in
    if curdb.(c) < 0 then "INVALID_ARGS 0 0" else
    let d = getdb curdb.(c) in
    (match db_cread d (nat_of_int c) with
     | Some (k0, _) -> let (b, cp) = api_key d.d_mode k0 in
       if w = "4" && List.length b = 8 && Z.compare (le_decode b) (z_of_string "2147483647") = Gt then "SKIP" else
       let kb = if w = "4" && List.length b = 8 then take 4 b else b in
       (match db_cmatch d (nat_of_int c) kb with
        | Some r -> Printf.sprintf "OK %d %s" (if r then 1 else 0) (if d.d_mode.km_compound || d.d_mode.km_vnum then string_of_z cp else "0")
        | None -> "NOTFOUND 0 0")
     | None -> "NOTFOUND 0 0")
  | ["cset"; c; v; _] ->
    let c = int_of_string c in
    if curdb.(c) < 0 then "INVALID_ARGS" else
    let s = curdb.(c) in
    let (r, d) = db_cset (getdb s) (nat_of_int c) (bytes_of_hex v) in
    dbs.(s) <- Some d; rcn r
  | ["cdel"; c] ->
    let c = int_of_string c in
    if curdb.(c) < 0 then "INVALID_ARGS" else
    let s = curdb.(c) in
    let (r, d) = db_cdel (getdb s) (nat_of_int c) in
    dbs.(s) <- Some d; rcn r
  | ["cclose"; c] ->
    let c = int_of_string c in
    (if curdb.(c) >= 0 then
       (match dbs.(curdb.(c)) with Some d0 -> dbs.(curdb.(c)) <- Some (with_curs d0 (cur_del d0.d_curs (nat_of_int c))) | None -> ()));
    curdb.(c) <- -1; "OK"
  | ["cpeek"; c] ->
    let c = int_of_string c in
    if curdb.(c) < 0 then "none" else
    (match cur_get (getdb curdb.(c)).d_curs (nat_of_int c) with
     | None -> "none"
     | Some cu ->
       (match cu.c_cn with
        | None -> Printf.sprintf "nocn pos=%d skip=%d dbaddr=%d" (int_of_nat cu.c_pos) (int_of_z cu.c_skip)
                    (match cu.c_pend with PNone -> 0 | PHead -> 1 | PTail -> -1)
        | Some cc -> Printf.sprintf "cn pos=%d skip=%d pnum=%d db=%d" (int_of_nat cu.c_pos) (int_of_z cu.c_skip)
                       (int_of_nat cc.cc_pnum) (match cc.cc_node with CnNode _ -> 0 | _ -> 1)))
  | ["skiplower"; s; k; c; top; lv] ->
    (* the multi-level search of KV/Skip.v on the model's chain with the levels the implementation reports *)
    let d = getdb (int_of_string s) in
    (match eff_key d.d_mode (bytes_of_hex k) (z_of_string c) with
     | (ROk, ek) ->
       let lvs = if lv = "-" then [] else List.map int_of_string (String.split_on_char ',' lv) in
       if List.length lvs <> List.length d.d_chain then "LEVELS?" else
       let ln = List.map2 (fun (id, r) l -> ((id, nat_of_int l), r)) d.d_chain lvs in
       (match skip_lower (cmp_of d.d_mode) (nat_of_int (int_of_string top)) ln ek with
        | None -> "OK idx=-1"
        | Some ((id, _), _) ->
          let rec find i = function [] -> -2 | (j, _) :: r -> if j = id then i else find (i + 1) r in
          Printf.sprintf "OK idx=%d" (find 0 d.d_chain))
     | (e, _) -> rcn e)
  | ["dump"; s] -> dump_str (getdb (int_of_string s)) false
  | ["rdump"; s] -> dump_str (getdb (int_of_string s)) true
  | ["struct"; s] ->
    let d = getdb (int_of_string s) in
    "S" ^ String.concat "" (List.map (fun n -> "|" ^ String.concat "," (List.map hex_of_bytes (node_keys d.d_mode n))) d.d_chain)
  | "open" :: _ :: _ :: rd :: _ ->
    rdonly := (rd = "1"); drop_cursors (); "-"
  | ("close" | "open") :: _ ->
    (* cursors do not survive a close; databases keep their contents *)
    Array.iteri (fun i d -> match d with Some d0 -> dbs.(i) <- Some (with_curs d0 []) | None -> ()) dbs;
    Array.fill curdb 0 8 (-1); "-"
  | [] -> ""
  | _ -> "-"
let () = main_loop handle
