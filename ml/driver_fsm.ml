(* C10/C11 driver: the extracted allocator model on the line protocol of harness/h_fsm.c.
   argv[1] = code variant "LSYZRHKXO": L=1 model of the code after fixes/fsm-lfbk.diff, S=1 after fixes/fsm-strict-dealloc.diff,
   Y=1 after fixes/fsm-syncbmap.diff, Z=1 after fixes/fsm-dealloc-short.diff, R=1 after fixes/fsm-realloc-guard.diff,
   H=1 after fixes/fsm-alloc-overflow.diff, K=1 after fixes/fsm-resize-leak.diff,
   X=1 after fixes/fsm-realloc-recheck.diff, O=1 after fixes/fsm-solid-rollback.diff.
   `maxoff n` sets opts->exfile.maxoff for the opens that follow (0 = none), as in harness/h_fsm.c. *)
let arg = (if Array.length Sys.argv > 1 then Sys.argv.(1) else "") ^ "000000000"
let vr mm = { fx_lfbk = (arg.[0] = '1'); fx_strict = (arg.[1] = '1'); fx_sync = (arg.[2] = '1'); fx_short = (arg.[3] = '1');
              fx_realloc = (arg.[4] = '1'); fx_hint = (arg.[5] = '1'); fx_leak = (arg.[6] = '1'); fx_recheck = (arg.[7] = '1'); fx_solid = (arg.[8] = '1'); mmap_all = mm }
let omaxoff = ref Z0
let cur : fsm option ref = ref None      (* open file *)
let left : fsm option ref = ref None     (* what close left on disk *)
let notrim = ref false
let zs = string_of_z
let zi s = z_of_string s

let rle (l : bool list) : string =
  let b = Buffer.create 256 in
  let first = ref true in
  let put n = (if !first then first := false else Buffer.add_char b '.'); Buffer.add_string b (string_of_int n) in
  let rec go l c n = match l with
    | [] -> put n
    | x :: t -> if x = c then go t c (n + 1) else (put n; go t x 1) in
  go l true 0; Buffer.contents b

let state s =
  let t = tree s in
  let ts = if t = [] then "-" else String.concat "," (List.map (fun (l, o) -> zs o ^ ":" ^ zs l) t) in
  Printf.sprintf " | T=%s n=%d L=%s:%s B=%s M=%s:%s:%s:%s F=%s S=%s:%s" ts (List.length t) (zs (lfbkoff s)) (zs (lfbklen s))
    (rle (bm s)) (zs (bmoff s)) (zs (bmlen s)) (zs (hdrlen s)) (zs (bpow s)) (zs (fsize s)) (zs (crznum s)) (zs (crzsum s))
(* what _fsm_write_meta_lw wrote last: bitmap offset/length and the allocation counters in the file header *)
let hdr s = Printf.sprintf "H=%s:%s:%s:%s" (zs (p_bmoff s)) (zs (p_bmlen s)) (zs (p_crznum s)) (zs (p_crzsum s))
let ovr_of = function [] -> false | x :: _ -> x = "1"
let bits_of_hex h = bits_of_words (
  let bytes = Array.of_list (List.map int_of_z (bytes_of_hex h)) in
  let n = Array.length bytes / 8 in
  List.init n (fun i ->
    let acc = ref Z0 in
    for k = 7 downto 0 do acc := Z.add (Z.mul !acc (z_of_int 256)) (z_of_int bytes.(8 * i + k)) done; !acc))
let words_of_hex h =
  let bytes = Array.of_list (List.map int_of_z (bytes_of_hex h)) in
  let n = Array.length bytes / 8 in
  List.init n (fun i ->
    let acc = ref Z0 in
    for k = 7 downto 0 do acc := Z.add (Z.mul !acc (z_of_int 256)) (z_of_int bytes.(8 * i + k)) done; !acc)
let optz = function Some r -> "1 " ^ zs r | None -> "0"

let handle toks =
  match toks, !cur with
  | [], _ -> ""
  | ["open"; bp; hl; bl; st; nt; mm], _ ->
    notrim := (nt = "1"); left := None;
    let (rc, s) = open_new_max (vr (mm = "1")) (zi bp) (zi hl) (zi bl) !omaxoff (st = "1") in
    if rc = Z0 then (cur := Some s; zs rc ^ state s) else (cur := None; zs rc ^ " | closed")
  | ["maxoff"; n], _ -> omaxoff := zi n; "ok"
  | ["reopen"; st; nt; mm], None ->
    (match !left with
     | None -> "?nothing-to-reopen"
     | Some s0 -> notrim := (nt = "1"); let s = reopen s0 (st = "1") (mm = "1") in cur := Some s;
       (* a header that does not name the bitmap area in use at close: the bits found there are not modelled *)
       if hdr_current s0 then "0" ^ state s
       else Printf.sprintf "?stale-header H=%s:%s M=%s:%s" (zs (p_bmoff s0)) (zs (p_bmlen s0)) (zs (bmoff s0)) (zs (bmlen s0)))
  | ["reopen"; _; _; _], Some _ -> "?already-open"
  | ["fnext"; h; o; m], _ ->
    let a = find_next_set_bit (bits_of_hex h) (zi o) (zi m) and b = w_find_next (words_of_hex h) (zi o) (zi m) in
    if a = b then optz a else "LEVELS-DISAGREE bits=" ^ optz a ^ " words=" ^ optz b
  | ["fprev"; h; o; m], _ ->
    let a = find_prev_set_bit (bits_of_hex h) (zi o) (zi m) and b = w_find_prev (words_of_hex h) (zi o) (zi m) in
    if a = b then optz a else "LEVELS-DISAGREE bits=" ^ optz a ^ " words=" ^ optz b
  | ["ffs"; x], _ -> zs (ffs64 (zi x)) ^ " " ^ zs (reverse64 (zi x))
  | ["hdr"], None -> (match !left with None -> "?nothing" | Some s -> hdr s)
  | ["hdr"], Some s -> hdr s
  | _, None -> "?closed"
  | "alloc" :: len :: hint :: fl :: rest, Some s ->
    let (((rc, s1), addr), olen) = allocate s (zi len) (zi hint) (zi fl) (ovr_of rest) in
    cur := Some s1;
    (if rc = Z0 then Printf.sprintf "0 %s %s" (zs addr) (zs olen) else zs rc) ^ state s1
  | "realloc" :: nlen :: addr :: olen :: fl :: rest, Some s ->
    let (((rc, s1), naddr), nolen) = reallocate s (zi nlen) (zi addr) (zi olen) (zi fl) (ovr_of rest) in
    cur := Some s1;
    (if rc = Z0 then Printf.sprintf "0 %s %s" (zs naddr) (zs nolen) else zs rc) ^ state s1
  | "free" :: addr :: len :: _, Some s ->
    let (rc, s1) = deallocate s (zi addr) (zi len) in cur := Some s1; zs rc ^ state s1
  | ["sbs"; off; len; v; chk], Some s ->   (* _fsm_set_bit_status_lw, FSM_BM_DRY_RUN: the range guard and the strict probe *)
    zs (fst (set_bit_status s (zi off) (zi len) (v <> "0") true (chk <> "0")))
  | "chk" :: addr :: len :: al :: _, Some s -> zs (check_allocation_status s (zi addr) (zi len) (al <> "0"))
  | ["w"; addr; len; _], Some s ->
    let (rc, s1) = write_op s (zi addr) (zi len) in cur := Some s1;
    (if rc = Z0 then "0 " ^ len else zs rc ^ " 0") ^ " " ^ zs (fsize s1)
  | ["r"; addr; len; _], Some s ->
    let rc = rw_status s (zi addr) (zi len) in
    if rc = Z0 then "0 " ^ len ^ " -1" else zs rc ^ " 0 -1"
  | ["clear"; tr], Some s -> let (rc, s1) = clear s (tr <> "0") in cur := Some s1; zs rc ^ state s1
  | ["sync"], Some s -> let s1 = sync s in cur := Some s1; "0" ^ state s1
  | ["close"], Some s ->
    let (rc, s1) = close s !notrim in cur := None; left := Some s1; zs rc ^ " " ^ zs (fsize s1)
  | l, _ -> "?"
let () = main_loop handle
