#!/bin/sh
# offline build of the framework: facts, full Coq build (.vo), extracted models, harnesses
cd "$(dirname "$0")" || exit 1
python3 tools/setup.py
