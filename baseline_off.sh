#!/bin/sh
# the repository's own test suite on a build WITHOUT the hook guard (plain cmake build as in BASELINE.json).
# ctest only sees the exit status of the 23 test programs; the CUnit summaries they print are checked too: no test and no
# assertion of any suite may have failed.
B=/tmp/iowow_baseline_off_$$
rm -rf "$B"
trap 'rm -rf "$B"' EXIT
cmake -G Ninja -S /repo -B "$B" -DBUILD_TESTS=ON -DCMAKE_BUILD_TYPE=RelWithDebInfo -DCMAKE_C_FLAGS=-Wno-error >/dev/null || exit 2
cmake --build "$B" >/dev/null || exit 2
ctest --test-dir "$B" -j8 --timeout 900 -V > "$B/out.txt" 2>&1
rc=$?
grep -E "Test +#|tests passed|tests failed" "$B/out.txt"
bad=$(grep -E "^[0-9]+: +(suites|tests|asserts) " "$B/out.txt" | awk '$6 != "0" && $6 != "n/a"' | wc -l)
run=$(grep -E "^[0-9]+: +tests " "$B/out.txt" | awk '{s += $3} END {print s + 0}')
echo "CUnit: $run tests run, $bad summary lines with failures"
[ "$bad" = "0" ] || rc=1
exit $rc
