#!/bin/sh
# the repository's own test suite on a build WITHOUT the hook guard (plain cmake build as in BASELINE.json)
set -e
B=/tmp/iowow_baseline_off_$$
rm -rf "$B"
cmake -G Ninja -S /repo -B "$B" -DBUILD_TESTS=ON -DCMAKE_BUILD_TYPE=RelWithDebInfo -DCMAKE_C_FLAGS=-Wno-error >/dev/null
cmake --build "$B" >/dev/null
ctest --test-dir "$B" -j8 --timeout 900
rc=$?
rm -rf "$B"
exit $rc
