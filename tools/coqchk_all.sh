#!/bin/bash
# Independent re-check of every compiled Properties_Cxx library and everything it depends on (coqchk), with the list of
# axioms the whole closure relies on.  Needs an up-to-date full build of coq/ (./check builds what it needs; a clean one:
# `cd coq && make clean && make -j16`).  About 6 minutes, 5 GB.  Output: notes/coqchk.txt
cd "$(dirname "$0")/../coq" || exit 2
mods=$(ls Properties_C*.v | sed 's/\.v$//; s/^/IW./' | tr '\n' ' ')
{ echo "coqchk -o -silent -Q . IW $mods"; echo "sources: /verif $(git -C .. rev-parse --short HEAD), /repo $(git -C /repo rev-parse --short HEAD)"; timeout 3000 coqchk -o -silent -Q . IW $mods; echo "exit=$?"; } > ../notes/coqchk.txt 2>&1
tail -15 ../notes/coqchk.txt
