import sys, os
sys.path.insert(0, os.path.dirname(os.path.abspath(__file__)))
import vlib
ok, out = vlib.coq_make(sys.argv[1:], keep_going=False)
print(out[-2500:])
print("OK" if ok else "FAILED")
