import sys, os, glob
sys.path.insert(0, os.path.dirname(os.path.abspath(__file__)))
import vlib
ok, msg = vlib.gen_facts()
print("facts:", msg)
if not ok:
    sys.exit(1)
vlib._coq_project()
ok, out = vlib.coq_make([], timeout=3000)
print(out[-3000:])
if not ok:
    print("coq build failed")
    sys.exit(1)
for e in sorted(glob.glob(os.path.join(vlib.COQ, "Extract_*.v"))):
    fam = os.path.basename(e)[len("Extract_"):-2]
    print("model", fam, vlib.build_model(fam))
for v in ("plain",):
    print("impl", v, vlib.build_impl(v))
for h in sorted(glob.glob(os.path.join(vlib.VERIF, "harness", "h_*.c"))):
    print("harness", vlib.build_harness(os.path.basename(h)[:-2]))
print("setup ok")
