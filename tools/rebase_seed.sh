#!/bin/bash
# usage: rebase_seed.sh <round> <id>: worktree at /repo HEAD with the seed's patch applied, run the check against it
R=$1; ID=$2; WT=/tmp/rb-$R-$ID
git -C /repo worktree remove --force $WT 2>/dev/null
git -C /repo worktree add -q --detach $WT HEAD || exit 2
git -C /tmp/s$R-$ID diff -- src > /tmp/rb-$R-$ID.diff
if ! git -C $WT apply /tmp/rb-$R-$ID.diff; then echo "$ID patch does not apply on HEAD"; git -C /repo worktree remove --force $WT; exit 3; fi
cd /verif; cp evidence/$ID.json /tmp/$ID.evid.save
VERIF_REPO=$WT VERIF_SEED=1 timeout 3000 ./check $ID --tier quick 2>&1 | tail -4 | cut -c1-260; echo "check_exit=${PIPESTATUS[0]}"
cp /tmp/$ID.evid.save evidence/$ID.json
git -C /repo worktree remove --force $WT
