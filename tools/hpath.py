import sys, os
sys.path.insert(0, os.path.dirname(os.path.abspath(__file__)))
import vlib
print(vlib.build_harness(sys.argv[1], sys.argv[2] if len(sys.argv) > 2 else "plain"))
