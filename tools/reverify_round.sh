#!/bin/bash
# re-run every round-6 seed, rebased on /repo HEAD, against the final checks
cd /verif
for i in $(seq -w 1 20); do
  ID=C$i; WT=/tmp/rb-6-$ID
  git -C /repo worktree remove --force $WT 2>/dev/null
  git -C /repo worktree add -q --detach $WT HEAD || { echo "$ID worktree failed"; continue; }
  git -C /tmp/s6-$ID diff -- src > /tmp/rb6-$ID.diff
  if ! git -C $WT apply --3way /tmp/rb6-$ID.diff >/dev/null 2>&1; then echo "== $ID patch does not apply on HEAD"; git -C /repo worktree remove --force $WT; continue; fi
  cp evidence/$ID.json /tmp/$ID.evid.save
  echo "== $ID"
  VERIF_REPO=$WT VERIF_SEED=1 timeout 3000 ./check $ID --tier quick 2>&1 | grep -v "^KNOWN" | tail -3 | cut -c1-220
  echo "check_exit=${PIPESTATUS[0]}"
  cp /tmp/$ID.evid.save evidence/$ID.json
  git -C /repo worktree remove --force $WT
done
