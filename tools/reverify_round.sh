#!/bin/bash
# usage: reverify_round.sh <round> [ids...]: re-run every seed of a round (seeded/round<N>/<id>/patch.diff), rebased on
# /repo HEAD in a scratch worktree, against the current checks.  Nothing else may run in /verif meanwhile (coq/Gen/Facts.v
# is regenerated per run).  Evidence files are restored afterwards: they must come from the clean tree.
R=${1:?round}; shift
IDS=${*:-$(cd /verif/seeded/round$R && ls)}
cd /verif
for ID in $IDS; do
  WT=/tmp/rb-$R-$ID; P=/verif/seeded/round$R/$ID/patch.diff
  [ -f $P ] || { echo "== $ID no patch"; continue; }
  git -C /repo worktree remove --force $WT 2>/dev/null
  git -C /repo worktree add -q --detach $WT HEAD || { echo "$ID worktree failed"; continue; }
  if ! git -C $WT apply --3way $P >/dev/null 2>&1; then echo "== $ID patch does not apply on HEAD"; git -C /repo worktree remove --force $WT; continue; fi
  cp evidence/$ID.json /tmp/$ID.evid.save
  echo "== $ID"
  VERIF_REPO=$WT VERIF_SEED=1 timeout 3000 ./check $ID --tier quick 2>&1 | grep -v "^KNOWN" | tail -3 | cut -c1-220
  echo "check_exit=${PIPESTATUS[0]}"
  cp /tmp/$ID.evid.save evidence/$ID.json
  git -C /repo worktree remove --force $WT
done
# leave Gen/Facts.v as the clean tree has it
python3 tools/gen_facts.py >/dev/null
