// T1 probe of the fsm family: constants of src/fs/iwfsmfile.c (file-local ones included) as Gallina definitions.
#include "fs/iwfsmfile.c"
#include "iwp.h"
#include "probe.h"
int main(void) {
  ZC(IWFSM_ALLOC_NO_OVERALLOCATE); ZC(IWFSM_ALLOC_NO_EXTEND); ZC(IWFSM_ALLOC_PAGE_ALIGNED); ZC(IWFSM_ALLOC_NO_STATS);
  ZC(IWFSM_SOLID_ALLOCATED_SPACE); ZC(IWFSM_SYNC_BMAP);
  ZC(IWFSM_CUSTOM_HDR_DATA_OFFSET); ZC(IWFSM_CLEAR_TRIM);
  ZC(IWFSM_NOLOCKS); ZC(IWFSM_STRICT); ZC(IWFSM_NO_TRIM_ON_CLOSE);
  ZC(FSM_MAX_BLOCK_POW); ZC(FSM_MAX_STATS_COUNT); ZC(FSM_BM_DRY_RUN); ZC(FSM_BM_STRICT);
  ZC(IWFS_ERROR_NO_FREE_SPACE); ZC(IWFS_ERROR_INVALID_BLOCK_SIZE); ZC(IWFS_ERROR_RANGE_NOT_ALIGNED);
  ZC(IWFS_ERROR_FSM_SEGMENTATION); ZC(IWFS_ERROR_INVALID_FILEMETA); ZC(IWFS_ERROR_PLATFORM_PAGE);
  ZC(IWFS_ERROR_RESIZE_FAIL); ZC(IWFS_ERROR_NOT_MMAPED);
  ZV("FSM_IW_ERROR_INVALID_ARGS", IW_ERROR_INVALID_ARGS); ZV("FSM_IW_ERROR_OUT_OF_BOUNDS", IW_ERROR_OUT_OF_BOUNDS);
  ZV("FSM_IW_ERROR_OVERFLOW", IW_ERROR_OVERFLOW);
  ZV("FSM_E_MAXOFF", IWFS_ERROR_MAXOFF); /* _exfile_ensure_size_lw / _exfile_write behind opts->exfile.maxoff */
  ZV("FSM_AUNIT", iwp_alloc_unit());
  ZV("FSM_DEFAULT_BPOW", 6 + 0 * sizeof(struct fsm)); /* literal of _fsm_init_impl, checked by T2 */
  ZV("FSM_BKEY_MAX", (uint32_t) -1);
  ZV("sizeof_fsm_bkey", sizeof(struct bkey));
  return 0;
}
