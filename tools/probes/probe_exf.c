// C12 facts: constants of the extensible file and of iwfile.h + behavioural flags of the current tree
// (which variant of _exfile_copy / iw_exfile_szpolicy_mul / iwp_copy_bytes / _exfile_acquire_mmap / iwfs_exfile_open the
// source implements; see notes/exf.md).
#include "iwcfg.h"
#include "iwexfile.h"
#include "iwp.h"
#include "iwlog.h"
#include "probe.h"
#include <stdlib.h>
#include <string.h>
#include <unistd.h>
#include <sys/wait.h>

static char path[128];
static FILE *devnull;
static IWLOG_DEFAULT_OPTS lo;
static IW_RNUM rn = { 3, 2 };

static iwrc xopen(IWFS_EXT *f, off_t isz, IW_EXT_RSPOLICY pol, void *ctx) {
  IWFS_EXT_OPTS o;
  memset(&o, 0, sizeof(o));
  o.file.path = path;
  o.file.omode = IWFS_OWRITE | IWFS_OCREATE | IWFS_OTRUNC;
  o.file.lock_mode = IWP_NOLOCK;
  o.initial_size = isz;
  o.rspolicy = pol;
  o.rspolicy_ctx = ctx;
  return iwfs_exfile_open(f, o.file.path ? &o : 0);
}

// run a scenario in a child process (it may crash); true iff it exits 0 within the time limit
static int child_ok(int (*fn)(void)) {
  fflush(stdout);
  pid_t p = fork();
  if (p < 0) return 0;
  if (p == 0) {
    alarm(10);
    _exit(fn() ? 0 : 1);
  }
  int st = 0;
  if (waitpid(p, &st, 0) != p) return 0;
  return WIFEXITED(st) && WEXITSTATUS(st) == 0;
}

// mul policy 3/2 on an empty file: is one byte granted?
static int sc_mul(void) {
  IWFS_EXT f;
  if (xopen(&f, 0, iw_exfile_szpolicy_mul, &rn)) return 0;
  iwrc rc = f.ensure_size(&f, 1);
  IWFS_EXT_STATE st;
  memset(&st, 0, sizeof(st));
  f.state(&f, &st);
  int ok = !rc && st.fsize >= 1;
  f.close(&f);
  return ok;
}

// copy whose destination lies beyond the end: does the logical size follow?
static int sc_copy_ensures(void) {
  IWFS_EXT f;
  size_t ps = iwp_alloc_unit(), sp;
  if (xopen(&f, (off_t) ps, 0, 0)) return 0;
  f.write(&f, 0, "abc", 3, &sp);
  iwrc rc = f.copy(&f, 0, 3, (off_t) (2 * ps));
  IWFS_EXT_STATE st;
  memset(&st, 0, sizeof(st));
  f.state(&f, &st);
  int ok = !rc && st.fsize >= (off_t) (2 * ps + 3);
  f.close(&f);
  return ok;
}

// copy whose source lies outside the first window while the destination is inside
static int sc_copy_src(void) {
  IWFS_EXT f;
  size_t ps = iwp_alloc_unit(), sp;
  char pat[16], got[16];
  for (int i = 0; i < 16; ++i) pat[i] = (char) (0x41 + i);
  if (xopen(&f, (off_t) (3 * ps), 0, 0)) return 0;
  if (f.add_mmap(&f, 0, ps, 0)) return 0;
  if (f.write(&f, (off_t) (2 * ps), pat, 16, &sp)) return 0;
  if (f.copy(&f, (off_t) (2 * ps), 16, 0)) return 0;
  memset(got, 0, sizeof(got));
  if (f.read(&f, 0, got, 16, &sp) || sp != 16) return 0;
  int ok = !memcmp(pat, got, 16);
  f.close(&f);
  return ok;
}

// forward-overlapping copy through the file (no window): carried out, or refused with IW_ERROR_OVERFLOW?
static int sc_copy_fwd(void) {
  IWFS_EXT f;
  size_t ps = iwp_alloc_unit(), sp;
  if (xopen(&f, (off_t) (3 * ps), 0, 0)) return 0;
  unsigned char *pat = malloc(2 * ps), *got = malloc(2 * ps);
  for (size_t i = 0; i < 2 * ps; ++i) pat[i] = (unsigned char) (i * 7 % 251 + 1);
  if (f.write(&f, 0, pat, 2 * ps, &sp)) return 0;
  if (f.copy(&f, 0, 2 * ps, (off_t) ps)) return 0;
  if (f.read(&f, (off_t) ps, got, 2 * ps, &sp) || sp != 2 * ps) return 0;
  int ok = !memcmp(pat, got, 2 * ps);
  f.close(&f);
  return ok;
}

// acquire_mmap of an offset without a window: is the read lock given back? (if not, the truncate below never returns
// and the alarm ends the child)
static int sc_acq_unlocks(void) {
  IWFS_EXT f;
  IWFS_EXT_OPTS o;
  memset(&o, 0, sizeof(o));
  o.file.path = path;
  o.file.omode = IWFS_OWRITE | IWFS_OCREATE | IWFS_OTRUNC;
  o.file.lock_mode = IWP_NOLOCK;
  o.initial_size = (off_t) iwp_alloc_unit();
  o.use_locks = true;
  if (iwfs_exfile_open(&f, &o)) return 0;
  uint8_t *mm = 0;
  size_t sp = 0;
  if (!f.acquire_mmap(&f, (off_t) (2 * iwp_alloc_unit()), &mm, &sp)) return 0;
  alarm(2);
  iwrc rc = f.truncate(&f, (off_t) (2 * iwp_alloc_unit()));
  alarm(0);
  f.close(&f);
  return !rc;
}

// a maximum offset below one page: rejected by the open, or silently "unlimited"?
static int sc_small_maxoff(void) {
  IWFS_EXT f;
  IWFS_EXT_OPTS o;
  memset(&o, 0, sizeof(o));
  o.file.path = path;
  o.file.omode = IWFS_OWRITE | IWFS_OCREATE | IWFS_OTRUNC;
  o.file.lock_mode = IWP_NOLOCK;
  o.maxoff = 100;
  iwrc rc = iwfs_exfile_open(&f, &o);
  if (!rc) f.close(&f);
  return rc != 0;
}

static void flag(const char *name, int v) {
  printf("Definition %s : bool := %s.\n", name, v ? "true" : "false");
}

int main(void) {
  ZV("EXF_PSIZE", iwp_alloc_unit());
  ZV("EXF_OFF_T_MAX", OFF_T_MAX);
  ZV("EXF_MMAP_PRIVATE", IWFS_MMAP_PRIVATE);
  ZV("EXF_E_OOB", IW_ERROR_OUT_OF_BOUNDS);
  ZV("EXF_E_NOT_ALIGNED", IW_ERROR_NOT_ALIGNED);
  ZV("EXF_E_OVERFLOW", IW_ERROR_OVERFLOW);
  ZV("EXF_E_IO", IW_ERROR_IO_ERRNO);
  ZV("EXF_E_ERRNO", IW_ERROR_ERRNO);
  ZV("EXF_E_READONLY", IW_ERROR_READONLY);
  ZV("EXF_E_INVARGS", IW_ERROR_INVALID_ARGS);
  ZV("EXF_E_NOT_EXISTS", IW_ERROR_NOT_EXISTS);
  ZV("EXF_OREAD", IWFS_OREAD);
  ZV("EXF_OWRITE", IWFS_OWRITE);
  ZV("EXF_OCREATE", IWFS_OCREATE);
  ZV("EXF_OTRUNC", IWFS_OTRUNC);
  ZV("EXF_OUNLINK", IWFS_OUNLINK);
  ZV("EXF_OTMP", IWFS_OTMP);
  ZV("EXF_OPEN_FAIL", IWFS_OPEN_FAIL);
  ZV("EXF_OPEN_NEW", IWFS_OPEN_NEW);
  ZV("EXF_OPEN_EXISTING", IWFS_OPEN_EXISTING);
  ZV("EXF_DEFAULT_OMODE", IWFS_DEFAULT_OMODE);
  ZV("EXF_DEFAULT_LOCKMODE", IWFS_DEFAULT_LOCKMODE);
  ZV("EXF_DEFAULT_FILEMODE", IWFS_DEFAULT_FILEMODE);
  ZV("EXF_NOLOCK", IWP_NOLOCK);
  ZV("EXF_RLOCK", IWP_RLOCK);
  ZV("EXF_WLOCK", IWP_WLOCK);
  ZV("EXF_NBLOCK", IWP_NBLOCK);
  ZV("EXF_SIZEOF_OMODE", sizeof(iwfs_omode));
  ZV("EXF_SIZEOF_LOCKMODE", sizeof(iwp_lockmode));
  ZV("EXF_E_MAXOFF", IWFS_ERROR_MAXOFF);
  ZV("EXF_E_POLFAIL", IWFS_ERROR_RESIZE_POLICY_FAIL);
  ZV("EXF_E_OVERLAP", IWFS_ERROR_MMAP_OVERLAP);
  ZV("EXF_E_NOTMM", IWFS_ERROR_NOT_MMAPED);
  ZV("EXF_SIZEOF_RNUM_N", sizeof(((IW_RNUM*) 0)->n));
  snprintf(path, sizeof(path), "/tmp/exf-probe-%ld.dat", (long) getpid());
  iwlog_init();
  devnull = fopen("/dev/null", "w");
  if (devnull) {
    lo.out = devnull;
    iwlog_set_logfn(0, &lo);
  }
  int m = child_ok(sc_mul), e = child_ok(sc_copy_ensures), s = child_ok(sc_copy_src);
  int fw = child_ok(sc_copy_fwd), au = child_ok(sc_acq_unlocks), sm = child_ok(sc_small_maxoff);
  unlink(path);
  flag("EXF_MUL_GE_NSIZE", m);
  flag("EXF_COPY_ENSURES", e);
  flag("EXF_COPY_SRC_CHECKED", s);
  flag("EXF_COPY_FWD_OK", fw);
  flag("EXF_ACQ_FAIL_UNLOCKS", au);
  flag("EXF_SMALL_MAXOFF_REJECTED", sm);
  return 0;
}
