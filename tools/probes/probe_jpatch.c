// jpatch family (C15/C16): enum values the models of JSON Patch / Merge Patch depend on
#include "json/iwjson.h"
#include "json/iwbinn.h"
#include <string.h>
#include "probe.h"
int main(void) {
  ZV("JP_JBV_NONE", JBV_NONE); ZV("JP_JBV_NULL", JBV_NULL); ZV("JP_JBV_BOOL", JBV_BOOL); ZV("JP_JBV_I64", JBV_I64);
  ZV("JP_JBV_F64", JBV_F64); ZV("JP_JBV_STR", JBV_STR); ZV("JP_JBV_OBJECT", JBV_OBJECT); ZV("JP_JBV_ARRAY", JBV_ARRAY);
  ZV("JP_JBP_ADD", JBP_ADD); ZV("JP_JBP_REMOVE", JBP_REMOVE); ZV("JP_JBP_REPLACE", JBP_REPLACE); ZV("JP_JBP_COPY", JBP_COPY);
  ZV("JP_JBP_MOVE", JBP_MOVE); ZV("JP_JBP_TEST", JBP_TEST); ZV("JP_JBP_INCREMENT", JBP_INCREMENT);
  ZV("JP_JBP_ADD_CREATE", JBP_ADD_CREATE); ZV("JP_JBP_SWAP", JBP_SWAP);
  ZV("JP_ERR_PATH_NOTFOUND", JBL_ERROR_PATH_NOTFOUND); ZV("JP_ERR_PATCH_INVALID", JBL_ERROR_PATCH_INVALID);
  ZV("JP_ERR_PATCH_INVALID_OP", JBL_ERROR_PATCH_INVALID_OP); ZV("JP_ERR_PATCH_NOVALUE", JBL_ERROR_PATCH_NOVALUE);
  ZV("JP_ERR_PATCH_TARGET_INVALID", JBL_ERROR_PATCH_TARGET_INVALID); ZV("JP_ERR_PATCH_INVALID_VALUE", JBL_ERROR_PATCH_INVALID_VALUE);
  ZV("JP_ERR_PATCH_INVALID_ARRAY_INDEX", JBL_ERROR_PATCH_INVALID_ARRAY_INDEX); ZV("JP_ERR_PATCH_TEST_FAILED", JBL_ERROR_PATCH_TEST_FAILED);
  ZV("JP_ERR_JSON_POINTER", JBL_ERROR_JSON_POINTER); ZV("JP_ERR_CREATION", JBL_ERROR_CREATION);
  ZV("JP_ERR_INVALID_ARGS", IW_ERROR_INVALID_ARGS); ZV("JP_ERR_NOT_IMPLEMENTED", IW_ERROR_NOT_IMPLEMENTED);
  // behaviour of the binn object writer behind the write-back step of jbl_patch / jbl_merge_patch (_jbl_from_node_impl ->
  // binn_object_set_value2): the longest member name it stores, and whether a name that differs from a stored one only in
  // ASCII letter case is refused (coq/JSON/WriteBack.v: set_ok / key_clash)
  {
    static char key[512];
    memset(key, 'k', sizeof(key) - 1);
    int maxlen = 0;
    for (int len = 1; len <= 400; ++len) {
      binn obj, v;
      binn_create(&obj, BINN_OBJECT, 0, NULL);
      binn_init_item(&v);
      binn_set_int64(&v, 1);
      if (binn_object_set_value2(&obj, key, len, &v)) maxlen = len;
      binn_free(&v);
      binn_free(&obj);
    }
    ZV("JP_BINN_KEY_MAX", maxlen);
    binn obj, v;
    binn_create(&obj, BINN_OBJECT, 0, NULL);
    binn_init_item(&v);
    binn_set_int64(&v, 1);
    int a = binn_object_set_value2(&obj, "name", 4, &v);
    int b = binn_object_set_value2(&obj, "Name", 4, &v);      // case-only twin
    int c = binn_object_set_value2(&obj, "namf", 4, &v);      // another name of the same length
    int d = binn_object_set_value2(&obj, "Names", 5, &v);     // a longer name with a twin prefix
    int e = binn_object_set_value2(&obj, "name", 4, &v);      // the same name again
    ZV("JP_BINN_KEY_NOCASE", (a && !b && c && d && !e) ? 1 : 0);
    binn_free(&v);
    binn_free(&obj);
  }
  return 0;
}
