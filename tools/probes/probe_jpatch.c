// jpatch family (C15/C16): enum values the models of JSON Patch / Merge Patch depend on
#include "json/iwjson.h"
#include "json/iwbinn.h"
#include <string.h>
#include "probe.h"
int main(void) {
  ZV("JP_JBV_NONE", JBV_NONE); ZV("JP_JBV_NULL", JBV_NULL); ZV("JP_JBV_BOOL", JBV_BOOL); ZV("JP_JBV_I64", JBV_I64);
  ZV("JP_JBV_F64", JBV_F64); ZV("JP_JBV_STR", JBV_STR); ZV("JP_JBV_OBJECT", JBV_OBJECT); ZV("JP_JBV_ARRAY", JBV_ARRAY);
  ZV("JP_JBP_ADD", JBP_ADD); ZV("JP_JBP_REMOVE", JBP_REMOVE); ZV("JP_JBP_REPLACE", JBP_REPLACE); ZV("JP_JBP_COPY", JBP_COPY);
  ZV("JP_JBP_MOVE", JBP_MOVE); ZV("JP_JBP_TEST", JBP_TEST); ZV("JP_JBP_INCREMENT", JBP_INCREMENT);
  ZV("JP_JBP_ADD_CREATE", JBP_ADD_CREATE); ZV("JP_JBP_SWAP", JBP_SWAP);
  ZV("JP_ERR_PATH_NOTFOUND", JBL_ERROR_PATH_NOTFOUND); ZV("JP_ERR_PATCH_INVALID", JBL_ERROR_PATCH_INVALID);
  ZV("JP_ERR_PATCH_INVALID_OP", JBL_ERROR_PATCH_INVALID_OP); ZV("JP_ERR_PATCH_NOVALUE", JBL_ERROR_PATCH_NOVALUE);
  ZV("JP_ERR_PATCH_TARGET_INVALID", JBL_ERROR_PATCH_TARGET_INVALID); ZV("JP_ERR_PATCH_INVALID_VALUE", JBL_ERROR_PATCH_INVALID_VALUE);
  ZV("JP_ERR_PATCH_INVALID_ARRAY_INDEX", JBL_ERROR_PATCH_INVALID_ARRAY_INDEX); ZV("JP_ERR_PATCH_TEST_FAILED", JBL_ERROR_PATCH_TEST_FAILED);
  ZV("JP_ERR_JSON_POINTER", JBL_ERROR_JSON_POINTER); ZV("JP_ERR_CREATION", JBL_ERROR_CREATION);
  ZV("JP_ERR_INVALID_ARGS", IW_ERROR_INVALID_ARGS); ZV("JP_ERR_NOT_IMPLEMENTED", IW_ERROR_NOT_IMPLEMENTED);
  // behaviour of the binn object writer behind the write-back step of jbl_patch / jbl_merge_patch (_jbl_from_node_impl ->
  // binn_object_set_value2): the longest member name it stores, and whether a name that differs from a stored one only in
  // ASCII letter case is refused (coq/JSON/WriteBack.v: set_ok / key_clash)
  {
    static char key[512];
    memset(key, 'k', sizeof(key) - 1);
    int maxlen = 0;
    for (int len = 1; len <= 400; ++len) {
      binn obj, v;
      binn_create(&obj, BINN_OBJECT, 0, NULL);
      binn_init_item(&v);
      binn_set_int64(&v, 1);
      if (binn_object_set_value2(&obj, key, len, &v)) maxlen = len;
      binn_free(&v);
      binn_free(&obj);
    }
    ZV("JP_BINN_KEY_MAX", maxlen);
    binn obj, v;
    binn_create(&obj, BINN_OBJECT, 0, NULL);
    binn_init_item(&v);
    binn_set_int64(&v, 1);
    int a = binn_object_set_value2(&obj, "name", 4, &v);
    int b = binn_object_set_value2(&obj, "Name", 4, &v);      // case-only twin
    int c = binn_object_set_value2(&obj, "namf", 4, &v);      // another name of the same length
    int d = binn_object_set_value2(&obj, "Names", 5, &v);     // a longer name with a twin prefix
    int e = binn_object_set_value2(&obj, "name", 4, &v);      // the same name again
    ZV("JP_BINN_KEY_NOCASE", (a && !b && c && d && !e) ? 1 : 0);
    binn_free(&v);
    binn_free(&obj);
  }
  // behaviour of _jbl_copy_node_data: does the node that takes over a container set the `parent` field of the children it takes
  // over?  (coq/JSON/PatchId.v: `reparent`; fixes/jpatch-parent-pointers.diff.)  Probed on `add` over an existing member and on
  // `replace` of the root.
  {
    struct iwpool *pool = iwpool_create(1024);
    struct jbl_node *doc = 0, *pn = 0;
    int ok = 0;
    if (  !jbn_from_json("{\"a\":{\"x\":1}}", &doc, pool)
       && !jbn_from_json("[{\"op\":\"add\",\"path\":\"/a\",\"value\":{\"k\":[7]}},"
                         "{\"op\":\"replace\",\"path\":\"\",\"value\":{\"r\":[1]}}]", &pn, pool)) {
      struct jbl_node *op1 = pn->child, *op2 = op1->next;
      struct jbl_node *one = iwpool_calloc(sizeof(*one), pool), *two = iwpool_calloc(sizeof(*two), pool);
      memcpy(one, pn, sizeof(*one)); one->child = op1; op1->next = 0;        // the first operation alone
      if (!jbn_patch_auto(doc, one, pool)) {
        struct jbl_node *a = doc->child;
        int first = a && a->child && a->child->parent == a;
        memcpy(two, pn, sizeof(*two)); two->child = op2; op2->prev = 0;
        if (!jbn_patch_auto(doc, two, pool)) {
          int second = doc->child && doc->child->parent == doc;
          ok = (first && second) ? 1 : (!first && !second) ? 0 : 2;
        }
      }
    }
    ZV("JP_REPARENT", ok);
    iwpool_destroy(pool);
  }
  return 0;
}
