#include <stdio.h>
#include <stddef.h>
#define ZC(name) printf("Definition %s : Z := (%lld).\n", #name, (long long) (name))
#define ZV(name, v) printf("Definition %s : Z := (%lld).\n", name, (long long) (v))
#define ZSZ(t) printf("Definition sizeof_%s : Z := (%lld).\n", #t, (long long) sizeof(t))
#define ZOFF(t, f) printf("Definition offsetof_%s_%s : Z := (%lld).\n", #t, #f, (long long) offsetof(t, f))
