// behavioural facts: how _sblk_at2 fills the level links of the database head when the node slot it reads into is recycled;
// KV_HEAD_PROBE lists (links stored in the head, links the slot held before, links the slot holds after the read)
#include "kv/iwkv.c"
#include "probe.h"
#include <unistd.h>
static void plist(const uint32_t *v) {
  printf("[");
  for (int i = 0; i < SLEVELS; ++i) printf("%s%u", i ? "; " : "", (unsigned) v[i]);
  printf("]");
}
int main(void) {
  char path[128];
  snprintf(path, sizeof(path), "/dev/shm/verif-probe-kvhead-%d.db", (int) getpid());
  struct iwkv_opts opts = { .path = path, .oflags = IWKV_TRUNC };
  struct iwkv *iwkv = 0;
  struct iwdb *db = 0;
  if (iwkv_init() || iwkv_open(&opts, &iwkv) || iwkv_db(iwkv, 1, 0, &db)) return 2;
  struct iwkv_val k = { .data = "a", .size = 1 }, v = { .data = "b", .size = 1 };
  if (iwkv_put(db, &k, &v, 0)) return 3;
  IWFS_FSM *fsm = &iwkv->fsm;
  struct iwlctx lx = { .db = db };
  int zeroes_rest = 1;
  static const int firstzero[] = { 1, 2, 5, 23, 24 };
  printf("Definition KV_HEAD_PROBE : list (list Z * list Z * list Z) := [\n");
  for (int c = 0; c < 5; ++c) {
    uint32_t disk[SLEVELS], slot[SLEVELS];
    uint8_t *mm;
    if (fsm->acquire_mmap(fsm, 0, &mm, 0)) return 5;
    uint32_t n0;
    memcpy(&n0, mm + db->addr + DOFF_N0_U4, 4);
    for (int i = 0; i < SLEVELS; ++i) {
      disk[i] = i < firstzero[c] ? n0 + (uint32_t) i : 0;   // only read, never followed
      uint32_t lv = IW_HTOIL(disk[i]);
      memcpy(mm + db->addr + DOFF_N0_U4 + 4 * i, &lv, 4);
      slot[i] = 0x7fffff00u + (uint32_t) (c * 32 + i);      // what another node left in the slot
    }
    fsm->release_mmap(fsm);
    struct sblk s;
    memset(&s, 0, sizeof(s));
    memcpy(s.n, slot, sizeof(slot));
    if (_sblk_at2(&lx, db->addr, 0, &s)) return 4;
    for (int i = firstzero[c]; i < SLEVELS; ++i) if (s.n[i]) zeroes_rest = 0;
    printf("  ("); plist(disk); printf(",\n   "); plist(slot); printf(",\n   "); plist(s.n); printf(")%s\n", c < 4 ? ";" : "");
  }
  printf("].\n");
  printf("Definition KV_HEAD_READ_ZEROES_REST : bool := %s.\n", zeroes_rest ? "true" : "false");
  // put the head back as it was before closing
  {
    uint8_t *mm;
    if (fsm->acquire_mmap(fsm, 0, &mm, 0)) return 5;
    memset(mm + db->addr + DOFF_N0_U4 + 4, 0, 4 * (SLEVELS - 1));
    fsm->release_mmap(fsm);
  }
  iwkv_close(&iwkv);
  unlink(path);
  return 0;
}
