// constants of the binn serialisation and of the JSON pointer code used by coq/JSON/Binn.v and Ptr.v (family jbinn, C14)
#include "iwjson_internal.h"
#include "probe.h"
int main(void) {
  ZV("jbinn_BINN_LIST", BINN_LIST); ZV("jbinn_BINN_MAP", BINN_MAP); ZV("jbinn_BINN_OBJECT", BINN_OBJECT);
  ZV("jbinn_BINN_NULL", BINN_NULL); ZV("jbinn_BINN_TRUE", BINN_TRUE); ZV("jbinn_BINN_FALSE", BINN_FALSE);
  ZV("jbinn_BINN_BOOL", BINN_BOOL);
  ZV("jbinn_BINN_UINT8", BINN_UINT8); ZV("jbinn_BINN_INT8", BINN_INT8);
  ZV("jbinn_BINN_UINT16", BINN_UINT16); ZV("jbinn_BINN_INT16", BINN_INT16);
  ZV("jbinn_BINN_UINT32", BINN_UINT32); ZV("jbinn_BINN_INT32", BINN_INT32);
  ZV("jbinn_BINN_UINT64", BINN_UINT64); ZV("jbinn_BINN_INT64", BINN_INT64);
  ZV("jbinn_BINN_FLOAT32", BINN_FLOAT32); ZV("jbinn_BINN_FLOAT64", BINN_FLOAT64); ZV("jbinn_BINN_DOUBLE", BINN_DOUBLE);
  ZV("jbinn_BINN_STRING", BINN_STRING);
  ZV("jbinn_STORAGE_NOBYTES", BINN_STORAGE_NOBYTES); ZV("jbinn_STORAGE_BYTE", BINN_STORAGE_BYTE);
  ZV("jbinn_STORAGE_WORD", BINN_STORAGE_WORD); ZV("jbinn_STORAGE_DWORD", BINN_STORAGE_DWORD);
  ZV("jbinn_STORAGE_QWORD", BINN_STORAGE_QWORD); ZV("jbinn_STORAGE_STRING", BINN_STORAGE_STRING);
  ZV("jbinn_STORAGE_BLOB", BINN_STORAGE_BLOB); ZV("jbinn_STORAGE_CONTAINER", BINN_STORAGE_CONTAINER);
  ZV("jbinn_STORAGE_MASK", BINN_STORAGE_MASK); ZV("jbinn_STORAGE_HAS_MORE", BINN_STORAGE_HAS_MORE);
  ZV("jbinn_MAX_BINN_HEADER", MAX_BINN_HEADER); ZV("jbinn_MIN_BINN_SIZE", MIN_BINN_SIZE);
  ZV("jbinn_MAX_BIN_KEY_LEN", MAX_BIN_KEY_LEN);
  ZV("jbinn_JBL_MAX_NESTING_LEVEL", JBL_MAX_NESTING_LEVEL);
  ZV("jbinn_sizeof_int", sizeof(int));
  ZV("jbinn_sizeof_ptr", sizeof(char*));   // jbl_ptr_cmp compares the allocation sizes of two parsed pointers first
  ZV("jbinn_UINT8_MAX", UINT8_MAX); ZV("jbinn_UINT16_MAX", UINT16_MAX); ZV("jbinn_UINT32_MAX", UINT32_MAX);
  ZV("jbinn_INT8_MIN", INT8_MIN); ZV("jbinn_INT16_MIN", INT16_MIN); ZV("jbinn_INT32_MIN", INT32_MIN);
  // behaviour of binn_set_string + AddValue on a string with an embedded zero byte: length written for "a\0b"
  {
    binn list, item;
    binn_create(&list, BINN_LIST, 0, NULL);
    binn_init_item(&item);
    binn_set_string(&item, "a\0b", 3);
    binn_list_add_value(&list, &item);
    unsigned char *p = binn_ptr(&list);
    ZV("jbinn_STRING_KEEPS_NUL", p[4] == 3 ? 1 : 0);
    binn_free(&item);
    binn_free(&list);
  }
  return 0;
}
