// C17 facts: fixed buffer sizes and compile-time options of the ini scanner, the uuid syntax check and the csv writer;
// which variant of the iw_strto* wrappers the tree contains (observed by running them).
#include "utils/iwini.c"
#include "probe.h"
#include "iwuuid.h"
#include "iwcsv.h"
#include "iwconv.h"
#include "iwjson.h"
#include "iwutils.h"
#include "iwxstr.h"
#include "iwre.h"
#include <errno.h>
#include <unistd.h>
#include <signal.h>
#include <sys/wait.h>
#define ZB(name, v) printf("Definition %s : bool := %s.\n", name, (v) ? "true" : "false")
static const char* empty_mapper(const char *key, void *op) {
  (void) key; (void) op;
  return "";
}
// iwu_replace with an empty key, in a child with a 0.2 s alarm: does the call come back
static int replace_empty_key_returns(void) {
  fflush(stdout);
  pid_t pid = fork();
  if (pid == 0) {
    ualarm(200000, 0);                                 // 0.2 s: the call itself takes microseconds
    const char *keys[] = { "" };
    struct iwxstr *res = 0;
    iwrc rc = iwu_replace(&res, "abc", 3, keys, 1, empty_mapper, 0);
    _exit(rc ? 2 : 0);
  }
  int st = 0;
  if (pid < 0 || waitpid(pid, &st, 0) < 0) return 0;
  return WIFEXITED(st) && WEXITSTATUS(st) == 0;
}
int main(void) {
  ZV("ini_max_line", IWINI_MAX_LINE);                   // char line[IWINI_MAX_LINE] on the stack
  ZV("ini_max_section", MAX_SECTION);                   // char section[MAX_SECTION]
  ZV("ini_max_name", MAX_NAME);                         // char prev_name[MAX_NAME]
  ZB("ini_use_stack", IWINI_USE_STACK);
  ZB("ini_allow_multiline", IWINI_ALLOW_MULTILINE);
  ZB("ini_allow_bom", IWINI_ALLOW_BOM);
  ZB("ini_allow_inline_comments", IWINI_ALLOW_INLINE_COMMENTS);
  ZB("ini_allow_no_value", IWINI_ALLOW_NO_VALUE);
  ZB("ini_stop_on_first_error", IWINI_STOP_ON_FIRST_ERROR);
  ZB("ini_call_handler_on_new_section", IWINI_CALL_HANDLER_ON_NEW_SECTION);
  printf("Definition ini_start_comment_prefixes : list Z := [");
  for (const char *p = IWINI_START_COMMENT_PREFIXES; *p; ++p) printf("%s%d", p == IWINI_START_COMMENT_PREFIXES ? "" : "; ", (unsigned char) *p);
  printf("]%%Z.\n");
  printf("Definition ini_inline_comment_prefixes : list Z := [");
  for (const char *p = IWINI_INLINE_COMMENT_PREFIXES; *p; ++p) printf("%s%d", p == IWINI_INLINE_COMMENT_PREFIXES ? "" : "; ", (unsigned char) *p);
  printf("]%%Z.\n");
  ZV("uuid_str_len", IW_UUID_STR_LEN);
  ZV("sizeof_struct_iwcsv", sizeof(struct iwcsv));
  // stale errno: does a well-formed number still convert when errno == ERANGE was left behind by an earlier call
  iwrc rc = 0;
  errno = ERANGE;
  long long v = iw_strtoll("123", 10, &rc);
  ZB("fact_strto_clears_errno", rc == 0 && v == 123);
  errno = 0;
  // a text without any value (a lone closing bracket): is it refused, or reported as success without a node
  struct iwpool *pool = iwpool_create(0);
  struct jbl_node *n = 0;
  rc = jbn_from_json("]", &n, pool);
  ZB("fact_json_rejects_rootless", rc != 0);
  iwpool_destroy(pool);
  ZB("fact_replace_skips_empty_key", replace_empty_key_returns());
  // is an OPTIONAL anchored group still searched for at later offsets: (^a)?b must find the b of "xb"
  struct iwre *re = iwre_create("(^a)?b");
  const char *mp[4] = { 0 };
  ZB("fact_re_anchor_needs_min", re && iwre_match(re, "xb", mp, 4) > 0);
  if (re) iwre_destroy(re);
  return 0;
}
