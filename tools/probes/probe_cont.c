// C18 facts: file-local constants of the containers and sample points of the static hash functions.
#include "utils/iwhmap.c"
#include "utils/iwarr.c"
#include "utils/iwxstr.c"
#include "utils/iwpool.c"
#include "iwrb.h"
#include "utils/iwchars.h"
#include "probe.h"

static void samples32(const char *name, const uint64_t *xs, int n, int is64) {
  printf("Definition %s : list (Z * Z) := [", name);
  for (int i = 0; i < n; ++i) {
    uint32_t h = is64 ? _hash_uint64_key((void*) (uintptr_t) xs[i]) : _hash_uint32_key((void*) (uintptr_t) xs[i]);
    printf("%s(%llu, %u)", i ? "; " : "", (unsigned long long) xs[i], h);
  }
  printf("].\n");
}

int main(void) {
  ZV("CONT_MIN_BUCKETS", MIN_BUCKETS);
  ZV("CONT_STEPS", STEPS);
  ZV("CONT_IWULIST_ALLOC_UNIT", IWULIST_ALLOC_UNIT);
  ZV("CONT_IWXSTR_AUNIT", IWXSTR_AUNIT);
  ZV("CONT_IWPOOL_UNIT_ALIGN_SIZE", IWPOOL_UNIT_ALIGN_SIZE);
  ZV("CONT_IWPOOL_POOL_SIZ", IWPOOL_POOL_SIZ);
  ZV("CONT_sizeof_IWRB", sizeof(IWRB));
  ZV("CONT_sizeof_IWLISTITEM", sizeof(IWLISTITEM));
  ZV("CONT_sizeof_charptr", sizeof(char*));
  ZV("CONT_sizeof_size_t", sizeof(size_t));
  {
    // iwchars_is_space on every byte value (the trimming of iwpool_split_string; bytes >= 0x80 are negative chars)
    printf("Definition CONT_is_space_table : list Z := [");
    for (int c = 0; c < 256; ++c) printf("%s%d", c ? "; " : "", (int) iwchars_is_space((char) c));
    printf("].\n");
  }
  ZV("CONT_IW_ERROR_OUT_OF_BOUNDS", IW_ERROR_OUT_OF_BOUNDS);
  {
    // iwhmap_create: initial mask
    struct iwhmap *hm = iwhmap_create_u32(0);
    ZV("CONT_hmap_initial_mask", hm->buckets_mask);
    ZV("CONT_hmap_u32_ikp", hm->int_key_as_pointer_value);
    iwhmap_destroy(hm);
    hm = iwhmap_create_u64(0);
    ZV("CONT_hmap_u64_ikp", hm->int_key_as_pointer_value);
    iwhmap_destroy(hm);
    hm = iwhmap_create_str(0);
    ZV("CONT_hmap_str_ikp", hm->int_key_as_pointer_value);
    iwhmap_destroy(hm);
  }
  static const uint64_t xs[] = { 0, 1, 2, 3, 63, 64, 65, 127, 128, 255, 256, 1000, 65535, 65536, 123456789, 0x7fffffffULL,
                                 0x80000000ULL, 0xfffffffeULL, 0xffffffffULL };
  static const uint64_t ys[] = { 0, 1, 2, 63, 64, 1000, 0x7fffffffULL, 0x80000000ULL, 0xffffffffULL, 0x100000000ULL,
                                 0x123456789abcdefULL, 0x7fffffffffffffffULL, 0x8000000000000000ULL, 0xffffffffffffffffULL };
  samples32("CONT_hash_u32_samples", xs, sizeof(xs) / sizeof(xs[0]), 0);
  samples32("CONT_hash_u64_samples", ys, sizeof(ys) / sizeof(ys[0]), 1);
  {
    static const char *ss[] = { "", "a", "ab", "abc", "abcd", "abcde", "abcdefgh", "abcdefghi", "abcdefghijklmnopq",
                                "key00017", "\xff\xfe\x80" };
    printf("Definition CONT_hash_str_samples : list (list Z * Z) := [");
    for (unsigned i = 0; i < sizeof(ss) / sizeof(ss[0]); ++i) {
      printf("%s([", i ? "; " : "");
      for (const unsigned char *p = (const unsigned char*) ss[i]; *p; ++p) printf("%s%u", p == (const unsigned char*) ss[i] ? "" : "; ", *p);
      printf("], %u)", _hash_buf_key(ss[i]));
    }
    printf("].\n");
  }
  return 0;
}
