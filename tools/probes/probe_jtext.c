// C13 facts: constants of the JSON text parser/printer and behaviour tables of the string printer
// (one table row per input byte) taken from the implementation of the current tree.
#include "iwjson.h"
#include "iwjson_internal.h"
#include "iwxstr.h"
#include <ctype.h>
#include <stdlib.h>
#include <string.h>
#include "probe.h"

static void row(const char *name, jbl_print_flags_t pf, int upto) {
  printf("Definition %s : list (list Z) := [", name);
  for (int b = 0; b < upto; ++b) {
    char s[2] = { (char) b, 0 };
    struct iwxstr *x = iwxstr_create_empty();
    iwrc rc = _jbl_write_json_string(s, 1, jbl_xstr_json_printer, x, pf);
    printf("%s[", b ? ";" : "");
    if (!rc) {
      const unsigned char *p = (const unsigned char*) iwxstr_ptr(x);
      size_t n = iwxstr_size(x);
      for (size_t i = 0; i < n; ++i) printf("%s%d", i ? ";" : "", (int) p[i]);
    }
    printf("]");
    iwxstr_destroy(x);
  }
  printf("].\n");
}

// what the exported printer callbacks do with ONE call pt(data, size, ch, count, op): a row is the status (0 = ok, 1 = error)
// followed by the bytes that arrived in the sink (xstr, FILE*), or the number added (count printer)
typedef iwrc (*pt_fn)(const char*, int, char, int, void*);
static void sink_row(int first, int kind, const char *data, int size, char ch, int count) {
  printf("%s[", first ? "" : ";");
  if (kind == 0) {
    struct iwxstr *x = iwxstr_create_empty();
    iwrc rc = jbl_xstr_json_printer(data, size, ch, count, x);
    printf("%d", rc ? 1 : 0);
    for (size_t i = 0; i < iwxstr_size(x); ++i) printf(";%d", (int) (unsigned char) iwxstr_ptr(x)[i]);
    iwxstr_destroy(x);
  } else if (kind == 1) {
    char *mem = 0; size_t msz = 0;
    FILE *f = open_memstream(&mem, &msz);
    iwrc rc = jbl_fstream_json_printer(data, size, ch, count, f);
    fclose(f);
    printf("%d", rc ? 1 : 0);
    for (size_t i = 0; i < msz; ++i) printf(";%d", (int) (unsigned char) mem[i]);
    free(mem);
  } else {
    int cnt = 0;
    iwrc rc = jbl_count_json_printer(data, size, ch, count, &cnt);
    printf("%d;%d", rc ? 1 : 0, cnt);
  }
  printf("]");
}

// mode 0: pt(0, 0, (char) b, 1); 1: pt(0, 0, (char) b, 3); 2: pt(0, 0, (char) b, 0);
// mode 3: pt({b, 'x', 0}, 2, 0, 0); 4: pt({b, 'x', 0}, -1, 0, 2); 5: pt({'y', b, 0}, 1, 0, 1)
static void sink_tbl(const char *name, int kind, int mode) {
  printf("Definition %s : list (list Z) := [", name);
  for (int b = 0; b < 256; ++b) {
    char d1[3] = { (char) b, 'x', 0 }, d2[3] = { 'y', (char) b, 0 };
    switch (mode) {
      case 0: sink_row(!b, kind, 0, 0, (char) b, 1); break;
      case 1: sink_row(!b, kind, 0, 0, (char) b, 3); break;
      case 2: sink_row(!b, kind, 0, 0, (char) b, 0); break;
      case 3: sink_row(!b, kind, d1, 2, 0, 0); break;
      case 4: sink_row(!b, kind, d1, -1, 0, 2); break;
      default: sink_row(!b, kind, d2, 1, 0, 1); break;
    }
  }
  printf("].\n");
}

int main(void) {
  ZC(JBL_MAX_NESTING_LEVEL);
  ZC(JBL_PRINT_PRETTY); ZC(JBL_PRINT_CODEPOINTS); ZC(JBL_PRINT_PRETTY_INDENT2); ZC(JBL_PRINT_PRETTY_INDENT4);
  ZC(JBL_ERROR_PARSE_JSON); ZC(JBL_ERROR_PARSE_UNQUOTED_STRING); ZC(JBL_ERROR_PARSE_INVALID_CODEPOINT);
  ZC(JBL_ERROR_PARSE_INVALID_UTF8); ZC(JBL_ERROR_MAX_NESTING_LEVEL_EXCEEDED);
  printf("Definition jtext_isprint_tbl : list Z := [");
  for (int i = 0; i < 256; ++i) printf("%s%d", i ? ";" : "", isprint(i) ? 1 : 0);
  printf("].\n");
  // what the string printer writes for the one-byte string [b] (quotes included); empty row = error
  row("jtext_esc_tbl", 0, 256);
  row("jtext_esc_cp_tbl", JBL_PRINT_CODEPOINTS, 128);
  // the C type `char` the callbacks receive their single character in
  printf("Definition jtext_char_signed : bool := %s.\n", ((char) 0xff) < 0 ? "true" : "false");
  static const char *kinds[] = { "xstr", "fstream", "count" };
  for (int k = 0; k < 3; ++k) {
    for (int m = 0; m < 6; ++m) {
      char nm[64];
      snprintf(nm, sizeof(nm), "jtext_%s_tbl%d", kinds[k], m);
      sink_tbl(nm, k, m);
    }
  }
  return 0;
}
