// C13 facts: constants of the JSON text parser/printer and behaviour tables of the string printer
// (one table row per input byte) taken from the implementation of the current tree.
#include "iwjson.h"
#include "iwjson_internal.h"
#include "iwxstr.h"
#include <ctype.h>
#include "probe.h"

static void row(const char *name, jbl_print_flags_t pf, int upto) {
  printf("Definition %s : list (list Z) := [", name);
  for (int b = 0; b < upto; ++b) {
    char s[2] = { (char) b, 0 };
    struct iwxstr *x = iwxstr_create_empty();
    iwrc rc = _jbl_write_json_string(s, 1, jbl_xstr_json_printer, x, pf);
    printf("%s[", b ? ";" : "");
    if (!rc) {
      const unsigned char *p = (const unsigned char*) iwxstr_ptr(x);
      size_t n = iwxstr_size(x);
      for (size_t i = 0; i < n; ++i) printf("%s%d", i ? ";" : "", (int) p[i]);
    }
    printf("]");
    iwxstr_destroy(x);
  }
  printf("].\n");
}

int main(void) {
  ZC(JBL_MAX_NESTING_LEVEL);
  ZC(JBL_PRINT_PRETTY); ZC(JBL_PRINT_CODEPOINTS); ZC(JBL_PRINT_PRETTY_INDENT2); ZC(JBL_PRINT_PRETTY_INDENT4);
  ZC(JBL_ERROR_PARSE_JSON); ZC(JBL_ERROR_PARSE_UNQUOTED_STRING); ZC(JBL_ERROR_PARSE_INVALID_CODEPOINT);
  ZC(JBL_ERROR_PARSE_INVALID_UTF8); ZC(JBL_ERROR_MAX_NESTING_LEVEL_EXCEEDED);
  printf("Definition jtext_isprint_tbl : list Z := [");
  for (int i = 0; i < 256; ++i) printf("%s%d", i ? ";" : "", isprint(i) ? 1 : 0);
  printf("].\n");
  // what the string printer writes for the one-byte string [b] (quotes included); empty row = error
  row("jtext_esc_tbl", 0, 256);
  row("jtext_esc_cp_tbl", JBL_PRINT_CODEPOINTS, 128);
  return 0;
}
