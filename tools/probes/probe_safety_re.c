// C17 facts: the limits of the regex engine (src/re).  The .c files are included so that file-local macros are visible.
#include "re/parse.c"
#include "re/compile.c"
#include "re/vm.c"
#include "probe.h"
int main(void) {
  ZV("re_max_matches", REGEX_VM_MAX_MATCHES);          // slots a VM thread records
  ZV("iwre_max_matches", IWRE_MAX_MATCHES);
#ifdef REGEX_MAX_PATTERN
  ZV("re_max_pattern", REGEX_MAX_PATTERN);
#else
  ZV("re_max_pattern", -1);                             // no limit
#endif
#ifdef REGEX_MAX_INSTRUCTIONS
  ZV("re_max_instructions", REGEX_MAX_INSTRUCTIONS);
#else
  ZV("re_max_instructions", -1);
#endif
#ifdef REGEX_MAX_INTERVAL
  ZV("re_max_interval", REGEX_MAX_INTERVAL);
#else
  ZV("re_max_interval", -1);
#endif
  ZV("sizeof_vm_thread_matches", sizeof(((vm_thread*) 0)->matches) / sizeof(const char*));
  return 0;
}
