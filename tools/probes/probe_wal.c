// WAL family facts: the CRC-32 table of iwu_crc32 (function-local static: recovered through the
// function itself, table[b] = iwu_crc32({b}, 1, 0)), the page size used by the extensible file,
// error code of a corrupted log, and one behavioural fact of the log scanner.
// Struct layouts of the records are printed by probe_kv.c.
#include "kv/iwal.c"
#include "iwutils.h"
#include "probe.h"
#include <unistd.h>

// The functions probed below get the struct iwal that iwal_create builds for default options (buffer sizes; no
// buffer memory, no threads): a probe that passes a null or all-zero struct answers for a process that cannot exist.
static struct iwal* probe_wal_struct(void) {
  static struct iwkv kv;
  static struct iwal wal;
  memset(&wal, 0, sizeof(wal));
  wal.iwkv = &kv;
  wal.wal_buffer_sz = 8UL * 1024 * 1024;
  wal.checkpoint_buffer_sz = 1024ULL * 1024 * 1024;
  wal.bufsz = (uint32_t) (wal.wal_buffer_sz - sizeof(WBSEP));
  wal.fh = -1;
  return &wal;
}

// Does _rollforward_exl (recover_mode 1) stop at the last savepoint when the log holds a reset mark?
// The pinned source rebases wmm/fsz to the mark but not fpos, so the loop runs past the recovery point.
// Log: [SEP SET(off 2 := 3) SAVEPOINT] [SEP RESET] [SEP SET(off 0 := 1) SAVEPOINT] [SEP SET(off 1 := 2)];
// main file 4096 zero bytes.
static int replay_rebases_fpos(void) {
  char dir[] = "/tmp/wal-probe-XXXXXX";
  if (!mkdtemp(dir)) return -1;
  char mp[64], wp[64];
  snprintf(mp, sizeof(mp), "%s/m", dir);
  snprintf(wp, sizeof(wp), "%s/w", dir);
  uint8_t log[256], *p = log;
  WBSEP s0 = { .id = WOP_SEP, .len = sizeof(WBSET) + sizeof(WBSAVEPOINT) }; memcpy(p, &s0, sizeof(s0)); p += sizeof(s0);
  WBSET w0 = { .id = WOP_SET, .val = 3, .off = 2, .len = 1 }; memcpy(p, &w0, sizeof(w0)); p += sizeof(w0);
  WBSAVEPOINT sp0 = { .id = WOP_SAVEPOINT, .ts = 1 }; memcpy(p, &sp0, sizeof(sp0)); p += sizeof(sp0);
  WBSEP s1 = { .id = WOP_SEP, .len = sizeof(WBRESET) }; memcpy(p, &s1, sizeof(s1)); p += sizeof(s1);
  WBRESET rs = { .id = WOP_RESET }; memcpy(p, &rs, sizeof(rs)); p += sizeof(rs);
  WBSEP s2 = { .id = WOP_SEP, .len = sizeof(WBSET) + sizeof(WBSAVEPOINT) }; memcpy(p, &s2, sizeof(s2)); p += sizeof(s2);
  WBSET w1 = { .id = WOP_SET, .val = 1, .off = 0, .len = 1 }; memcpy(p, &w1, sizeof(w1)); p += sizeof(w1);
  WBSAVEPOINT sp = { .id = WOP_SAVEPOINT, .ts = 1 }; memcpy(p, &sp, sizeof(sp)); p += sizeof(sp);
  WBSEP s3 = { .id = WOP_SEP, .len = sizeof(WBSET) }; memcpy(p, &s3, sizeof(s3)); p += sizeof(s3);
  WBSET w2 = { .id = WOP_SET, .val = 2, .off = 1, .len = 1 }; memcpy(p, &w2, sizeof(w2)); p += sizeof(w2);
  static uint8_t zero[4096];
  int res = -1;
  FILE *f = fopen(mp, "wb"); if (!f) return -1; fwrite(zero, 1, sizeof(zero), f); fclose(f);
  f = fopen(wp, "wb"); if (!f) return -1; fwrite(log, 1, (size_t) (p - log), f); fclose(f);
  int se = dup(2), dn = open("/dev/null", O_WRONLY);
  dup2(dn, 2); // the replay logs a warning with a timestamp
  struct iwal *pw = probe_wal_struct();
  pw->fh = open(wp, O_RDWR);
  IWFS_EXT extf;
  IWFS_EXT_OPTS eo = { .file = { .path = mp, .omode = IWFS_OWRITE | IWFS_OCREATE }, .use_locks = false };
  if (!iwkv_init() && !iwfs_exfile_open(&extf, &eo)) {
    iwrc rc = _rollforward_exl(pw, &extf, 1);
    extf.close(&extf);
    f = fopen(mp, "rb");
    if (f) {
      uint8_t b[2] = { 9, 9 };
      if (fread(b, 1, 2, f) == 2 && b[0] == 1) res = (!rc && b[1] == 0) ? 1 : 0;
      fclose(f);
    }
  }
  dup2(se, 2);
  close(pw->fh); unlink(mp); unlink(wp); rmdir(dir);
  return res;
}
// Does _rollforward_exl (recover_mode 1, checksum checking on) look at the segments in front of a reset mark before it
// restarts the replay there?  The pinned source does not: the scanner that finds the mark verifies no checksum, so a
// mark planted inside a damaged segment makes the replay skip that segment's checksum (fixes/wal-reset-prefix-verified.diff).
// Log: [SEP(crc wrong) SET SAVEPOINT] [SEP RESET] [SEP SET(off 0 := 1) SAVEPOINT]; 1 = CORRUPTED_WAL, 0 = rc 0.
static int replay_verifies_reset_prefix(void) {
  char dir[] = "/tmp/wal-probe-XXXXXX";
  if (!mkdtemp(dir)) return -1;
  char mp[64], wp[64];
  snprintf(mp, sizeof(mp), "%s/m", dir);
  snprintf(wp, sizeof(wp), "%s/w", dir);
  uint8_t log[256], *p = log;
  WBSEP s0 = { .id = WOP_SEP, .crc = 0x12345678u, .len = sizeof(WBSET) + sizeof(WBSAVEPOINT) }; memcpy(p, &s0, sizeof(s0)); p += sizeof(s0);
  WBSET w0 = { .id = WOP_SET, .val = 3, .off = 2, .len = 1 }; memcpy(p, &w0, sizeof(w0)); p += sizeof(w0);
  WBSAVEPOINT sp0 = { .id = WOP_SAVEPOINT, .ts = 1 }; memcpy(p, &sp0, sizeof(sp0)); p += sizeof(sp0);
  WBSEP s1 = { .id = WOP_SEP, .len = sizeof(WBRESET) }; memcpy(p, &s1, sizeof(s1)); p += sizeof(s1);
  WBRESET rs = { .id = WOP_RESET }; memcpy(p, &rs, sizeof(rs)); p += sizeof(rs);
  WBSEP s2 = { .id = WOP_SEP, .len = sizeof(WBSET) + sizeof(WBSAVEPOINT) }; memcpy(p, &s2, sizeof(s2)); p += sizeof(s2);
  WBSET w1 = { .id = WOP_SET, .val = 1, .off = 0, .len = 1 }; memcpy(p, &w1, sizeof(w1)); p += sizeof(w1);
  WBSAVEPOINT sp = { .id = WOP_SAVEPOINT, .ts = 1 }; memcpy(p, &sp, sizeof(sp)); p += sizeof(sp);
  static uint8_t zero[4096];
  int res = -1;
  FILE *f = fopen(mp, "wb"); if (!f) return -1; fwrite(zero, 1, sizeof(zero), f); fclose(f);
  f = fopen(wp, "wb"); if (!f) return -1; fwrite(log, 1, (size_t) (p - log), f); fclose(f);
  int se = dup(2), dn = open("/dev/null", O_WRONLY);
  dup2(dn, 2);
  struct iwal *pw = probe_wal_struct();
  pw->check_cp_crc = true;
  pw->fh = open(wp, O_RDWR);
  IWFS_EXT extf;
  IWFS_EXT_OPTS eo = { .file = { .path = mp, .omode = IWFS_OWRITE | IWFS_OCREATE }, .use_locks = false };
  if (!iwkv_init() && !iwfs_exfile_open(&extf, &eo)) {
    iwrc rc = _rollforward_exl(pw, &extf, 1);
    extf.close(&extf);
    res = rc == IWKV_ERROR_CORRUPTED_WAL_FILE ? 1 : rc == 0 ? 0 : -1;
  }
  dup2(se, 2);
  close(pw->fh); unlink(mp); unlink(wp); rmdir(dir);
  return res;
}
int main(void) {
  printf("Definition iwu_crc32_table : list Z := [");
  for (int i = 0; i < 256; ++i) {
    uint8_t b = (uint8_t) i;
    printf("%s%u", i ? ";" : "", (unsigned) iwu_crc32(&b, 1, 0));
  }
  printf("].\n");
  // a second, independent sample of the function so that a change of the update rule is noticed by T1
  const uint8_t s[9] = "123456789";
  ZV("iwu_crc32_check_123456789", iwu_crc32(s, 9, 0));
  ZV("iwu_crc32_check_init", iwu_crc32(s, 3, 0x12345678u));
  ZV("WAL_PAGE_SIZE", iwp_page_size());
  ZC(IWKV_ERROR_CORRUPTED_WAL_FILE);
  ZV("WAL_IWFSM_MAGICK", IWFSM_MAGICK);
  ZC(BKP_STARTED); ZC(BKP_WAL_CLEANUP); ZC(BKP_MAIN_COPY); ZC(BKP_WAL_COPY1); ZC(BKP_WAL_COPY2);
  // Does _last_fix_and_reset_points accept a savepoint record that is cut after its first byte?
  // (the WOP_SAVEPOINT case has no `avail < sizeof(WBSAVEPOINT)` test in the pinned source; the model's
  // scan takes this as a parameter so that it mirrors the code with or without that test)
  {
    uint8_t log[64] = { 0 };
    WBSEP sep = { .id = WOP_SEP, .len = 6 };
    memcpy(log, &sep, sizeof(sep));
    log[sizeof(sep)] = WOP_SAVEPOINT;
    off_t fpos = -1, rpos = -1;
    _last_fix_and_reset_points(probe_wal_struct(), log, sizeof(sep) + 6, &fpos, &rpos);
    ZV("WAL_SCAN_SP_CHECKS_AVAIL", fpos == 0 ? 1 : 0);
  }
  {
    int r = replay_rebases_fpos();
    if (r < 0) return 3;
    ZV("WAL_REPLAY_REBASES_FPOS", r);
  }
  {
    int r = replay_verifies_reset_prefix();
    if (r < 0) return 4;
    ZV("WAL_REPLAY_VERIFIES_RESET_PREFIX", r);
  }
  return 0;
}
