// WAL family facts: the CRC-32 table of iwu_crc32 (function-local static: recovered through the
// function itself, table[b] = iwu_crc32({b}, 1, 0)), the page size used by the extensible file,
// error code of a corrupted log, and one behavioural fact of the log scanner.
// Struct layouts of the records are printed by probe_kv.c.
#include "kv/iwal.c"
#include "iwutils.h"
#include "probe.h"
int main(void) {
  printf("Definition iwu_crc32_table : list Z := [");
  for (int i = 0; i < 256; ++i) {
    uint8_t b = (uint8_t) i;
    printf("%s%u", i ? ";" : "", (unsigned) iwu_crc32(&b, 1, 0));
  }
  printf("].\n");
  // a second, independent sample of the function so that a change of the update rule is noticed by T1
  const uint8_t s[9] = "123456789";
  ZV("iwu_crc32_check_123456789", iwu_crc32(s, 9, 0));
  ZV("iwu_crc32_check_init", iwu_crc32(s, 3, 0x12345678u));
  ZV("WAL_PAGE_SIZE", iwp_page_size());
  ZC(IWKV_ERROR_CORRUPTED_WAL_FILE);
  ZC(BKP_STARTED); ZC(BKP_WAL_CLEANUP); ZC(BKP_MAIN_COPY); ZC(BKP_WAL_COPY1); ZC(BKP_WAL_COPY2);
  // Does _last_fix_and_reset_points accept a savepoint record that is cut after its first byte?
  // (the WOP_SAVEPOINT case has no `avail < sizeof(WBSAVEPOINT)` test in the pinned source; the model's
  // scan takes this as a parameter so that it mirrors the code with or without that test)
  {
    uint8_t log[64] = { 0 };
    WBSEP sep = { .id = WOP_SEP, .len = 6 };
    memcpy(log, &sep, sizeof(sep));
    log[sizeof(sep)] = WOP_SAVEPOINT;
    off_t fpos = -1, rpos = -1;
    _last_fix_and_reset_points(0, log, sizeof(sep) + 6, &fpos, &rpos);
    ZV("WAL_SCAN_SP_CHECKS_AVAIL", fpos == 0 ? 1 : 0);
  }
  return 0;
}
