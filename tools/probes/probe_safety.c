// C17 facts: layout constants the SAFE models use, and which variant of each text function the current
// tree contains (observed on inputs that are in bounds for BOTH variants).
#include "json/iwjson.c"
#include "probe.h"
#include "iwconv.h"
#include <errno.h>
#define ZB(name, v) printf("Definition %s : bool := %s.\n", name, (v) ? "true" : "false")
int main(void) {
  ZV("jbl_ptr_slack", sizeof(struct jbl_ptr) - offsetof(struct jbl_ptr, n));   // bytes of the data area beyond `len`
  ZV("JBL_MAX_NESTING_LEVEL_", JBL_MAX_NESTING_LEVEL);
  struct jbl_ptr *jp = 0;
  iwrc rc = jbl_ptr_alloc("/a~x", &jp);                // '~' followed by neither '0' nor '1'
  ZB("fact_ptr_tilde_strict", rc != 0);
  free(jp);
  char out[8] = { 0 };
  ZB("fact_hex2bin_checks_max", iwhex2bin("ab", 2, out, 0) == 0);
  ZB("fact_atoi2_inf_bounded", iwatoi2("infx", 3) == INT64_MAX);
  struct jbl_node *n = 0;
  struct iwpool *pool = iwpool_create(0);
  errno = ERANGE;
  rc = jbn_from_json("123", &n, pool);
  ZB("fact_num_clears_errno", rc == 0 && n && n->type == JBV_I64);   // stale ERANGE: error, or (after jtext-bigint) a double
  n = 0;
  rc = jbn_from_json("\"\\r\"", &n, pool);            // which byte does the escape \r produce
  ZV("unesc_cr_byte", (!rc && n && n->vsize == 1) ? (unsigned char) n->vptr[0] : -1);
  n = 0;
  errno = 0;
  rc = jbn_from_json("99999999999999999999", &n, pool); // integers beyond int64: error, or read as a double
  ZB("fact_num_big_as_double", !rc && n && n->type == JBV_F64);
  iwpool_destroy(pool);
  return 0;
}
