#include "utils/iwconv.c"
#include "probe.h"
int main(void) {
  ZC(IWNUMBUF_SIZE);
  printf("Definition ascii2hex_tbl : list Z := [");
  for (int i = 0; i < 256; ++i) printf("%s%d", i ? ";" : "", (int) ascii2hex[i]);
  printf("].\n");
  return 0;
}
