#!/usr/bin/env python3
# writes MANIFEST.json from the table below (kept in one place so the file is always valid)
import json, os, sys
HERE = os.path.dirname(os.path.dirname(os.path.abspath(__file__)))
TB = ("Trusted: Coq 8.16.1 kernel + coqc (vm_compute, no native_compute); axioms per theorem as printed by Print Assumptions "
      "(copied into the evidence on every run); tools/gen_facts.py + C probes + clang AST translation (T1); extraction with "
      "ExtrOcamlBasic only (no Extract Constant) + OCaml 4.13.1 + ml/driver_*.ml; C harness, generators and diff (T2). "
      "The C code itself is modelled, not verified: theorems are about the Gallina model; the model is tied to /repo's current "
      "tree by T1 (regenerated Gen/Facts.v) and T2 (differential execution) on every run. ")
CHECKS = {
 "C01": dict(
   text='Proof (Coq): the node-chain model of iwkv.c (which node: _lx_find_bounds; where: _sblk_find_pi_mm; overwrite / add / add-to-upper / split at the pivot: _lx_addkv, _lx_split_addkv; delete / remove node: _lx_del_lw) refines an ordered association list for EVERY operation history and every comparator that is a total preorder (kv_refines_map), unconditionally for the byte-key and the integer-key comparator with node size and pivot regenerated from the source; NodeInv preserved; an error leaves the state unchanged; and the multi-level skip search (_lx_roll_forward on every level, any assignment of levels to nodes, any starting level) ends on the node the level-0 walk ends on (skip_search_is_linear). Tied by differential execution (answers, node structure, cursor bookkeeping, the node the real search ends on) and a python reference-map oracle; directed scripts around the 115-byte prefix, varint boundaries, node pages.',
   design="5/C01", note=TB + 'The comparators of plain, integer, real-number and compound byte keys are proved to satisfy the three order laws (C01_kv_refines_map_bytes/_intkeys/_realkeys/_compound/_real_compound/_int_compound have no hypothesis on the comparator: every key mode is covered, typed keys as the API produces them). Data-block layout (L3) is not in this model; stored skip-list links are compared with the links the model derives from the levels by the independent reader of C06 on every image. malloc failure and I/O error paths are not exercised. Other-database isolation is by construction in the model (one chain per database) and checked on the implementation by the oracle.',
   technique='Coq refinement proof by induction over operation lists + skip-search theorem + extracted-model vs implementation correspondence + regenerated facts'),
 "C02": dict(
   text="Proof (Coq): on the cursor model of iwkv.c (_cursor_to_lr with the head/tail pseudo nodes, node copies, skip marks) a scan from before-first with NEXT returns exactly the records of the chain, in chain order, once each (scan_next_all), AFTER_LAST+PREV the exact reverse (scan_prev_all); EQ and GE position on exactly the record the ordered specification designates or report not-found exactly when there is none, whatever the cursor did before (cursor_eq_spec, cursor_ge_spec); deleting / overwriting through a positioned cursor acts on exactly the record it reads (cursor_del_spec: flat' = s_del flat k0; cursor_set_spec: same node, slot and key, value replaced, all other records and the key order unchanged), invariant kept. Model compared with the implementation call by call (answers and cursor bookkeeping cnpos/skip_next/copy); reference-map oracle incl. GE/EQ probes around deleted head keys and keys longer than the cached prefix.",
   design="5/C02", note=TB + "copy_val / copy_key / is_matched_key reads are model + correspondence + oracle only. The oracle tracks the cursor position from the implementation's own answers.",
   technique='Coq proofs (induction over nodes and slots, ordered-list specification) + extracted cursor model vs implementation correspondence + reference oracle'),
 "C03": dict(
   text="Proof (Coq), partial: the codecs of the file image are inverse - field level (little-endian header fields, variable-length numbers of the data-block index) and "
        "block level: a node block written by the model of _sblk_sync_mm (KV/Codec.v, field offsets regenerated from the source macros) is read back as exactly that node "
        "(C03_node_block_roundtrip), a data-block header + index written by the model of _kvblk_sync_mm as exactly that index (C03_data_block_index_roundtrip), a record "
        "written as _kvblk_addkv writes it as exactly that key and value, and an image holding the encoding of any chain of nodes as exactly the records of those nodes "
        "(C03_image_reads_back_partial: the codec half of the reopen identity, for any number of nodes, addresses and contents). The reader is "
        "the independent reader of C06; on every real image it is compared field by field with what the implementation's own block reader reports (level, count, flag, prefix, "
        "data-block size, stored keys, value length and value bytes of every slot of every node) and every data-block index must be in the canonical form the writer model produces. "
        "That close leaves such an image behind for the in-memory state is decided "
        "per history on the implementation: dump/metadata before close = after reopen over {WAL on/off} x {read-only, read-write} x {trim, no-trim}, read-only sessions refuse "
        "every mutating call, truncate empties the store.",
   design="5/C03", note=TB + "Partial: the whole-store reopen_identity (close writes the encoding of the current state), trim_preserves and rdonly_no_effect are stated as open goals in Properties_C03.v, not proved. PROT_READ of the kernel is trusted.",
   technique="Coq codec round-trip proofs (fields, node block, data-block index, records, whole level-0 chain) + two readers compared on real images + close/reopen histories against a reference-map oracle"),
 "C04": dict(
   text="Proof (Coq) over a model of the WAL protocol at file-effect granularity (Proto.v) and of replay: redo_idempotent, recover_is_prefix_partial, "
        "crash_in_recovery, growth_tears_refuted (the known finding). Tied by predicting the real effect trace, log bytes and main-file bytes from the traced "
        "listener calls; every crash point (hook iwverif_fx) of generated histories is executed: kill, reopen, dump, and a python prefix oracle decides.",
   design="5/C04", note=TB + "Known finding C04-growth-checkpoint (growth-forced checkpoint without savepoint) is reported, not failed. recover_is_prefix is proved under the "
        "hypothesis that the log is well-formed and ends in a savepoint after each sync (checked on every real log); COPY records excluded. Kill model: a write that returned survives; power loss is outside.",
   technique="Coq proofs over protocol/replay models + crash-point enumeration with the file-effect hook + prefix oracle"),
 "C05": dict(
   text="Proof (Coq) over byte-level models of the log records, the pre-scan (_last_fix_and_reset_points) and replay (_rollforward_exl): scan_cut, recovery_point, "
        "cut_monotone, intact_savepoint_kept, replay_cut_is_savepoint_state, no_half_write, for every log and every cut. Tied by running the extracted scan/replay and "
        "the real recovery on the same cut/corrupted logs produced by real runs (rc, main-file CRC and size, applied-record trace).",
   design="5/C05", note=TB + "Single-bit-flip detection with checksums is sampled, not proved. Known finding C05-growth-checkpoint shared with C04.",
   technique="Coq proofs (induction over record lists and cut offsets) + extracted scan/replay vs implementation on real logs"),
 "C06": dict(
   text="Proof (Coq): an independent reader of the file format (KV/Audit.v: header, database chain, every level chain, nodes, data blocks, node pages, metadata, "
        "bitmap) is extracted and run on the REAL file image after every batch of every history; proved: its accounting algorithms mean what the property says - "
        "sorted-range test = pairwise disjointness, bitmap walk without complaint = allocated set equals occupied set exactly (C06_bitmap_exact).",
   design="5/C06", note=TB + "Partial: the structural checks of the auditor are boolean restatements of the property (not proved against a separate declarative WF); that every reachable "
        "state of the store passes the auditor is established per history on real images, not by a theorem (skip-list links above level 0 and data-block layout are not in the store model).",
   technique="extracted Coq auditor on real images + Coq soundness proofs of its accounting + histories with destroy/re-create, metadata, reopen"),
 "C07": dict(
   text='Proof (Coq): deadlock freedom of the lock discipline in its dynamic form - threads are arbitrary programs of acquire/release actions on ranked reader/writer locks (any number of threads, any program length, locks taken and released repeatedly inside a call); if every acquisition happens while the thread holds only locks of strictly lower rank and a finished program holds nothing, every reachable state with an unfinished program has an enabled step (C07_no_deadlock_dynamic; also the static call-skeleton form). The discipline is CHECKED ON THE CODE on every run: harness/h_lockord.c interposes every pthread lock operation of the library, classifies the lock objects (store, database, allocator, file, log, worker-count, cursor list) and reports every (held -> acquired) pair per API call over batteries covering every API call x open-flag combinations and random scripts; ranks are read from coq/CC/LockOrder.v; a mutating call that never takes a lock of the skeleton is reported too. Plus generated multi-threaded programs: every execution must terminate (watchdog) and have a linearisation (exact Wing-Gong search).',
   design="5/C07", note=TB + 'Partial: atomicity (conflict serialisability of the data steps), the worker-count/condvar handshake of exclusive sections, rwlock writer preference and data-race freedom are NOT proved; thread schedules are sampled by the kernel scheduler. A scan is a sequence of atomic cursor calls and is not required to be atomic as a whole.',
   technique='Coq proof of deadlock freedom under a dynamic lock-rank discipline + lock-order tracer on the real library + concurrent executions checked for linearisability and termination'),
 "C08": dict(
   text="Proof (Coq) over a model of the backup image layout, the five stages of the call and of opening the image (recover mode 2): split_mk_image, replay_cut_mode2, "
        "open_image_is_savepoint_state, backup_run_is_image, backup_refused_while_running, failed_backup_releases. "
        "Implementation: online backup with a second writer thread released at the k-th chunk of the main-file copy or at the end of WAL_COPY1; the image must open to a prefix state within "
        "[ops done at call, ops done at return] and the live store must be unaffected; extracted open_image compared with the implementation's main file; the last stage is observed to "
        "run under the store's exclusive lock (lock skeleton of the call), and backups are taken under free-running writer threads doing in-place updates (whole values, one cut per "
        "writer, bounded by completed-before-the-call and issued-at-return).",
   design="5/C08", note=TB + "Covers the image half; thread schedules are sampled, not enumerated; the checkpoint thread is off. The stage model has no writer event in stage 5: that is the "
        "observed lock skeleton (harness/h_bkpload.c interposes pthread_rwlock_wrlock/unlock and write), not a theorem about the C code. Known finding C08-growth-during-main-copy is reported, not failed.",
   technique="Coq proofs over the image model + backup-under-load scenarios with a snapshot oracle"),
 "C09": dict(
   text="Proof (Coq): on the node model with cursor copies (every fix-up loop of iwkv.c after the recorded repairs): whatever a successful put does (overwrite, insert, new node in front / behind, split with the record going either way) every cursor on a record stays on a record with the same key, fresh copy, same pending step (put_keeps_cursor); every successful delete - by key or through a cursor, including the cursor's own record and the removal of a whole node - leaves each cursor in one of four proved outcomes (del_keeps_cursor); the remaining forward AND backward scan of a cursor after the mutation is the old one plus the new record iff it lies ahead (resp. in front) / minus the deleted key (scan_stable_put/del, scan_prev_stable_put/del); the invariant (chain invariant, unique node ids, every cursor copy fresh and in range) holds in EVERY state the API-level model reaches by any sequence of put / delete / cursor open / move / set / delete / close (db_inv_reachable), so the theorems apply to every reachable state (db_scan_stable_*, db_rscan_stable_*), instantiated for byte and integer keys with node size and pivot from the source and no hypothesis left. The model is compared with the implementation's cursor bookkeeping after every mutation; a reference oracle decides skip / repeat / resurrect.",
   design="5/C09", note=TB + 'Real-number and compound comparators enter as hypotheses. Skip-list levels are not in this model (see C01/C06).',
   technique='Coq proofs (effects of put/delete, invariant over reachable states, ordered-list specification) + extracted cursor model vs implementation correspondence + scan-stability oracle'),
 "C10": dict(
   text="Proof (Coq) over a model of the block allocator (bitmap, free-extent tree, lfbk cache, allocate/aligned allocate/deallocate/reallocate guards): bitmap lemmas, "
        "allocation only flips free bits and returns a fully free, aligned, large-enough region; invalid releases refused. Tied by comparing rc, region, free-extent list, "
        "cache and bitmap with the implementation after every operation; an interval-set oracle decides disjointness and byte preservation.",
   design="5/C10", note=TB + "See notes/fsm.md for the exact list of proved statements and hypotheses (non-strict mode does not detect double frees: histories release only live regions).",
   technique="Coq invariant proofs over the allocator model + structural correspondence after every operation"),
 "C11": dict(
   text="Proof (Coq) over the same allocator model: the loader computes exactly the maximal zero runs of any bitmap (load_is_runs), tree = maximal runs invariant "
        "(tree_is_runs, refuted for the pre-fix code with the recorded witness), reopen/trim/clear statements. Tied as C10 plus close/reopen/clear cycles and file size after close.",
   design="5/C11", note=TB + "See notes/fsm.md for what is proved unconditionally and what under stated hypotheses.",
   technique="Coq invariant proofs over the allocator model + structural correspondence after every operation"),
 "C12": dict(
   text="Proof (Coq): executable model of iwexfile.c (three-way split per mmap slot, shared/private windows, truncate, ensure_size, "
        "add/remove mmap, resize policies with their C arithmetic, chunked copy) refined to a flat byte array for every call sequence with "
        "shared windows; split_covers, size invariants, IW_RANGES_OVERLAP (translated from the current source) = interval intersection; every theorem "
        "holds for every operating-system oracle that may refuse a growth, and a refused growth answers an error and changes nothing "
        "(refused_growth_unchanged). "
        "Tied by differential execution of the extracted model against the implementation and an independent flat-array oracle, with growth "
        "refusals injected through RLIMIT_FSIZE (model and implementation) and RLIMIT_AS (implementation only).",
   design="5/C12",
   note=TB + "Side conditions of the theorems: arguments in [0, 2^61], page size a power of two. Private (MAP_PRIVATE) windows have no theorem: "
        "they are compared byte for byte with the model and checked by the oracle between remaps only. mmap/pread coherence of the kernel is trusted.",
   technique="Coq refinement proof (model -> flat byte array) + extracted-model vs implementation correspondence + regenerated facts"),
 "C13": dict(
   text="Proof (Coq) over a model of the JSON parser (iwjser.c: value/key/number branches, two-pass unescape, BOM, nesting limit) and printer "
        "(iwjson.c: string escaping with the per-byte tables regenerated from the source, integers via iwitoa): unescape_correct, print_parse "
        "(parse (print v) = v for any bytes, all flags, depth <= 999), parse_valid for an RFC 8259 reference grammar (integers), print_in_grammar, "
        "print_ascii with the code-point flag, iwitoa/strtoll round trip, utf8proc encoder/decoder; the scanner of iwstrtod loop by loop: it stops on a "
        "non-digit for every input and consumes every RFC 8259 number completely (number_scan_stops, number_scan_maximal). Tied by differential "
        "execution and a python json reference oracle (token structure first, then values).",
   design="5/C13",
   note=TB + "Doubles are carried as 64 bit patterns: number->double conversion and double printing are oracle inputs supplied by the harness (libc/libm are "
        "trusted, not modelled); documents with non-integer numbers are compared structurally. iwstrtod is not correctly rounded (0.3): recorded, outside the theorems.",
   technique="Coq proofs (induction, finite sweeps over regenerated byte tables) + extracted-model vs implementation correspondence + reference-parser oracle"),
 "C14": dict(
   text="Proof (Coq) over byte-level models of the binn writer/reader subset the library produces, the JSON pointer parser and both look-up visitors: "
        "binn_roundtrip (decode (encode v) = v), clone equality, ptr_parse = RFC 6901 tokens, at_agree (tree and binary look-ups both equal the RFC 6901 referent), "
        "at_producer_independent. Tied by byte-for-byte comparison of the encoder with the implementation, an independent python binn reader / RFC 6901 oracle "
        "and a matrix of every producer of a tree or binary document x every look-up function exported by iwjson.h.",
   design="5/C14",
   note=TB + "Hypotheses: documents well-formed for the binary form (keys <= 255 bytes, unique ignoring case), arrays < 2^31 elements, pointers with at most 999 "
        "segments and no '*' segment. Totality of the encoder and print_agree are not proved (oracle compares the printed texts); clone independence is oracle-only.",
   technique="Coq proofs (round trip by case split on magnitude intervals, visitor induction) + extracted-model vs implementation correspondence"),
 "C15": dict(
   text="Proof (Coq) over a tree model with cached array indices (klidx) of the JSON Patch engine: klidx_inv for every program, patch_single_op_rfc/patch_program_rfc "
        "(RFC 6902 result for every applicable operation sequence), test = RFC equality, failed_patch_leaves_binary, binary form. Tied by four API modes vs extracted model and an independent RFC 6902 interpreter.",
   design="5/C15", note=TB + "The _partial theorems carry no_root_alias (the library reads '/' as the root); increment/add_create/swap are oracle-checked, not proved.",
   technique="Coq proofs (invariant + induction over patch programs) + extracted-model vs implementation correspondence + RFC oracle"),
 "C16": dict(
   text="Proof (Coq): merge_rfc7386 (pool mode = MergePatch for all pairs), merge_heap_safe over an explicit ownership heap (no double free, no use after free, no leak), "
        "merge_variants_agree / binary / path entry points. Heap-mode runs under ASan+LSan; independent RFC 7386 oracle.",
   design="5/C16", note=TB + "A non-object patch is rejected by jbn_merge_patch (reported to the caller) rather than replacing the root.",
   technique="Coq proofs over value and ownership-heap models + sanitizer-built harness + RFC oracle"),
 "C17": dict(
   text="Proof (Coq) over index-level models (every read/write is a checked buffer access): no out-of-bounds access and termination within a stated fuel for the JSON pointer "
        "parser, iwhex2bin, iwatoi2, both unescape passes, the number branch of the JSON parser (result independent of the incoming errno), iwxstr operation sequences. "
        "The other text consumers (regex, ini, patch decoding, split/replace) run under ASan/UBSan on valid, malformed and mutated inputs placed in exactly-sized buffers, "
        "fresh vs after-history runs compared.",
   design="5/C17", note=TB + "Partial by nature: a theorem about the model is not memory safety of the C code; unmodelled functions are only sampled by the sanitizer runs.",
   technique="Coq proofs over index-level models + sanitizer-built differential and history-independence runs"),
 "C18": dict(
   text="Proof (Coq): hmap_refines_map (any hash, any LRU bound, free log), dll_wf, lru_victims_oldest, freed_exactly_once, ulist/plist refine lists, xstr refines bytes, "
        "AVL stays a balanced BST and refines a set, sorted-array helpers, ring buffer, pool regions disjoint. All eight containers compared white-box with the implementation "
        "(bucket shapes, LRU chain, AVL shape, offsets) and against python reference structures; plain and ASan/LSan builds.",
   design="5/C18", note=TB + "iwrb_back on a wrapped ring only partially specified (the ring has no count field). Allocation-failure paths, iwxstr_set_size, child pools are oracle/sanitizer only.",
   technique="Coq refinement proofs + white-box extracted-model vs implementation correspondence + sanitizers"),
 "C19": dict(
   text="Proof (Coq): varint round trip, length = IW_VNUMSIZE (macro translated from the current source), rejection of sign-bit values, for all 64-bit values; "
        "iwatoi inverts the decimal text iwitoa writes for every 64-bit value incl. INT64_MIN (wrap-around explicit); hex round trip (finite sweep over all bytes lifted); "
        "the comparators of plain, integer, real-number and compound byte keys are total (pre)orders equal only on identical keys, and the node-level shortcut through the cached "
        "115-byte prefix (_lx_sblk_cmp_key) decides what the complete stored key decides, for every key length. Model tied by differential execution vs the implementation's static functions and a "
        "property-level oracle on key triples per key mode, all buffer sizes 0..64 with guard bytes.",
   design="5/C19",
   note=TB + "Partial: buffer bounds of iwitoa for every size, and the numeric agreement of iwafcmp (exact rational in the model, long double in C) "
        "are decided by model-vs-implementation comparison and the oracle, not proved. iwafcmp fractions: exact rationals in the model vs long double in C (generator stays where both agree).",
   technique="Coq proofs (induction + lia, finite sweep) over hand-written model; extracted-model vs implementation correspondence; regenerated facts"),
 "C20": dict(
   text="Proof (Coq) over statement-level LTS models of iwstw.c and iwtp.c (one transition per lock/unlock/wait/wake/queue edit/callback, spurious wake-ups, any number "
        "of client threads): accepted_partition, status_monotone, executed_at_most_once, fifo, limit_respected, no_lost_wakeup, shutdown_wait_drains, "
        "shutdown_nowait_discards, accepted_eventually (and refutations for the code as found, with the real event trace as witness). Every real event trace "
        "(hook iwverif_ev or pthread interposition) must be a path of the extracted model; black-box outcome oracle (per-task counts, FIFO stamps, discard log, watchdog, TSan).",
   design="5/C20", note=TB + "Partial: no_deadlock is not stated; tp has no started-order theorem; real condvar semantics beyond 'may wake spuriously' and kernel scheduling are runtime evidence. "
        "Caller calls overlapping the end of shutdown are outside the contract (recorded in notes/exec.md).",
   technique="Coq invariant proofs over LTS models + event-trace conformance of real executions + outcome oracle"),
}
PENDING = {}
ALL = ["C%02d" % i for i in range(1, 21)]

def main():
    checks = []
    for pid in ALL:
        if pid in CHECKS:
            c = CHECKS[pid]
            checks.append({
                "property_id": pid,
                "quick_cmd": "./check %s --tier quick" % pid,
                "thorough_cmd": "./check %s --tier thorough" % pid,
                "evidence_file": "/verif/evidence/%s.json" % pid,
                "replay_cmd_template": "./check %s --replay {path}" % pid,
                "engine": "coq-model",
                "level_claimed": {"category": c.get("category", "proof"), "text": c["text"], "design_ref": c["design"]},
                "level_note": c["note"],
                "technique": c["technique"],
            })
    na = [{"property_id": pid, "reason": PENDING.get(pid, "no check registered yet in this round: model and tie still under construction (see DESIGN.md section 5/%s); not claimed until its check runs clean" % pid)}
          for pid in ALL if pid not in CHECKS]
    man = {
        "version": 1,
        "setup_cmd": "./setup.sh",
        "hooks": {"guard": "IOWOW_VERIF",
                  "enable": "tools/vlib.py compiles /repo/src directly with -DIOWOW_VERIF=1 -DIW_TESTS=1 (gcc, -O1 -g; asan/tsan variants) into .build/impl-<variant>-<hash of /repo/src>",
                  "baseline_off_cmd": "./baseline_off.sh",
                  "source_commits": json.load(open(os.path.join(HERE, "hooks.json")))["source_commits"] if os.path.exists(os.path.join(HERE, "hooks.json")) else [],
                  "add_only": True},
        "engines": [{"name": "coq-model", "path": "/verif/coq", "serves_properties": sorted(CHECKS),
                     "kind_free_text": "Coq 8.16 models + theorems (coq/), regenerated facts (tools/gen_facts.py), extracted OCaml models (ml/), C harnesses (harness/), per-property drivers (checks/)"}],
        "checks": checks,
        "not_applicable": na,
        "notes": "All commands run from /verif, rebuild the implementation from /repo's working tree and re-check the Coq obligations of the property on every run.",
    }
    json.dump(man, open(os.path.join(HERE, "MANIFEST.json"), "w"), indent=1)

if __name__ == "__main__":
    main()
