#!/usr/bin/env python3
# writes MANIFEST.json from the table below (kept in one place so the file is always valid)
import json, os, sys
HERE = os.path.dirname(os.path.dirname(os.path.abspath(__file__)))
TB = ("Trusted: Coq 8.16.1 kernel + coqc (vm_compute, no native_compute); axioms per theorem as printed by Print Assumptions "
      "(copied into the evidence on every run); tools/gen_facts.py + C probes + clang AST translation (T1); extraction with "
      "ExtrOcamlBasic only (no Extract Constant) + OCaml 4.13.1 + ml/driver_*.ml; C harness, generators and diff (T2). "
      "The C code itself is modelled, not verified: theorems are about the Gallina model; the model is tied to /repo's current "
      "tree by T1 (regenerated Gen/Facts.v) and T2 (differential execution) on every run. ")
CHECKS = {
 "C01": dict(
   text="Proof (Coq): the node-chain model of iwkv.c (which node: _lx_find_bounds at level 0; where: _sblk_find_pi_mm; overwrite / add / add-to-upper / "
        "split at the pivot: _lx_addkv, _lx_split_addkv; delete / remove node: _lx_del_lw) refines an ordered association list for EVERY "
        "operation history, every level choice and every comparator that is a total preorder (kv_refines_map), unconditionally for the byte-key "
        "comparator with node size and pivot regenerated from the source; NodeInv preserved; an error leaves the state unchanged. "
        "Tied by differential execution (answers, node structure, cursor bookkeeping) and a python reference-map oracle.",
   design="5/C01",
   note=TB + "Integer/real-number/compound comparators enter the theorem through the three order laws (checked on samples by C19, proved only for "
        "plain byte keys). Data-block layout (L3) and skip-list links above level 0 (L2) are not in this model; they are covered by the structure "
        "comparison and by C06. malloc failure and I/O error paths are not exercised. other-database isolation is by construction in the model "
        "(one chain per database) and checked on the implementation by the oracle.",
   technique="Coq refinement proof by induction over operation lists + extracted-model vs implementation correspondence + regenerated facts"),
 "C12": dict(
   text="Proof (Coq): executable model of iwexfile.c (three-way split per mmap slot, shared/private windows, truncate, ensure_size, "
        "add/remove mmap, resize policies with their C arithmetic, chunked copy) refined to a flat byte array for every call sequence with "
        "shared windows; split_covers, size invariants, IW_RANGES_OVERLAP (translated from the current source) = interval intersection. "
        "Tied by differential execution of the extracted model against the implementation and an independent flat-array oracle.",
   design="5/C12",
   note=TB + "Side conditions of the theorems: arguments in [0, 2^61], page size a power of two. Private (MAP_PRIVATE) windows have no theorem: "
        "they are compared byte for byte with the model and checked by the oracle between remaps only. mmap/pread coherence of the kernel is trusted.",
   technique="Coq refinement proof (model -> flat byte array) + extracted-model vs implementation correspondence + regenerated facts"),
 "C19": dict(
   text="Proof (Coq) over a Gallina model of the varint macros, iwitoa/iwatoi, hex codecs and key comparators: round-trip, "
        "length = IW_VNUMSIZE (macro translated from the current source), rejection of sign-bit values, for all 64-bit values; "
        "model tied to the code by differential execution of extracted model vs implementation and a property-level oracle.",
   design="5/C19",
   note=TB + "iwafcmp fractions: exact rationals in the model vs long double in C (generator stays where both agree).",
   technique="Coq proof (induction + lia) over hand-written model; extracted-model vs implementation correspondence; regenerated facts"),
}
PENDING = {}
ALL = ["C%02d" % i for i in range(1, 21)]

def main():
    checks = []
    for pid in ALL:
        if pid in CHECKS:
            c = CHECKS[pid]
            checks.append({
                "property_id": pid,
                "quick_cmd": "./check %s --tier quick" % pid,
                "thorough_cmd": "./check %s --tier thorough" % pid,
                "evidence_file": "/verif/evidence/%s.json" % pid,
                "replay_cmd_template": "./check %s --replay {path}" % pid,
                "engine": "coq-model",
                "level_claimed": {"category": c.get("category", "proof"), "text": c["text"], "design_ref": c["design"]},
                "level_note": c["note"],
                "technique": c["technique"],
            })
    na = [{"property_id": pid, "reason": PENDING.get(pid, "no check registered yet in this round: model and tie still under construction (see DESIGN.md section 5/%s); not claimed until its check runs clean" % pid)}
          for pid in ALL if pid not in CHECKS]
    man = {
        "version": 1,
        "setup_cmd": "./setup.sh",
        "hooks": {"guard": "IOWOW_VERIF",
                  "enable": "tools/vlib.py compiles /repo/src directly with -DIOWOW_VERIF=1 -DIW_TESTS=1 (gcc, -O1 -g; asan/tsan variants) into .build/impl-<variant>-<hash of /repo/src>",
                  "baseline_off_cmd": "./baseline_off.sh",
                  "source_commits": json.load(open(os.path.join(HERE, "hooks.json")))["source_commits"] if os.path.exists(os.path.join(HERE, "hooks.json")) else [],
                  "add_only": True},
        "engines": [{"name": "coq-model", "path": "/verif/coq", "serves_properties": sorted(CHECKS),
                     "kind_free_text": "Coq 8.16 models + theorems (coq/), regenerated facts (tools/gen_facts.py), extracted OCaml models (ml/), C harnesses (harness/), per-property drivers (checks/)"}],
        "checks": checks,
        "not_applicable": na,
        "notes": "All commands run from /verif, rebuild the implementation from /repo's working tree and re-check the Coq obligations of the property on every run.",
    }
    json.dump(man, open(os.path.join(HERE, "MANIFEST.json"), "w"), indent=1)

if __name__ == "__main__":
    main()
