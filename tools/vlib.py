# Shared machinery for all checks: build of the implementation from /repo's working tree,
# regeneration of Gen/Facts.v (T1), Coq build, extraction + OCaml drivers, PRNG, evidence,
# known findings and the verdict protocol.  Python 3 standard library only.
import os, sys, json, hashlib, subprocess, time, fcntl, re, shutil, glob
from concurrent.futures import ThreadPoolExecutor

VERIF = os.path.dirname(os.path.dirname(os.path.abspath(__file__)))
REPO = os.environ.get("VERIF_REPO", "/repo")
BUILD = os.path.join(VERIF, ".build")
COQ = os.path.join(VERIF, "coq")
GUARD = "IOWOW_VERIF"
NCPU = os.cpu_count() or 4


def sh(cmd, cwd=None, timeout=None, env=None, input=None):
    """run, return (rc, stdout+stderr text)"""
    try:
        p = subprocess.run(cmd, cwd=cwd, shell=isinstance(cmd, str), stdout=subprocess.PIPE,
                           stderr=subprocess.STDOUT, timeout=timeout, env=env, input=input)
        return p.returncode, p.stdout.decode("utf-8", "replace")
    except subprocess.TimeoutExpired as e:
        return 124, (e.stdout or b"").decode("utf-8", "replace") + "\n[timeout]"


class Lock:
    def __init__(self, name):
        os.makedirs(BUILD, exist_ok=True)
        self.path = os.path.join(BUILD, name + ".lock")

    def __enter__(self):
        self.f = open(self.path, "w")
        fcntl.flock(self.f, fcntl.LOCK_EX)
        return self

    def __exit__(self, *a):
        fcntl.flock(self.f, fcntl.LOCK_UN)
        self.f.close()


# ------------------------------------------------------------------------------------------------
# PRNG: one SplitMix64 state, every random choice of a run derives from VERIF_SEED
class Rng:
    M = (1 << 64) - 1

    def __init__(self, seed):
        self.s = seed & self.M

    def u64(self):
        self.s = (self.s + 0x9E3779B97F4A7C15) & self.M
        z = self.s
        z = ((z ^ (z >> 30)) * 0xBF58476D1CE4E5B9) & self.M
        z = ((z ^ (z >> 27)) * 0x94D049BB133111EB) & self.M
        return z ^ (z >> 31)

    def below(self, n):
        return self.u64() % n if n > 0 else 0

    def range(self, a, b):  # inclusive
        return a + self.below(b - a + 1)

    def choice(self, xs):
        return xs[self.below(len(xs))]

    def chance(self, num, den):
        return self.below(den) < num

    def bytes(self, n):
        return bytes(self.below(256) for _ in range(n))

    def fork(self):
        return Rng(self.u64())

    def weighted(self, pairs):
        tot = sum(w for _, w in pairs)
        r = self.below(tot)
        for x, w in pairs:
            if r < w:
                return x
            r -= w
        return pairs[-1][0]


def seed_from_env():
    try:
        return int(os.environ.get("VERIF_SEED", "1"))
    except ValueError:
        return int(hashlib.sha256(os.environ["VERIF_SEED"].encode()).hexdigest()[:12], 16)


# ------------------------------------------------------------------------------------------------
# Implementation build (from /repo's current working tree, hooks on)
def _src_files():
    out = []
    for root, dirs, files in os.walk(os.path.join(REPO, "src")):
        dirs[:] = sorted(d for d in dirs if d not in ("tests", "benchmark", "examples", "win32"))
        for f in sorted(files):
            if f.endswith((".c", ".h", ".txt", ".in")):
                out.append(os.path.join(root, f))
    out.append(os.path.join(REPO, "CMakeLists.txt"))
    return out


def src_hash():
    h = hashlib.sha256()
    for f in _src_files():
        h.update(f.encode())
        with open(f, "rb") as fh:
            h.update(hashlib.sha256(fh.read()).digest())
    return h.hexdigest()[:20]


MODULES = ["log", "utils", "platform", "fs", "rdb", "re", "json", "kv"]
DEFINES = ["-DIW_64", "-DIW_HAVE_CLOCK_MONOTONIC", "-DIW_HAVE_PTHREAD_CONDATTR_SETCLOCK", "-DIW_HAVE_QSORT_R",
           "-DIW_PTHREADS", "-DIW_TESTS=1", "-D_DEFAULT_SOURCE", "-D_FILE_OFFSET_BITS=64", "-D_LARGEFILE_SOURCE",
           "-D_XOPEN_SOURCE=700", "-DIW_NODLL", "-D%s=1" % GUARD]
VARIANTS = {
    "plain": (["gcc"], ["-O1", "-g"]),
    "asan": (["gcc"], ["-O1", "-g", "-fsanitize=address,undefined", "-fno-sanitize-recover=all",
                       "-fno-omit-frame-pointer"]),
    "tsan": (["gcc"], ["-O1", "-g", "-fsanitize=thread", "-fno-omit-frame-pointer"]),
}
CSTD = ["-std=gnu11", "-fsigned-char", "-w"]


def _version():
    txt = open(os.path.join(REPO, "CMakeLists.txt")).read()
    m = re.search(r"project\(\s*(\w+)", txt)
    # version comes from the Changelog in this project; any string will do for the build
    return ("1", "4", "19")


def include_flags(bdir):
    inc = ["-I" + os.path.join(bdir, "generated"), "-I" + os.path.join(REPO, "src")]
    for m in MODULES:
        inc.append("-I" + os.path.join(REPO, "src", m))
    return inc


def build_impl(variant="plain"):
    """Builds libiowow.a of /repo's working tree with the hook guard on. Returns build dir."""
    with Lock("impl-" + variant):
        h = src_hash()
        bdir = os.path.join(BUILD, "impl-%s-%s" % (variant, h))
        lib = os.path.join(bdir, "libiowow.a")
        if os.path.exists(lib):
            return bdir
        # other checks / builders may still be running from an older build: keep recent ones, drop the rest
        olds = sorted(glob.glob(os.path.join(BUILD, "impl-%s-*" % variant)), key=os.path.getmtime, reverse=True)
        for old in olds[3:]:
            if time.time() - os.path.getmtime(old) > 1800:
                shutil.rmtree(old, ignore_errors=True)
        os.makedirs(os.path.join(bdir, "generated"), exist_ok=True)
        os.makedirs(os.path.join(bdir, "obj"), exist_ok=True)
        tmpl = open(os.path.join(REPO, "src", "tmpl", "iwcfg.h")).read()
        v = _version()
        for k, val in (("iowow_VERSION", ".".join(v)), ("iowow_VERSION_MAJOR", v[0]),
                       ("iowow_VERSION_MINOR", v[1]), ("iowow_VERSION_PATCH", v[2])):
            tmpl = tmpl.replace("@%s@" % k, val)
        open(os.path.join(bdir, "generated", "iwcfg.h"), "w").write(tmpl)
        srcs = [os.path.join(REPO, "src", "iowow.c")]
        for m in MODULES:
            srcs += sorted(glob.glob(os.path.join(REPO, "src", m, "*.c")))
        cc, fl = VARIANTS[variant]
        inc = include_flags(bdir)

        def comp(s):
            o = os.path.join(bdir, "obj", os.path.relpath(s, os.path.join(REPO, "src")).replace("/", "_") + ".o")
            rc, out = sh(cc + CSTD + fl + DEFINES + inc + ["-c", s, "-o", o])
            return rc, out, o

        with ThreadPoolExecutor(NCPU) as ex:
            res = list(ex.map(comp, srcs))
        bad = [(rc, out) for rc, out, _ in res if rc != 0]
        if bad:
            shutil.rmtree(bdir, ignore_errors=True)
            raise BuildError("implementation does not compile:\n" + bad[0][1][:4000])
        rc, out = sh(["ar", "rcs", lib] + [o for _, _, o in res])
        if rc != 0:
            raise BuildError(out)
        return bdir


class BuildError(Exception):
    pass


def build_harness(name, variant="plain", extra=()):
    """compile harness/<name>.c against the implementation of the current tree"""
    bdir = build_impl(variant)
    src = os.path.join(VERIF, "harness", name + ".c")
    hh = hashlib.sha256(open(src, "rb").read())
    for dep in sorted(glob.glob(os.path.join(VERIF, "harness", "*.h"))):
        hh.update(open(dep, "rb").read())
    exe = os.path.join(bdir, "%s-%s" % (name, hh.hexdigest()[:12]))
    with Lock("harness-" + name + "-" + variant):
        if os.path.exists(exe):
            return exe
        cc, fl = VARIANTS[variant]
        rc, out = sh(cc + CSTD + fl + DEFINES + include_flags(bdir) + ["-I" + os.path.join(VERIF, "harness")] +
                     list(extra) + [src, os.path.join(bdir, "libiowow.a"), "-lm", "-lpthread", "-o", exe])
        if rc != 0:
            raise BuildError("harness %s does not compile against the current tree:\n%s" % (name, out[:4000]))
    return exe


# ------------------------------------------------------------------------------------------------
# Coq side
def gen_facts():
    """T1: regenerate coq/Gen/Facts.v from /repo's current tree. Returns (ok, message)."""
    sys.path.insert(0, os.path.join(VERIF, "tools"))
    import gen_facts as gf
    with Lock("facts"):
        return gf.generate()


def _coq_project():
    vs = []
    for root, dirs, files in os.walk(COQ):
        dirs[:] = sorted(d for d in dirs if not d.startswith("."))
        for f in sorted(files):
            if f.endswith(".v") and not f.startswith("."):
                vs.append(os.path.relpath(os.path.join(root, f), COQ))
    body = "-Q . IW\n-arg -w -arg -all\n" + "\n".join(sorted(vs)) + "\n"
    p = os.path.join(COQ, "_CoqProject")
    old = open(p).read() if os.path.exists(p) else ""
    if old != body or not os.path.exists(os.path.join(COQ, "Makefile")):
        open(p, "w").write(body)
        rc, out = sh(["coq_makefile", "-f", "_CoqProject", "-o", "Makefile"], cwd=COQ)
        if rc != 0:
            raise BuildError(out)


def coq_make(targets, timeout=1500, keep_going=True):
    """full .vo build of the given targets (paths relative to coq/, e.g. 'Properties_C19.vo')"""
    with Lock("coq"):
        _coq_project()
        cmd = ["make", "-j%d" % NCPU] + (["-k"] if keep_going else []) + list(targets)
        rc, out = sh(cmd, cwd=COQ, timeout=timeout)
        return rc == 0, out


def coq_properties(pid, timeout=600):
    """Builds the dependencies of Properties_<pid>.v, then *always* re-checks that file with coqc and
    parses theorem names and Print Assumptions output.  Returns dict."""
    fn = "Properties_%s.v" % pid
    src = open(os.path.join(COQ, fn)).read()
    theorems = re.findall(r"^\s*(?:Theorem|Example)\s+(\w+)", src, re.M)
    res = {"file": fn, "theorems": theorems, "ok": False, "assumptions": {}, "log": "", "failed": []}
    with Lock("coq"):
        _coq_project()
        rc, out = sh(["make", "-j%d" % NCPU, "-k", fn + "o"], cwd=COQ, timeout=timeout * 3)
        res["log"] = out
        if rc != 0:
            # which dependency / theorem broke
            res["failed"] = re.findall(r'File "\./([^"]+)", line (\d+)', out)
            return res
        rc, out = sh(["coqc", "-Q", ".", "IW", "-w", "-all", fn], cwd=COQ, timeout=timeout)
        res["log"] += out
        if rc != 0:
            res["failed"] = re.findall(r'File "\./([^"]+)", line (\d+)', out)
            return res
    # Print Assumptions output: either "Closed under the global context" or "Axioms:\n name : type ..."
    names = re.findall(r"Print Assumptions\s+(\w+)\.", src)
    chunks = re.split(r"(?=Closed under the global context|Axioms:)", out)
    chunks = [c for c in chunks if c.startswith("Closed") or c.startswith("Axioms:")]
    for i, n in enumerate(names):
        if i < len(chunks):
            c = chunks[i].strip()
            if c.startswith("Closed"):
                res["assumptions"][n] = []
            else:
                res["assumptions"][n] = [re.sub(r"\s+", " ", l).strip()
                                         for l in re.findall(r"^(\S[^\n]*(?:\n\s+[^\n]+)*)", c[len("Axioms:"):].strip(), re.M)]
    res["ok"] = True
    return res


def coq_closure(pid):
    """the .v files Properties_<pid>.v depends on (transitively, within the IW root), plus itself"""
    seen, todo = set(), [os.path.join(COQ, "Properties_%s.v" % pid)]
    while todo:
        f = todo.pop()
        if f in seen or not os.path.exists(f):
            continue
        seen.add(f)
        txt = re.sub(r"\(\*.*?\*\)", "", open(f).read(), flags=re.S)
        for mod in re.findall(r"\bIW\.[A-Za-z0-9_.]*[A-Za-z0-9_]", txt):
            cand = os.path.join(COQ, *mod.split(".")[1:]) + ".v"
            if os.path.exists(cand):
                todo.append(cand)
    return sorted(seen)


def hygiene(pid=None):
    """no Admitted / admit / Axiom / Parameter / ... in the development (restricted to the dependency closure of
    Properties_<pid>.v when pid is given, so that one family under construction cannot break another's check)"""
    only = set(coq_closure(pid)) if pid else None
    bad = []
    pat = re.compile(r"\b(Admitted|admit|Axiom|Axioms|Parameter|Parameters|Conjecture|Admit Obligations|"
                     r"Unset Guard Checking|Unset Positivity Checking|Unset Universe Checking|bypass_check|"
                     r"type-in-type|impredicative-set|native_compute)\b")
    for root, dirs, files in os.walk(COQ):
        for f in files:
            if f.endswith(".v"):
                p = os.path.join(root, f)
                if only is not None and p not in only:
                    continue
                txt = re.sub(r"\(\*.*?\*\)", "", open(p).read(), flags=re.S)
                for i, l in enumerate(txt.split("\n")):
                    m = pat.search(l)
                    if m:
                        # 'Variable'/'Hypothesis' inside a Section are fine; those are not matched here
                        bad.append("%s:%d:%s" % (os.path.relpath(p, VERIF), i + 1, m.group(1)))
    return bad


def build_model(fam, timeout=900):
    """Extract coq/Extract_<fam>.v (ExtrOcamlBasic only) and compile ml/driver_<fam>.ml with it."""
    ext = os.path.join(COQ, "Extract_%s.v" % fam)
    drv = os.path.join(VERIF, "ml", "driver_%s.ml" % fam)
    ok, out = coq_make(["Extract_%s.vo" % fam], timeout=timeout)
    if not ok:
        raise BuildError("model %s does not build:\n%s" % (fam, out[-4000:]))
    h = hashlib.sha256()
    for p in [drv, os.path.join(VERIF, "ml", "zutil.ml")] + sorted(glob.glob(os.path.join(COQ, "**", "*.v"), recursive=True)):
        if "Properties_" in p or p.endswith("_proofs.v"):
            continue
        h.update(open(p, "rb").read())
    d = os.path.join(BUILD, "ml-%s-%s" % (fam, h.hexdigest()[:16]))
    exe = os.path.join(d, "model")
    with Lock("ml-" + fam):
        if os.path.exists(exe):
            return exe
        olds = sorted(glob.glob(os.path.join(BUILD, "ml-%s-*" % fam)), key=os.path.getmtime, reverse=True)
        for old in olds[2:]:
            if time.time() - os.path.getmtime(old) > 3600:
                shutil.rmtree(old, ignore_errors=True)
        os.makedirs(d)
        # extraction writes into the current directory of coqc
        rc, out = sh(["coqc", "-Q", COQ, "IW", "-w", "-all", "-o", os.path.join(d, "Extract_%s.vo" % fam), ext], cwd=d, timeout=timeout)
        if rc != 0:
            shutil.rmtree(d, ignore_errors=True)
            raise BuildError("extraction %s failed:\n%s" % (fam, out[-4000:]))
        open(os.path.join(d, "driver.ml"), "w").write(
            open(os.path.join(VERIF, "ml", "zutil.ml")).read() + "\n" + open(drv).read())
        mls = sorted(f for f in os.listdir(d) if f.endswith(".ml") and f != "driver.ml")
        mlis = [f[:-3] + ".mli" for f in mls if os.path.exists(os.path.join(d, f[:-3] + ".mli"))]
        files = []
        for f in mls:
            if f[:-3] + ".mli" in mlis:
                files.append(f[:-3] + ".mli")
            files.append(f)
        rc, out = sh(["ocamlfind", "ocamlopt", "-O2" if False else "-inline", "50", "-w", "-a", "-package", "str", "-linkpkg"] +
                     files + ["driver.ml", "-o", "model"], cwd=d, timeout=timeout)
        if rc != 0:
            shutil.rmtree(d, ignore_errors=True)
            raise BuildError("ocaml build of model %s failed:\n%s" % (fam, out[-4000:]))
    return exe


# ------------------------------------------------------------------------------------------------
# Known findings
def known_findings(pid):
    p = os.path.join(VERIF, "known_findings.json")
    if not os.path.exists(p):
        return []
    kf = json.load(open(p))
    return [e for e in kf.get("findings", []) if e.get("property") == pid and e.get("status") == "known"]


# ------------------------------------------------------------------------------------------------
# A check run: collects counters, verdict, evidence
class Run:
    def __init__(self, pid, tier, technique=""):
        self.pid, self.tier = pid, tier
        self.seed = seed_from_env()
        self.rng = Rng(self.seed ^ int(hashlib.sha256(pid.encode()).hexdigest()[:8], 16))
        self.t0 = time.time()
        self.cov = {"evaluations": 0, "distinct_nontrivial": 0, "samples": [], "rule": "",
                    "obligations": 0, "discharged": 0, "checker_cmd": "", "trusted_base": [],
                    "traces_validated_against_impl": 0, "distribution": {}}
        self.assumptions = []
        self.violations = []  # (replay path, note)
        self.known_printed = []
        self.broken = []  # names of theorems / correspondence lines that no longer check
        self._distinct = set()
        self.notes = []
        os.makedirs(os.path.join(VERIF, "evidence"), exist_ok=True)
        os.makedirs(os.path.join(VERIF, "replays"), exist_ok=True)

    # -- counters
    def case(self, canon, nontrivial=True, sample=None):
        self.cov["evaluations"] += 1
        if nontrivial:
            h = hashlib.sha256(canon if isinstance(canon, bytes) else str(canon).encode()).digest()[:8]
            self._distinct.add(h)
        if sample is not None and len(self.cov["samples"]) < 6:
            self.cov["samples"].append(sample)

    def dist(self, key, n=1):
        self.cov["distribution"][key] = self.cov["distribution"].get(key, 0) + n

    # -- proofs
    def proofs(self, pid=None, extra_note=""):
        """T1 + proof obligations of Properties_<pid>.v. Returns True when everything checks."""
        pid = pid or self.pid
        bad = hygiene(pid)
        if bad:
            self.broken.append("hygiene: " + "; ".join(bad[:5]))
        ok, msg = gen_facts()
        self.cov["facts"] = msg
        if not ok:
            self.broken.append("T1 gen_facts: " + msg)
            return False
        r = coq_properties(pid)
        ths = [t for t in r["theorems"]]
        self.cov["obligations"] += len(ths)
        self.cov["checker_cmd"] = "make -C coq Properties_%s.vo (coq_makefile, full .vo) && coqc -Q coq IW coq/Properties_%s.v" % (pid, pid)
        if r["ok"]:
            self.cov["discharged"] += len(ths)
            tb = set()
            for n, ax in r["assumptions"].items():
                for a in ax:
                    tb.add(a)
            self.cov["assumptions_per_theorem"] = {n: (ax or ["Closed under the global context"]) for n, ax in r["assumptions"].items()}
            self.cov["trusted_base"] = sorted(set(self.cov["trusted_base"]) | tb | {
                "Coq 8.16.1 kernel (coqc, vm_compute; no native_compute)",
                "tools/gen_facts.py + C probe (T1 translator of constants/macros into Gen/Facts.v)",
                "Extraction with ExtrOcamlBasic only (no Extract Constant), OCaml 4.13.1, ml/driver_*.ml",
                "C harness + canonicalisation/diff (T2 correspondence)"})
            self.cov["theorems"] = ths
            return True
        self.cov["proof_log_tail"] = r["log"][-1500:]
        fl = ", ".join("%s:%s" % f for f in r["failed"][:4]) or "see proof_log_tail"
        self.broken.append("proof obligation of Properties_%s no longer checks (%s)" % (pid, fl))
        return False

    # -- verdicts
    def violation(self, replay_obj, note, name=None):
        """a concrete failing input was found: decide whether it is a listed known finding"""
        for kf in known_findings(self.pid):
            pred = kf.get("match")
            if pred and _match(pred, replay_obj):
                if kf["id"] not in self.known_printed:
                    self.known_printed.append(kf["id"])
                    print("KNOWN-FINDING: property=%s %s" % (self.pid, kf["what"]))
                return False
        h = hashlib.sha256(json.dumps(replay_obj, sort_keys=True, default=str).encode()).hexdigest()[:10]
        path = os.path.join(VERIF, "replays", "%s-%s.json" % (self.pid, name or h))
        replay_obj = dict(replay_obj)
        replay_obj.update({"property": self.pid, "note": note, "seed": self.seed})
        json.dump(replay_obj, open(path, "w"), indent=1, default=str)
        self.violations.append((path, note))
        return True

    def known(self, kfid, what):
        if kfid not in self.known_printed:
            self.known_printed.append(kfid)
            print("KNOWN-FINDING: property=%s %s" % (self.pid, what))

    def finish(self, level="proof", rule="", assumptions=(), explanation=None):
        self.cov["distinct_nontrivial"] = len(self._distinct)
        self.cov["rule"] = rule
        if explanation:
            self.cov["explanation"] = explanation
        rc = 0
        lines = []
        if self.violations:
            rc = 1
            for p, note in self.violations[:5]:
                lines.append("VIOLATION property=%s replay=%s" % (self.pid, p))
        elif self.broken:
            rc = 1
            path = os.path.join(VERIF, "replays", "%s-unproved.json" % self.pid)
            json.dump({"property": self.pid, "no_longer_checks": self.broken, "seed": self.seed,
                       "search": "model/implementation/oracle search of this run found no failing input",
                       "evaluations": self.cov["evaluations"]}, open(path, "w"), indent=1)
            lines.append("VIOLATION property=%s replay=%s no-failing-input-found" % (self.pid, path))
        self.cov["broken"] = self.broken
        self.cov["notes"] = self.notes
        self.cov["known_findings_reported"] = self.known_printed
        ev = {"property_id": self.pid, "tier": self.tier, "seed": self.seed, "level": level,
              "coverage": self.cov, "assumptions": list(assumptions) + self.assumptions,
              "wall_s": round(time.time() - self.t0, 2), "violations": len(self.violations) + (1 if self.broken and not self.violations else 0)}
        json.dump(ev, open(os.path.join(VERIF, "evidence", "%s.json" % self.pid), "w"), indent=1, default=str)
        for l in lines:
            print(l)
        if rc == 0:
            print("OK property=%s tier=%s evaluations=%d distinct=%d obligations=%d/%d wall=%.1fs" % (
                self.pid, self.tier, self.cov["evaluations"], self.cov["distinct_nontrivial"],
                self.cov["discharged"], self.cov["obligations"], time.time() - self.t0))
        else:
            for b in self.broken:
                print("BROKEN: " + b)
            for p, note in self.violations[:5]:
                print("  " + note[:300])
        sys.stdout.flush()
        return rc


def _match(pred, obj):
    """known-finding predicate: dict of key -> value | {"re": regex} | {"contains": x}; all must hold"""
    for k, v in pred.items():
        cur = obj.get(k)
        if isinstance(v, dict):
            if "re" in v:
                if cur is None or not re.search(v["re"], cur if isinstance(cur, str) else json.dumps(cur)):
                    return False
            elif "contains" in v:
                if cur is None or v["contains"] not in cur:
                    return False
            elif "in" in v:
                if cur not in v["in"]:
                    return False
        elif cur != v:
            return False
    return True


def keep_build(exe):
    """a running check marks the build directory of its executable as in use (build_impl / build_model keep recent ones)"""
    try:
        d = os.path.dirname(exe if isinstance(exe, str) else exe[0])
        if d.startswith(BUILD):
            os.utime(d, None)
    except OSError:
        pass


def run_lines(exe, text, timeout=600, env=None, cwd=None):
    """feed text on stdin, return (rc, list of output lines, stderr tail)"""
    keep_build(exe)
    try:
        p = subprocess.run([exe] if isinstance(exe, str) else exe, input=text.encode() if isinstance(text, str) else text,
                           stdout=subprocess.PIPE, stderr=subprocess.PIPE, timeout=timeout, env=env, cwd=cwd)
        return p.returncode, p.stdout.decode("latin-1").split("\n"), p.stderr.decode("latin-1")[-3000:]
    except subprocess.TimeoutExpired as e:
        return 124, (e.stdout or b"").decode("latin-1").split("\n"), "[timeout]"


def hexs(b):
    return b.hex() if b else "-"
