# T1: regenerate coq/Gen/Facts.v from /repo's *current* working tree.
#  (a) constants, struct sizes/offsets, static tables: C probes that #include the .c file itself
#      (so function-local statics and file-local macros are visible) and print Gallina definitions;
#  (b) small pure integer macros: translated to Gallina from clang's JSON AST by cexpr (below);
#  (c) function-local literals: regular expressions over the function text which FAIL generation
#      when the line is no longer there.
import os, re, json, subprocess, hashlib, glob, sys

sys.path.insert(0, os.path.dirname(os.path.abspath(__file__)))
import vlib

PROBES = os.path.join(vlib.VERIF, "tools", "probes")
OUT = os.path.join(vlib.COQ, "Gen", "Facts.v")

# ---------------------------------------------------------------------------------------------
# (b) macro wrappers: name, return type, params (type name), body expression
MACROS = [
    ("IW_VNUMSIZE", "int", [("uint64_t", "n")], "IW_VNUMSIZE(n)", ["iwutils.h"]),
    ("IW_VNUMSIZE32", "int", [("uint32_t", "n")], "IW_VNUMSIZE32(n)", ["iwutils.h"]),
    ("IW_RANGES_OVERLAP", "int", [("int64_t", "s1"), ("int64_t", "e1"), ("int64_t", "s2"), ("int64_t", "e2")],
     "IW_RANGES_OVERLAP(s1, e1, s2, e2)", ["iwutils.h"]),
    ("IW_ROUNDUP", "uint64_t", [("uint64_t", "x"), ("uint64_t", "v")], "IW_ROUNDUP(x, v)", ["basedefs.h"]),
    ("IW_ROUNDOWN", "uint64_t", [("uint64_t", "x"), ("uint64_t", "v")], "IW_ROUNDOWN(x, v)", ["basedefs.h"]),
    ("ADDR2BLK", "uint32_t", [("int64_t", "a")], "ADDR2BLK(a)", ["iwkv_internal.h"]),
    ("BLK2ADDR", "uint64_t", [("uint32_t", "b")], "BLK2ADDR(b)", ["iwkv_internal.h"]),
]

INT_TYPES = {
    "int": (32, True), "unsigned int": (32, False), "long": (64, True), "unsigned long": (64, False),
    "long long": (64, True), "unsigned long long": (64, False), "short": (16, True), "unsigned short": (16, False),
    "char": (8, True), "signed char": (8, True), "unsigned char": (8, False), "_Bool": (1, False),
    "int64_t": (64, True), "uint64_t": (64, False), "int32_t": (32, True), "uint32_t": (32, False),
    "int16_t": (16, True), "uint16_t": (16, False), "int8_t": (8, True), "uint8_t": (8, False),
    "blkn_t": (32, False), "off_t": (64, True), "size_t": (64, False), "ssize_t": (64, True),
    "__uint64_t": (64, False), "__int64_t": (64, True), "__uint32_t": (32, False), "__int32_t": (32, True),
}


class TranslateError(Exception):
    pass


def ctype(node):
    t = node.get("type", {})
    q = t.get("desugaredQualType") or t.get("qualType")
    q = q.replace("const ", "").strip()
    if q not in INT_TYPES:
        raise TranslateError("unsupported C type %r" % q)
    return INT_TYPES[q]


def wrap(ty, e):
    bits, signed = ty
    return "(%s %d %s)" % ("sw" if signed else "uw", bits, e)


def tr(node):
    k = node["kind"]
    inner = [n for n in node.get("inner", []) if n.get("kind")]
    if k in ("ParenExpr", "ConstantExpr"):
        return tr(inner[0])
    if k == "IntegerLiteral":
        return "(%s)" % node["value"]
    if k == "DeclRefExpr":
        return node["referencedDecl"]["name"]
    if k in ("ImplicitCastExpr", "CStyleCastExpr"):
        ck = node.get("castKind")
        if ck in ("LValueToRValue", "NoOp"):
            return tr(inner[0])
        if ck == "IntegralCast":
            return wrap(ctype(node), tr(inner[0]))
        raise TranslateError("cast kind %s" % ck)
    if k == "UnaryOperator":
        op = node["opcode"]
        a = tr(inner[0])
        if op == "~":
            return wrap(ctype(node), "(Z.lnot %s)" % a)
        if op == "-":
            return wrap(ctype(node), "(- %s)" % a)
        if op == "!":
            return "(if Z.eqb %s 0 then 1 else 0)" % a
        raise TranslateError("unary " + op)
    if k == "BinaryOperator":
        op = node["opcode"]
        a, b = tr(inner[0]), tr(inner[1])
        ty = ctype(node)
        if op in ("+", "-", "*"):
            return wrap(ty, "(%s %s %s)" % (a, op, b))
        if op == "/":
            return wrap(ty, "(Z.quot %s %s)" % (a, b))
        if op == "%":
            return wrap(ty, "(Z.rem %s %s)" % (a, b))
        if op == "<<":
            return wrap(ty, "(Z.shiftl %s %s)" % (a, b))
        if op == ">>":
            return "(Z.shiftr %s %s)" % (a, b)
        if op == "&":
            return "(Z.land %s %s)" % (a, b)
        if op == "|":
            return "(Z.lor %s %s)" % (a, b)
        if op == "^":
            return "(Z.lxor %s %s)" % (a, b)
        cmpf = {"<": "Z.ltb", "<=": "Z.leb", ">": "Z.gtb", ">=": "Z.geb", "==": "Z.eqb"}
        if op in cmpf:
            return "(if %s %s %s then 1 else 0)" % (cmpf[op], a, b)
        if op == "!=":
            return "(if Z.eqb %s %s then 0 else 1)" % (a, b)
        if op == "&&":
            return "(if Z.eqb %s 0 then 0 else if Z.eqb %s 0 then 0 else 1)" % (a, b)
        if op == "||":
            return "(if Z.eqb %s 0 then (if Z.eqb %s 0 then 0 else 1) else 1)" % (a, b)
        raise TranslateError("binary " + op)
    if k == "ConditionalOperator":
        c, a, b = tr(inner[0]), tr(inner[1]), tr(inner[2])
        return "(if Z.eqb %s 0 then %s else %s)" % (c, b, a)
    raise TranslateError("unsupported AST node %s" % k)


def find_return(node):
    if node.get("kind") == "ReturnStmt":
        return node
    for n in node.get("inner", []):
        r = find_return(n)
        if r:
            return r
    return None


def translate_macros(incflags):
    os.makedirs(os.path.join(vlib.BUILD, "facts"), exist_ok=True)
    wrapper = os.path.join(vlib.BUILD, "facts", "macros.c")
    hdrs = sorted({h for m in MACROS for h in m[4]})
    src = "".join('#include "%s"\n' % h for h in ["iwcfg.h"] + hdrs)
    for name, rt, params, body, _ in MACROS:
        src += "%s vf_%s(%s) { return %s; }\n" % (rt, name, ", ".join("%s %s" % p for p in params), body)
    open(wrapper, "w").write(src)
    out = []
    for name, rt, params, body, _ in MACROS:
        p = subprocess.run(["clang", "-std=gnu11", "-fsigned-char", "-w", "-fsyntax-only"] + vlib.DEFINES + incflags +
                           ["-Xclang", "-ast-dump=json", "-Xclang", "-ast-dump-filter=vf_" + name, wrapper],
                           stdout=subprocess.PIPE, stderr=subprocess.PIPE)
        if p.returncode != 0:
            raise TranslateError("clang failed on %s: %s" % (name, p.stderr.decode()[:500]))
        txt = p.stdout.decode()
        dec = json.JSONDecoder()
        idx = txt.find("{")
        ast, _ = dec.raw_decode(txt[idx:])
        ret = find_return(ast)
        if not ret:
            raise TranslateError("no return in " + name)
        e = tr([n for n in ret["inner"] if n.get("kind")][0])
        out.append("Definition %s %s : Z := %s." % (name, " ".join("(%s : Z)" % p[1] for p in params), e))
    return out


# ---------------------------------------------------------------------------------------------
# (c) function-local literals by regular expression; each entry: name, file, regex with one group
# the captured C expression is evaluated by a generated probe against the current headers
LOCALS = [
    ("SPLIT_PIVOT", "kv/iwkv.c", r"const\s+int8_t\s+pivot\s*=\s*([^;]+);", "iwkv_internal.h"),
]


def local_literals(bdir):
    src = '#include "probe.h"\n'
    body = ""
    for name, f, rx, hdr in LOCALS:
        txt = open(os.path.join(vlib.REPO, "src", f)).read()
        ms = re.findall(rx, txt)
        if len(ms) != 1:
            raise TranslateError("%s: pattern found %d times in %s (expected once): %s" % (name, len(ms), f, rx))
        src += '#include "%s"\n' % hdr
        body += '  ZV("%s", %s);\n' % (name, ms[0])
    src += "int main(void) {\n" + body + "  return 0;\n}\n"
    c = os.path.join(vlib.BUILD, "facts", "locals.c")
    open(c, "w").write(src)
    exe = c[:-2]
    rc, out = vlib.sh(["gcc"] + vlib.CSTD + vlib.DEFINES + vlib.include_flags(bdir) + ["-I" + PROBES, c, "-o", exe])
    if rc != 0:
        raise TranslateError("function-local literal no longer evaluates: " + out[:1000])
    rc, out = vlib.sh([exe])
    return [l for l in out.split("\n") if l.strip()]


def run_probes(bdir):
    lines = []
    inc = vlib.include_flags(bdir)
    for src in sorted(glob.glob(os.path.join(PROBES, "probe_*.c"))):
        exe = os.path.join(vlib.BUILD, "facts", os.path.basename(src)[:-2])
        rc, out = vlib.sh(["gcc"] + vlib.CSTD + ["-O0"] + vlib.DEFINES + inc + ["-I" + PROBES, src,
                          os.path.join(bdir, "libiowow.a"), "-lm", "-lpthread", "-o", exe])
        if rc != 0:
            raise TranslateError("probe %s does not compile against the current tree: %s" % (os.path.basename(src), out[:1500]))
        rc, out = vlib.sh([exe], timeout=60)
        if rc != 0:
            raise TranslateError("probe %s failed: %s" % (os.path.basename(src), out[:500]))
        lines.append("(* %s *)" % os.path.basename(src))
        lines += [l for l in out.split("\n") if l.strip()]
    return lines


def generate():
    try:
        bdir = vlib.build_impl("plain")
        os.makedirs(os.path.join(vlib.BUILD, "facts"), exist_ok=True)
        body = ["(* GENERATED on every check run by tools/gen_facts.py from /repo's current working tree. *)",
                "Require Import ZArith List. Require Import IW.Lib.CInt. Import ListNotations.",
                "Local Open Scope Z_scope.", ""]
        body += run_probes(bdir)
        body += ["", "(* macros translated from the clang AST *)"]
        body += translate_macros(vlib.include_flags(bdir))
        body += ["", "(* function-local literals *)"]
        body += local_literals(bdir)
        txt = "\n".join(body) + "\n"
        os.makedirs(os.path.dirname(OUT), exist_ok=True)
        old = open(OUT).read() if os.path.exists(OUT) else None
        if old != txt:
            open(OUT, "w").write(txt)
        return True, "Gen/Facts.v sha256=%s (%d definitions, %s)" % (
            hashlib.sha256(txt.encode()).hexdigest()[:16], txt.count("Definition"), "rewritten" if old != txt else "unchanged")
    except (TranslateError, vlib.BuildError) as e:
        return False, str(e)[:2000]


if __name__ == "__main__":
    ok, msg = generate()
    print(msg)
    sys.exit(0 if ok else 1)
