#!/bin/bash
# verify a seeded change delivered in <worktree>/_seed: demo fails with it, passes without; suite passes with it
WT=$1; ID=$2
cd $WT || exit 2
cmake --build _b > /dev/null 2>&1
bash _seed/build_and_run.sh > _seed/with.log 2>&1; W=$?
git diff -- src > /tmp/seedpatch.$$ 
git apply -R /tmp/seedpatch.$$ && cmake --build _b > /dev/null 2>&1
bash _seed/build_and_run.sh > _seed/without.log 2>&1; WO=$?
git apply /tmp/seedpatch.$$ && cmake --build _b > /dev/null 2>&1
ctest --test-dir _b -j8 --timeout 900 > _seed/ctest_with.log 2>&1; CT=$?
rm -f /tmp/seedpatch.$$
echo "$ID demo_with_change_rc=$W demo_without_rc=$WO ctest_with_change_rc=$CT"
