// KV harness (C01, C02, C03, C06, C09): executes an operation script against the real store, one
// output line per input line.  Includes iwkv.c itself so that `struct` can walk the node chain and
// `iwkv_next_level` (IW_TESTS) can force skip-list levels.
#include "kv/iwkv.c"
#include "hcommon.h"
#ifdef LOCKORD
extern const char *lockord_ctx;
void lockord_before_open(void);
void lockord_after_open(IWKV kv_);
void lockord_dump(void);
#endif
#include <signal.h>
#include <unistd.h>
#include <sys/stat.h>

#define NDB  8
#define NCUR 8
static IWKV kv;
static IWDB dbs[NDB];
static iwdb_flags_t dbfl[NDB];
static IWKV_cursor curs[NCUR];
static int curdb[NCUR];
static char path[1024];

static const char* rcname(iwrc rc) {
  static char buf[64];
  iwrc_strip_errno(&rc);
  switch (rc) {
    case 0: return "OK";
    case IWKV_ERROR_NOTFOUND: return "NOTFOUND";
    case IWKV_ERROR_KEY_EXISTS: return "KEY_EXISTS";
    case IWKV_ERROR_MAXKVSZ: return "MAXKVSZ";
    case IWKV_ERROR_CORRUPTED: return "CORRUPTED";
    case IWKV_ERROR_DUP_VALUE_SIZE: return "DUP_VALUE_SIZE";
    case IWKV_ERROR_KEY_NUM_VALUE_SIZE: return "KEY_NUM_VALUE_SIZE";
    case IWKV_ERROR_INCOMPATIBLE_DB_MODE: return "INCOMPATIBLE_DB_MODE";
    case IWKV_ERROR_VALUE_CANNOT_BE_INCREMENTED: return "CANNOT_INCREMENT";
    case IW_ERROR_OVERFLOW: return "OVERFLOW";
    case IW_ERROR_INVALID_ARGS: return "INVALID_ARGS";
    case IW_ERROR_READONLY: return "READONLY";
    case IW_ERROR_INVALID_STATE: return "INVALID_STATE";
    case IW_ERROR_NOT_EXISTS: return "NOT_EXISTS";
    case 77777: return "HANDLER_ERROR";
    default: snprintf(buf, sizeof(buf), "E%llu", (unsigned long long) rc); return buf;
  }
}

static iwrc ph_ok(const IWKV_val *key, const IWKV_val *val, IWKV_val *oldval, void *op) {
  if (oldval) iwkv_val_dispose(oldval);
  return 0;
}
static iwrc ph_fail(const IWKV_val *key, const IWKV_val *val, IWKV_val *oldval, void *op) {
  if (oldval) iwkv_val_dispose(oldval);
  return 77777;
}

static void mkkey(IWKV_val *k, char *hex, char *comp, uint8_t **buf) {
  size_t n = unhex(hex, buf);
  k->data = *buf; k->size = n; k->compound = strtoll(comp, 0, 10);
}

static void print_key(int slot, const void *data, size_t size, int64_t comp) {
  puthex(data, size); printf(":%lld", (long long) comp);
}

// full scan of a database through a fresh cursor (BEFORE_FIRST, NEXT...)
static void dump(int slot) {
  IWKV_cursor c;
  iwrc rc = iwkv_cursor_open(dbs[slot], &c, IWKV_CURSOR_BEFORE_FIRST, 0);
  if (rc) { printf("%s", rcname(rc)); return; }
  int n = 0;
  printf("OK");
  while (!(rc = iwkv_cursor_to(c, IWKV_CURSOR_NEXT))) {
    IWKV_val k, v;
    rc = iwkv_cursor_get(c, &k, &v);
    if (rc) { printf(" GETERR:%s", rcname(rc)); break; }
    printf(" "); print_key(slot, k.data, k.size, k.compound); printf("="); puthex(v.data, v.size);
    iwkv_kv_dispose(&k, &v);
    if (++n > 2000000) { printf(" LOOP"); break; }
  }
  if (rc && rc != IWKV_ERROR_NOTFOUND) printf(" ENDERR:%s", rcname(rc));
  iwkv_cursor_close(&c);
}

// reverse scan
static void rdump(int slot) {
  IWKV_cursor c;
  iwrc rc = iwkv_cursor_open(dbs[slot], &c, IWKV_CURSOR_AFTER_LAST, 0);
  if (rc) { printf("%s", rcname(rc)); return; }
  printf("OK");
  int n = 0;
  while (!(rc = iwkv_cursor_to(c, IWKV_CURSOR_PREV))) {
    IWKV_val k, v;
    rc = iwkv_cursor_get(c, &k, &v);
    if (rc) { printf(" GETERR:%s", rcname(rc)); break; }
    printf(" "); print_key(slot, k.data, k.size, k.compound); printf("="); puthex(v.data, v.size);
    iwkv_kv_dispose(&k, &v);
    if (++n > 2000000) { printf(" LOOP"); break; }
  }
  if (rc && rc != IWKV_ERROR_NOTFOUND) printf(" ENDERR:%s", rcname(rc));
  iwkv_cursor_close(&c);
}

// node structure of a database: level-0 chain read through the library's own block reader:
// per node  lvl/pnum/full-lkey-flag/lkl : stored keys (hex, in slot order)
static void structure(int slot) {
  struct iwdb *db = dbs[slot];
  IWFS_FSM *fsm = &db->iwkv->fsm;
  uint8_t *mm;
  struct iwlctx lx = { .db = db, .nlvl = -1 };
  struct sblk *s;
  iwrc rc = _sblk_at(&lx, db->addr, 0, &s);
  if (rc) { printf("%s", rcname(rc)); return; }
  printf("OK dblvl=%d lcnt=", s->lvl);
  for (int i = 0; i < SLEVELS && i <= s->lvl; ++i) printf("%s%u", i ? "," : "", db->lcnt[i]);
  blkn_t n = s->n[0];
  _sblk_release(&lx, &s);
  int guard = 0;
  while (n && guard++ < 1000000) {
    rc = _sblk_at(&lx, BLK2ADDR(n), 0, &s);
    if (rc) { printf(" ERR:%s", rcname(rc)); return; }
    printf(" |%d/%d/%d/%d:", s->lvl, s->pnum, (s->flags & SBLK_FULL_LKEY) ? 1 : 0, s->lkl);
    rc = fsm->acquire_mmap(fsm, 0, &mm, 0);
    if (rc) { printf(" ERR:%s", rcname(rc)); return; }
    rc = _sblk_loadkvblk_mm(&lx, s, mm);
    if (!rc) {
      printf("p%d", s->kvblk->szpow);
      for (int i = 0; i < s->pnum; ++i) {
        uint8_t *k; uint32_t kl;
        rc = _kvblk_key_peek(s->kvblk, s->pi[i], mm, &k, &kl);
        if (rc) break;
        printf(","); puthex(k, kl);
      }
      printf(";lk="); puthex(s->lk, s->lkl);
    }
    fsm->release_mmap(fsm);
    n = s->n[0];
    _sblk_release(&lx, &s);
  }
}

// records of a database as the implementation's own readers see them (_kvblk_key_peek / _kvblk_value_peek), node by node
// in slot order: stored key, value length, FNV-1a of the value - compared with what the model reader (KV/Records.v) decodes
static void records(int slot) {
  struct iwdb *db = dbs[slot];
  IWFS_FSM *fsm = &db->iwkv->fsm;
  uint8_t *mm;
  struct iwlctx lx = { .db = db, .nlvl = -1 };
  struct sblk *s;
  iwrc rc = _sblk_at(&lx, db->addr, 0, &s);
  if (rc) { printf("%s", rcname(rc)); return; }
  printf("OK");
  blkn_t n = s->n[0];
  _sblk_release(&lx, &s);
  int guard = 0;
  while (n && guard++ < 1000000) {
    rc = _sblk_at(&lx, BLK2ADDR(n), 0, &s);
    if (rc) { printf(" ERR:%s", rcname(rc)); return; }
    printf(" |");
    rc = fsm->acquire_mmap(fsm, 0, &mm, 0);
    if (rc) { printf(" ERR:%s", rcname(rc)); return; }
    rc = _sblk_loadkvblk_mm(&lx, s, mm);
    if (!rc) {
      for (int i = 0; i < s->pnum; ++i) {
        uint8_t *k, *v; uint32_t kl, vl;
        rc = _kvblk_key_peek(s->kvblk, s->pi[i], mm, &k, &kl);
        if (rc) break;
        _kvblk_value_peek(s->kvblk, s->pi[i], mm, &v, &vl);
        uint32_t h = 2166136261u;
        for (uint32_t j = 0; j < vl; ++j) { h ^= v[j]; h *= 16777619u; }
        printf("%s", i ? "," : ""); puthex(k, kl); printf(":%u:%u", vl, h);
      }
    }
    fsm->release_mmap(fsm);
    n = s->n[0];
    _sblk_release(&lx, &s);
  }
}

static void closeall(void) {
  for (int i = 0; i < NCUR; ++i) if (curs[i]) iwkv_cursor_close(&curs[i]);
  for (int i = 0; i < NDB; ++i) dbs[i] = 0;
}

int main(int argc, char **argv) {
  static char line[1 << 22];
  char *tv[16];
  iwrc rc = iwkv_init();
  if (rc) return 2;
  setvbuf(stdout, 0, _IOLBF, 0);
  while (fgets(line, sizeof(line), stdin)) {
    int n = toks(line, tv, 16);
    if (n == 0) { printf("\n"); continue; }
    const char *op = tv[0];
    // a call that does not return is a finding, not a reason for the check to wait for ever (exit by SIGALRM); the
    // minimiser, which replays a script that already failed, asks for a shorter wait (VERIF_KV_ALARM)
    { static unsigned wd; if (!wd) { const char *e = getenv("VERIF_KV_ALARM"); wd = e && atoi(e) > 0 ? (unsigned) atoi(e) : 90; } alarm(wd); }
#ifdef LOCKORD
    { static char ctxbuf[16]; snprintf(ctxbuf, sizeof(ctxbuf), "%s", op); lockord_ctx = ctxbuf; }
#endif
    uint8_t *kb = 0, *vb = 0;
    if (!strcmp(op, "open")) {          // open <path> <wal> <rdonly> <trunc> <notrim>
      if (kv) { // a script (e.g. a shrunk one) may reopen without closing: never wait for our own file lock
        closeall();
        iwkv_close(&kv);
      }
      snprintf(path, sizeof(path), "%s", tv[1]);
      struct iwkv_opts o = { .path = path, .random_seed = 1,
                             .oflags = (atoi(tv[3]) ? IWKV_RDONLY : 0) | (atoi(tv[4]) ? IWKV_TRUNC : 0)
                                       | (atoi(tv[5]) ? IWKV_NO_TRIM_ON_CLOSE : 0),
                             .wal = { .enabled = atoi(tv[2]) != 0, .savepoint_timeout_sec = 100000,
                                      .checkpoint_timeout_sec = 200000, .wal_buffer_sz = 64 * 1024,
                                      .checkpoint_buffer_sz = 32 * 1024 * 1024 } };
#ifdef LOCKORD
      lockord_before_open();
#endif
      rc = iwkv_open(&o, &kv);
#ifdef LOCKORD
      lockord_after_open(rc ? 0 : kv);
#endif
      printf("%s\n", rcname(rc));
    } else if (!strcmp(op, "close")) {
      closeall();
      rc = iwkv_close(&kv);
#ifdef LOCKORD
      lockord_dump();
#endif
      printf("%s\n", rcname(rc));
    } else if (!strcmp(op, "db")) {     // db <slot> <dbid> <mode3>
      int s = atoi(tv[1]);
      iwdb_flags_t fl = (tv[3][0] == '1' ? IWDB_VNUM64_KEYS : 0) | (tv[3][1] == '1' ? IWDB_REALNUM_KEYS : 0)
                        | (tv[3][2] == '1' ? IWDB_COMPOUND_KEYS : 0);
      rc = iwkv_db(kv, (uint32_t) atoi(tv[2]), fl, &dbs[s]);
      dbfl[s] = fl;
      if (rc) dbs[s] = 0;
      printf("%s\n", rcname(rc));
    } else if (!strcmp(op, "dbdestroy")) {
      int s = atoi(tv[1]);
      // destroying a database waits for every open cursor of the store (documented): close them all first
      for (int i = 0; i < NCUR; ++i) if (curs[i]) iwkv_cursor_close(&curs[i]);
      rc = iwkv_db_destroy(&dbs[s]);
      dbs[s] = 0;
      printf("%s\n", rcname(rc));
    } else if (!strcmp(op, "put")) {    // put <slot> <key> <comp> <val> <opflags> <ph>
      int s = atoi(tv[1]);
      IWKV_val k, v = { 0 };
      mkkey(&k, tv[2], tv[3], &kb);
      v.size = unhex(tv[4], &vb); v.data = vb;
      int ph = n > 6 ? atoi(tv[6]) : 0;
      rc = iwkv_puth(dbs[s], &k, &v, (iwkv_opflags) atoi(tv[5]), ph == 1 ? ph_ok : ph == 2 ? ph_fail : 0, 0);
      printf("%s\n", rcname(rc));
    } else if (!strcmp(op, "putbig")) { // putbig <slot> <key> <comp> <size> : value of <size> bytes (not materialised in the script)
      int s = atoi(tv[1]);
      IWKV_val k, v = { 0 };
      mkkey(&k, tv[2], tv[3], &kb);
      size_t sz = strtoull(tv[4], 0, 10);
      vb = calloc(1, sz < 64 ? 64 : (sz > (1u << 20) ? 64 : sz));
      v.data = vb; v.size = sz;
      rc = iwkv_put(dbs[s], &k, &v, 0);
      printf("%s\n", rcname(rc));
    } else if (!strcmp(op, "putkbig") && n >= 6) { // putkbig <slot> <prefix> <comp> <keysize> <val>: key = prefix, then zero bytes up to <keysize>
      int s = atoi(tv[1]);
      IWKV_val k, v = { 0 };
      mkkey(&k, tv[2], tv[3], &kb);
      size_t ksz = strtoull(tv[4], 0, 10);
      uint8_t *big = calloc(1, ksz < k.size ? k.size : ksz);    // pages are only touched where the library reads them
      if (!big) { printf("NOMEM\n"); free(kb); continue; }
      memcpy(big, k.data, k.size);
      k.data = big; k.size = ksz < k.size ? k.size : ksz;
      v.size = unhex(tv[5], &vb); v.data = vb;
      rc = iwkv_put(dbs[s], &k, &v, 0);
      printf("%s\n", rcname(rc));
      free(big);
    } else if (!strcmp(op, "get")) {
      int s = atoi(tv[1]);
      IWKV_val k, v = { 0 };
      mkkey(&k, tv[2], tv[3], &kb);
      rc = iwkv_get(dbs[s], &k, &v);
      printf("%s ", rcname(rc));
      if (!rc) { puthex(v.data, v.size); iwkv_val_dispose(&v); } else printf("-");
      printf("\n");
    } else if (!strcmp(op, "getcopy")) {
      int s = atoi(tv[1]);
      IWKV_val k;
      mkkey(&k, tv[2], tv[3], &kb);
      size_t bs = strtoull(tv[4], 0, 10), vsz = 0;
      vb = malloc(bs + 1);
      rc = iwkv_get_copy(dbs[s], &k, vb, bs, &vsz);
      printf("%s %zu ", rcname(rc), vsz);
      if (!rc) puthex(vb, vsz < bs ? vsz : bs); else printf("-");
      printf("\n");
    } else if (!strcmp(op, "del")) {
      int s = atoi(tv[1]);
      IWKV_val k;
      mkkey(&k, tv[2], tv[3], &kb);
      rc = iwkv_del(dbs[s], &k, 0);
      printf("%s\n", rcname(rc));
    } else if (!strcmp(op, "setmeta")) {
      int s = atoi(tv[1]);
      size_t l = unhex(tv[2], &vb);
      rc = iwkv_db_set_meta(dbs[s], vb, l);
      printf("%s\n", rcname(rc));
    } else if (!strcmp(op, "getmeta")) {
      int s = atoi(tv[1]);
      size_t bs = strtoull(tv[2], 0, 10), rsz = 0;
      vb = calloc(1, bs + 1);
      rc = iwkv_db_get_meta(dbs[s], vb, bs, &rsz);
      printf("%s %zu ", rcname(rc), rsz); puthex(vb, rsz); printf("\n");
    } else if (!strcmp(op, "sync")) {
      for (int i = 0; i < NCUR; ++i) if (curs[i]) iwkv_cursor_close(&curs[i]);   // sync with an open cursor deadlocks (documented)
      rc = iwkv_sync(kv, 0);
      printf("%s\n", rcname(rc));
    } else if (!strcmp(op, "checkpoint")) {
      for (int i = 0; i < NCUR; ++i) if (curs[i]) iwkv_cursor_close(&curs[i]);
      rc = iwal_test_checkpoint(kv);
      printf("%s\n", rcname(rc));
    } else if (!strcmp(op, "level")) {
      iwkv_next_level = (int8_t) atoi(tv[1]);
      printf("OK\n");
    } else if (!strcmp(op, "copen")) {  // copen <c> <slot> <op> [key comp]
      int c = atoi(tv[1]), s = atoi(tv[2]);
      IWKV_val k;
      if (curs[c]) iwkv_cursor_close(&curs[c]);
      if (n > 4) mkkey(&k, tv[4], tv[5], &kb);
      rc = iwkv_cursor_open(dbs[s], &curs[c], (IWKV_cursor_op) atoi(tv[3]), n > 4 ? &k : 0);
      curdb[c] = s;
      printf("%s\n", rcname(rc));
    } else if (!strcmp(op, "cto")) {
      int c = atoi(tv[1]);
      rc = iwkv_cursor_to(curs[c], (IWKV_cursor_op) atoi(tv[2]));
      printf("%s\n", rcname(rc));
    } else if (!strcmp(op, "ctokey")) {
      int c = atoi(tv[1]);
      IWKV_val k;
      mkkey(&k, tv[3], tv[4], &kb);
      rc = iwkv_cursor_to_key(curs[c], (IWKV_cursor_op) atoi(tv[2]), &k);
      printf("%s\n", rcname(rc));
    } else if (!strcmp(op, "cget")) {
      int c = atoi(tv[1]);
      IWKV_val k = { 0 }, v = { 0 };
      rc = iwkv_cursor_get(curs[c], &k, &v);
      printf("%s ", rcname(rc));
      if (!rc) { print_key(curdb[c], k.data, k.size, k.compound); printf("="); puthex(v.data, v.size); iwkv_kv_dispose(&k, &v); }
      else printf("-");
      printf("\n");
    } else if (!strcmp(op, "ckey")) {
      int c = atoi(tv[1]);
      IWKV_val k = { 0 };
      rc = iwkv_cursor_key(curs[c], &k);
      printf("%s ", rcname(rc));
      if (!rc) { print_key(curdb[c], k.data, k.size, k.compound); iwkv_val_dispose(&k); } else printf("-");
      printf("\n");
    } else if (!strcmp(op, "cval")) {
      int c = atoi(tv[1]);
      IWKV_val v = { 0 };
      rc = iwkv_cursor_val(curs[c], &v);
      printf("%s ", rcname(rc));
      if (!rc) { puthex(v.data, v.size); iwkv_val_dispose(&v); } else printf("-");
      printf("\n");
    } else if (!strcmp(op, "ccopyval")) {
      int c = atoi(tv[1]);
      size_t bs = strtoull(tv[2], 0, 10), vsz = 0;
      vb = malloc(bs + 1);
      rc = iwkv_cursor_copy_val(curs[c], vb, bs, &vsz);
      printf("%s %zu ", rcname(rc), vsz);
      if (!rc) puthex(vb, vsz < bs ? vsz : bs); else printf("-");
      printf("\n");
    } else if (!strcmp(op, "ccopykey")) {
      int c = atoi(tv[1]);
      size_t bs = strtoull(tv[2], 0, 10), ksz = 0;
      int64_t comp = 0;
      vb = malloc(bs + 1);
      rc = iwkv_cursor_copy_key(curs[c], vb, bs, &ksz, &comp);
      printf("%s %zu %lld ", rcname(rc), ksz, (long long) comp);
      if (!rc) puthex(vb, ksz < bs ? ksz : bs); else printf("-");
      printf("\n");
    } else if (!strcmp(op, "cmatch")) {
      int c = atoi(tv[1]);
      IWKV_val k;
      mkkey(&k, tv[2], tv[3], &kb);
      bool res = false;
      int64_t comp = 0;
      rc = iwkv_cursor_is_matched_key(curs[c], &k, &res, &comp);
      printf("%s %d %lld\n", rcname(rc), rc ? 0 : res, (long long) (rc ? 0 : comp));
    } else if (!strcmp(op, "cmatchself")) {   // cmatchself <c> <width>: is_matched_key with the cursor's own key, number keys as 4 or 8 bytes
      int c = atoi(tv[1]), w = atoi(tv[2]);
      size_t ksz = 0;
      int64_t comp = 0, comp2 = 0;
      vb = malloc(70000);
      rc = iwkv_cursor_copy_key(curs[c], vb, 70000, &ksz, &comp);
      if (rc) {
        printf("%s 0 0\n", rcname(rc));
      } else {
        IWKV_val k = { .data = vb, .size = ksz, .compound = comp };
        bool res = false, skip = false;
        if (w == 4 && ksz == 8) {
          uint64_t v; memcpy(&v, vb, 8);
          if (v > 0x7fffffffULL) skip = true; else k.size = 4;
        }
        if (skip) {
          printf("SKIP\n");
        } else {
          rc = iwkv_cursor_is_matched_key(curs[c], &k, &res, &comp2);
          printf("%s %d %lld\n", rcname(rc), rc ? 0 : res, (long long) (rc ? 0 : comp2));
        }
      }
    } else if (!strcmp(op, "cset")) {   // cset <c> <val> <opflags>
      int c = atoi(tv[1]);
      IWKV_val v = { 0 };
      v.size = unhex(tv[2], &vb); v.data = vb;
      rc = iwkv_cursor_set(curs[c], &v, (iwkv_opflags) atoi(tv[3]));
      printf("%s\n", rcname(rc));
    } else if (!strcmp(op, "cdel")) {
      int c = atoi(tv[1]);
      rc = iwkv_cursor_del(curs[c], 0);
      printf("%s\n", rcname(rc));
    } else if (!strcmp(op, "cclose")) {
      int c = atoi(tv[1]);
      rc = iwkv_cursor_close(&curs[c]);
      printf("%s\n", rcname(rc));
    } else if (!strcmp(op, "cpeek")) {  // internal cursor bookkeeping
      int c = atoi(tv[1]);
      if (!curs[c]) printf("none\n");
      else if (!curs[c]->cn) printf("nocn pos=%d skip=%d dbaddr=%d\n", curs[c]->cnpos, curs[c]->skip_next, curs[c]->dbaddr ? (curs[c]->dbaddr < 0 ? -1 : 1) : 0);
      else printf("cn pos=%d skip=%d pnum=%d db=%d\n", curs[c]->cnpos, curs[c]->skip_next, curs[c]->cn->pnum, (curs[c]->cn->flags & SBLK_DB) ? 1 : 0);
    } else if (!strcmp(op, "dump")) {
      dump(atoi(tv[1])); printf("\n");
    } else if (!strcmp(op, "rdump")) {
      rdump(atoi(tv[1])); printf("\n");
    } else if (!strcmp(op, "lower")) {   // lower <slot> <keyhex> <comp>: where the multi-level search (_lx_find_bounds) ends
      int sl = atoi(tv[1]);
      struct iwdb *db = dbs[sl];
      uint8_t *kb; size_t kl = unhex(tv[2], &kb);
      struct iwkv_val key = { .data = kb, .size = kl, .compound = n > 3 ? atoll(tv[3]) : 0 }, ekey;
      uint8_t nbuf[IW_VNUMBUFSZ];
      if (!db) { printf("INVALID_ARGS\n"); }
      else if ((rc = _to_effective_key(db, &key, &ekey, nbuf))) { printf("%s\n", rcname(rc)); }
      else {
        struct iwlctx lx = { .db = db, .key = &ekey, .nlvl = -1 };
        rc = _lx_find_bounds(&lx);
        if (rc) { printf("%s\n", rcname(rc)); }
        else {
          off_t laddr = (lx.lower->flags & SBLK_DB) ? 0 : lx.lower->addr;
          struct iwlctx lw = { .db = db, .nlvl = -1 };
          struct sblk *h;
          int idx = -1, i = 0, top = 0;
          char lv[8192]; size_t ll = 0; lv[0] = 0;
          if (!_sblk_at(&lw, db->addr, 0, &h)) {
            top = h->lvl;
            blkn_t nb = h->n[0];
            _sblk_release(&lw, &h);
            while (nb && i < 2000) {
              if (_sblk_at(&lw, BLK2ADDR(nb), 0, &h)) break;
              if (h->addr == laddr) idx = i;
              ll += snprintf(lv + ll, sizeof(lv) - ll, "%s%d", i ? "," : "", h->lvl);
              nb = h->n[0];
              _sblk_release(&lw, &h);
              ++i;
            }
          }
          printf("OK idx=%d top=%d lv=%s\n", idx, top, ll ? lv : "-");
        }
        _lx_release_mm(&lx, 0);
      }
      free(kb);
    } else if (!strcmp(op, "struct")) {
      structure(atoi(tv[1])); printf("\n");
    } else if (!strcmp(op, "recs") && n >= 2 && atoi(tv[1]) >= 0 && atoi(tv[1]) < NDB && dbs[atoi(tv[1])]) {
      records(atoi(tv[1])); printf("\n");
    } else if (!strcmp(op, "fsize")) {
      struct stat st;
      if (stat(path, &st)) printf("ERR\n"); else printf("%lld\n", (long long) st.st_size);
    } else if (!strcmp(op, "exit")) {   // die without closing (keeps the WAL)
      fflush(stdout);
      _exit(0);
    } else {
      printf("?\n");
    }
    free(kb); free(vb);
    fflush(stdout);
  }
  return 0;
}
