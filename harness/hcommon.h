// shared helpers of the harnesses: line protocol, hex
#include <stdio.h>
#include <stdlib.h>
#include <string.h>
#include <stdint.h>
#include <inttypes.h>
static int hx(int c) { return c <= '9' ? c - '0' : (c | 32) - 'a' + 10; }
static size_t unhex(const char *h, uint8_t **out) {
  if (!strcmp(h, "-")) { *out = calloc(1, 1); return 0; }
  size_t n = strlen(h) / 2;
  uint8_t *b = malloc(n + 1);
  for (size_t i = 0; i < n; ++i) b[i] = (uint8_t) (hx(h[2 * i]) * 16 + hx(h[2 * i + 1]));
  b[n] = 0;
  *out = b;
  return n;
}
static void puthex(const void *p, size_t n) {
  if (!n) { putchar('-'); return; }
  for (size_t i = 0; i < n; ++i) printf("%02x", ((const uint8_t*) p)[i]);
}
static int sgn(long long x) { return x < 0 ? -1 : x > 0 ? 1 : 0; }
// split a line into at most max tokens in place
static int toks(char *line, char **tv, int max) {
  int n = 0;
  char *sp = 0;
  for (char *t = strtok_r(line, " \r\n", &sp); t && n < max; t = strtok_r(0, " \r\n", &sp)) tv[n++] = t;
  return n;
}
