// C15/C16 harness: JSON Patch (RFC 6902) and JSON Merge Patch (RFC 7386) of the implementation.
// One query per line, documents/patches are JSON text given as hex:
//   patch <tn|ta|bs|bj> <doc> <patch>     tn: jbn_patch with a struct array built here (exact member names)
//                                         ta: jbn_patch_auto (decoding by _jbl_create_patch)
//                                         bs: jbl_patch (struct array)   bj: jbl_patch_from_json
//   merge <tp|th|tj|ta|bj|bb> <doc> <patch>   tp: jbn_merge_patch pool   th: jbn_merge_patch pool=0 on a heap tree
//                                         tj: jbn_merge_patch_from_json  ta: jbn_patch_auto
//                                         bj: jbl_merge_patch            bb: jbl_merge_patch_jbl
//   mpath <tp|th> <doc> <path> <val>      jbn_merge_patch_path (val "-" = no value)
//   cmp <a> <b>                           jbn_compare_nodes(a, b) == 0 and (b, a) == 0: the equality `test` uses -> eq=<0|1> rev=<0|1>
//   reg <m|r|s> <doc> <path> <val>        a registry (iwjsreg_open on a file holding <doc>: heap-allocated tree) and ONE call:
//                                         m: iwjsreg_merge(reg, path, val)   r: iwjsreg_replace(reg, path, val)
//                                         s: the typed entry point for a scalar val (iwjsreg_merge_str/_i64/_f64/_bool/_remove)
//                                         -> rc=<enum> doc=<dump of the registry's root> links= dirty=<0|1> leak=<0|1>
//   msub <doc> <path> <patch>             jbn_merge_patch_from_json on the node at <path> (a member of a larger tree); whole document dumped
//   mdeep <n>                             a value nested n arrays deep (jbn_add_item) merged at /a into a heap {"x":1}: rc, members, leak
//   reg <mB|..> ...                       second mode letter B: the registry file holds the binary form (IWJSREG_FORMAT_BINARY)
//   merge <bj|bb> with a scalar <doc>     the scalar jbl is installed by jbl_merge_patch on an empty object (jbl_from_json takes containers)
//   regs <doc> <steps>                    the same registry and SEVERAL calls: steps = JSON [["m"|"r", path, value?], ...]
//                                         -> rcs=<rc,rc,...> doc= links= dirty= leak=
//   idpatch <tn|ta> <doc> <patch>         jbn_patch / jbn_patch_auto with node IDENTITIES: every node of the document and of the patch
//                                         document is numbered depth first before the call; afterwards the result is walked:
//                                         -> rc= own=<d<i>|p<j>|n per node, depth first> dup=<0|1> par=<ok|bad>
//                                         (d = a node of the document, p = of the patch document, n = allocated by the call;
//                                          dup = some node is listed twice; par = every child's `parent` is the node that lists it)
// With H_JPATCH_PAR=1 in the environment a tree answer ends in " par=bad" when some child's `parent` pointer is not the node
// that lists it.
// Answer: rc=<enum> doc=<canonical dump> [kl=<cached indices of array items, dfs>] [links=ok|bad] [unchanged=0|1] [leak=0|1]
// Includes iwjson.c itself so that the static functions are reachable.
#include "json/iwjson.c"
#include "json/iwjsreg.c"
#include "hcommon.h"
#include <errno.h>

#if defined(__SANITIZE_ADDRESS__)
#include <sanitizer/lsan_interface.h>
#define HAVE_LSAN 1
#else
#define HAVE_LSAN 0
#endif

// hcommon's unhex leaves the single byte of an empty string unset
static size_t unhex0(const char *h, uint8_t **out) {
  size_t n = unhex(h, out);
  (*out)[n] = 0;
  return n;
}

static const char* rcname(iwrc rc) {
  static char buf[32];
  switch (rc) {
    case 0: return "ok";
    case JBL_ERROR_PATH_NOTFOUND: return "notfound";
    case JBL_ERROR_PATCH_INVALID: return "pinvalid";
    case JBL_ERROR_PATCH_INVALID_OP: return "badop";
    case JBL_ERROR_PATCH_NOVALUE: return "novalue";
    case JBL_ERROR_PATCH_TARGET_INVALID: return "tinvalid";
    case JBL_ERROR_PATCH_INVALID_VALUE: return "ivalue";
    case JBL_ERROR_PATCH_INVALID_ARRAY_INDEX: return "badidx";
    case JBL_ERROR_PATCH_TEST_FAILED: return "testfail";
    case JBL_ERROR_JSON_POINTER: return "badptr";
    case JBL_ERROR_PARSE_JSON:
    case JBL_ERROR_PARSE_UNQUOTED_STRING:
    case JBL_ERROR_PARSE_INVALID_CODEPOINT:
    case JBL_ERROR_PARSE_INVALID_UTF8: return "parse";
    case JBL_ERROR_CREATION: return "creation";
    case IW_ERROR_INVALID_ARGS: return "invargs";
    case IW_ERROR_NOT_IMPLEMENTED: return "notimpl";
    default:
      snprintf(buf, sizeof(buf), "err%llu", (unsigned long long) rc);
      return buf;
  }
}

static long budget;
static int links_bad;
static int par_bad;     // some child's `parent` pointer is not the node that lists it (reported only with H_JPATCH_PAR=1)

static void dump(struct jbl_node *n, int lvl) {
  if (!n) { printf("?"); return; }
  if (budget < 0) return;
  if (--budget < 0 || lvl > 200) { budget = -1; printf("CORRUPT"); return; }
  switch (n->type) {
    case JBV_NONE: printf("_"); break;
    case JBV_NULL: printf("N"); break;
    case JBV_BOOL: printf(n->vbool ? "T" : "F"); break;
    case JBV_I64: printf("I%" PRId64, n->vi64); break;
    case JBV_F64: { uint64_t b; memcpy(&b, &n->vf64, 8); printf("D%016" PRIx64, b); break; }
    case JBV_STR: printf("S"); puthex(n->vptr, n->vsize > 0 ? n->vsize : 0); break;
    case JBV_ARRAY:
      printf("[");
      for (struct jbl_node *c = n->child; c && budget >= 0; c = c->next) {
        if (c != n->child) printf(",");
        if (c != n->child && (!c->prev || c->prev->next != c)) links_bad = 1;
        if (c->parent != n) par_bad = 1;
        dump(c, lvl + 1);
      }
      printf("]");
      break;
    case JBV_OBJECT:
      printf("{");
      for (struct jbl_node *c = n->child; c && budget >= 0; c = c->next) {
        if (c != n->child) printf(",");
        if (c != n->child && (!c->prev || c->prev->next != c)) links_bad = 1;
        if (c->parent != n) par_bad = 1;
        if (c->key) puthex(c->key, c->klidx > 0 ? c->klidx : 0); else printf("?");
        printf(":");
        dump(c, lvl + 1);
      }
      printf("}");
      break;
    default: printf("?type%d", (int) n->type);
  }
}

static void dump_kl(struct jbl_node *n, int lvl, int *first) {
  if (!n || --budget < 0 || lvl > 200) return;
  if (n->type == JBV_ARRAY || n->type == JBV_OBJECT) {
    for (struct jbl_node *c = n->child; c && budget >= 0; c = c->next) {
      if (n->type == JBV_ARRAY) { printf("%s%d", *first ? "" : ",", c->klidx); *first = 0; }
      dump_kl(c, lvl + 1, first);
    }
    if (n->type == JBV_ARRAY) { printf("%s;", *first ? "" : ""); *first = 1; }
  }
}

static void out_tree(iwrc rc, struct jbl_node *root, int kl) {
  printf("rc=%s doc=", rcname(rc));
  budget = 20000; links_bad = 0; par_bad = 0;
  dump(root, 0);
  if (kl) {
    int first = 1;
    printf(" kl=");
    budget = 20000;
    dump_kl(root, 0, &first);
  }
  printf(" links=%s", links_bad ? "bad" : "ok");
  if (par_bad && getenv("H_JPATCH_PAR")) printf(" par=bad");
}

static void out_jbl(iwrc rc, struct jbl *jbl) {
  printf("rc=%s doc=", rcname(rc));
  struct iwpool *pool = iwpool_create(1024);
  struct jbl_node *n = 0;
  if (jbl->bn.ptr == 0 || jbl->bn.type == 0) {
    printf("_");
  } else {
    iwrc rc2 = _jbl_node_from_binn(&jbl->bn, &n, false, pool);
    if (rc2) printf("!%s", rcname(rc2));
    else if (n) { budget = 20000; dump(n, 0); }
    else { // scalar document
      switch (jbl_type(jbl)) {
        case JBV_NULL: printf("N"); break;
        case JBV_BOOL: printf(jbl_get_i32(jbl) ? "T" : "F"); break;
        case JBV_I64: printf("I%" PRId64, jbl_get_i64(jbl)); break;
        case JBV_F64: { double d = jbl_get_f64(jbl); uint64_t b; memcpy(&b, &d, 8); printf("D%016" PRIx64, b); break; }
        case JBV_STR: { const char *sp = jbl_get_str(jbl); printf("S"); puthex(sp, sp ? strlen(sp) : 0); break; }
        default: printf("?"); break;
      }
    }
  }
  iwpool_destroy(pool);
}

// exact decoding of a patch document into struct jbl_patch[], independent of _jbl_create_patch
static int build_patch(struct jbl_node *pn, struct jbl_patch **out, struct iwpool *pool) {
  if (pn->type != JBV_ARRAY) return -1;
  int cnt = jbn_length(pn);
  struct jbl_patch *p = iwpool_calloc(sizeof(*p) * (cnt + 1), pool);
  int i = 0;
  for (struct jbl_node *n = pn->child; n; n = n->next, ++i) {
    if (n->type != JBV_OBJECT) return -1;
    for (struct jbl_node *m = n->child; m; m = m->next) {
      if (m->klidx == 2 && !memcmp(m->key, "op", 2)) {
        if (m->type != JBV_STR) return -1;
        static const char *ops[] = { 0, "add", "remove", "replace", "copy", "move", "test", "increment", "add_create", "swap" };
        for (int k = 1; k <= 9; ++k) {
          if ((int) strlen(ops[k]) == m->vsize && !memcmp(ops[k], m->vptr, m->vsize)) p[i].op = (jbp_patch_t) k;
        }
        if (!p[i].op) return -2;
      } else if (m->klidx == 4 && !memcmp(m->key, "path", 4)) {
        if (m->type != JBV_STR) return -1;
        p[i].path = m->vptr;
      } else if (m->klidx == 4 && !memcmp(m->key, "from", 4)) {
        if (m->type != JBV_STR) return -1;
        p[i].from = m->vptr;
      } else if (m->klidx == 5 && !memcmp(m->key, "value", 5)) {
        p[i].vnode = m;
      }
    }
  }
  *out = p;
  return cnt;
}

static iwrc free_visitor(int lvl, struct jbl_node *n) {
  return _jbn_allocated_destroy_visitor(lvl, n);
}

// frees a heap tree of any depth (jbn_visit2 stops at JBL_MAX_NESTING_LEVEL)
static void free_deep(struct jbl_node *n) {
  if (n->type == JBV_OBJECT || n->type == JBV_ARRAY) {
    for (struct jbl_node *c = n->child, *next; c; c = next) { next = c->next; free_deep(c); }
  }
  if (n->key) free((void*) n->key);
  if (n->type == JBV_STR) free((void*) n->vptr);
  free(n);
}

static int leak_check(void) {
#if HAVE_LSAN
  return __lsan_do_recoverable_leak_check() ? 1 : 0;
#else
  return 0;
#endif
}

#define IDMAX 4096
static struct jbl_node *id_doc[IDMAX], *id_patch[IDMAX], *id_seen[IDMAX];
static int id_ndoc, id_npatch, id_nseen, id_dup, id_par;

static void id_number(struct jbl_node *n, struct jbl_node **tab, int *cnt, int lvl) {
  if (!n || *cnt >= IDMAX || lvl > 200) return;
  tab[(*cnt)++] = n;
  if (n->type == JBV_OBJECT || n->type == JBV_ARRAY) {
    for (struct jbl_node *c = n->child; c; c = c->next) id_number(c, tab, cnt, lvl + 1);
  }
}

static void id_walk(struct jbl_node *n, int lvl, int *first) {
  if (!n || id_nseen >= IDMAX || lvl > 200) { id_dup = 1; return; }
  for (int i = 0; i < id_nseen; ++i) if (id_seen[i] == n) id_dup = 1;
  id_seen[id_nseen++] = n;
  int k = -1;
  for (int i = 0; i < id_ndoc && k < 0; ++i) if (id_doc[i] == n) k = i;
  if (k >= 0) printf("%sd%d", *first ? "" : ",", k);
  else {
    for (int i = 0; i < id_npatch && k < 0; ++i) if (id_patch[i] == n) k = i;
    if (k >= 0) printf("%sp%d", *first ? "" : ",", k); else printf("%sn", *first ? "" : ",");
  }
  *first = 0;
  if (n->type == JBV_OBJECT || n->type == JBV_ARRAY) {
    for (struct jbl_node *c = n->child; c && !id_dup; c = c->next) {
      if (c->parent != n) id_par = 1;
      id_walk(c, lvl + 1, first);
    }
  }
}

int main(void) {
  static char line[1 << 20];
  char *tv[8];
  iwrc rc0 = iw_init();
  (void) rc0;
  setvbuf(stdout, 0, _IOLBF, 0);
  while (fgets(line, sizeof(line), stdin)) {
    int n = toks(line, tv, 8);
    if (n == 0) { printf("\n"); continue; }
    errno = 0; // the text parser reads a stale ERANGE as its own (C17's subject); every query starts clean
    if (!strcmp(tv[0], "patch") && n == 4) {
      const char *mode = tv[1];
      uint8_t *doc, *pt;
      unhex0(tv[2], &doc); unhex0(tv[3], &pt);
      struct iwpool *pool = iwpool_create(4096);
      iwrc rc = 0;
      if (mode[0] == 't') {
        struct jbl_node *root = 0, *pn = 0;
        rc = jbn_from_json((char*) doc, &root, pool);
        if (rc) { printf("docparse=%s\n", rcname(rc)); goto pdone; }
        rc = jbn_from_json((char*) pt, &pn, pool);
        if (rc) { printf("patchparse=%s\n", rcname(rc)); goto pdone; }
        if (mode[1] == 'n') {
          struct jbl_patch *p = 0;
          int cnt = build_patch(pn, &p, pool);
          if (cnt < 0) { printf("rc=%s\n", cnt == -2 ? "badop" : "pinvalid"); goto pdone; }
          rc = jbn_patch(root, p, cnt, pool);
        } else {
          rc = jbn_patch_auto(root, pn, pool);
        }
        out_tree(rc, root, 1);
        printf("\n");
      } else {
        struct jbl *jbl = 0;
        rc = jbl_from_json(&jbl, (char*) doc);
        if (rc) { printf("docparse=%s\n", rcname(rc)); goto pdone; }
        void *b0; size_t s0;
        jbl_as_buf(jbl, &b0, &s0);
        uint8_t *copy = malloc(s0 + 1);
        memcpy(copy, b0, s0);
        if (mode[1] == 's') {
          struct jbl_node *pn = 0;
          rc = jbn_from_json((char*) pt, &pn, pool);
          if (rc) { printf("patchparse=%s\n", rcname(rc)); free(copy); jbl_destroy(&jbl); goto pdone; }
          struct jbl_patch *p = 0;
          int cnt = build_patch(pn, &p, pool);
          if (cnt < 0) { printf("rc=%s\n", cnt == -2 ? "badop" : "pinvalid"); free(copy); jbl_destroy(&jbl); goto pdone; }
          rc = jbl_patch(jbl, p, cnt);
        } else {
          rc = jbl_patch_from_json(jbl, (char*) pt);
        }
        out_jbl(rc, jbl);
        if (rc) {
          void *b1 = 0; size_t s1 = 0;
          int same = 0;
          if (jbl->bn.ptr) {
            jbl_as_buf(jbl, &b1, &s1);
            same = s1 == s0 && !memcmp(b1, copy, s0);
          }
          printf(" unchanged=%d", same);
        }
        printf("\n");
        free(copy);
        jbl_destroy(&jbl);
      }
pdone:
      iwpool_destroy(pool);
      free(doc); free(pt);
    } else if (!strcmp(tv[0], "idpatch") && n == 4) {
      const char *mode = tv[1];
      uint8_t *doc, *pt;
      unhex0(tv[2], &doc); unhex0(tv[3], &pt);
      struct iwpool *pool = iwpool_create(4096);
      struct jbl_node *root = 0, *pn = 0;
      iwrc rc = jbn_from_json((char*) doc, &root, pool);
      if (rc) { printf("docparse=%s\n", rcname(rc)); goto idone; }
      rc = jbn_from_json((char*) pt, &pn, pool);
      if (rc) { printf("patchparse=%s\n", rcname(rc)); goto idone; }
      id_ndoc = id_npatch = id_nseen = id_dup = id_par = 0;
      id_number(root, id_doc, &id_ndoc, 0);
      id_number(pn, id_patch, &id_npatch, 0);
      if (mode[1] == 'n') {
        struct jbl_patch *p = 0;
        int cnt = build_patch(pn, &p, pool);
        if (cnt < 0) { printf("rc=%s\n", cnt == -2 ? "badop" : "pinvalid"); goto idone; }
        rc = jbn_patch(root, p, cnt, pool);
      } else {
        rc = jbn_patch_auto(root, pn, pool);
      }
      printf("rc=%s own=", rcname(rc));
      { int first = 1; id_walk(root, 0, &first); }
      printf(" dup=%d par=%s\n", id_dup, id_par ? "bad" : "ok");
idone:
      iwpool_destroy(pool);
      free(doc); free(pt);
    } else if (!strcmp(tv[0], "merge") && n == 4) {
      const char *mode = tv[1];
      uint8_t *doc, *pt;
      unhex0(tv[2], &doc); unhex0(tv[3], &pt);
      struct iwpool *pool = iwpool_create(4096);
      iwrc rc = 0;
      if (mode[0] == 't') {
        struct jbl_node *root = 0, *pn = 0;
        rc = jbn_from_json((char*) doc, &root, pool);
        if (rc) { printf("docparse=%s\n", rcname(rc)); goto mdone; }
        if (mode[1] == 'j') {
          rc = jbn_merge_patch_from_json(root, (char*) pt, pool);
          out_tree(rc, root, 0);
          printf("\n");
          goto mdone;
        }
        rc = jbn_from_json((char*) pt, &pn, pool);
        if (rc) { printf("patchparse=%s\n", rcname(rc)); goto mdone; }
        if (mode[1] == 'p') {
          rc = jbn_merge_patch(root, pn, pool);
          out_tree(rc, root, 0);
          printf("\n");
        } else if (mode[1] == 'a') {
          rc = jbn_patch_auto(root, pn, pool);
          out_tree(rc, root, 0);
          printf("\n");
        } else { // heap mode
          struct jbl_node *h = 0;
          rc = jbn_clone(root, &h, 0);
          if (rc) { printf("clone=%s\n", rcname(rc)); goto mdone; }
          rc = jbn_merge_patch(h, pn, 0);
          out_tree(rc, h, 0);
          fflush(stdout);
          jbn_visit2(h, 0, free_visitor);
          h = 0;
          printf(" leak=%d\n", leak_check());
        }
      } else {
        struct jbl *jbl = 0;
        if (doc[0] != '{' && doc[0] != '[') {   // a scalar document: jbl_from_json takes containers only; installed by a merge
          rc = jbl_create_empty_object(&jbl);
          if (!rc) rc = jbl_merge_patch(jbl, (char*) doc);
        } else {
          rc = jbl_from_json(&jbl, (char*) doc);
        }
        if (rc) { printf("docparse=%s\n", rcname(rc)); if (jbl) jbl_destroy(&jbl); goto mdone; }
        void *b0; size_t s0;
        jbl_as_buf(jbl, &b0, &s0);
        uint8_t *copy = malloc(s0 + 1);
        memcpy(copy, b0, s0);
        int scalar_doc = doc[0] != '{' && doc[0] != '[';      // a scalar has no buffer to compare: its JSON text is compared
        struct iwxstr *t0 = iwxstr_create_empty(), *t1 = iwxstr_create_empty();
        if (scalar_doc) jbl_as_json(jbl, jbl_xstr_json_printer, t0, 0);
        if (mode[1] == 'j') {
          rc = jbl_merge_patch(jbl, (char*) pt);
        } else {
          struct jbl *pj = 0;
          rc = jbl_from_json(&pj, (char*) pt);
          if (rc) { printf("patchparse=%s\n", rcname(rc)); free(copy); jbl_destroy(&jbl); goto mdone; }
          rc = jbl_merge_patch_jbl(jbl, pj);
          jbl_destroy(&pj);
        }
        out_jbl(rc, jbl);
        {
          void *b1 = 0; size_t s1 = 0;
          int same = 0;
          if (jbl->bn.ptr) {
            jbl_as_buf(jbl, &b1, &s1);
            same = s1 == s0 && !memcmp(b1, copy, s0);
          }
          if (scalar_doc) {
            jbl_as_json(jbl, jbl_xstr_json_printer, t1, 0);
            same = iwxstr_size(t0) == iwxstr_size(t1) && !memcmp(iwxstr_ptr(t0), iwxstr_ptr(t1), iwxstr_size(t0));
          }
          printf(" unchanged=%d", same);
        }
        printf("\n");
        iwxstr_destroy(t0); iwxstr_destroy(t1);
        free(copy);
        jbl_destroy(&jbl);
      }
mdone:
      iwpool_destroy(pool);
      free(doc); free(pt);
    } else if (!strcmp(tv[0], "mpath") && n == 5) {
      const char *mode = tv[1];
      uint8_t *doc, *path, *val;
      unhex0(tv[2], &doc); unhex0(tv[3], &path);
      int hasval = strcmp(tv[4], "-") != 0;
      unhex0(tv[4], &val);
      struct iwpool *pool = iwpool_create(4096);
      struct jbl_node *root = 0, *vn = 0;
      iwrc rc = jbn_from_json((char*) doc, &root, pool);
      if (rc) { printf("docparse=%s\n", rcname(rc)); goto qdone; }
      if (hasval) {
        rc = jbn_from_json((char*) val, &vn, pool);
        if (rc) { printf("patchparse=%s\n", rcname(rc)); goto qdone; }
      }
      if (mode[1] == 'p') {
        rc = jbn_merge_patch_path(root, (char*) path, vn, pool);
        out_tree(rc, root, 0);
        printf("\n");
      } else {
        struct jbl_node *h = 0;
        rc = jbn_clone(root, &h, 0);
        if (rc) { printf("clone=%s\n", rcname(rc)); goto qdone; }
        rc = jbn_merge_patch_path(h, (char*) path, vn, 0);
        out_tree(rc, h, 0);
        fflush(stdout);
        jbn_visit2(h, 0, free_visitor);
        printf(" leak=%d\n", leak_check());
      }
qdone:
      iwpool_destroy(pool);
      free(doc); free(path); free(val);
    } else if (!strcmp(tv[0], "msub") && n == 4) {
      // jbn_merge_patch_from_json on the node at <path> of <doc> (a member of a larger tree): -> rc= doc=<the WHOLE document> links=
      uint8_t *doc, *path, *pt;
      unhex0(tv[1], &doc); unhex0(tv[2], &path); unhex0(tv[3], &pt);
      struct iwpool *pool = iwpool_create(4096);
      struct jbl_node *root = 0, *sub = 0;
      iwrc rc = jbn_from_json((char*) doc, &root, pool);
      if (rc) { printf("docparse=%s\n", rcname(rc)); goto subdone; }
      rc = jbn_at(root, (char*) path, &sub);
      if (rc || !sub) { printf("nopath=%s\n", rcname(rc)); goto subdone; }
      rc = jbn_merge_patch_from_json(sub, (char*) pt, pool);
      out_tree(rc, root, 0);
      printf("\n");
subdone:
      iwpool_destroy(pool);
      free(doc); free(path); free(pt);
    } else if (!strcmp(tv[0], "mdeep") && n == 2) {
      // a value nested <n> arrays deep (built with jbn_add_item) merged at /a into a heap-allocated {"x":1}: -> rc= doc= leak=
      int depth = atoi(tv[1]);
      struct iwpool *pool = iwpool_create_empty();
      struct jbl_node *val = iwpool_calloc(sizeof(*val), pool), *p = val, *root = 0;
      val->type = JBV_ARRAY;
      for (int i = 1; i < depth; ++i) {
        struct jbl_node *c = iwpool_calloc(sizeof(*c), pool);
        c->type = JBV_ARRAY;
        jbn_add_item(p, c);
        p = c;
      }
      iwrc rc = jbn_from_json("{\"x\":1}", &root, 0);
      if (rc) { printf("docparse=%s\n", rcname(rc)); iwpool_destroy(pool); continue; }
      rc = jbn_merge_patch_path(root, "/a", val, 0);
      printf("rc=%s members=%d", rc == JBL_ERROR_MAX_NESTING_LEVEL_EXCEEDED ? "nesting" : rcname(rc), jbn_length(root));
      fflush(stdout);
      free_deep(root);
      iwpool_destroy(pool);
      printf(" leak=%d\n", leak_check());
    } else if (!strcmp(tv[0], "reg") && n == 5) {
      const char *mode = tv[1];
      uint8_t *doc, *path, *val;
      size_t dl = unhex0(tv[2], &doc); unhex0(tv[3], &path);
      int hasval = strcmp(tv[4], "-") != 0;
      unhex0(tv[4], &val);
      char fn[64];
      snprintf(fn, sizeof(fn), "/dev/shm/jpatch-reg-%d.json", (int) getpid());
      struct iwpool *pool = iwpool_create(4096);
      struct jbl_node *vn = 0;
      struct iwjsreg *reg = 0;
      iwrc rc = 0;
      int binfmt = mode[1] == 'B';       // the registry file holds the binary form (IWJSREG_FORMAT_BINARY)
      FILE *f = fopen(fn, "w");
      if (binfmt) {
        struct jbl *dj = 0; void *bb = 0; size_t bs = 0;
        rc = jbl_from_json(&dj, (char*) doc);
        if (rc) { printf("docparse=%s\n", rcname(rc)); if (f) fclose(f); goto rdone; }
        jbl_as_buf(dj, &bb, &bs);
        if (!f || fwrite(bb, 1, bs, f) != bs) { printf("tmpfile=failed\n"); if (f) fclose(f); jbl_destroy(&dj); goto rdone; }
        jbl_destroy(&dj);
      } else if (!f || fwrite(doc, 1, dl, f) != dl) { printf("tmpfile=failed\n"); if (f) fclose(f); goto rdone; }
      fclose(f);
      if (hasval) {
        rc = jbn_from_json((char*) val, &vn, pool);
        if (rc) { printf("patchparse=%s\n", rcname(rc)); goto rdone; }
      }
      {
        struct iwjsreg_spec spec = { .path = fn, .flags = IWJSREG_READONLY | (binfmt ? IWJSREG_FORMAT_BINARY : 0) };
        rc = iwjsreg_open(&spec, &reg);
        if (rc) { printf("docparse=%s\n", rcname(rc)); reg = 0; goto rdone; }
      }
      if (mode[0] == 'm') {
        rc = iwjsreg_merge(reg, (char*) path, vn);
      } else if (mode[0] == 'r') {
        rc = iwjsreg_replace(reg, (char*) path, vn);
      } else if (vn && vn->type == JBV_STR) {
        rc = iwjsreg_merge_str(reg, (char*) path, vn->vptr, mode[1] == 'l' ? vn->vsize : -1);
      } else if (vn && vn->type == JBV_I64) {
        rc = iwjsreg_merge_i64(reg, (char*) path, vn->vi64);
      } else if (vn && vn->type == JBV_F64) {
        rc = iwjsreg_merge_f64(reg, (char*) path, vn->vf64);
      } else if (vn && vn->type == JBV_BOOL) {
        rc = iwjsreg_merge_bool(reg, (char*) path, vn->vbool);
      } else if (vn && vn->type == JBV_NULL) {
        rc = iwjsreg_merge_remove(reg, (char*) path);
      } else {
        printf("?\n"); goto rdone;
      }
      out_tree(rc, reg->root, 0);
      printf(" dirty=%d", reg->dirty ? 1 : 0);
      fflush(stdout);
      iwjsreg_close(&reg);      // read-only: no file is written; the last reference frees the tree
      reg = 0;
      printf(" leak=%d\n", leak_check());
rdone:
      if (reg) iwjsreg_close(&reg);
      unlink(fn);
      iwpool_destroy(pool);
      free(doc); free(path); free(val);
    } else if (!strcmp(tv[0], "regs") && n == 3) {
      uint8_t *doc, *steps;
      size_t dl = unhex0(tv[1], &doc); unhex0(tv[2], &steps);
      char fn[64];
      snprintf(fn, sizeof(fn), "/dev/shm/jpatch-reg-%d.json", (int) getpid());
      struct iwpool *pool = iwpool_create(4096);
      struct jbl_node *sn = 0;
      struct iwjsreg *reg = 0;
      iwrc rc = 0;
      FILE *f = fopen(fn, "w");
      if (!f || fwrite(doc, 1, dl, f) != dl) { printf("tmpfile=failed\n"); if (f) fclose(f); goto sdone; }
      fclose(f);
      rc = jbn_from_json((char*) steps, &sn, pool);
      if (rc || sn->type != JBV_ARRAY) { printf("patchparse=%s\n", rcname(rc)); goto sdone; }
      {
        struct iwjsreg_spec spec = { .path = fn, .flags = IWJSREG_READONLY };
        rc = iwjsreg_open(&spec, &reg);
        if (rc) { printf("docparse=%s\n", rcname(rc)); reg = 0; goto sdone; }
      }
      printf("rcs=");
      for (struct jbl_node *st = sn->child; st; st = st->next) {
        struct jbl_node *k = st->type == JBV_ARRAY ? st->child : 0, *pth = k ? k->next : 0, *v = pth ? pth->next : 0;
        if (!k || !pth || k->type != JBV_STR || pth->type != JBV_STR) { printf("?"); break; }
        if (v) v->next = 0;     // the value is handed over as a document of its own
        rc = k->vptr[0] == 'r' ? iwjsreg_replace(reg, pth->vptr, v) : iwjsreg_merge(reg, pth->vptr, v);
        printf("%s%s", st == sn->child ? "" : ",", rcname(rc));
        fflush(stdout);
      }
      printf(" ");
      out_tree(0, reg->root, 0);
      printf(" dirty=%d", reg->dirty ? 1 : 0);
      fflush(stdout);
      iwjsreg_close(&reg);
      reg = 0;
      printf(" leak=%d\n", leak_check());
sdone:
      if (reg) iwjsreg_close(&reg);
      unlink(fn);
      iwpool_destroy(pool);
      free(doc); free(steps);
    } else if (!strcmp(tv[0], "cmp") && n == 3) {
      uint8_t *a, *b;
      unhex0(tv[1], &a); unhex0(tv[2], &b);
      struct iwpool *pool = iwpool_create(4096);
      struct jbl_node *na = 0, *nb = 0;
      iwrc rc = jbn_from_json((char*) a, &na, pool);
      if (rc) { printf("docparse=%s\n", rcname(rc)); goto cdone; }
      rc = jbn_from_json((char*) b, &nb, pool);
      if (rc) { printf("patchparse=%s\n", rcname(rc)); goto cdone; }
      {
        iwrc rc1 = 0, rc2 = 0;
        int r1 = jbn_compare_nodes(na, nb, &rc1);
        int r2 = jbn_compare_nodes(nb, na, &rc2);
        if (rc1 || rc2) printf("rc=%s\n", rcname(rc1 ? rc1 : rc2));
        else printf("eq=%d rev=%d\n", r1 == 0, r2 == 0);
      }
cdone:
      iwpool_destroy(pool);
      free(a); free(b);
    } else {
      printf("?\n");
    }
  }
  return 0;
}
