// C10/C11 harness: the free-space-managed file of the implementation driven by op scripts, one output line per
// input line.  iwfsmfile.c itself is included, so the static state (AVL tree of free extents, lfbkoff/lfbklen, the
// bitmap) is printed after every operation and compared structurally with the extracted model.
// assert() inside iwfsmfile.c is routed to a counter (release-build behaviour: execution continues) - the count is
// printed as A=<n>; the oracle treats a failed internal assertion as evidence of an inconsistent map.
#include "iwutils.h" /* pulls <assert.h>; guarded, so the redefinition below stays in force */
#include "iwcfg.h"   /* the other header of iwfsmfile.c that pulls <assert.h> (it re-armed the libc assert before) */
// One assert of iwfsmfile.c restates a check on CALLER-SUPPLIED arguments (the range guard of _fsm_set_bit_status_lw:
// `fsm->bmlen * 8 >= offset_bits + length_bits`, followed by the `if` that returns IWFS_ERROR_FSM_SEGMENTATION).  Its
// failures say "the caller passed a range behind the bitmap", not "the map is inconsistent"; they are counted
// separately (U=<n>) so that the oracle can tell the two apart.
#include <string.h>
static int h_assert_failed, h_assert_user;
static void h_assert_fail(const char *e) {
  if (strstr(e, "bmlen * 8 >= offset_bits + length_bits")) ++h_assert_user; else ++h_assert_failed;
}
#undef assert
#define assert(e_) ((e_) ? (void) 0 : h_assert_fail(#e_))
#include "fs/iwfsmfile.c"
#include "hcommon.h"
#include <sys/stat.h>
#include <unistd.h>
#include <fcntl.h>

static IWFS_FSM F;
static int is_open;
static uint64_t h_maxoff; /* opts->exfile.maxoff of the opens that follow (`maxoff n`; 0 = none) */
static char path[512];

static void rle_bitmap(struct fsm *fsm) {
  uint64_t *bmptr;
  if (_fsm_bmptr(fsm, &bmptr)) { printf("B=?"); return; }
  const uint8_t *b = (const uint8_t*) bmptr;
  uint64_t n = fsm->bmlen * 8, run = 0;
  int cur = 1, first = 1;
  printf("B=");
  for (uint64_t i = 0; i < n; ++i) {
    int bit = (b[i >> 3] >> (i & 7)) & 1;
    if (bit == cur) { ++run; } else {
      printf(first ? "%" PRIu64 : ".%" PRIu64, run); first = 0; cur = bit; run = 1;
    }
  }
  printf(first ? "%" PRIu64 : ".%" PRIu64, run);
}

static void dump_state(void) {
  if (!is_open || !F.impl) { printf(" | closed U=%d A=%d\n", h_assert_user, h_assert_failed); return; }
  struct fsm *fsm = F.impl;
  printf(" | T=");
  int k = 0;
  for (struct iwavl_node *n = iwavl_first_in_order(fsm->root); n; n = iwavl_next_in_order(n), ++k) {
    struct bkey *key = &BKEY(n);
    printf("%s%u:%u", k ? "," : "", key->off, key->len);
  }
  if (!k) printf("-");
  printf(" n=%u L=%" PRIu64 ":%" PRIu64 " ", fsm->fsmnum, fsm->lfbkoff, fsm->lfbklen);
  rle_bitmap(fsm);
  IWFS_EXT_STATE st;
  memset(&st, 0, sizeof(st));
  fsm->pool.state(&fsm->pool, &st);
  printf(" M=%" PRIu64 ":%" PRIu64 ":%u:%u F=%" PRId64 " S=%u:%" PRIu64 " U=%d A=%d\n", fsm->bmoff, fsm->bmlen, fsm->hdrlen,
         (unsigned) fsm->bpow, (int64_t) st.fsize, fsm->crznum, fsm->crzsum, h_assert_user, h_assert_failed);
}

static uint8_t pat(uint64_t seed, uint64_t i) {
  uint64_t z = seed * 0x9E3779B97F4A7C15ULL + i * 0xBF58476D1CE4E5B9ULL;
  z ^= z >> 29;
  return (uint8_t) (z * 0x94D049BB133111EBULL >> 56);
}

static iwrc do_open(int isnew, int bpow, uint32_t hdrlen, size_t bmlen, int strict, int notrim, int mmapall) {
  IWFS_FSM_OPTS opts = {
    .exfile = { .file = { .path = path, .omode = isnew ? IWFS_OTRUNC : 0 }, .maxoff = h_maxoff },
    .bmlen = bmlen, .hdrlen = hdrlen, .bpow = (uint8_t) bpow, .mmap_all = mmapall != 0,
    .oflags = (strict ? IWFSM_STRICT : 0) | (notrim ? IWFSM_NO_TRIM_ON_CLOSE : 0) | IWFSM_NOLOCKS
  };
  iwrc rc = iwfs_fsmfile_open(&F, &opts);
  is_open = !rc;
  return rc;
}

int main(int argc, char **argv) {
  static char line[1 << 20];
  char *tv[16];
  snprintf(path, sizeof(path), "%s/fsm-%d.dat", argc > 1 ? argv[1] : "/tmp", (int) getpid());
  iwlog_init();
  setvbuf(stdout, 0, _IOLBF, 0); /* the generator talks to this process line by line */
  while (fgets(line, sizeof(line), stdin)) {
    int n = toks(line, tv, 16);
    if (n == 0) { printf("\n"); continue; }
    const char *c = tv[0];
    if (!strcmp(c, "open") && n >= 7) { // open bpow hdrlen bmlen strict notrim mmapall
      if (is_open) { F.close(&F); is_open = 0; }
      h_assert_failed = h_assert_user = 0;
      iwrc rc = do_open(1, atoi(tv[1]), (uint32_t) strtoul(tv[2], 0, 10), strtoull(tv[3], 0, 10), atoi(tv[4]), atoi(tv[5]), atoi(tv[6]));
      printf("%" PRIu64, (uint64_t) rc); dump_state();
    } else if (!strcmp(c, "maxoff") && n >= 2) { // maxoff n : limit on the file size for the opens that follow
      h_maxoff = strtoull(tv[1], 0, 10);
      printf("ok\n");
    } else if (!strcmp(c, "reopen") && n >= 4) { // reopen strict notrim mmapall
      if (is_open) { printf("?already-open\n"); continue; }
      iwrc rc = do_open(0, 0, 0, 0, atoi(tv[1]), atoi(tv[2]), atoi(tv[3]));
      printf("%" PRIu64, (uint64_t) rc); dump_state();
    } else if (!strcmp(c, "fnext") || !strcmp(c, "fprev")) { // fnext <hex of bytes, multiple of 8> off bound
      uint8_t *b; size_t l = unhex(tv[1], &b);
      uint64_t *w = calloc(l / 8 + 2, 8);
      memcpy(w, b, l);
      int found = 0;
      uint64_t r = c[1] == 'n' ? _fsm_find_next_set_bit(w, strtoull(tv[2], 0, 10), strtoull(tv[3], 0, 10), &found)
                   : _fsm_find_prev_set_bit(w, strtoull(tv[2], 0, 10), strtoull(tv[3], 0, 10), &found);
      if (found) printf("1 %" PRIu64 "\n", r); else printf("0\n");
      free(b); free(w);
    } else if (!strcmp(c, "ffs") && n >= 2) {
      uint64_t x = strtoull(tv[1], 0, 10);
      printf("%u %" PRIu64 "\n", (unsigned) iwbits_find_first_sbit64(x), iwbits_reverse_64(x));
    } else if (!strcmp(c, "hdr")) { // what the file header says right now (read through a descriptor of our own):
      // [magic u32][bpow u8][bmoff u64][bmlen u64][crzsum u64][crznum u32] - what the next open will be told
      uint8_t h[33];
      int fd = open(path, O_RDONLY);
      ssize_t rd = fd >= 0 ? pread(fd, h, sizeof(h), 0) : -1;
      if (fd >= 0) close(fd);
      if (rd != (ssize_t) sizeof(h)) { printf("?hdr-unreadable\n"); continue; }
      uint64_t bo, bl, cs; uint32_t cn;
      memcpy(&bo, h + 5, 8); memcpy(&bl, h + 13, 8); memcpy(&cs, h + 21, 8); memcpy(&cn, h + 29, 4);
      printf("H=%" PRIu64 ":%" PRIu64 ":%u:%" PRIu64 "\n", IW_ITOHLL(bo), IW_ITOHLL(bl), (unsigned) IW_ITOHL(cn), IW_ITOHLL(cs));
    } else if (!is_open) {
      printf("?closed\n");
    } else if (!strcmp(c, "sbs") && n >= 5) { // sbs off len v chk : _fsm_set_bit_status_lw as a dry run (range guard, strict probe)
      int u0 = h_assert_user;
      iwrc rc = _fsm_set_bit_status_lw(F.impl, strtoull(tv[1], 0, 10), strtoull(tv[2], 0, 10), atoi(tv[3]) != 0,
                                       FSM_BM_DRY_RUN | (atoi(tv[4]) ? FSM_BM_STRICT : 0));
      h_assert_user = u0; /* a probe of the harness, not a call of the client */
      printf("%" PRIu64 "\n", (uint64_t) rc);
    } else if (!strcmp(c, "alloc") && n >= 4) { // alloc len hint flags [oracle]
      off_t addr = strtoll(tv[2], 0, 10), olen = 0;
      iwrc rc = F.allocate(&F, strtoll(tv[1], 0, 10), &addr, &olen, (iwfs_fsm_aflags) atoi(tv[3]));
      if (rc) printf("%" PRIu64, (uint64_t) rc); else printf("0 %" PRId64 " %" PRId64, (int64_t) addr, (int64_t) olen);
      dump_state();
    } else if (!strcmp(c, "realloc") && n >= 5) { // realloc nlen addr olen flags [oracle]
      off_t addr = strtoll(tv[2], 0, 10), olen = strtoll(tv[3], 0, 10);
      iwrc rc = F.reallocate(&F, strtoll(tv[1], 0, 10), &addr, &olen, (iwfs_fsm_aflags) atoi(tv[4]));
      if (rc) printf("%" PRIu64, (uint64_t) rc); else printf("0 %" PRId64 " %" PRId64, (int64_t) addr, (int64_t) olen);
      dump_state();
    } else if (!strcmp(c, "free") && n >= 3) {
      iwrc rc = F.deallocate(&F, strtoll(tv[1], 0, 10), strtoll(tv[2], 0, 10));
      printf("%" PRIu64, (uint64_t) rc); dump_state();
    } else if (!strcmp(c, "chk") && n >= 4) {
      iwrc rc = F.check_allocation_status(&F, strtoll(tv[1], 0, 10), strtoll(tv[2], 0, 10), atoi(tv[3]) != 0);
      printf("%" PRIu64 " U=%d A=%d\n", (uint64_t) rc, h_assert_user, h_assert_failed);
    } else if (!strcmp(c, "w") && n >= 4) { // w addr len seed : fill the region with the pattern of seed
      off_t addr = strtoll(tv[1], 0, 10); size_t len = strtoull(tv[2], 0, 10), sp = 0; uint64_t seed = strtoull(tv[3], 0, 10);
      uint8_t *buf = malloc(len + 1);
      for (size_t i = 0; i < len; ++i) buf[i] = pat(seed, i);
      iwrc rc = F.write(&F, addr, buf, len, &sp);
      IWFS_EXT_STATE st;
      memset(&st, 0, sizeof(st));
      F.impl->pool.state(&F.impl->pool, &st);
      printf("%" PRIu64 " %zu %" PRId64 "\n", (uint64_t) rc, sp, (int64_t) st.fsize); free(buf);
    } else if (!strcmp(c, "r") && n >= 4) { // r addr len seed : compare the region with the pattern of seed
      off_t addr = strtoll(tv[1], 0, 10); size_t len = strtoull(tv[2], 0, 10), sp = 0; uint64_t seed = strtoull(tv[3], 0, 10);
      uint8_t *buf = calloc(len + 1, 1);
      iwrc rc = F.read(&F, addr, buf, len, &sp);
      long bad = -1;
      for (size_t i = 0; i < len && !rc; ++i) if (i >= sp || buf[i] != pat(seed, i)) { bad = (long) i; break; }
      printf("%" PRIu64 " %zu %ld\n", (uint64_t) rc, sp, bad); free(buf);
    } else if (!strcmp(c, "clear") && n >= 2) {
      iwrc rc = F.clear(&F, atoi(tv[1]) ? IWFSM_CLEAR_TRIM : 0);
      printf("%" PRIu64, (uint64_t) rc); dump_state();
    } else if (!strcmp(c, "sync")) {
      iwrc rc = F.sync(&F, 0);
      printf("%" PRIu64, (uint64_t) rc); dump_state();
    } else if (!strcmp(c, "close")) {
      iwrc rc = F.close(&F);
      is_open = 0;
      struct stat st;
      int64_t sz = stat(path, &st) == 0 ? (int64_t) st.st_size : -1;
      printf("%" PRIu64 " %" PRId64 " U=%d A=%d\n", (uint64_t) rc, sz, h_assert_user, h_assert_failed);
    } else {
      printf("?\n");
    }
  }
  if (is_open) F.close(&F);
  unlink(path);
  return 0;
}
