// C08 harness: online backups of a store under free-running writer threads, and the lock skeleton of one quiet backup.
//
// Commands (one per line on stdin, one answer line each); argv[1] = scratch directory:
//   quiet <nkeys>
//       fresh store with nkeys records; one iwkv_online_backup with nobody else running.  Every write(2) to the backup
//       target is recorded together with "does the calling thread hold a pthread rwlock exclusively at this moment"
//       (pthread_rwlock_wrlock / unlock are interposed).  Answer:
//         Q rc=<rc> icpt=<T/F sequence of the wal_lock_interceptor> held=<0/1 per write to the target> image=<ok|...>
//       The last stage of the backup (closing savepoint, rest of the log, trailer) runs under the store's exclusive lock:
//       that is what makes the image end at an instant between operations (coq/WAL/Backup.v: no writer event in stage 5).
//   load <writers> <keys> <backups> <seed>
//       writer w updates its keys round-robin, update i rewrites key i % keys with version i / keys + 1; a value carries
//       its version, and its length and filler follow from the version, so a value read back is self-describing and an
//       in-place update consists of several log records.  The main thread takes <backups> backups, opens every image and
//       checks: every value whole; per writer the versions form ONE cut of its history (keys [0,p) carry V+1, keys [p,n)
//       carry V); the cut is not older than what the writer had completed when the call started and not newer than what
//       it had issued when the call returned.  Answer:
//         L backups=<n> violations=<m> [first=<text>]
//       The file never grows while a backup runs (room is reserved first): growth during the main copy is the recorded
//       finding C08-growth-during-main-copy, not this harness' subject.
#define _GNU_SOURCE
#include "iwkv.h"
#include "iwlog.h"
#include <dlfcn.h>
#include <pthread.h>
#include <stdatomic.h>
#include <stdint.h>
#include <stdio.h>
#include <stdlib.h>
#include <string.h>
#include <unistd.h>
#include <signal.h>
#include <limits.h>

// ---- interposition: exclusive rwlock holds of the calling thread, writes to the backup target
static __thread int t_wrheld;                 // rwlocks this thread holds for writing
static __thread const void *t_wrobj[16];
static char g_target[PATH_MAX];
static int g_trace;
static char g_held[1 << 16];
static int g_nheld;

int pthread_rwlock_wrlock(pthread_rwlock_t *l) {
  static int (*real)(pthread_rwlock_t*);
  if (!real) real = (int (*)(pthread_rwlock_t*)) dlsym(RTLD_NEXT, "pthread_rwlock_wrlock");
  int r = real(l);
  if (!r && t_wrheld < 16) t_wrobj[t_wrheld++] = l;
  return r;
}
int pthread_rwlock_unlock(pthread_rwlock_t *l) {
  static int (*real)(pthread_rwlock_t*);
  if (!real) real = (int (*)(pthread_rwlock_t*)) dlsym(RTLD_NEXT, "pthread_rwlock_unlock");
  for (int i = t_wrheld - 1; i >= 0; --i) {
    if (t_wrobj[i] == l) { for (int j = i; j + 1 < t_wrheld; ++j) t_wrobj[j] = t_wrobj[j + 1]; --t_wrheld; break; }
  }
  return real(l);
}
ssize_t write(int fd, const void *buf, size_t n) {
  static ssize_t (*real)(int, const void*, size_t);
  if (!real) real = (ssize_t (*)(int, const void*, size_t)) dlsym(RTLD_NEXT, "write");
  if (g_trace && fd > 2) {
    char lnk[64], p[PATH_MAX];
    snprintf(lnk, sizeof(lnk), "/proc/self/fd/%d", fd);
    ssize_t l = readlink(lnk, p, sizeof(p) - 1);
    if (l > 0) {
      p[l] = 0;
      if (!strcmp(p, g_target) && g_nheld < (int) sizeof(g_held) - 1) g_held[g_nheld++] = t_wrheld > 0 ? '1' : '0';
    }
  }
  return real(fd, buf, n);
}

static char g_icpt[256];
static int g_nicpt;
static iwrc icpt(bool before, void *op) {
  (void) op;
  if (g_trace && g_nicpt < (int) sizeof(g_icpt) - 1) g_icpt[g_nicpt++] = before ? 'T' : 'F';
  return 0;
}

// ---- values
#define VMAX 256
static size_t vsize(uint64_t v) { return v ? 16 + (size_t) ((v * 37) % 180) : VMAX; }
static uint8_t vfill(uint64_t v) { return (uint8_t) ('A' + (int) (v % 23)); }
static void mkval(uint64_t v, uint8_t *buf, size_t *sz) {
  *sz = vsize(v);
  memset(buf, vfill(v), *sz);
  for (int i = 0; i < 8; ++i) buf[i] = (uint8_t) (v >> (8 * i));
}
static void mkkey(int w, int k, char *buf, size_t n) { snprintf(buf, n, "w%d-k%04d", w, k); }

static IWKV g_kv;
static IWDB g_db;
static volatile int g_stop;
static int g_nkeys;
#define MAXW 8
static _Atomic uint64_t g_done[MAXW], g_issued[MAXW];   // updates completed / started by writer w
static char g_err[512];

static iwrc put_version(int w, int k, uint64_t v) {
  char kb[32]; uint8_t vb[VMAX]; size_t sz;
  mkkey(w, k, kb, sizeof(kb));
  mkval(v, vb, &sz);
  IWKV_val key = { .data = kb, .size = strlen(kb) };
  IWKV_val val = { .data = vb, .size = sz };
  return iwkv_put(g_db, &key, &val, 0);
}

static void* writer(void *arg) {
  int w = (int) (intptr_t) arg;
  for (uint64_t i = 0; !g_stop; ++i) {
    atomic_store(&g_issued[w], i + 1);
    iwrc rc = put_version(w, (int) (i % (uint64_t) g_nkeys), i / (uint64_t) g_nkeys + 1);
    if (rc) { snprintf(g_err, sizeof(g_err), "writer %d: iwkv_put failed rc=%llu", w, (unsigned long long) rc); g_stop = 1; break; }
    atomic_store(&g_done[w], i + 1);
  }
  return 0;
}

static iwrc open_store(const char *path, bool trunc, IWKV *kv, IWDB *db) {
  IWKV_OPTS o = { .path = path, .oflags = trunc ? IWKV_TRUNC : 0,
                  .wal = { .enabled = true, .savepoint_timeout_sec = UINT32_MAX, .checkpoint_timeout_sec = UINT32_MAX,
                           .wal_lock_interceptor = icpt } };
  iwrc rc = iwkv_open(&o, kv);
  if (rc) return rc;
  rc = iwkv_db(*kv, 1, 0, db);
  if (rc) iwkv_close(kv);
  return rc;
}

// the image as a store: returns 0 and fills vers[w][k], or a description of what is wrong
static int read_image(const char *path, int nw, uint64_t *vers, char *why, size_t wn) {
  IWKV kv; IWDB db;
  iwrc rc = open_store(path, false, &kv, &db);
  if (rc) { snprintf(why, wn, "the image does not open (rc=%llu)", (unsigned long long) rc); return 1; }
  int bad = 0;
  for (int w = 0; w < nw && !bad; ++w) {
    for (int k = 0; k < g_nkeys && !bad; ++k) {
      char kb[32];
      mkkey(w, k, kb, sizeof(kb));
      IWKV_val key = { .data = kb, .size = strlen(kb) }, val = { 0 };
      rc = iwkv_get(db, &key, &val);
      if (rc) { snprintf(why, wn, "key %s cannot be read from the image (rc=%llu)", kb, (unsigned long long) rc); bad = 1; break; }
      const uint8_t *p = (const uint8_t*) val.data;
      uint64_t v = 0;
      if (val.size >= 8) for (int i = 0; i < 8; ++i) v |= (uint64_t) p[i] << (8 * i);
      int torn = val.size < 8 || val.size != vsize(v);
      for (size_t i = 8; !torn && i < val.size; ++i) if (p[i] != vfill(v)) torn = 1;
      if (torn) {
        snprintf(why, wn, "key %s holds part of an update: version %llu wants %zu bytes of '%c', the image has %zu bytes",
                 kb, (unsigned long long) v, vsize(v), vfill(v), val.size);
        bad = 1;
      }
      vers[w * g_nkeys + k] = v;
      iwkv_val_dispose(&val);
    }
  }
  rc = iwkv_close(&kv);
  if (rc && !bad) { snprintf(why, wn, "the opened image does not close (rc=%llu)", (unsigned long long) rc); bad = 1; }
  return bad;
}

static void rmstore(const char *p) { char w[PATH_MAX]; unlink(p); snprintf(w, sizeof(w), "%s-wal", p); unlink(w); }

int main(int argc, char **argv) {
  if (argc < 2) return 2;
  char dbp[PATH_MAX], dir[PATH_MAX];
  if (!realpath(argv[1], dir)) return 2;
  snprintf(dbp, sizeof(dbp), "%s/live.db", dir);
  snprintf(g_target, sizeof(g_target), "%s/image.db", dir);
  if (iwkv_init()) return 2;
  FILE *devnull = fopen("/dev/null", "w");
  static IWLOG_DEFAULT_OPTS lo;
  if (devnull) { lo.out = devnull; iwlog_set_logfn(0, &lo); }
  setvbuf(stdout, 0, _IOLBF, 0);
  char line[256];
  while (fgets(line, sizeof(line), stdin)) {
    char op[32] = ""; long a = 0, b = 0, c = 0, d = 0;
    sscanf(line, "%31s %ld %ld %ld %ld", op, &a, &b, &c, &d);
    alarm(600);
    rmstore(dbp); rmstore(g_target);
    g_stop = 0; g_err[0] = 0;
    if (!strcmp(op, "quiet")) {
      g_nkeys = (int) (a > 0 ? a : 8);
      iwrc rc = open_store(dbp, true, &g_kv, &g_db);
      if (rc) { printf("Q open failed\n"); continue; }
      for (int k = 0; k < g_nkeys && !rc; ++k) rc = put_version(0, k, 1 + (uint64_t) k % 3);
      uint64_t ts = 0;
      g_nheld = 0; g_nicpt = 0; g_trace = 1;
      if (!rc) rc = iwkv_online_backup(g_kv, &ts, g_target);
      g_trace = 0;
      g_held[g_nheld] = 0; g_icpt[g_nicpt] = 0;
      char why[400] = "ok";
      uint64_t *vers = calloc((size_t) g_nkeys, sizeof(uint64_t));
      if (!rc) {
        iwkv_close(&g_kv);
        if (!read_image(g_target, 1, vers, why, sizeof(why))) {
          for (int k = 0; k < g_nkeys; ++k) if (vers[k] != 1 + (uint64_t) k % 3) { snprintf(why, sizeof(why), "key %d has version %llu", k, (unsigned long long) vers[k]); break; }
        }
      } else {
        iwkv_close(&g_kv);
      }
      free(vers);
      for (char *p = why; *p; ++p) if (*p == ' ') *p = '_';
      printf("Q rc=%llu icpt=%s held=%s image=%s\n", (unsigned long long) rc, g_nicpt ? g_icpt : "-", g_nheld ? g_held : "-", why);
    } else if (!strcmp(op, "load")) {
      int nw = (int) (a < 1 ? 1 : a > MAXW ? MAXW : a), nb = (int) (c < 1 ? 1 : c);
      g_nkeys = (int) (b < 1 ? 1 : b > 512 ? 512 : b);
      iwrc rc = open_store(dbp, true, &g_kv, &g_db);
      if (rc) { printf("L open failed\n"); continue; }
      // room so that the file never grows while a backup runs: 6 MB of filler written and deleted again
      static uint8_t big[3000];
      memset(big, 'z', sizeof(big));
      for (int i = 0; i < 2000 && !rc; ++i) {
        char kb[32]; snprintf(kb, sizeof(kb), "zz-filler-%05d", i);
        IWKV_val key = { .data = kb, .size = strlen(kb) }, val = { .data = big, .size = sizeof(big) };
        rc = iwkv_put(g_db, &key, &val, 0);
      }
      // version 0 reserves the largest value: every later update is done in place
      for (int w = 0; w < nw && !rc; ++w) for (int k = 0; k < g_nkeys && !rc; ++k) rc = put_version(w, k, 0);
      for (int i = 0; i < 2000 && !rc; ++i) {
        char kb[32]; snprintf(kb, sizeof(kb), "zz-filler-%05d", i);
        IWKV_val key = { .data = kb, .size = strlen(kb) };
        rc = iwkv_del(g_db, &key, 0);
      }
      if (rc) { printf("L setup failed rc=%llu\n", (unsigned long long) rc); iwkv_close(&g_kv); continue; }
      pthread_t th[MAXW];
      for (int w = 0; w < nw; ++w) { atomic_store(&g_done[w], 0); atomic_store(&g_issued[w], 0); pthread_create(&th[w], 0, writer, (void*) (intptr_t) w); }
      srand((unsigned) d);
      int viol = 0, taken = 0;
      char first[512] = "";
      uint64_t *vers = calloc((size_t) nw * (size_t) g_nkeys, sizeof(uint64_t));
      for (int r = 0; r < nb && !g_stop; ++r) {
        usleep((useconds_t) (rand() % 3000));
        uint64_t before[MAXW], after[MAXW], ts = 0;
        for (int w = 0; w < nw; ++w) before[w] = atomic_load(&g_done[w]);
        rc = iwkv_online_backup(g_kv, &ts, g_target);
        for (int w = 0; w < nw; ++w) after[w] = atomic_load(&g_issued[w]);
        ++taken;
        char why[400] = "";
        int bad = 0;
        if (rc) { snprintf(why, sizeof(why), "iwkv_online_backup failed (rc=%llu)", (unsigned long long) rc); bad = 1; }
        else bad = read_image(g_target, nw, vers, why, sizeof(why));
        for (int w = 0; w < nw && !bad; ++w) {
          uint64_t *v = vers + (size_t) w * (size_t) g_nkeys;
          // one cut: V+1 ... V+1 V ... V  -> number of updates contained = (V0 - 1) * n + p, V0 = version of key 0
          int p = 0;
          while (p < g_nkeys && v[p] == v[0]) ++p;
          for (int k = p; k < g_nkeys && !bad; ++k) {
            if (v[k] + 1 != v[0]) {
              snprintf(why, sizeof(why), "writer %d: the versions of its keys are not one cut of its history (key 0 has %llu, key %d has %llu)",
                       w, (unsigned long long) v[0], k, (unsigned long long) v[k]);
              bad = 1;
            }
          }
          if (bad) break;
          uint64_t n = (uint64_t) g_nkeys;
          uint64_t contained = (p == g_nkeys) ? v[0] * n : (v[0] - 1) * n + (uint64_t) p;   // all keys at V0: V0 full rounds
          if (contained < before[w]) {
            snprintf(why, sizeof(why), "writer %d had completed %llu updates when the backup started, the image holds %llu",
                     w, (unsigned long long) before[w], (unsigned long long) contained);
            bad = 1;
          } else if (contained > after[w]) {
            snprintf(why, sizeof(why), "writer %d had issued %llu updates when the backup returned, the image holds %llu",
                     w, (unsigned long long) after[w], (unsigned long long) contained);
            bad = 1;
          }
        }
        if (bad) { if (!viol) snprintf(first, sizeof(first), "backup %d: %s", r, why); ++viol; if (viol >= 3) break; }
        rmstore(g_target);
      }
      g_stop = 1;
      for (int w = 0; w < nw; ++w) pthread_join(th[w], 0);
      free(vers);
      rc = iwkv_close(&g_kv);
      if (g_err[0] && !viol) { snprintf(first, sizeof(first), "%s", g_err); ++viol; }
      if (rc && !viol) { snprintf(first, sizeof(first), "the live store does not close after the backups (rc=%llu)", (unsigned long long) rc); ++viol; }
      uint64_t upd = 0;
      for (int w = 0; w < nw; ++w) upd += atomic_load(&g_done[w]);
      if (viol) printf("L backups=%d updates=%llu violations=%d first=%s\n", taken, (unsigned long long) upd, viol, first);
      else printf("L backups=%d updates=%llu violations=0\n", taken, (unsigned long long) upd);
    } else {
      printf("?\n");
    }
    rmstore(dbp); rmstore(g_target);
  }
  return 0;
}
