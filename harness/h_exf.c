// C12 harness: op scripts against the auto-expandable file (iwfs_exfile_open and its method table).
// usage: h_exf <path of the data file>; one output line per input line.
//   open <trunc 0|1> <initial_size> <maxoff> <def|fibo|mul|muln> [n dn]
//   write <off> <hex> | read <off> <len> | copy <off> <siz> <noff> | truncate <size> | ensure <size>
//   addmm <off> <maxlen> <flags> | rmmm <off> | probe <off> | sync | remap | state | close
// every answer: "<op> <RC> [payload] fsize=<state().fsize> stat=<st_size>"
// A SIGSEGV/SIGBUS inside an operation is reported as "<op> CRASH"; the handle is abandoned until the next "open 1".
#include "iwcfg.h"
#include "iwexfile.h"
#include "iwp.h"
#include "iwlog.h"
#include "hcommon.h"
#include <signal.h>
#include <setjmp.h>
#include <sys/stat.h>
#include <unistd.h>
#include <errno.h>

static const char *rcname(iwrc rc) {
  static char buf[40];
  if (!rc) return "OK";
  iwrc_strip_errno(&rc);
  switch (rc) {
    case IW_ERROR_OUT_OF_BOUNDS: return "OOB";
    case IW_ERROR_NOT_ALIGNED: return "NOTALIGNED";
    case IW_ERROR_OVERFLOW: return "OVERFLOW";
    case IW_ERROR_READONLY: return "READONLY";
    case IW_ERROR_INVALID_STATE: return "INVSTATE";
    case IW_ERROR_IO_ERRNO: return "IOERR";
    case IW_ERROR_ERRNO: return "ERRNO";
    case IW_ERROR_NOT_EXISTS: return "NOTEXISTS";
    case IWFS_ERROR_MAXOFF: return "MAXOFF";
    case IWFS_ERROR_RESIZE_POLICY_FAIL: return "POLFAIL";
    case IWFS_ERROR_MMAP_OVERLAP: return "OVERLAP";
    case IWFS_ERROR_NOT_MMAPED: return "NOTMM";
  }
  snprintf(buf, sizeof(buf), "E%llu", (unsigned long long) rc);
  return buf;
}

static sigjmp_buf jb;
static volatile sig_atomic_t armed;
static void onsig(int sig) {
  if (armed) { armed = 0; siglongjmp(jb, sig); }
  _exit(70);
}

static IWFS_EXT f;
static int is_open, poisoned;
static const char *path;
static IW_RNUM rnum;

static long long statsz(void) {
  struct stat st;
  if (stat(path, &st)) return -1;
  return (long long) st.st_size;
}

static void tail(void) {
  long long fs = -1;
  if (is_open && !poisoned) {
    IWFS_EXT_STATE st;
    if (!f.state(&f, &st)) fs = (long long) st.fsize;
  }
  printf(" fsize=%lld stat=%lld\n", fs, statsz());
}

int main(int argc, char **argv) {
  static char line[1 << 20];
  char *tv[8];
  if (argc < 2) return 2;
  path = argv[1];
  iwlog_init();
  struct sigaction sa;
  memset(&sa, 0, sizeof(sa));
  sa.sa_handler = onsig;
  sa.sa_flags = SA_NODEFER;
  sigaction(SIGSEGV, &sa, 0);
  sigaction(SIGBUS, &sa, 0);
  sigaction(SIGABRT, &sa, 0);
  FILE *devnull = fopen("/dev/null", "w");
  static IWLOG_DEFAULT_OPTS lo;
  if (devnull) {
    lo.out = devnull;
    iwlog_set_logfn(0, &lo);
  }
  while (fgets(line, sizeof(line), stdin)) {
    int n = toks(line, tv, 8);
    if (n == 0) { printf("\n"); continue; }
    const char *op = tv[0];
    if (!strcmp(op, "open") && n >= 5) {
      int trunc = atoi(tv[1]);
      if (is_open && !poisoned) { f.close(&f); }
      is_open = 0;
      if (poisoned && !trunc) { printf("open POISONED\n"); continue; }
      poisoned = 0;
      IWFS_EXT_OPTS o;
      memset(&o, 0, sizeof(o));
      o.file.path = path;
      o.file.omode = IWFS_OWRITE | IWFS_OCREATE | (trunc ? IWFS_OTRUNC : 0);
      o.file.lock_mode = IWP_NOLOCK;
      o.initial_size = (off_t) strtoll(tv[2], 0, 10);
      o.maxoff = (uint64_t) strtoull(tv[3], 0, 10);
      o.use_locks = false;
      if (!strcmp(tv[4], "fibo")) {
        o.rspolicy = iw_exfile_szpolicy_fibo;
      } else if (!strcmp(tv[4], "mul")) {
        o.rspolicy = iw_exfile_szpolicy_mul;
        rnum.n = n > 5 ? atoi(tv[5]) : 0;
        rnum.dn = n > 6 ? atoi(tv[6]) : 0;
        o.rspolicy_ctx = &rnum;
      } else if (!strcmp(tv[4], "muln")) {
        o.rspolicy = iw_exfile_szpolicy_mul;
      }
      iwrc rc = iwfs_exfile_open(&f, &o);
      is_open = !rc;
      printf("open %s", rcname(rc));
      tail();
      continue;
    }
    if (poisoned) { printf("%s POISONED\n", op); continue; }
    if (!is_open) { printf("%s NOTOPEN\n", op); continue; }
    armed = 1;
    int sig = sigsetjmp(jb, 1);
    if (sig) {
      poisoned = 1;
      printf("%s CRASH\n", op);
      continue;
    }
    if (!strcmp(op, "write") && n >= 3) {
      uint8_t *b; size_t len = unhex(tv[2], &b), sp = 12345;
      iwrc rc = f.write(&f, (off_t) strtoll(tv[1], 0, 10), b, len, &sp);
      armed = 0;
      printf("write %s %zu", rcname(rc), sp);
      free(b);
    } else if (!strcmp(op, "read") && n >= 3) {
      size_t len = (size_t) strtoull(tv[2], 0, 10), sp = 12345;
      uint8_t *b = malloc(len + 1);
      memset(b, 0xAA, len + 1);
      iwrc rc = f.read(&f, (off_t) strtoll(tv[1], 0, 10), b, len, &sp);
      armed = 0;
      printf("read %s %zu ", rcname(rc), sp);
      puthex(b, sp <= len ? sp : len);
      free(b);
    } else if (!strcmp(op, "copy") && n >= 4) {
      iwrc rc = f.copy(&f, (off_t) strtoll(tv[1], 0, 10), (size_t) strtoull(tv[2], 0, 10), (off_t) strtoll(tv[3], 0, 10));
      armed = 0;
      printf("copy %s", rcname(rc));
    } else if (!strcmp(op, "truncate") && n >= 2) {
      iwrc rc = f.truncate(&f, (off_t) strtoll(tv[1], 0, 10));
      armed = 0;
      printf("truncate %s", rcname(rc));
    } else if (!strcmp(op, "ensure") && n >= 2) {
      iwrc rc = f.ensure_size(&f, (off_t) strtoll(tv[1], 0, 10));
      armed = 0;
      printf("ensure %s", rcname(rc));
    } else if (!strcmp(op, "addmm") && n >= 4) {
      iwrc rc = f.add_mmap(&f, (off_t) strtoll(tv[1], 0, 10), (size_t) strtoull(tv[2], 0, 10),
                           (iwfs_ext_mmap_opts_t) atoi(tv[3]));
      armed = 0;
      printf("addmm %s", rcname(rc));
    } else if (!strcmp(op, "rmmm") && n >= 2) {
      iwrc rc = f.remove_mmap(&f, (off_t) strtoll(tv[1], 0, 10));
      armed = 0;
      printf("rmmm %s", rcname(rc));
    } else if (!strcmp(op, "probe") && n >= 2) {
      uint8_t *mm = 0; size_t sp = 0;
      iwrc rc = f.probe_mmap(&f, (off_t) strtoll(tv[1], 0, 10), &mm, &sp);
      armed = 0;
      printf("probe %s %zu", rcname(rc), sp);
    } else if (!strcmp(op, "sync")) {
      iwrc rc = f.sync(&f, 0);
      armed = 0;
      printf("sync %s", rcname(rc));
    } else if (!strcmp(op, "remap")) {
      iwrc rc = f.remap_all(&f);
      armed = 0;
      printf("remap %s", rcname(rc));
    } else if (!strcmp(op, "state")) {
      armed = 0;
      printf("state OK");
    } else if (!strcmp(op, "close")) {
      iwrc rc = f.close(&f);
      armed = 0;
      is_open = 0;
      printf("close %s", rcname(rc));
    } else {
      armed = 0;
      printf("%s BADOP", op);
    }
    tail();
  }
  if (is_open && !poisoned) f.close(&f);
  unlink(path);
  return 0;
}
