// C12 harness: op scripts against the auto-expandable file (iwfs_exfile_open and its method table).
// usage: h_exf <path of the data file>; one output line per input line.
//   open <trunc 0|1> <initial_size> <maxoff> <def|fibo|mul|muln> [n dn]
//   write <off> <hex> | read <off> <len> | copy <off> <siz> <noff> | truncate <size> | ensure <size>
//   addmm <off> <maxlen> <flags> | rmmm <off> | probe <off> | sync | remap | state | close
//   syncmm <off> | acquire <off> (acquire_mmap; touches the first and the last byte) | release (release_mmap)
//   locks <0|1>   the next open uses use_locks = 0|1.  With locks a call that never returns (it waits for a lock the caller
//                 itself holds) is cut off by an alarm after 2 s and answered "<op> HANG"; the handle is abandoned.
//   raw <len> <seed>  (handle closed) the data file is written outside the library: len pattern bytes
//   openro <initial_size> <maxoff> <policy...>  open read-only (omode = IWFS_OREAD); afterwards only read/state/probe/syncmm/close
//   rowrites <0|1>  1: a read-only handle also gets addmm/rmmm/write/copy (a write through a PROT_READ window must be refused)
//   vmkb          address space of the harness process in KiB (harness only; a refused add_mmap must not keep its mapping)
//   the plain file underneath (iwfile.c), on a second path <path>.raw:
//   fopen <omode> <lockmode> | fwrite <off> <hex> | fread <off> <len> | fcopy <off> <siz> <noff> | fsync | fstate | fclose
//   fraw <len> <seed> | frm (unlink) | fhold <0|1> (the harness itself holds an exclusive flock on <path>.raw through its own fd)
//   limit <n>   OS-refusal injection: RLIMIT_FSIZE (soft) := n bytes, n < 0 lifts it. SIGXFSZ is ignored, so every
//               ftruncate/fallocate/write of this process beyond n fails with EFBIG until the limit is lifted.
//               Accepted in every state (also without an open handle / after a crash).
//   maplimit <d> mmap-refusal injection (opt-in scripts only, see checks/C12.py): RLIMIT_AS (soft) := current address
//               space + d bytes, d < 0 lifts it; a window that has to grow by more than d cannot be mapped (ENOMEM).
// every answer: "<op> <RC> [payload] fsize=<state().fsize> stat=<st_size>"
// probe reads the first and the last byte of every page of the window it got (a window that reaches beyond the real
// end of the file faults there).
// A SIGSEGV/SIGABRT inside an operation is reported as "<op> CRASH", a SIGBUS (access to a mapped page beyond the end of
// the file) as "<op> SIGBUS"; the handle is abandoned until the next "open 1".
#include "iwcfg.h"
#include "iwexfile.h"
#include "iwp.h"
#include "iwlog.h"
#include "iowow.h"
#include "iwutils.h"
#include "hcommon.h"
#include <time.h>
#include <signal.h>
#include <dirent.h>
#include <setjmp.h>
#include <sys/stat.h>
#include <sys/resource.h>
#include <sys/file.h>
#include <fcntl.h>
#include <unistd.h>
#include <errno.h>

static const char *rcname(iwrc rc) {
  static char buf[40];
  if (!rc) return "OK";
  iwrc_strip_errno(&rc);
  switch (rc) {
    case IW_ERROR_OUT_OF_BOUNDS: return "OOB";
    case IW_ERROR_NOT_ALIGNED: return "NOTALIGNED";
    case IW_ERROR_OVERFLOW: return "OVERFLOW";
    case IW_ERROR_READONLY: return "READONLY";
    case IW_ERROR_INVALID_STATE: return "INVSTATE";
    case IW_ERROR_IO_ERRNO: return "IOERR";
    case IW_ERROR_ERRNO: return "ERRNO";
    case IW_ERROR_NOT_EXISTS: return "NOTEXISTS";
    case IW_ERROR_INVALID_ARGS: return "INVARGS";
    case IWFS_ERROR_MAXOFF: return "MAXOFF";
    case IWFS_ERROR_RESIZE_POLICY_FAIL: return "POLFAIL";
    case IWFS_ERROR_MMAP_OVERLAP: return "OVERLAP";
    case IWFS_ERROR_NOT_MMAPED: return "NOTMM";
  }
  snprintf(buf, sizeof(buf), "E%llu", (unsigned long long) rc);
  return buf;
}

static sigjmp_buf jb;
static volatile sig_atomic_t armed;
static void onsig(int sig) {
  if (armed) { armed = 0; siglongjmp(jb, sig); }
  _exit(70);
}

static IWFS_EXT f;
static int is_open, poisoned, use_locks_next, ro_mode, ro_writes;
static const char *path;
static IWFS_FILE ff;
static int ff_open, hold_fd = -1;
static char rawpath[4096], tmppath[4096];

static uint8_t patbyte(long long seed, long long i) {
  return (uint8_t) ((seed * 131 + i * 31 + (i >> 8) * 7) % 251 + 1);
}

static int rawfile(const char *p, long long len, long long seed) {
  FILE *o = fopen(p, "wb");
  if (!o) return -1;
  for (long long i = 0; i < len; ++i) fputc(patbyte(seed, i), o);
  return fclose(o);
}

static void ffclose(void) {  // close the plain file; an IWFS_OTMP file is the harness's to remove
  if (ff_open) ff.close(&ff);
  ff_open = 0;
  if (tmppath[0] && strcmp(tmppath, rawpath)) unlink(tmppath);
  tmppath[0] = 0;
}

static long long statsz2(const char *p) {
  struct stat st;
  if (stat(p, &st)) return -1;
  return (long long) st.st_size;
}
static IW_RNUM rnum;

static long long statsz(void) {
  struct stat st;
  if (stat(path, &st)) return -1;
  return (long long) st.st_size;
}

static long long vmsize(void) {  // no stdio: must work under a tight address-space limit
  char b[128];
  int fd = open("/proc/self/statm", O_RDONLY);
  if (fd < 0) return -1;
  ssize_t r = read(fd, b, sizeof(b) - 1);
  close(fd);
  if (r <= 0) return -1;
  b[r] = 0;
  return strtoll(b, 0, 10) * (long long) sysconf(_SC_PAGESIZE);
}

static void tail(void) {
  long long fs = -1;
  if (is_open && !poisoned) {
    IWFS_EXT_STATE st;
    if (!f.state(&f, &st)) fs = (long long) st.fsize;
  }
  printf(" fsize=%lld stat=%lld\n", fs, statsz());
}

int main(int argc, char **argv) {
  static char line[1 << 20];
  char *tv[8];
  if (argc < 2) return 2;
  path = argv[1];
  snprintf(rawpath, sizeof(rawpath), "%s.raw", path);
  iwlog_init();
  // iw_init seeds the generator behind IWFS_OTMP names with the millisecond clock: harnesses started together would share names
  iw_init();
  iwu_rand_seed((uint32_t) getpid() * 2654435761u ^ (uint32_t) time(0));
  struct sigaction sa;
  memset(&sa, 0, sizeof(sa));
  sa.sa_handler = onsig;
  sa.sa_flags = SA_NODEFER;
  sigaction(SIGSEGV, &sa, 0);
  sigaction(SIGBUS, &sa, 0);
  sigaction(SIGABRT, &sa, 0);
  sigaction(SIGALRM, &sa, 0);
  signal(SIGXFSZ, SIG_IGN);
  FILE *devnull = fopen("/dev/null", "w");
  static IWLOG_DEFAULT_OPTS lo;
  if (devnull) {
    lo.out = devnull;
    iwlog_set_logfn(0, &lo);
  }
  while (fgets(line, sizeof(line), stdin)) {
    int n = toks(line, tv, 8);
    if (n == 0) { printf("\n"); continue; }
    const char *op = tv[0];
    if (!strcmp(op, "limit") && n >= 2) {
      long long v = strtoll(tv[1], 0, 10);
      struct rlimit rl;
      int rci = getrlimit(RLIMIT_FSIZE, &rl);
      if (!rci) {
        rl.rlim_cur = v < 0 ? rl.rlim_max : (rlim_t) v;
        rci = setrlimit(RLIMIT_FSIZE, &rl);
      }
      printf("limit %s", rci ? "ERR" : "OK");
      tail();
      continue;
    }
    if (!strcmp(op, "nfd")) { // open descriptors of this process (a failed open must not keep one)
      int cnt = 0;
      DIR *d = opendir("/proc/self/fd");
      if (d) {
        while (readdir(d)) ++cnt;
        closedir(d);
        cnt -= 3; // ".", ".." and the directory stream itself
      }
      printf("nfd %d\n", cnt);
      continue;
    }
    if (!strcmp(op, "maplimit") && n >= 2) {
      long long v = strtoll(tv[1], 0, 10), cur = vmsize();
      struct rlimit rl;
      int rci = getrlimit(RLIMIT_AS, &rl);
      if (!rci && (v < 0 || cur > 0)) {
        rl.rlim_cur = v < 0 ? rl.rlim_max : (rlim_t) (cur + v);
        rci = setrlimit(RLIMIT_AS, &rl);
      } else {
        rci = -1;
      }
      printf("maplimit %s", rci ? "ERR" : "OK");
      tail();
      continue;
    }
    if (!strcmp(op, "locks") && n >= 2) {
      use_locks_next = atoi(tv[1]) != 0;
      printf("locks OK");
      tail();
      continue;
    }
    if (!strcmp(op, "rowrites") && n >= 2) {
      ro_writes = atoi(tv[1]) != 0;
      printf("rowrites OK");
      tail();
      continue;
    }
    if (!strcmp(op, "vmkb")) {
      printf("vmkb %lld\n", vmsize() / 1024);
      continue;
    }
    if (!strcmp(op, "raw") && n >= 3) {
      if (is_open && !poisoned) { printf("raw BUSY"); tail(); continue; }
      int rci = rawfile(path, strtoll(tv[1], 0, 10), strtoll(tv[2], 0, 10));
      printf("raw %s", rci ? "ERR" : "OK");
      tail();
      continue;
    }
    if (op[0] == 'f' && strcmp(op, "f")) {  // the plain file: fopen fwrite fread fcopy fsync fstate fclose fraw frm fhold
      if (!strcmp(op, "fraw") && n >= 3) {
        int rci = ff_open ? -1 : rawfile(rawpath, strtoll(tv[1], 0, 10), strtoll(tv[2], 0, 10));
        printf("fraw %s fstat=%lld\n", rci ? "ERR" : "OK", statsz2(rawpath));
      } else if (!strcmp(op, "frm")) {
        int rci = ff_open ? -1 : unlink(rawpath);
        printf("frm %s fstat=%lld\n", rci ? "ERR" : "OK", statsz2(rawpath));
      } else if (!strcmp(op, "fhold") && n >= 2) {
        int on = atoi(tv[1]), rci = 0;
        if (on && hold_fd < 0) {
          hold_fd = open(rawpath, O_RDWR | O_CREAT, 0644);
          rci = hold_fd < 0 ? -1 : flock(hold_fd, LOCK_EX | LOCK_NB);
        } else if (!on && hold_fd >= 0) {
          close(hold_fd);
          hold_fd = -1;
        }
        printf("fhold %s fstat=%lld\n", rci ? "ERR" : "OK", statsz2(rawpath));
      } else if (!strcmp(op, "fopen") && n >= 3) {
        ffclose();
        IWFS_FILE_OPTS fo;
        memset(&fo, 0, sizeof(fo));
        fo.omode = (iwfs_omode) atoi(tv[1]);
        fo.path = (fo.omode & IWFS_OTMP) ? "exfh-" : rawpath;  // IWFS_OTMP: the path is a name prefix inside the temporary directory
        fo.lock_mode = (iwp_lockmode) atoi(tv[2]);
        iwrc rc = iwfs_file_open(&ff, &fo);
        ff_open = !rc;
        tmppath[0] = 0;
        IWFS_FILE_STATE fs;
        memset(&fs, 0, sizeof(fs));
        if (ff_open) {
          ff.state(&ff, &fs);
          if ((fs.opts.omode & IWFS_OTMP) && fs.opts.path) snprintf(tmppath, sizeof(tmppath), "%s", fs.opts.path);
        }
        printf("fopen %s open=%d os=%d om=%d lk=%d fm=%o tmp=%d fstat=%lld\n", rcname(rc), ff_open, (int) fs.ostatus, (int) fs.opts.omode,
               (int) fs.opts.lock_mode, (unsigned) fs.opts.filemode, tmppath[0] && strcmp(tmppath, rawpath) ? 1 : 0,
               statsz2(tmppath[0] ? tmppath : rawpath));
      } else if (!ff_open) {
        printf("%s NOTOPEN fstat=%lld\n", op, statsz2(rawpath));
      } else if (!strcmp(op, "fwrite") && n >= 3) {
        uint8_t *b; size_t len = unhex(tv[2], &b), sp = 12345;
        iwrc rc = ff.write(&ff, (off_t) strtoll(tv[1], 0, 10), b, len, &sp);
        if (sp == 12345) printf("fwrite %s x fstat=%lld\n", rcname(rc), statsz2(tmppath[0] ? tmppath : rawpath));  // *sp left alone
        else printf("fwrite %s %zu fstat=%lld\n", rcname(rc), sp, statsz2(tmppath[0] ? tmppath : rawpath));
        free(b);
      } else if (!strcmp(op, "fread") && n >= 3) {
        size_t len = (size_t) strtoull(tv[2], 0, 10), sp = 12345;
        uint8_t *b = malloc(len + 1);
        memset(b, 0xAA, len + 1);
        iwrc rc = ff.read(&ff, (off_t) strtoll(tv[1], 0, 10), b, len, &sp);
        printf("fread %s %zu ", rcname(rc), sp);
        puthex(b, sp <= len ? sp : len);
        printf(" fstat=%lld\n", statsz2(tmppath[0] ? tmppath : rawpath));
        free(b);
      } else if (!strcmp(op, "fcopy") && n >= 4) {
        iwrc rc = ff.copy(&ff, (off_t) strtoll(tv[1], 0, 10), (size_t) strtoull(tv[2], 0, 10), (off_t) strtoll(tv[3], 0, 10));
        printf("fcopy %s fstat=%lld\n", rcname(rc), statsz2(tmppath[0] ? tmppath : rawpath));
      } else if (!strcmp(op, "fsync")) {
        iwrc rc = ff.sync(&ff, 0);
        printf("fsync %s fstat=%lld\n", rcname(rc), statsz2(tmppath[0] ? tmppath : rawpath));
      } else if (!strcmp(op, "fstate")) {
        IWFS_FILE_STATE fs;
        iwrc rc = ff.state(&ff, &fs);
        printf("fstate %s open=%d os=%d om=%d lk=%d fstat=%lld\n", rcname(rc), fs.is_open, (int) fs.ostatus, (int) fs.opts.omode,
               (int) fs.opts.lock_mode, statsz2(tmppath[0] ? tmppath : rawpath));
      } else if (!strcmp(op, "fclose")) {
        iwrc rc = ff.close(&ff);
        ff_open = 0;
        long long left = statsz2(tmppath[0] ? tmppath : rawpath);
        if (tmppath[0] && strcmp(tmppath, rawpath)) unlink(tmppath);
        tmppath[0] = 0;
        printf("fclose %s fstat=%lld\n", rcname(rc), left);
      } else {
        printf("%s BADOP\n", op);
      }
      continue;
    }
    if ((!strcmp(op, "open") && n >= 5) || (!strcmp(op, "openro") && n >= 4)) {
      int ro = !strcmp(op, "openro");
      if (ro) {  // same argument positions as open, without the trunc flag
        for (int i = n; i > 1; --i) tv[i] = tv[i - 1];
        tv[1] = (char*) "0";
        ++n;
      }
      int trunc = atoi(tv[1]);
      if (is_open && !poisoned) { f.close(&f); }
      is_open = 0;
      if (poisoned && !trunc) { printf("%s POISONED\n", op); continue; }
      poisoned = 0;
      ro_mode = ro;
      IWFS_EXT_OPTS o;
      memset(&o, 0, sizeof(o));
      o.file.path = path;
      o.file.omode = ro ? IWFS_OREAD : (IWFS_OWRITE | IWFS_OCREATE | (trunc ? IWFS_OTRUNC : 0));
      o.file.lock_mode = IWP_NOLOCK;
      o.initial_size = (off_t) strtoll(tv[2], 0, 10);
      o.maxoff = (uint64_t) strtoull(tv[3], 0, 10);
      o.use_locks = use_locks_next != 0;
      if (!strcmp(tv[4], "fibo")) {
        o.rspolicy = iw_exfile_szpolicy_fibo;
      } else if (!strcmp(tv[4], "mul")) {
        o.rspolicy = iw_exfile_szpolicy_mul;
        rnum.n = n > 5 ? atoi(tv[5]) : 0;
        rnum.dn = n > 6 ? atoi(tv[6]) : 0;
        o.rspolicy_ctx = &rnum;
      } else if (!strcmp(tv[4], "muln")) {
        o.rspolicy = iw_exfile_szpolicy_mul;
      }
      iwrc rc = iwfs_exfile_open(&f, &o);
      is_open = !rc;
      printf("%s %s", op, rcname(rc));
      tail();
      continue;
    }
    if (poisoned) { printf("%s POISONED\n", op); continue; }
    if (!is_open) { printf("%s NOTOPEN\n", op); continue; }
    if (  ro_mode && strcmp(op, "read") && strcmp(op, "state") && strcmp(op, "probe") && strcmp(op, "syncmm") && strcmp(op, "close")
       && !(ro_writes && (!strcmp(op, "addmm") || !strcmp(op, "rmmm") || !strcmp(op, "write") || !strcmp(op, "copy")))) {
      printf("%s ROMODE", op);
      tail();
      continue;
    }
    armed = 1;
    int sig = sigsetjmp(jb, 1);
    if (sig) {
      poisoned = 1;
      alarm(0);
      printf("%s %s\n", op, sig == SIGBUS ? "SIGBUS" : sig == SIGALRM ? "HANG" : "CRASH");
      continue;
    }
    if (use_locks_next) alarm(2);
    if (!strcmp(op, "write") && n >= 3) {
      uint8_t *b; size_t len = unhex(tv[2], &b), sp = 12345;
      iwrc rc = f.write(&f, (off_t) strtoll(tv[1], 0, 10), b, len, &sp);
      armed = 0;
      printf("write %s %zu", rcname(rc), sp);
      free(b);
    } else if (!strcmp(op, "read") && n >= 3) {
      size_t len = (size_t) strtoull(tv[2], 0, 10), sp = 12345;
      uint8_t *b = malloc(len + 1);
      memset(b, 0xAA, len + 1);
      iwrc rc = f.read(&f, (off_t) strtoll(tv[1], 0, 10), b, len, &sp);
      armed = 0;
      printf("read %s %zu ", rcname(rc), sp);
      puthex(b, sp <= len ? sp : len);
      free(b);
    } else if (!strcmp(op, "copy") && n >= 4) {
      iwrc rc = f.copy(&f, (off_t) strtoll(tv[1], 0, 10), (size_t) strtoull(tv[2], 0, 10), (off_t) strtoll(tv[3], 0, 10));
      armed = 0;
      printf("copy %s", rcname(rc));
    } else if (!strcmp(op, "truncate") && n >= 2) {
      iwrc rc = f.truncate(&f, (off_t) strtoll(tv[1], 0, 10));
      armed = 0;
      printf("truncate %s", rcname(rc));
    } else if (!strcmp(op, "ensure") && n >= 2) {
      iwrc rc = f.ensure_size(&f, (off_t) strtoll(tv[1], 0, 10));
      armed = 0;
      printf("ensure %s", rcname(rc));
    } else if (!strcmp(op, "addmm") && n >= 4) {
      iwrc rc = f.add_mmap(&f, (off_t) strtoll(tv[1], 0, 10), (size_t) strtoull(tv[2], 0, 10),
                           (iwfs_ext_mmap_opts_t) atoi(tv[3]));
      armed = 0;
      printf("addmm %s", rcname(rc));
    } else if (!strcmp(op, "rmmm") && n >= 2) {
      iwrc rc = f.remove_mmap(&f, (off_t) strtoll(tv[1], 0, 10));
      armed = 0;
      printf("rmmm %s", rcname(rc));
    } else if (!strcmp(op, "probe") && n >= 2) {
      uint8_t *mm = 0; size_t sp = 0;
      iwrc rc = f.probe_mmap(&f, (off_t) strtoll(tv[1], 0, 10), &mm, &sp);
      if (!rc && mm && sp) {  // the window must be readable over its whole reported length
        size_t ps = iwp_page_size();
        volatile uint8_t sink = 0;
        for (size_t i = 0; i < sp; i += ps) {
          sink ^= ((volatile uint8_t*) mm)[i];
          sink ^= ((volatile uint8_t*) mm)[(i + ps <= sp ? i + ps : sp) - 1];
        }
        (void) sink;
      }
      armed = 0;
      printf("probe %s %zu", rcname(rc), sp);
    } else if (!strcmp(op, "syncmm") && n >= 2) {
      iwrc rc = f.sync_mmap(&f, (off_t) strtoll(tv[1], 0, 10), 0);
      armed = 0;
      printf("syncmm %s", rcname(rc));
    } else if (!strcmp(op, "acquire") && n >= 2) {
      uint8_t *mm = 0; size_t sp = 0;
      iwrc rc = f.acquire_mmap(&f, (off_t) strtoll(tv[1], 0, 10), &mm, &sp);
      if (!rc && mm && sp) {
        volatile uint8_t sink = ((volatile uint8_t*) mm)[0] ^ ((volatile uint8_t*) mm)[sp - 1];
        (void) sink;
      }
      armed = 0;
      printf("acquire %s %zu", rcname(rc), sp);
    } else if (!strcmp(op, "release")) {
      iwrc rc = f.release_mmap(&f);
      armed = 0;
      printf("release %s", rcname(rc));
    } else if (!strcmp(op, "sync")) {
      iwrc rc = f.sync(&f, 0);
      armed = 0;
      printf("sync %s", rcname(rc));
    } else if (!strcmp(op, "remap")) {
      iwrc rc = f.remap_all(&f);
      armed = 0;
      printf("remap %s", rcname(rc));
    } else if (!strcmp(op, "state")) {
      armed = 0;
      printf("state OK");
    } else if (!strcmp(op, "close")) {
      iwrc rc = f.close(&f);
      armed = 0;
      is_open = 0;
      printf("close %s", rcname(rc));
    } else {
      armed = 0;
      printf("%s BADOP", op);
    }
    alarm(0);
    tail();
  }
  if (is_open && !poisoned) f.close(&f);
  ffclose();
  unlink(path);
  unlink(rawpath);
  return 0;
}
