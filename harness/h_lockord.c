// C07 lock-order tracer: the KV line-protocol harness (h_kv.c) with every pthread lock operation of the library
// interposed.  Each lock object is classified (store rwlock, database rwlock, allocator control lock, file lock, log
// mutex, worker-count mutex, cursor-list spin lock, other); for every acquisition the tracer records which classes
// the calling thread already holds.  The report (file named by LOCKORD_OUT, one line per distinct fact) lists
//   EDGE <held class> <held mode> <acquired class> <acquired mode> <api op> <count>
//   SAME <class> <held mode> <acquired mode> <api op> <count>      (re-acquisition of the very same lock object)
// The rank discipline behind the deadlock-freedom theorem (coq/CC/KvLocks*.v) is checked on these facts by checks/C07.py.
#define _GNU_SOURCE
#include <dlfcn.h>
#include <pthread.h>
#include <stdint.h>
#include <stdio.h>
#include <stdlib.h>
#include <string.h>
#include <malloc.h>

enum { LC_STORE = 1, LC_DB, LC_FSM, LC_EXF, LC_WAL, LC_WK, LC_SPIN, LC_OTHER, LC_UNKNOWN_RW, LC_THR };
static const char *lc_name[] = { "?", "store", "db", "fsm", "exf", "wal", "wk", "spin", "other", "rw?", "thr" };

#define LO_MAXOBJ 4096
static struct { const void *addr; int cls; int during_open; } lo_obj[LO_MAXOBJ];
static int lo_nobj;
static volatile int lo_lock;           // raw test-and-set lock for the tables (never goes through the wrappers)
static int lo_in_open, lo_probe, lo_enabled;
static const char *lo_wal_lo, *lo_wal_hi;
static const void *lo_probe_seen;
const char *lockord_ctx = "-";

#define LO_MAXHELD 32
static __thread struct { const void *addr; int mode; int cls; } lo_held[LO_MAXHELD];
static __thread int lo_nheld;
static __thread int lo_busy;

#define LO_MAXEDGE 2048
static struct { int same, hc, hm, ac, am; char ctx[16]; long n; } lo_edge[LO_MAXEDGE];
static int lo_nedge;

static void lo_acq(void) { while (__atomic_test_and_set(&lo_lock, __ATOMIC_ACQUIRE)) { } }
static void lo_rel(void) { __atomic_clear(&lo_lock, __ATOMIC_RELEASE); }

static int lo_class_of(const void *a, int is_rw, int is_spin) {
  for (int i = 0; i < lo_nobj; ++i) if (lo_obj[i].addr == a) return lo_obj[i].cls;
  if (is_spin) return LC_SPIN;
  if (is_rw) return LC_UNKNOWN_RW;
  if (lo_wal_lo && (const char*) a >= lo_wal_lo && (const char*) a < lo_wal_hi) return LC_WAL;
  return LC_OTHER;
}
static void lo_set_class(const void *a, int cls) {
  for (int i = 0; i < lo_nobj; ++i) if (lo_obj[i].addr == a) { lo_obj[i].cls = cls; return; }
  if (lo_nobj < LO_MAXOBJ) { lo_obj[lo_nobj].addr = a; lo_obj[lo_nobj].cls = cls; lo_obj[lo_nobj].during_open = lo_in_open; ++lo_nobj; }
}
static void lo_forget(const void *a) {
  for (int i = 0; i < lo_nobj; ++i) if (lo_obj[i].addr == a) { lo_obj[i] = lo_obj[--lo_nobj]; return; }
}

static void lo_fact(int same, int hc, int hm, int ac, int am) {
  for (int i = 0; i < lo_nedge; ++i)
    if (lo_edge[i].same == same && lo_edge[i].hc == hc && lo_edge[i].hm == hm && lo_edge[i].ac == ac && lo_edge[i].am == am
        && !strncmp(lo_edge[i].ctx, lockord_ctx, 15)) { ++lo_edge[i].n; return; }
  if (lo_nedge < LO_MAXEDGE) {
    lo_edge[lo_nedge].same = same; lo_edge[lo_nedge].hc = hc; lo_edge[lo_nedge].hm = hm; lo_edge[lo_nedge].ac = ac; lo_edge[lo_nedge].am = am;
    snprintf(lo_edge[lo_nedge].ctx, sizeof(lo_edge[lo_nedge].ctx), "%s", lockord_ctx); lo_edge[lo_nedge].n = 1; ++lo_nedge;
  }
}

// mode: 0 read, 1 write/exclusive
static void lo_on_acquire(const void *a, int mode, int is_rw, int is_spin) {
  if (!lo_enabled || lo_busy) return;
  lo_busy = 1;
  lo_acq();
  if (lo_probe && is_rw) lo_probe_seen = a;
  int ac = lo_class_of(a, is_rw, is_spin);
  for (int i = 0; i < lo_nheld && !lo_in_open && !lo_probe; ++i) {
    if (lo_held[i].addr == a) lo_fact(1, ac, lo_held[i].mode, ac, mode);
    else lo_fact(0, lo_held[i].cls, lo_held[i].mode, ac, mode);
  }
  lo_rel();
  if (lo_nheld < LO_MAXHELD) { lo_held[lo_nheld].addr = a; lo_held[lo_nheld].mode = mode; lo_held[lo_nheld].cls = ac; ++lo_nheld; }
  lo_busy = 0;
}
static void lo_on_release(const void *a) {
  if (!lo_enabled || lo_busy) return;
  for (int i = lo_nheld - 1; i >= 0; --i)
    if (lo_held[i].addr == a) { for (int j = i; j + 1 < lo_nheld; ++j) lo_held[j] = lo_held[j + 1]; --lo_nheld; return; }
}

#define REAL(name) static __typeof__(&name) real; if (!real) real = (__typeof__(&name)) dlsym(RTLD_NEXT, #name)

int pthread_rwlock_rdlock(pthread_rwlock_t *l) { REAL(pthread_rwlock_rdlock); int r = real(l); if (!r) lo_on_acquire(l, 0, 1, 0); return r; }
int pthread_rwlock_wrlock(pthread_rwlock_t *l) { REAL(pthread_rwlock_wrlock); int r = real(l); if (!r) lo_on_acquire(l, 1, 1, 0); return r; }
int pthread_rwlock_unlock(pthread_rwlock_t *l) { REAL(pthread_rwlock_unlock); lo_on_release(l); return real(l); }
int pthread_mutex_lock(pthread_mutex_t *l) { REAL(pthread_mutex_lock); int r = real(l); if (!r) lo_on_acquire(l, 1, 0, 0); return r; }
int pthread_mutex_unlock(pthread_mutex_t *l) { REAL(pthread_mutex_unlock); lo_on_release(l); return real(l); }
int pthread_spin_lock(pthread_spinlock_t *l) { REAL(pthread_spin_lock); int r = real(l); if (!r) lo_on_acquire((const void*) l, 1, 0, 1); return r; }
int pthread_spin_unlock(pthread_spinlock_t *l) { REAL(pthread_spin_unlock); lo_on_release((const void*) l); return real(l); }
int pthread_cond_wait(pthread_cond_t *c, pthread_mutex_t *m) {
  REAL(pthread_cond_wait); lo_on_release(m); int r = real(c, m); lo_on_acquire(m, 1, 0, 0); return r;
}
int pthread_cond_timedwait(pthread_cond_t *c, pthread_mutex_t *m, const struct timespec *t) {
  REAL(pthread_cond_timedwait); lo_on_release(m); int r = real(c, m, t); lo_on_acquire(m, 1, 0, 0); return r;
}
// joining a thread = acquiring its termination: every lock held at that moment is one the thread must never wait for
int pthread_join(pthread_t th, void **ret) {
  REAL(pthread_join);
  if (lo_enabled && !lo_busy) {
    lo_busy = 1;
    lo_acq();
    for (int i = 0; i < lo_nheld && !lo_in_open && !lo_probe; ++i) lo_fact(0, lo_held[i].cls, lo_held[i].mode, LC_THR, 1);
    lo_rel();
    lo_busy = 0;
  }
  return real(th, ret);
}
int pthread_rwlock_init(pthread_rwlock_t *l, const pthread_rwlockattr_t *a) {
  REAL(pthread_rwlock_init); int r = real(l, a);
  if (lo_enabled && !lo_busy) { lo_acq(); lo_set_class(l, lo_in_open ? LC_UNKNOWN_RW : LC_DB); lo_rel(); }
  return r;
}
int pthread_rwlock_destroy(pthread_rwlock_t *l) { REAL(pthread_rwlock_destroy); if (lo_enabled) { lo_acq(); lo_forget(l); lo_rel(); } return real(l); }

static void lo_report(void) {
  const char *out = getenv("LOCKORD_OUT");
  if (!out) return;
  FILE *f = fopen(out, "a");
  if (!f) return;
  lo_acq();
  for (int i = 0; i < lo_nedge; ++i) {
    if (lo_edge[i].same) fprintf(f, "SAME %s %d %d %s %ld\n", lc_name[lo_edge[i].ac], lo_edge[i].hm, lo_edge[i].am, lo_edge[i].ctx, lo_edge[i].n);
    else fprintf(f, "EDGE %s %d %s %d %s %ld\n", lc_name[lo_edge[i].hc], lo_edge[i].hm, lc_name[lo_edge[i].ac], lo_edge[i].am, lo_edge[i].ctx, lo_edge[i].n);
  }
  lo_nedge = 0;
  lo_rel();
  fclose(f);
}

#define LOCKORD 1
#include "h_kv.c"

// called by h_kv.c around iwkv_open and before every operation
void lockord_before_open(void) { static int reg; if (!reg) { reg = 1; atexit(lo_report); } lo_enabled = 1; lo_in_open = 1; }
void lockord_after_open(IWKV kv_) {
  lo_in_open = 0;
  if (!kv_) return;
  lo_acq();
  lo_set_class(&kv_->rwl, LC_STORE);
  lo_set_class(&kv_->wk_mtx, LC_WK);
  for (struct iwdb *db = kv_->first_db; db; db = db->next) { lo_set_class(&db->rwl, LC_DB); lo_set_class((const void*) &db->cursors_slk, LC_SPIN); }
  lo_rel();
  // the file lock is the one rwlock the mapping accessor takes
  uint8_t *mm;
  lo_probe = 1; lo_probe_seen = 0;
  if (!kv_->fsm.acquire_mmap(&kv_->fsm, 0, &mm, 0)) kv_->fsm.release_mmap(&kv_->fsm);
  lo_probe = 0;
  lo_acq();
  if (lo_probe_seen) lo_set_class(lo_probe_seen, LC_EXF);
  // the remaining rwlock created during the open is the allocator's control lock
  for (int i = 0; i < lo_nobj; ++i) if (lo_obj[i].cls == LC_UNKNOWN_RW && lo_obj[i].during_open) lo_obj[i].cls = LC_FSM;
  lo_rel();
  // mutexes inside the log object are the log mutex
  if (kv_->dlsnr) { lo_wal_lo = (const char*) kv_->dlsnr; lo_wal_hi = lo_wal_lo + malloc_usable_size(kv_->dlsnr); }
  else { lo_wal_lo = lo_wal_hi = 0; }
}
void lockord_dump(void) { lo_report(); }
