// C13 harness: JSON text parser / printer of the implementation, one query per line.
// Includes iwjser.c itself so that the static _jbl_unescape_json_string is called directly.
//
//   parse <hexdoc> <tbl>        jbn_from_json            -> ok <dump> | ok none | err E_x       (tbl: oracle table, ignored here)
//   print <pf> <dump>           jbn_as_json on the tree  -> ok <hex text> | err E_x
//   jprint <pf> <dump>          jbl_from_node + jbl_as_json (binary form) -> ok <hex text> | err E_x | err1 E_x
//   unesc <hex> <dlen>          one call of _jbl_unescape_json_string(q='"', d = buffer of dlen bytes)
//                                                        -> ok <ret> <hex of d[0..min(ret,dlen))> <end offset> | err E_x
//   enc <cp>                    utf8proc_codepoint_valid, utf8proc_encode_char -> <0|1> <hex>
//   iter <hex>                  utf8proc_iterate         -> <cp> <size> | err
//   strtoll <hex>               strtoll(s, &e, 0), errno = 0 before -> <value> <consumed> <erange>
//   strtod <hex>                iwstrtod(s, &e): which bytes the number scanner takes -> <consumed>
// implementation-only (oracle inputs and round trips):
//   nums <hexdoc>               iwstrtod at every offset that starts with [.-0-9] -> rem:bits:consumed:erange;... | -
//   ftoa <bits>                 iwjson_ftoa             -> hex text
//   rt <pf> <hexdoc>            parse, print with pf, parse the printed text
//                                                        -> ok <hex printed> ok <dump2> | ... err E_x | err1 E_x | perr E_x
//   dbl <pf> <bits>             [x] through jbn_as_json and jbl_as_json, first text re-read
//                                                        -> ok <hex text> <hex text jbl> ok <dump> | ... err E_x | err E_x E_y
//   jrt <pf> <hexdoc>           jbl_from_json, jbl_as_json (binary form in between) -> ok <hex printed> | err1 E_x | perr E_x
// dump: n t f i<dec> d<16 hex bits>[:<hex>] s<hex> [ ... ]  { k<hex> <value> ... }
#include "json/iwjser.c"
#include "iwxstr.h"
#include "hcommon.h"
#include <errno.h>

static const char* ename(iwrc rc) {
  switch (rc) {
    case JBL_ERROR_PARSE_JSON: return "E_JSON";
    case JBL_ERROR_PARSE_UNQUOTED_STRING: return "E_UNQ";
    case JBL_ERROR_PARSE_INVALID_CODEPOINT: return "E_CP";
    case JBL_ERROR_PARSE_INVALID_UTF8: return "E_UTF8";
    case JBL_ERROR_MAX_NESTING_LEVEL_EXCEEDED: return "E_NEST";
    default: return "E_OTHER";
  }
}

// hcommon's unhex leaves the one byte of an empty ("-") buffer uninitialised: terminate it
static size_t unhex0(const char *h, uint8_t **out) {
  size_t n = unhex(h, out);
  (*out)[n] = 0;
  return n;
}
#define unhex unhex0

static void hexraw(const void *p, size_t n) {
  for (size_t i = 0; i < n; ++i) printf("%02x", ((const uint8_t*) p)[i]);
}

static void dump(struct jbl_node *n) {
  switch (n->type) {
    case JBV_NULL: printf(" n"); break;
    case JBV_BOOL: printf(n->vbool ? " t" : " f"); break;
    case JBV_I64: printf(" i%" PRId64, n->vi64); break;
    case JBV_F64: { uint64_t b; memcpy(&b, &n->vf64, 8); printf(" d%016" PRIx64, b); break; }
    case JBV_STR: printf(" s"); hexraw(n->vptr, n->vsize); break;
    case JBV_ARRAY:
      printf(" [");
      for (struct jbl_node *c = n->child; c; c = c->next) dump(c);
      printf(" ]");
      break;
    case JBV_OBJECT:
      printf(" {");
      for (struct jbl_node *c = n->child; c; c = c->next) { printf(" k"); hexraw(c->key, c->klidx); dump(c); }
      printf(" }");
      break;
    default: printf(" ?%d", (int) n->type);
  }
}

// tokens -> tree
static char **tv;
static int tn, ti;
static struct jbl_node* mk(struct iwpool *pool, jbl_type_t t) {
  struct jbl_node *n = iwpool_calloc(sizeof(*n), pool);
  n->type = t;
  return n;
}

static char* pbytes(struct iwpool *pool, const char *hex, int *len) {
  uint8_t *b; size_t l = unhex(*hex ? hex : "-", &b);
  char *r = iwpool_alloc(l + 1, pool);
  memcpy(r, b, l); r[l] = 0; free(b);
  *len = (int) l;
  return r;
}

static struct jbl_node* rdval(struct iwpool *pool) {
  if (ti >= tn) return 0;
  char *t = tv[ti++];
  struct jbl_node *n = 0;
  switch (t[0]) {
    case 'n': n = mk(pool, JBV_NULL); break;
    case 't': n = mk(pool, JBV_BOOL); n->vbool = true; break;
    case 'f': n = mk(pool, JBV_BOOL); n->vbool = false; break;
    case 'i': n = mk(pool, JBV_I64); n->vi64 = strtoll(t + 1, 0, 10); break;
    case 'd': { n = mk(pool, JBV_F64); uint64_t b = strtoull(t + 1, 0, 16); memcpy(&n->vf64, &b, 8); break; }
    case 's': { n = mk(pool, JBV_STR); int l; n->vptr = pbytes(pool, t + 1, &l); n->vsize = l; break; }
    case '[':
      n = mk(pool, JBV_ARRAY);
      while (ti < tn && tv[ti][0] != ']') { struct jbl_node *c = rdval(pool); if (!c) return 0; jbn_add_item(n, c); }
      ++ti;
      break;
    case '{':
      n = mk(pool, JBV_OBJECT);
      while (ti < tn && tv[ti][0] != '}') {
        char *k = tv[ti++];
        struct jbl_node *c = rdval(pool); if (!c) return 0;
        int l; c->key = pbytes(pool, k + 1, &l); c->klidx = l;
        jbn_add_item(n, c);
      }
      ++ti;
      break;
    default: return 0;
  }
  return n;
}

static void tokenize(char *line) {
  static int cap = 0;
  tn = 0; ti = 0;
  char *sp = 0;
  for (char *t = strtok_r(line, " \r\n", &sp); t; t = strtok_r(0, " \r\n", &sp)) {
    if (tn >= cap) { cap = cap ? cap * 2 : 1024; tv = realloc(tv, cap * sizeof(*tv)); }
    tv[tn++] = t;
  }
}

int main(void) {
  size_t cap = 1 << 22;
  char *line = malloc(cap);
  while (fgets(line, cap, stdin)) {
    tokenize(line);
    if (tn == 0) { printf("\n"); continue; }
    const char *cmd = tv[0];
    if (!strcmp(cmd, "parse") && tn >= 2) {
      uint8_t *doc; unhex(tv[1], &doc);
      struct iwpool *pool = iwpool_create(0);
      struct jbl_node *n = 0;
      errno = 0;
      iwrc rc = jbn_from_json((char*) doc, &n, pool);
      if (rc) printf("err %s\n", ename(rc));
      else if (!n) printf("ok none\n");
      else { printf("ok"); dump(n); printf("\n"); }
      iwpool_destroy(pool); free(doc);
    } else if (!strcmp(cmd, "print") && tn >= 3) {
      struct iwpool *pool = iwpool_create(0);
      int pf = atoi(tv[1]);
      ti = 2;
      struct jbl_node *n = rdval(pool);
      if (!n) printf("?bad-dump\n");
      else {
        struct iwxstr *x = iwxstr_create_empty();
        iwrc rc = jbn_as_json(n, jbl_xstr_json_printer, x, (jbl_print_flags_t) pf);
        if (rc) printf("err %s\n", ename(rc));
        else { printf("ok "); puthex(iwxstr_ptr(x), iwxstr_size(x)); printf("\n"); }
        iwxstr_destroy(x);
      }
      iwpool_destroy(pool);
    } else if (!strcmp(cmd, "jprint") && tn >= 3) {
      struct iwpool *pool = iwpool_create(0);
      int pf = atoi(tv[1]);
      ti = 2;
      struct jbl_node *n = rdval(pool);
      struct jbl *jbl = 0;
      if (!n) printf("?bad-dump\n");
      else {
        iwrc rc = jbl_from_node(&jbl, n);
        if (rc) printf("err1 %s\n", ename(rc));
        else {
          struct iwxstr *x = iwxstr_create_empty();
          rc = jbl_as_json(jbl, jbl_xstr_json_printer, x, (jbl_print_flags_t) pf);
          if (rc) printf("err %s\n", ename(rc));
          else { printf("ok "); puthex(iwxstr_ptr(x), iwxstr_size(x)); printf("\n"); }
          iwxstr_destroy(x);
          jbl_destroy(&jbl);
        }
      }
      iwpool_destroy(pool);
    } else if (!strcmp(cmd, "dbl") && tn >= 3) {
      // value-level oracle input for doubles: the array [x] printed by jbn_as_json and by jbl_as_json, and re-read
      int pf = atoi(tv[1]);
      uint64_t b = strtoull(tv[2], 0, 16);
      struct iwpool *pool = iwpool_create(0);
      struct jbl_node *arr = mk(pool, JBV_ARRAY), *d = mk(pool, JBV_F64), *n2 = 0;
      memcpy(&d->vf64, &b, 8);
      jbn_add_item(arr, d);
      struct iwxstr *x = iwxstr_create_empty(), *y = iwxstr_create_empty();
      struct jbl *jbl = 0;
      iwrc rc = jbn_as_json(arr, jbl_xstr_json_printer, x, (jbl_print_flags_t) pf);
      iwrc rc2 = jbl_from_node(&jbl, arr);
      if (!rc2) rc2 = jbl_as_json(jbl, jbl_xstr_json_printer, y, (jbl_print_flags_t) pf);
      if (rc || rc2) printf("err %s %s\n", rc ? ename(rc) : "-", rc2 ? ename(rc2) : "-");
      else {
        printf("ok "); puthex(iwxstr_ptr(x), iwxstr_size(x)); printf(" "); puthex(iwxstr_ptr(y), iwxstr_size(y));
        errno = 0;
        rc = jbn_from_json(iwxstr_ptr(x), &n2, pool);
        if (rc) printf(" err %s\n", ename(rc));
        else if (!n2) printf(" none\n");
        else { printf(" ok"); dump(n2); printf("\n"); }
      }
      if (jbl) jbl_destroy(&jbl);
      iwxstr_destroy(x); iwxstr_destroy(y);
      iwpool_destroy(pool);
    } else if (!strcmp(cmd, "unesc") && tn >= 3) {
      uint8_t *s; unhex(tv[1], &s);
      int dlen = atoi(tv[2]);
      uint8_t *raw = malloc(dlen + 16);
      memset(raw, 0xAA, dlen + 16);
      JCTX ctx = { 0 };
      const char *end = (const char*) s;
      int ret = _jbl_unescape_json_string(&ctx, '"', (const char*) s, dlen > 0 ? (char*) raw + 8 : 0, dlen, &end);
      int oob = 0;
      for (int i = 0; i < 8; ++i) if (raw[i] != 0xAA || raw[8 + dlen + i] != 0xAA) oob = 1;
      if (oob) printf("OOB\n");
      else if (ctx.rc) printf("err %s\n", ename(ctx.rc));
      else { printf("ok %d ", ret); puthex(raw + 8, ret < dlen ? ret : dlen); printf(" %d\n", (int) (end - (const char*) s)); }
      free(raw); free(s);
    } else if (!strcmp(cmd, "enc") && tn >= 2) {
      int32_t cp = (int32_t) strtoll(tv[1], 0, 10);
      uint8_t b[8] = { 0 };
      utf8proc_ssize_t l = utf8proc_encode_char(cp, b);
      printf("%d ", utf8proc_codepoint_valid(cp) ? 1 : 0); puthex(b, l); printf("\n");
    } else if (!strcmp(cmd, "iter") && tn >= 2) {
      uint8_t *s; size_t l = unhex(tv[1], &s);
      utf8proc_int32_t cp;
      utf8proc_ssize_t sz = utf8proc_iterate(s, (utf8proc_ssize_t) l, &cp);
      if (sz < 0) printf("err\n"); else printf("%d %d\n", (int) cp, (int) sz);
      free(s);
    } else if (!strcmp(cmd, "strtoll") && tn >= 2) {
      uint8_t *s; unhex(tv[1], &s);
      char *e; errno = 0;
      long long v = strtoll((char*) s, &e, 0);
      printf("%lld %d %d\n", v, (int) (e - (char*) s), errno == ERANGE ? 1 : 0);
      free(s);
    } else if (!strcmp(cmd, "strtod") && tn >= 2) {
      uint8_t *s; unhex(tv[1], &s);
      char *e = 0; errno = 0;
      (void) iwstrtod((char*) s, &e);
      printf("%d\n", (int) (e - (char*) s));
      free(s);
    } else if (!strcmp(cmd, "nums") && tn >= 2) {
      uint8_t *doc; size_t l = unhex(tv[1], &doc);
      l = strlen((char*) doc);
      int any = 0;
      for (size_t i = 0; i < l; ++i) {
        char c = (char) doc[i];
        if (c == '.' || c == '-' || (c >= '0' && c <= '9')) {
          char *e; errno = 0;
          double d = iwstrtod((char*) doc + i, &e);
          uint64_t b; memcpy(&b, &d, 8);
          printf("%s%d:%016" PRIx64 ":%d:%d", any ? ";" : "", (int) (l - i), b, (int) (e - ((char*) doc + i)), errno == ERANGE ? 1 : 0);
          any = 1;
        }
      }
      printf(any ? "\n" : "-\n");
      free(doc);
    } else if (!strcmp(cmd, "ftoa") && tn >= 2) {
      uint64_t b = strtoull(tv[1], 0, 16);
      double d; memcpy(&d, &b, 8);
      struct iwxstr *x = iwxstr_create_empty();
      _jbl_write_double(d, jbl_xstr_json_printer, x);
      puthex(iwxstr_ptr(x), iwxstr_size(x)); printf("\n");
      iwxstr_destroy(x);
    } else if (!strcmp(cmd, "rt") && tn >= 3) {
      int pf = atoi(tv[1]);
      uint8_t *doc; unhex(tv[2], &doc);
      struct iwpool *pool = iwpool_create(0);
      struct jbl_node *n = 0, *n2 = 0;
      errno = 0;
      iwrc rc = jbn_from_json((char*) doc, &n, pool);
      if (rc || !n) printf("err1 %s\n", rc ? ename(rc) : "none");
      else {
        struct iwxstr *x = iwxstr_create_empty();
        rc = jbn_as_json(n, jbl_xstr_json_printer, x, (jbl_print_flags_t) pf);
        if (rc) printf("perr %s\n", ename(rc));
        else {
          printf("ok "); puthex(iwxstr_ptr(x), iwxstr_size(x));
          errno = 0;
          rc = jbn_from_json(iwxstr_ptr(x), &n2, pool);
          if (rc) printf(" err %s\n", ename(rc));
          else if (!n2) printf(" ok none\n");
          else { printf(" ok"); dump(n2); printf("\n"); }
        }
        iwxstr_destroy(x);
      }
      iwpool_destroy(pool); free(doc);
    } else if (!strcmp(cmd, "jrt") && tn >= 3) {
      int pf = atoi(tv[1]);
      uint8_t *doc; unhex(tv[2], &doc);
      struct jbl *jbl = 0;
      errno = 0;
      iwrc rc = jbl_from_json(&jbl, (char*) doc);
      if (rc) printf("err1 %s\n", ename(rc));
      else {
        struct iwxstr *x = iwxstr_create_empty();
        rc = jbl_as_json(jbl, jbl_xstr_json_printer, x, (jbl_print_flags_t) pf);
        if (rc) printf("perr %s\n", ename(rc));
        else { printf("ok "); puthex(iwxstr_ptr(x), iwxstr_size(x)); printf("\n"); }
        iwxstr_destroy(x);
        jbl_destroy(&jbl);
      }
      free(doc);
    } else {
      printf("?\n");
    }
    fflush(stdout);
  }
  return 0;
}
