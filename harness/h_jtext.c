// C13 harness: JSON text parser / printer of the implementation, one query per line.
// Includes iwjser.c itself so that the static _jbl_unescape_json_string is called directly.
//
//   parse <hexdoc> <tbl>        jbn_from_json            -> ok <dump> | ok none | err E_x       (tbl: oracle table, ignored here)
//   print <pf> <dump>           jbn_as_json on the tree  -> ok <hex text> | err E_x
//   jprint <pf> <dump>          jbl_from_node + jbl_as_json (binary form) -> ok <hex text> | err E_x | err1 E_x
//   unesc <hex> <dlen>          one call of _jbl_unescape_json_string(q='"', d = buffer of dlen bytes)
//                                                        -> ok <ret> <hex of d[0..min(ret,dlen))> <end offset> | err E_x
//   enc <cp>                    utf8proc_codepoint_valid, utf8proc_encode_char -> <0|1> <hex>
//   iter <hex>                  utf8proc_iterate         -> <cp> <size> | err
//   strtoll <hex>               strtoll(s, &e, 0), errno = 0 before -> <value> <consumed> <erange>
//   strtod <hex>                iwstrtod(s, &e): which bytes the number scanner takes -> <consumed>
// implementation-only (oracle inputs and round trips):
//   nums <hexdoc>               iwstrtod at every offset that starts with [.-0-9] -> rem:bits:consumed:erange;... | -
//   ftoa <bits>                 iwjson_ftoa             -> hex text
//   rt <pf> <hexdoc>            parse, print with pf, parse the printed text
//                                                        -> ok <hex printed> ok <dump2> | ... err E_x | err1 E_x | perr E_x
//   dbl <pf> <bits>             [x] through jbn_as_json and jbl_as_json, first text re-read
//                                                        -> ok <hex text> <hex text jbl> ok <dump> | ... err E_x | err E_x E_y
//   jrt <pf> <hexdoc>           jbl_from_json, jbl_as_json (binary form in between) -> ok <hex printed> | err1 E_x | perr E_x
// print channels (every exported way of turning a document into text, see CHANNELS below and PRINT_API in checks/C13.py):
//   chan <pf> <dump>            the tree through every channel of jbn_as_json / jbn_as_json_alloc
//   jchan <pf> <dump>           jbl_from_node, then every channel of jbl_as_json / jbl_as_json_alloc
//                                                        -> groups `<status> <payload> <names>` joined by " | ", channels with the same
//                                                           answer share a group: ok <hex text> n.xstr,n.fmem,... | ok #<n> n.count
//                                                           failure: err E_x <names>  (+ " ## <name>=<hex of the text written so far>")
//   tchan <pf> <dump>           jbl_from_node, jbl_to_node(clone_strings = false), then every channel of jbn_as_json on the borrowed tree
//   chunks <pf> <dump>          the calls the printer makes: c<ch>[x<count>] (data == NULL; ch as the C char it is passed as),
//   jchunks <pf> <dump>           b<hex>/<size>/<count> (data != NULL: bytes up to size, or up to the NUL when size < 0)
//                                                        -> ok <chunk> <chunk> ... | err E_x
//   xml <pf> <dump>             jbn_as_xml through every printer callback (implementation only: the channels must agree)
//   reg <dump>                  iwjsreg_open + iwjsreg_replace("/") + iwjsreg_sync: the registry file (implementation only)
// dump: n t f i<dec> d<16 hex bits>[:<hex>] s<hex> [ ... ]  { k<hex> <value> ... }
#include "json/iwjser.c"
#include "iwxstr.h"
#include "json/iwjsreg.h"
#include "hcommon.h"
#include <errno.h>
#include <unistd.h>

static const char* ename(iwrc rc) {
  switch (rc) {
    case JBL_ERROR_PARSE_JSON: return "E_JSON";
    case JBL_ERROR_PARSE_UNQUOTED_STRING: return "E_UNQ";
    case JBL_ERROR_PARSE_INVALID_CODEPOINT: return "E_CP";
    case JBL_ERROR_PARSE_INVALID_UTF8: return "E_UTF8";
    case JBL_ERROR_MAX_NESTING_LEVEL_EXCEEDED: return "E_NEST";
    case IW_ERROR_INVALID_ARGS: return "E_ARGS";
    default:
      iwrc_strip_errno(&rc);
      if (rc == IW_ERROR_IO_ERRNO) return "E_IO";
      return "E_OTHER";
  }
}

// hcommon's unhex leaves the one byte of an empty ("-") buffer uninitialised: terminate it
static size_t unhex0(const char *h, uint8_t **out) {
  size_t n = unhex(h, out);
  (*out)[n] = 0;
  return n;
}
#define unhex unhex0

static void hexraw(const void *p, size_t n) {
  for (size_t i = 0; i < n; ++i) printf("%02x", ((const uint8_t*) p)[i]);
}

static void dump(struct jbl_node *n) {
  switch (n->type) {
    case JBV_NULL: printf(" n"); break;
    case JBV_BOOL: printf(n->vbool ? " t" : " f"); break;
    case JBV_I64: printf(" i%" PRId64, n->vi64); break;
    case JBV_F64: { uint64_t b; memcpy(&b, &n->vf64, 8); printf(" d%016" PRIx64, b); break; }
    case JBV_STR: printf(" s"); hexraw(n->vptr, n->vsize); break;
    case JBV_ARRAY:
      printf(" [");
      for (struct jbl_node *c = n->child; c; c = c->next) dump(c);
      printf(" ]");
      break;
    case JBV_OBJECT:
      printf(" {");
      for (struct jbl_node *c = n->child; c; c = c->next) { printf(" k"); hexraw(c->key, c->klidx); dump(c); }
      printf(" }");
      break;
    default: printf(" ?%d", (int) n->type);
  }
}

// tokens -> tree
static char **tv;
static int tn, ti;
static struct jbl_node* mk(struct iwpool *pool, jbl_type_t t) {
  struct jbl_node *n = iwpool_calloc(sizeof(*n), pool);
  n->type = t;
  return n;
}

static char* pbytes(struct iwpool *pool, const char *hex, int *len) {
  uint8_t *b; size_t l = unhex(*hex ? hex : "-", &b);
  char *r = iwpool_alloc(l + 1, pool);
  memcpy(r, b, l); r[l] = 0; free(b);
  *len = (int) l;
  return r;
}

static struct jbl_node* rdval(struct iwpool *pool) {
  if (ti >= tn) return 0;
  char *t = tv[ti++];
  struct jbl_node *n = 0;
  switch (t[0]) {
    case 'n': n = mk(pool, JBV_NULL); break;
    case 't': n = mk(pool, JBV_BOOL); n->vbool = true; break;
    case 'f': n = mk(pool, JBV_BOOL); n->vbool = false; break;
    case 'i': n = mk(pool, JBV_I64); n->vi64 = strtoll(t + 1, 0, 10); break;
    case 'd': { n = mk(pool, JBV_F64); uint64_t b = strtoull(t + 1, 0, 16); memcpy(&n->vf64, &b, 8); break; }
    case 's': { n = mk(pool, JBV_STR); int l; n->vptr = pbytes(pool, t + 1, &l); n->vsize = l; break; }
    case '[':
      n = mk(pool, JBV_ARRAY);
      while (ti < tn && tv[ti][0] != ']') { struct jbl_node *c = rdval(pool); if (!c) return 0; jbn_add_item(n, c); }
      ++ti;
      break;
    case '{':
      n = mk(pool, JBV_OBJECT);
      while (ti < tn && tv[ti][0] != '}') {
        char *k = tv[ti++];
        struct jbl_node *c = rdval(pool); if (!c) return 0;
        int l; c->key = pbytes(pool, k + 1, &l); c->klidx = l;
        jbn_add_item(n, c);
      }
      ++ti;
      break;
    default: return 0;
  }
  return n;
}

static void tokenize(char *line) {
  static int cap = 0;
  tn = 0; ti = 0;
  char *sp = 0;
  for (char *t = strtok_r(line, " \r\n", &sp); t; t = strtok_r(0, " \r\n", &sp)) {
    if (tn >= cap) { cap = cap ? cap * 2 : 1024; tv = realloc(tv, cap * sizeof(*tv)); }
    tv[tn++] = t;
  }
}

// ------------------------------------------------------------------------------------------------ print channels
// A channel = a producer (jbn_as_json, jbl_as_json, jbn_as_xml, the *_alloc functions) writing into a sink (one of the
// exported printer callbacks, or the harness's own callback that takes the documented contract of jbl_json_printer literally).
struct rec { struct iwxstr *bytes; struct iwxstr *log; };

static iwrc rec_printer(const char *data, int size, char ch, int count, void *op) {
  struct rec *r = op;
  if (!data) {
    if (r->log) iwxstr_printf(r->log, count == 1 ? " c%d" : " c%dx%d", (int) ch, count);
    for (int i = 0; i < count; ++i) iwxstr_cat(r->bytes, &ch, 1);
  } else {
    int sz = size < 0 ? (int) strlen(data) : size;
    if (r->log) {
      iwxstr_cat(r->log, " b", 2);
      if (!sz) iwxstr_cat(r->log, "-", 1);
      for (int i = 0; i < sz; ++i) iwxstr_printf(r->log, "%02x", (unsigned) (uint8_t) data[i]);
      iwxstr_printf(r->log, "/%d/%d", size, count);
    }
    if (!count) count = 1;
    for (int i = 0; i < count; ++i) iwxstr_cat(r->bytes, data, sz);
  }
  return 0;
}

typedef iwrc (*prod_fn)(void *doc, jbl_json_printer pt, void *op, jbl_print_flags_t pf);
static iwrc prod_node(void *doc, jbl_json_printer pt, void *op, jbl_print_flags_t pf) { return jbn_as_json(doc, pt, op, pf); }
static iwrc prod_jbl(void *doc, jbl_json_printer pt, void *op, jbl_print_flags_t pf) { return jbl_as_json(doc, pt, op, pf); }
static iwrc prod_xml(void *doc, jbl_json_printer pt, void *op, jbl_print_flags_t pf) {
  struct jbn_as_xml_spec spec = { .printer_fn = pt, .printer_fn_data = op, .flags = pf, .print_xml_header = true };
  return jbn_as_xml(doc, &spec);
}

#define MAXCH 8   /* channels of one query */
struct cres { const char *name; iwrc rc; char *txt; size_t len; int is_count; long n; };
static struct cres cr[MAXCH];
static int ncr;

static void cres_add(const char *name, iwrc rc, const void *txt, size_t len, int is_count, long n) {
  struct cres *c = &cr[ncr++];
  c->name = name; c->rc = rc; c->len = len; c->is_count = is_count; c->n = n;
  c->txt = malloc(len + 1);
  if (len) memcpy(c->txt, txt, len);
  c->txt[len] = 0;
}

// the sinks shared by all producers; names are <prefix>.<sink>
static void run_sinks(const char *const *names, prod_fn prod, void *doc, jbl_print_flags_t pf) {
  // xstr: jbl_xstr_json_printer
  struct iwxstr *x = iwxstr_create_empty();
  iwrc rc = prod(doc, jbl_xstr_json_printer, x, pf);
  cres_add(names[0], rc, iwxstr_ptr(x), iwxstr_size(x), 0, 0);
  iwxstr_destroy(x);
  // fmem: jbl_fstream_json_printer on a memory stream
  char *mem = 0; size_t msz = 0;
  FILE *f = open_memstream(&mem, &msz);
  rc = prod(doc, jbl_fstream_json_printer, f, pf);
  fclose(f);
  cres_add(names[1], rc, mem, msz, 0, 0);
  free(mem);
  // file: jbl_fstream_json_printer on a file of the file system
  static FILE *tf;
  if (!tf) tf = tmpfile();
  rewind(tf);
  if (ftruncate(fileno(tf), 0)) { /* contents beyond ftell are not read */ }
  rc = prod(doc, jbl_fstream_json_printer, tf, pf);
  long fl = ftell(tf);
  fflush(tf);
  rewind(tf);
  char *fb = malloc(fl + 1);
  size_t got = fread(fb, 1, fl, tf);
  cres_add(names[2], rc, fb, got, 0, 0);
  free(fb);
  // count: jbl_count_json_printer
  int cnt = 0;
  rc = prod(doc, jbl_count_json_printer, &cnt, pf);
  cres_add(names[3], rc, 0, 0, 1, cnt);
  // rec: a printer callback of the caller's own
  struct rec r = { iwxstr_create_empty(), 0 };
  rc = prod(doc, rec_printer, &r, pf);
  cres_add(names[4], rc, iwxstr_ptr(r.bytes), iwxstr_size(r.bytes), 0, 0);
  iwxstr_destroy(r.bytes);
}

static int cres_same(const struct cres *a, const struct cres *b) {
  if (a->is_count != b->is_count || !a->rc != !b->rc) return 0;
  if (a->rc) return !strcmp(ename(a->rc), ename(b->rc));
  if (a->is_count) return a->n == b->n;
  return a->len == b->len && !memcmp(a->txt, b->txt, a->len);
}

static void cres_print(void) {
  int done[MAXCH] = { 0 }, first = 1;
  for (int i = 0; i < ncr; ++i) {
    if (done[i]) continue;
    printf("%s%s ", first ? "" : " | ", cr[i].rc ? "err" : "ok");
    first = 0;
    if (cr[i].rc) printf("%s", ename(cr[i].rc));
    else if (cr[i].is_count) printf("#%ld", cr[i].n);
    else puthex(cr[i].txt, cr[i].len);
    printf(" ");
    for (int j = i, k = 0; j < ncr; ++j) {
      if (done[j] || !cres_same(&cr[i], &cr[j])) continue;
      printf("%s%s", k++ ? "," : "", cr[j].name);
      done[j] = 1;
    }
  }
  // what a failed channel left behind (diagnostics, not compared with the model)
  for (int i = 0; i < ncr; ++i) {
    if (cr[i].rc) {
      printf(" ## %s=", cr[i].name);
      if (cr[i].is_count) printf("#%ld", cr[i].n); else puthex(cr[i].txt, cr[i].len);
    }
  }
  printf("\n");
  for (int i = 0; i < ncr; ++i) free(cr[i].txt);
  ncr = 0;
}

static const char *const N_NAMES[] = { "n.xstr", "n.fmem", "n.file", "n.count", "n.rec" };
static const char *const B_NAMES[] = { "b.xstr", "b.fmem", "b.file", "b.count", "b.rec" };
static const char *const X_NAMES[] = { "x.xstr", "x.fmem", "x.file", "x.count", "x.rec" };
static const char *const T_NAMES[] = { "t.xstr", "t.fmem", "t.file", "t.count", "t.rec" };

int main(void) {
  size_t cap = 1 << 22;
  char *line = malloc(cap);
  while (fgets(line, cap, stdin)) {
    tokenize(line);
    if (tn == 0) { printf("\n"); continue; }
    const char *cmd = tv[0];
    if (!strcmp(cmd, "parse") && tn >= 2) {
      uint8_t *doc; unhex(tv[1], &doc);
      struct iwpool *pool = iwpool_create(0);
      struct jbl_node *n = 0;
      errno = 0;
      iwrc rc = jbn_from_json((char*) doc, &n, pool);
      if (rc) printf("err %s\n", ename(rc));
      else if (!n) printf("ok none\n");
      else { printf("ok"); dump(n); printf("\n"); }
      iwpool_destroy(pool); free(doc);
    } else if (!strcmp(cmd, "print") && tn >= 3) {
      struct iwpool *pool = iwpool_create(0);
      int pf = atoi(tv[1]);
      ti = 2;
      struct jbl_node *n = rdval(pool);
      if (!n) printf("?bad-dump\n");
      else {
        struct iwxstr *x = iwxstr_create_empty();
        iwrc rc = jbn_as_json(n, jbl_xstr_json_printer, x, (jbl_print_flags_t) pf);
        if (rc) printf("err %s\n", ename(rc));
        else { printf("ok "); puthex(iwxstr_ptr(x), iwxstr_size(x)); printf("\n"); }
        iwxstr_destroy(x);
      }
      iwpool_destroy(pool);
    } else if (!strcmp(cmd, "jprint") && tn >= 3) {
      struct iwpool *pool = iwpool_create(0);
      int pf = atoi(tv[1]);
      ti = 2;
      struct jbl_node *n = rdval(pool);
      struct jbl *jbl = 0;
      if (!n) printf("?bad-dump\n");
      else {
        iwrc rc = jbl_from_node(&jbl, n);
        if (rc) printf("err1 %s\n", ename(rc));
        else {
          struct iwxstr *x = iwxstr_create_empty();
          rc = jbl_as_json(jbl, jbl_xstr_json_printer, x, (jbl_print_flags_t) pf);
          if (rc) printf("err %s\n", ename(rc));
          else { printf("ok "); puthex(iwxstr_ptr(x), iwxstr_size(x)); printf("\n"); }
          iwxstr_destroy(x);
          jbl_destroy(&jbl);
        }
      }
      iwpool_destroy(pool);
    } else if ((!strcmp(cmd, "chan") || !strcmp(cmd, "jchan") || !strcmp(cmd, "xml")) && tn >= 3) {
      struct iwpool *pool = iwpool_create(0);
      jbl_print_flags_t pf = (jbl_print_flags_t) atoi(tv[1]);
      ti = 2;
      struct jbl_node *n = rdval(pool);
      if (!n) printf("?bad-dump\n");
      else if (cmd[0] == 'c') {
        run_sinks(N_NAMES, prod_node, n, pf);
        char *out = 0;
        iwrc rc = jbn_as_json_alloc(n, pf, &out);
        cres_add("n.alloc", rc, out, out ? strlen(out) : 0, 0, 0);
        free(out);
        cres_print();
      } else if (cmd[0] == 'x') {
        run_sinks(X_NAMES, prod_xml, n, pf);
        cres_print();
      } else {
        struct jbl *jbl = 0;
        iwrc rc = jbl_from_node(&jbl, n);
        if (rc) printf("err1 %s\n", ename(rc));
        else {
          run_sinks(B_NAMES, prod_jbl, jbl, pf);
          char *out = 0;
          rc = jbl_as_json_alloc(jbl, pf, &out);
          cres_add("b.alloc", rc, out, out ? strlen(out) : 0, 0, 0);
          free(out);
          cres_print();
          jbl_destroy(&jbl);
        }
      }
      iwpool_destroy(pool);
    } else if (!strcmp(cmd, "tchan") && tn >= 3) {
      // a tree whose names and strings are BORROWED from a binary document (jbl_to_node, clone_strings = false: counted, not
      // terminated) through every channel of jbn_as_json / jbn_as_json_alloc
      struct iwpool *pool = iwpool_create(0);
      jbl_print_flags_t pf = (jbl_print_flags_t) atoi(tv[1]);
      ti = 2;
      struct jbl_node *n = rdval(pool), *n2 = 0;
      struct jbl *jbl = 0;
      iwrc rc = n ? jbl_from_node(&jbl, n) : IW_ERROR_INVALID_ARGS;
      if (!rc) rc = jbl_to_node(jbl, &n2, false, pool);
      if (rc || !n2) printf("err1 %s\n", ename(rc));
      else {
        run_sinks(T_NAMES, prod_node, n2, pf);
        char *out = 0;
        rc = jbn_as_json_alloc(n2, pf, &out);
        cres_add("t.alloc", rc, out, out ? strlen(out) : 0, 0, 0);
        free(out);
        cres_print();
      }
      if (jbl) jbl_destroy(&jbl);
      iwpool_destroy(pool);
    } else if ((!strcmp(cmd, "chunks") || !strcmp(cmd, "jchunks")) && tn >= 3) {
      struct iwpool *pool = iwpool_create(0);
      jbl_print_flags_t pf = (jbl_print_flags_t) atoi(tv[1]);
      ti = 2;
      struct jbl_node *n = rdval(pool);
      struct jbl *jbl = 0;
      iwrc rc = 0;
      if (!n) printf("?bad-dump\n");
      else if (cmd[0] == 'j' && (rc = jbl_from_node(&jbl, n))) printf("err1 %s\n", ename(rc));
      else {
        struct rec r = { iwxstr_create_empty(), iwxstr_create_empty() };
        rc = cmd[0] == 'j' ? jbl_as_json(jbl, rec_printer, &r, pf) : jbn_as_json(n, rec_printer, &r, pf);
        if (rc) printf("err %s\n", ename(rc));
        else printf("ok%s\n", iwxstr_size(r.log) ? iwxstr_ptr(r.log) : "");
        iwxstr_destroy(r.bytes); iwxstr_destroy(r.log);
      }
      if (jbl) jbl_destroy(&jbl);
      iwpool_destroy(pool);
    } else if (!strcmp(cmd, "reg") && tn >= 2) {
      // the registry: the tree replaces the root of a fresh registry, iwjsreg_sync writes the file
      struct iwpool *pool = iwpool_create(0);
      ti = 1;
      struct jbl_node *n = rdval(pool);
      static char path[64], tmp[80];
      if (!path[0]) { snprintf(path, sizeof(path), "/tmp/jtext-reg-%d.json", (int) getpid()); snprintf(tmp, sizeof(tmp), "%s.tmp", path); }
      unlink(path); unlink(tmp);
      struct iwjsreg *reg = 0;
      struct iwjsreg_spec spec = { .path = path };
      iwrc rc = n ? iwjsreg_open(&spec, &reg) : IW_ERROR_INVALID_ARGS;
      if (!rc) rc = iwjsreg_replace(reg, "/", n);
      if (rc) printf("err1 %s\n", ename(rc));
      else {
        rc = iwjsreg_sync(reg);
        FILE *f = fopen(path, "rb");
        char *fb = 0; size_t got = 0;
        if (f) { fb = malloc(1 << 20); got = fread(fb, 1, 1 << 20, f); fclose(f); }
        if (rc) { printf("err %s r.sync ## r.sync=", ename(rc)); FILE *g = fopen(tmp, "rb"); if (g) { char *gb = malloc(1 << 20); size_t gg = fread(gb, 1, 1 << 20, g); puthex(gb, gg); free(gb); fclose(g); } printf("\n"); }
        else { printf("ok "); puthex(fb, got); printf(" r.sync\n"); }
        free(fb);
      }
      if (reg) iwjsreg_close(&reg);
      unlink(path); unlink(tmp);
      iwpool_destroy(pool);
    } else if (!strcmp(cmd, "dbl") && tn >= 3) {
      // value-level oracle input for doubles: the array [x] printed by jbn_as_json and by jbl_as_json, and re-read
      int pf = atoi(tv[1]);
      uint64_t b = strtoull(tv[2], 0, 16);
      struct iwpool *pool = iwpool_create(0);
      struct jbl_node *arr = mk(pool, JBV_ARRAY), *d = mk(pool, JBV_F64), *n2 = 0;
      memcpy(&d->vf64, &b, 8);
      jbn_add_item(arr, d);
      struct iwxstr *x = iwxstr_create_empty(), *y = iwxstr_create_empty();
      struct jbl *jbl = 0;
      iwrc rc = jbn_as_json(arr, jbl_xstr_json_printer, x, (jbl_print_flags_t) pf);
      iwrc rc2 = jbl_from_node(&jbl, arr);
      if (!rc2) rc2 = jbl_as_json(jbl, jbl_xstr_json_printer, y, (jbl_print_flags_t) pf);
      if (rc || rc2) printf("err %s %s\n", rc ? ename(rc) : "-", rc2 ? ename(rc2) : "-");
      else {
        printf("ok "); puthex(iwxstr_ptr(x), iwxstr_size(x)); printf(" "); puthex(iwxstr_ptr(y), iwxstr_size(y));
        errno = 0;
        rc = jbn_from_json(iwxstr_ptr(x), &n2, pool);
        if (rc) printf(" err %s\n", ename(rc));
        else if (!n2) printf(" none\n");
        else { printf(" ok"); dump(n2); printf("\n"); }
      }
      if (jbl) jbl_destroy(&jbl);
      iwxstr_destroy(x); iwxstr_destroy(y);
      iwpool_destroy(pool);
    } else if (!strcmp(cmd, "unesc") && tn >= 3) {
      uint8_t *s; unhex(tv[1], &s);
      int dlen = atoi(tv[2]);
      uint8_t *raw = malloc(dlen + 16);
      memset(raw, 0xAA, dlen + 16);
      JCTX ctx = { 0 };
      const char *end = (const char*) s;
      int ret = _jbl_unescape_json_string(&ctx, '"', (const char*) s, dlen > 0 ? (char*) raw + 8 : 0, dlen, &end);
      int oob = 0;
      for (int i = 0; i < 8; ++i) if (raw[i] != 0xAA || raw[8 + dlen + i] != 0xAA) oob = 1;
      if (oob) printf("OOB\n");
      else if (ctx.rc) printf("err %s\n", ename(ctx.rc));
      else { printf("ok %d ", ret); puthex(raw + 8, ret < dlen ? ret : dlen); printf(" %d\n", (int) (end - (const char*) s)); }
      free(raw); free(s);
    } else if (!strcmp(cmd, "enc") && tn >= 2) {
      int32_t cp = (int32_t) strtoll(tv[1], 0, 10);
      uint8_t b[8] = { 0 };
      utf8proc_ssize_t l = utf8proc_encode_char(cp, b);
      printf("%d ", utf8proc_codepoint_valid(cp) ? 1 : 0); puthex(b, l); printf("\n");
    } else if (!strcmp(cmd, "iter") && tn >= 2) {
      uint8_t *s; size_t l = unhex(tv[1], &s);
      utf8proc_int32_t cp;
      utf8proc_ssize_t sz = utf8proc_iterate(s, (utf8proc_ssize_t) l, &cp);
      if (sz < 0) printf("err\n"); else printf("%d %d\n", (int) cp, (int) sz);
      free(s);
    } else if (!strcmp(cmd, "strtoll") && tn >= 2) {
      uint8_t *s; unhex(tv[1], &s);
      char *e; errno = 0;
      long long v = strtoll((char*) s, &e, 0);
      printf("%lld %d %d\n", v, (int) (e - (char*) s), errno == ERANGE ? 1 : 0);
      free(s);
    } else if (!strcmp(cmd, "strtod") && tn >= 2) {
      uint8_t *s; unhex(tv[1], &s);
      char *e = 0; errno = 0;
      (void) iwstrtod((char*) s, &e);
      printf("%d\n", (int) (e - (char*) s));
      free(s);
    } else if (!strcmp(cmd, "nums") && tn >= 2) {
      uint8_t *doc; size_t l = unhex(tv[1], &doc);
      l = strlen((char*) doc);
      int any = 0;
      for (size_t i = 0; i < l; ++i) {
        char c = (char) doc[i];
        if (c == '.' || c == '-' || (c >= '0' && c <= '9')) {
          char *e; errno = 0;
          double d = iwstrtod((char*) doc + i, &e);
          uint64_t b; memcpy(&b, &d, 8);
          printf("%s%d:%016" PRIx64 ":%d:%d", any ? ";" : "", (int) (l - i), b, (int) (e - ((char*) doc + i)), errno == ERANGE ? 1 : 0);
          any = 1;
        }
      }
      printf(any ? "\n" : "-\n");
      free(doc);
    } else if (!strcmp(cmd, "ftoa") && tn >= 2) {
      uint64_t b = strtoull(tv[1], 0, 16);
      double d; memcpy(&d, &b, 8);
      struct iwxstr *x = iwxstr_create_empty();
      _jbl_write_double(d, jbl_xstr_json_printer, x);
      puthex(iwxstr_ptr(x), iwxstr_size(x)); printf("\n");
      iwxstr_destroy(x);
    } else if (!strcmp(cmd, "rt") && tn >= 3) {
      int pf = atoi(tv[1]);
      uint8_t *doc; unhex(tv[2], &doc);
      struct iwpool *pool = iwpool_create(0);
      struct jbl_node *n = 0, *n2 = 0;
      errno = 0;
      iwrc rc = jbn_from_json((char*) doc, &n, pool);
      if (rc || !n) printf("err1 %s\n", rc ? ename(rc) : "none");
      else {
        struct iwxstr *x = iwxstr_create_empty();
        rc = jbn_as_json(n, jbl_xstr_json_printer, x, (jbl_print_flags_t) pf);
        if (rc) printf("perr %s\n", ename(rc));
        else {
          printf("ok "); puthex(iwxstr_ptr(x), iwxstr_size(x));
          errno = 0;
          rc = jbn_from_json(iwxstr_ptr(x), &n2, pool);
          if (rc) printf(" err %s\n", ename(rc));
          else if (!n2) printf(" ok none\n");
          else { printf(" ok"); dump(n2); printf("\n"); }
        }
        iwxstr_destroy(x);
      }
      iwpool_destroy(pool); free(doc);
    } else if (!strcmp(cmd, "jrt") && tn >= 3) {
      int pf = atoi(tv[1]);
      uint8_t *doc; unhex(tv[2], &doc);
      struct jbl *jbl = 0;
      errno = 0;
      iwrc rc = jbl_from_json(&jbl, (char*) doc);
      if (rc) printf("err1 %s\n", ename(rc));
      else {
        struct iwxstr *x = iwxstr_create_empty();
        rc = jbl_as_json(jbl, jbl_xstr_json_printer, x, (jbl_print_flags_t) pf);
        if (rc) printf("perr %s\n", ename(rc));
        else { printf("ok "); puthex(iwxstr_ptr(x), iwxstr_size(x)); printf("\n"); }
        iwxstr_destroy(x);
        jbl_destroy(&jbl);
      }
      free(doc);
    } else {
      printf("?\n");
    }
    fflush(stdout);
  }
  return 0;
}
