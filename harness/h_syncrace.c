// C08/C04 harness (race detector run): one writer thread loops put + iwkv_sync while the main thread takes online
// backups.  iwkv_sync / iwkv_db / iwkv_new_db call iwal_savepoint_exl under the store's exclusive lock but WITHOUT the log
// mutex; the backup enters stage WAL_COPY1 with _flush_wl under the log mutex only - no common lock, both work on
// wal->buf / wal->bufpos.  Built with -fsanitize=thread (vlib variant "tsan"); argv[1] = scratch directory, argv[2] = backups.
// Answer: one line  R backups=<n> syncs=<m> rc=<first error or 0>; ThreadSanitizer reports go to stderr.
#include "iwkv.h"
#include "iwlog.h"
#include <pthread.h>
#include <stdatomic.h>
#include <stdio.h>
#include <stdlib.h>
#include <string.h>
#include <unistd.h>

static struct iwkv *g_kv;
static struct iwdb *g_db;
static atomic_int g_stop, g_syncs;
static atomic_ullong g_rc;

static void* writer(void *arg) {
  (void) arg;
  char kb[32], vb[300];
  memset(vb, 'v', sizeof(vb));
  for (int i = 0; !atomic_load(&g_stop); ++i) {
    snprintf(kb, sizeof(kb), "k%04d", i % 200);
    struct iwkv_val k = { .data = kb, .size = strlen(kb) }, v = { .data = vb, .size = (size_t) (20 + i % 250) };
    iwrc rc = iwkv_put(g_db, &k, &v, 0);
    if (!rc && (i % 3 == 0)) { rc = iwkv_sync(g_kv, 0); atomic_fetch_add(&g_syncs, 1); }
    if (rc && !atomic_load(&g_rc)) atomic_store(&g_rc, rc);
  }
  return 0;
}

int main(int argc, char **argv) {
  if (argc < 2) return 2;
  int nb = argc > 2 ? atoi(argv[2]) : 30;
  char p[600], b[600];
  snprintf(p, sizeof(p), "%s/race.db", argv[1]);
  snprintf(b, sizeof(b), "%s/race.bkp", argv[1]);
  struct iwkv_opts o = { .path = p, .oflags = IWKV_TRUNC, .wal = { .enabled = true, .wal_buffer_sz = 4096 } };
  iwrc rc = iwkv_init();
  if (!rc) rc = iwkv_open(&o, &g_kv);
  if (!rc) rc = iwkv_db(g_kv, 1, 0, &g_db);
  if (rc) { printf("R open rc=%llu\n", (unsigned long long) rc); return 1; }
  // room first: growth during a backup is another (known) matter
  { static char big[400000]; struct iwkv_val k = { .data = "zz", .size = 2 }, v = { .data = big, .size = sizeof(big) };
    iwkv_put(g_db, &k, &v, 0); iwkv_del(g_db, &k, 0); iwkv_sync(g_kv, 0); }
  pthread_t t;
  pthread_create(&t, 0, writer, 0);
  int done = 0;
  for (; done < nb && !atomic_load(&g_rc); ++done) {
    uint64_t ts = 0;
    rc = iwkv_online_backup(g_kv, &ts, b);
    if (rc) { atomic_store(&g_rc, rc); break; }
  }
  atomic_store(&g_stop, 1);
  pthread_join(t, 0);
  rc = iwkv_close(&g_kv);
  printf("R backups=%d syncs=%d rc=%llu close=%llu\n", done, atomic_load(&g_syncs), (unsigned long long) atomic_load(&g_rc), (unsigned long long) rc);
  return 0;
}
