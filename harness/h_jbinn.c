// C14 harness: the three forms of a JSON document (text, tree, binn) and JSON Pointer look-ups on the real
// implementation.  One query per input line, one output line (space separated key=value fields) per query.
//
// Canonical dump (one token, no blanks):
//   n | t | f | i<decimal>; | d<16 hex digits of the IEEE bits> | s<hex>; | [<v>...] | {K<hex>;<v>K<hex>;<v>...}
//
// Queries:
//   conv <dump>           tree built by hand from the dump -> jbl_from_node -> bytes -> jbl_to_node, clones, printed texts
//   json <hex text>       jbn_from_json -> dump, then the same pipeline; jbl_from_json bytes
//   at <dump> <hex ptr>   jbl_ptr_alloc, jbn_at/jbn_at2 on the tree, jbl_at/jbl_at2 on the binary form
//   dec <hex binn>        jbl_from_buf_keep -> jbl_to_node -> dump
//   ptr <hex ptr>         jbl_ptr_alloc only
#include "iwjson_internal.h"
#include "iwxstr.h"
#include "hcommon.h"

// unhex of hcommon.h leaves the byte of an empty ("-") string unset; paths and texts need the terminator
static size_t unhex0(const char *h, uint8_t **out) {
  size_t n = unhex(h, out);
  (*out)[n] = 0;
  return n;
}

static const char *rcname(iwrc rc) {
  static char buf[48];
  if (!rc) return "0";
  iwrc_strip_errno(&rc);
  switch (rc) {
    case JBL_ERROR_PATH_NOTFOUND: return "NF";
    case JBL_ERROR_JSON_POINTER: return "PTR";
    case JBL_ERROR_INVALID: return "INV";
    case JBL_ERROR_INVALID_BUFFER: return "BUF";
    case JBL_ERROR_CREATION: return "CRE";
    case JBL_ERROR_MAX_NESTING_LEVEL_EXCEEDED: return "NEST";
    case IW_ERROR_INVALID_ARGS: return "ARGS";
    case JBL_ERROR_PARSE_JSON: return "PARSE";
    case JBL_ERROR_PARSE_UNQUOTED_STRING: return "PARSE";
    case JBL_ERROR_PARSE_INVALID_CODEPOINT: return "PARSE";
    case JBL_ERROR_PARSE_INVALID_UTF8: return "PARSE";
    default: snprintf(buf, sizeof(buf), "E%llu", (unsigned long long) rc); return buf;
  }
}

// ---------------------------------------------------------------- dump -> tree
static const char *P;
static int perr;

static int rdhex(uint8_t **out) { // hex digits up to ';'
  const char *s = P;
  while (*P && *P != ';') ++P;
  int n = (int) (P - s) / 2;
  uint8_t *b = malloc(n + 1);
  for (int i = 0; i < n; ++i) b[i] = (uint8_t) (hx(s[2 * i]) * 16 + hx(s[2 * i + 1]));
  b[n] = 0;
  if (*P == ';') ++P; else perr = 1;
  *out = b;
  return n;
}

static struct jbl_node* mk(struct iwpool *pool, struct jbl_node *parent, const uint8_t *key, int klen) {
  struct jbl_node *n = iwpool_calloc(sizeof(*n), pool);
  if (key) {
    char *k = iwpool_alloc(klen + 1, pool);
    memcpy(k, key, klen);
    k[klen] = 0;
    n->key = k;
    n->klidx = klen;
  }
  char c = *P++;
  switch (c) {
    case 'n': n->type = JBV_NULL; break;
    case 't': n->type = JBV_BOOL; n->vbool = true; break;
    case 'f': n->type = JBV_BOOL; n->vbool = false; break;
    case 'i': {
      char *e;
      n->type = JBV_I64;
      n->vi64 = (int64_t) strtoll(P, &e, 10);
      P = e;
      if (*P == ';') ++P; else perr = 1;
      break;
    }
    case 'd': {
      uint64_t bits = 0;
      for (int i = 0; i < 16 && *P; ++i, ++P) bits = bits * 16 + (uint64_t) hx(*P);
      n->type = JBV_F64;
      memcpy(&n->vf64, &bits, 8);
      break;
    }
    case 's': {
      uint8_t *b;
      int len = rdhex(&b);
      char *v = iwpool_alloc(len + 1, pool);
      memcpy(v, b, len);
      v[len] = 0;
      free(b);
      n->type = JBV_STR;
      n->vptr = v;
      n->vsize = len;
      break;
    }
    case '[':
      n->type = JBV_ARRAY;
      if (parent) jbn_add_item(parent, n);
      while (*P && *P != ']' && !perr) mk(pool, n, 0, 0);
      if (*P == ']') ++P; else perr = 1;
      return n;
    case '{':
      n->type = JBV_OBJECT;
      if (parent) jbn_add_item(parent, n);
      while (*P == 'K' && !perr) {
        ++P;
        uint8_t *k;
        int kl = rdhex(&k);
        mk(pool, n, k, kl);
        free(k);
      }
      if (*P == '}') ++P; else perr = 1;
      return n;
    default:
      perr = 1;
      return n;
  }
  if (parent) jbn_add_item(parent, n);
  return n;
}

static struct jbl_node* tree_of_dump(const char *d, struct iwpool *pool) {
  P = d;
  perr = 0;
  struct jbl_node *n = mk(pool, 0, 0, 0);
  if (perr || *P) return 0;
  return n;
}

// ---------------------------------------------------------------- tree -> dump
static void dump_node(struct jbl_node *n) {
  if (!n) { printf("NULL"); return; }
  switch (n->type) {
    case JBV_NULL: putchar('n'); break;
    case JBV_BOOL: putchar(n->vbool ? 't' : 'f'); break;
    case JBV_I64: printf("i%" PRId64 ";", n->vi64); break;
    case JBV_F64: { uint64_t b; memcpy(&b, &n->vf64, 8); printf("d%016" PRIx64, b); break; }
    case JBV_STR:
      putchar('s');
      for (int i = 0; i < n->vsize; ++i) printf("%02x", (uint8_t) n->vptr[i]);
      putchar(';');
      break;
    case JBV_ARRAY:
      putchar('[');
      for (struct jbl_node *c = n->child; c; c = c->next) dump_node(c);
      putchar(']');
      break;
    case JBV_OBJECT:
      putchar('{');
      for (struct jbl_node *c = n->child; c; c = c->next) {
        putchar('K');
        for (int i = 0; c->key && i < c->klidx; ++i) printf("%02x", (uint8_t) c->key[i]);
        putchar(';');
        dump_node(c);
      }
      putchar('}');
      break;
    default: printf("?%d", (int) n->type);
  }
}

// dump of a value held in the binary form (result of jbl_at, or a whole document)
static void dump_jbl(struct jbl *jbl, struct iwpool *pool) {
  switch (jbl_type(jbl)) {
    case JBV_NULL: putchar('n'); break;
    case JBV_BOOL: putchar(jbl_get_i64(jbl) ? 't' : 'f'); break;
    case JBV_I64: printf("i%" PRId64 ";", jbl_get_i64(jbl)); break;
    case JBV_F64: { double d = jbl_get_f64(jbl); uint64_t b; memcpy(&b, &d, 8); printf("d%016" PRIx64, b); break; }
    case JBV_STR: {
      const char *s = jbl_get_str(jbl);
      size_t sz = jbl_size(jbl);
      putchar('s');
      for (size_t i = 0; i < sz; ++i) printf("%02x", (uint8_t) s[i]);
      putchar(';');
      break;
    }
    case JBV_OBJECT:
    case JBV_ARRAY: {
      struct jbl_node *n = 0;
      iwrc rc = jbl_to_node(jbl, &n, true, pool);
      if (rc) printf("ERR-%s", rcname(rc)); else dump_node(n);
      break;
    }
    default: printf("?none");
  }
}

// printed text with its real length (a raw 0 byte inside must not cut it)
static void put_text_jbl(const char *name, struct jbl *jbl) {
  struct iwxstr *x = iwxstr_create_empty();
  iwrc rc = jbl_as_json(jbl, jbl_xstr_json_printer, x, 0);
  printf(" %s=%s:", name, rcname(rc));
  if (!rc) puthex(iwxstr_ptr(x), iwxstr_size(x)); else putchar('-');
  iwxstr_destroy(x);
}

static void put_text_jbn(const char *name, struct jbl_node *n) {
  struct iwxstr *x = iwxstr_create_empty();
  iwrc rc = jbn_as_json(n, jbl_xstr_json_printer, x, 0);
  printf(" %s=%s:", name, rcname(rc));
  if (!rc) puthex(iwxstr_ptr(x), iwxstr_size(x)); else putchar('-');
  iwxstr_destroy(x);
}

// the pipeline shared by conv and json
static void pipeline(struct jbl_node *tree, struct iwpool *pool, int texts) {
  struct jbl *jbl = 0;
  iwrc rc = jbl_from_node(&jbl, tree);
  printf("rc=%s", rcname(rc));
  if (rc) {
    if (jbl) jbl_destroy(&jbl);
    goto tree_only;
  }
  void *buf; size_t sz;
  rc = jbl_as_buf(jbl, &buf, &sz);
  printf(" binn="); if (rc) printf("ERR-%s", rcname(rc)); else puthex(buf, sz);
  {
    struct jbl_node *back = 0;
    // jbl_from_node leaves jbl->node unset, so this is a real decoding of the bytes
    rc = jbl_to_node(jbl, &back, true, pool);
    printf(" back="); if (rc) printf("ERR-%s", rcname(rc)); else dump_node(back);
    struct jbl_node *back0 = 0;
    rc = jbl_to_node(jbl, &back0, false, pool);
    printf(" back0="); if (rc) printf("ERR-%s", rcname(rc)); else dump_node(back0);
  }
  {
    struct jbl *cl = 0;
    rc = jbl_clone(jbl, &cl);
    printf(" bcl=");
    if (rc) printf("ERR-%s", rcname(rc)); else {
      void *b2; size_t s2;
      rc = jbl_as_buf(cl, &b2, &s2);
      if (rc) printf("ERR-%s", rcname(rc)); else puthex(b2, s2);
      // independence: scribble over a copy's source?  the source stays needed below, so compare after the
      // clone has been re-read once the source was destroyed (done at the end through bclp)
      jbl_destroy(&cl);
    }
    struct jbl *cp = 0;
    rc = jbl_clone_into_pool(jbl, &cp, pool);
    printf(" bclp=");
    if (rc) printf("ERR-%s", rcname(rc)); else {
      void *b2; size_t s2;
      rc = jbl_as_buf(cp, &b2, &s2);
      if (rc) printf("ERR-%s", rcname(rc)); else puthex(b2, s2);
    }
  }
  if (texts) {
    put_text_jbl("jb", jbl);
  }
  {
    // independence of the binary clone: clone, overwrite every byte of the source buffer, read the clone again
    struct jbl *cl = 0;
    rc = jbl_clone(jbl, &cl);
    if (!rc) {
      void *b1; size_t s1;
      jbl_as_buf(jbl, &b1, &s1);
      uint8_t *keep = malloc(s1 + 1);
      memcpy(keep, b1, s1);
      memset(b1, 0xEE, s1);
      void *b2; size_t s2;
      jbl_as_buf(cl, &b2, &s2);
      printf(" bindep=%d", (s1 == s2 && !memcmp(keep, b2, s1)) ? 1 : 0);
      memcpy(b1, keep, s1);
      free(keep);
      jbl_destroy(&cl);
    }
  }
  jbl_destroy(&jbl);
tree_only:
  {
    struct jbl_node *cl = 0;
    struct iwpool *p2 = iwpool_create(1024);
    rc = jbn_clone(tree, &cl, p2);
    printf(" ncl="); if (rc) printf("ERR-%s", rcname(rc)); else dump_node(cl);
    if (texts) {
      put_text_jbn("jt", tree);
    }
    if (!rc) {
      // independence of the tree clone: overwrite keys, strings and numbers of the source, print the clone again.
      // The printed field is 1 when the second dump equals the first.
      char *d1 = 0, *d2 = 0; size_t l1 = 0, l2 = 0;
      FILE *sv = stdout;
      FILE *m1 = open_memstream(&d1, &l1);
      stdout = m1; dump_node(cl); fflush(m1); stdout = sv; fclose(m1);
      struct jbl_node *stack[4096]; int sp = 0;
      stack[sp++] = tree;
      while (sp) {
        struct jbl_node *n = stack[--sp];
        if (n->key) memset((char*) n->key, 'Z', n->klidx);
        if (n->type == JBV_STR) memset((char*) n->vptr, 'Y', n->vsize);
        else if (n->type == JBV_I64) n->vi64 ^= 0x5555;
        else if (n->type == JBV_BOOL) n->vbool = !n->vbool;
        else if (n->type == JBV_F64) n->vf64 = 12345.5;
        for (struct jbl_node *c = n->child; c && sp < 4096; c = c->next) stack[sp++] = c;
      }
      FILE *m2 = open_memstream(&d2, &l2);
      stdout = m2; dump_node(cl); fflush(m2); stdout = sv; fclose(m2);
      printf(" nindep=%d", (l1 == l2 && !memcmp(d1, d2, l1)) ? 1 : 0);
      free(d1); free(d2);
    }
    iwpool_destroy(p2);
  }
}

// jbl_at documents that the result is disposed by jbl_destroy().  When the result still owns the buffer of the
// document it was looked up in, doing so frees that buffer (the document is destroyed later: double free).  The
// harness reports the aliasing as a field and disarms it so that the run can go on.
static void safe_destroy(struct jbl *doc, struct jbl **res, const char *field) {
  struct jbl *r = *res;
  if (r != doc && r->bn.writable && !r->bn.pre_allocated && r->bn.pbuf && r->bn.pbuf == doc->bn.pbuf) {
    printf(" %s=1", field);
    r->bn.writable = 0;
  }
  jbl_destroy(res);
}

static void put_ptr(const char *path) {
  struct jbl_ptr *jp = 0;
  iwrc rc = jbl_ptr_alloc(path, &jp);
  printf("p=%s:", rcname(rc));
  if (!rc) {
    printf("%d:", jp->cnt);
    for (int i = 0; i < jp->cnt; ++i) {
      if (i) putchar(',');
      puthex(jp->n[i], strlen(jp->n[i]));
    }
    free(jp);
  }
}

int main(void) {
  static char line[1 << 22];
  char *tv[8];
  setvbuf(stdout, 0, _IOFBF, 1 << 16);
  while (fgets(line, sizeof(line), stdin)) {
    int n = toks(line, tv, 8);
    if (n == 0) { printf("\n"); continue; }
    struct iwpool *pool = iwpool_create(4096);
    if (!strcmp(tv[0], "conv") && n >= 2) {
      struct jbl_node *tree = tree_of_dump(tv[1], pool);
      if (!tree) printf("BAD-DUMP"); else pipeline(tree, pool, 1);
    } else if (!strcmp(tv[0], "json") && n >= 2) {
      uint8_t *txt;
      unhex0(tv[1], &txt);
      struct jbl_node *tree = 0;
      iwrc rc = jbn_from_json((char*) txt, &tree, pool);
      printf("prc=%s", rcname(rc));
      if (!rc) {
        printf(" tree="); dump_node(tree); putchar(' ');
        pipeline(tree, pool, 1);
        struct jbl *j2 = 0;
        rc = jbl_from_json(&j2, (char*) txt);
        printf(" bj=%s:", rcname(rc));
        if (!rc) {
          if (jbl_type(j2) >= JBV_OBJECT) {
            void *b; size_t s;
            jbl_as_buf(j2, &b, &s);
            puthex(b, s);
          } else {
            printf("scalar:"); dump_jbl(j2, pool);
            struct jbl_node *sn = (struct jbl_node*) 1;
            iwrc r3 = jbl_to_node(j2, &sn, true, pool);
            printf(" bjnode=%s:", rcname(r3));
            if (!r3) dump_node(sn);
          }
          jbl_destroy(&j2);
        }
      }
      free(txt);
    } else if (!strcmp(tv[0], "at") && n >= 3) {
      struct jbl_node *tree = tree_of_dump(tv[1], pool);
      uint8_t *path;
      unhex0(tv[2], &path);
      if (!tree) printf("BAD-DUMP"); else {
        put_ptr((char*) path);
        struct jbl_node *r = 0;
        iwrc rc = jbn_at(tree, (char*) path, &r);
        printf(" t=%s:", rcname(rc));
        if (!rc) dump_node(r);
        struct jbl_ptr *jp = 0;
        iwrc prc = jbl_ptr_alloc((char*) path, &jp);
        if (!prc) {
          r = 0;
          rc = jbn_at2(tree, jp, &r);
          printf(" t2=%s:", rcname(rc));
          if (!rc) dump_node(r);
        }
        struct jbl *jbl = 0;
        rc = jbl_from_node(&jbl, tree);
        if (rc) printf(" b=NA-%s", rcname(rc)); else {
          struct jbl *res = 0;
          rc = jbl_at(jbl, (char*) path, &res);
          printf(" b=%s:", rcname(rc));
          if (!rc) { dump_jbl(res, pool); safe_destroy(jbl, &res, "balias"); }
          if (!prc) {
            res = 0;
            rc = jbl_at2(jbl, jp, &res);
            printf(" b2=%s:", rcname(rc));
            if (!rc) { dump_jbl(res, pool); safe_destroy(jbl, &res, "b2alias"); }
          }
        }
        if (jbl) jbl_destroy(&jbl);
        if (jp) free(jp);
      }
      free(path);
    } else if (!strcmp(tv[0], "dec") && n >= 2) {
      uint8_t *b;
      size_t sz = unhex0(tv[1], &b);
      struct jbl *jbl = 0;
      iwrc rc = jbl_from_buf_keep(&jbl, b, sz, true);
      printf("rc=%s", rcname(rc));
      if (!rc) {
        struct jbl_node *nd = 0;
        rc = jbl_to_node(jbl, &nd, false, pool);
        printf(" back="); if (rc) printf("ERR-%s", rcname(rc)); else dump_node(nd);
        jbl_destroy(&jbl);
      }
      free(b);
    } else if (!strcmp(tv[0], "ptr") && n >= 2) {
      uint8_t *path;
      unhex0(tv[1], &path);
      put_ptr((char*) path);
      free(path);
    } else {
      printf("?");
    }
    iwpool_destroy(pool);
    putchar('\n');
  }
  return 0;
}
