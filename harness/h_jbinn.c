// C14 harness: the three forms of a JSON document (text, tree, binn) and JSON Pointer look-ups on the real
// implementation.  One query per input line, one output line (space separated key=value fields) per query.
//
// Canonical dump (one token, no blanks):
//   n | t | f | i<decimal>; | d<16 hex digits of the IEEE bits> | s<hex>; | [<v>...] | {K<hex>;<v>K<hex>;<v>...}
//
// Queries:
//   conv <dump>           tree built by hand from the dump -> jbl_from_node -> bytes -> jbl_to_node, clones, printed texts
//   json <hex text>       jbn_from_json -> dump, then the same pipeline; jbl_from_json bytes
//   at <dump> <hex ptr>   jbl_ptr_alloc, jbn_at/jbn_at2 on the tree, jbl_at/jbl_at2 on the binary form
//   dec <hex binn>        jbl_from_buf_keep -> jbl_to_node -> dump
//   ptr <hex ptr>         jbl_ptr_alloc only
//   mx <dump> <hex ptr> <probe dump|-> <hex text|->   every path consumer on every producer of the value (see below)
//   mxc <dump> <hex text|->                           every value consumer on every producer of the value
#include "iwjson_internal.h"
#include "iwxstr.h"
#include "hcommon.h"

// unhex of hcommon.h leaves the byte of an empty ("-") string unset; paths and texts need the terminator
static size_t unhex0(const char *h, uint8_t **out) {
  size_t n = unhex(h, out);
  (*out)[n] = 0;
  return n;
}

static const char *rcname(iwrc rc) {
  static char buf[48];
  if (!rc) return "0";
  iwrc_strip_errno(&rc);
  switch (rc) {
    case JBL_ERROR_PATH_NOTFOUND: return "NF";
    case JBL_ERROR_JSON_POINTER: return "PTR";
    case JBL_ERROR_INVALID: return "INV";
    case JBL_ERROR_INVALID_BUFFER: return "BUF";
    case JBL_ERROR_CREATION: return "CRE";
    case JBL_ERROR_MAX_NESTING_LEVEL_EXCEEDED: return "NEST";
    case IW_ERROR_INVALID_ARGS: return "ARGS";
    case JBL_ERROR_PARSE_JSON: return "PARSE";
    case JBL_ERROR_PARSE_UNQUOTED_STRING: return "PARSE";
    case JBL_ERROR_PARSE_INVALID_CODEPOINT: return "PARSE";
    case JBL_ERROR_PARSE_INVALID_UTF8: return "PARSE";
    default: snprintf(buf, sizeof(buf), "E%llu", (unsigned long long) rc); return buf;
  }
}

// ---------------------------------------------------------------- dump -> tree
static const char *P;
static int perr;

static int rdhex(uint8_t **out) { // hex digits up to ';'
  const char *s = P;
  while (*P && *P != ';') ++P;
  int n = (int) (P - s) / 2;
  uint8_t *b = malloc(n + 1);
  for (int i = 0; i < n; ++i) b[i] = (uint8_t) (hx(s[2 * i]) * 16 + hx(s[2 * i + 1]));
  b[n] = 0;
  if (*P == ';') ++P; else perr = 1;
  *out = b;
  return n;
}

static struct jbl_node* mk(struct iwpool *pool, struct jbl_node *parent, const uint8_t *key, int klen) {
  struct jbl_node *n = iwpool_calloc(sizeof(*n), pool);
  if (key) {
    char *k = iwpool_alloc(klen + 1, pool);
    memcpy(k, key, klen);
    k[klen] = 0;
    n->key = k;
    n->klidx = klen;
  }
  char c = *P++;
  switch (c) {
    case 'n': n->type = JBV_NULL; break;
    case 't': n->type = JBV_BOOL; n->vbool = true; break;
    case 'f': n->type = JBV_BOOL; n->vbool = false; break;
    case 'i': {
      char *e;
      n->type = JBV_I64;
      n->vi64 = (int64_t) strtoll(P, &e, 10);
      P = e;
      if (*P == ';') ++P; else perr = 1;
      break;
    }
    case 'd': {
      uint64_t bits = 0;
      for (int i = 0; i < 16 && *P; ++i, ++P) bits = bits * 16 + (uint64_t) hx(*P);
      n->type = JBV_F64;
      memcpy(&n->vf64, &bits, 8);
      break;
    }
    case 's': {
      uint8_t *b;
      int len = rdhex(&b);
      char *v = iwpool_alloc(len + 1, pool);
      memcpy(v, b, len);
      v[len] = 0;
      free(b);
      n->type = JBV_STR;
      n->vptr = v;
      n->vsize = len;
      break;
    }
    case '[':
      n->type = JBV_ARRAY;
      if (parent) jbn_add_item(parent, n);
      while (*P && *P != ']' && !perr) mk(pool, n, 0, 0);
      if (*P == ']') ++P; else perr = 1;
      return n;
    case '{':
      n->type = JBV_OBJECT;
      if (parent) jbn_add_item(parent, n);
      while (*P == 'K' && !perr) {
        ++P;
        uint8_t *k;
        int kl = rdhex(&k);
        mk(pool, n, k, kl);
        free(k);
      }
      if (*P == '}') ++P; else perr = 1;
      return n;
    default:
      perr = 1;
      return n;
  }
  if (parent) jbn_add_item(parent, n);
  return n;
}

static struct jbl_node* tree_of_dump(const char *d, struct iwpool *pool) {
  P = d;
  perr = 0;
  struct jbl_node *n = mk(pool, 0, 0, 0);
  if (perr || *P) return 0;
  return n;
}

// ---------------------------------------------------------------- tree -> dump
static void dump_node(struct jbl_node *n) {
  if (!n) { printf("NULL"); return; }
  switch (n->type) {
    case JBV_NULL: putchar('n'); break;
    case JBV_BOOL: putchar(n->vbool ? 't' : 'f'); break;
    case JBV_I64: printf("i%" PRId64 ";", n->vi64); break;
    case JBV_F64: { uint64_t b; memcpy(&b, &n->vf64, 8); printf("d%016" PRIx64, b); break; }
    case JBV_STR:
      putchar('s');
      for (int i = 0; i < n->vsize; ++i) printf("%02x", (uint8_t) n->vptr[i]);
      putchar(';');
      break;
    case JBV_ARRAY:
      putchar('[');
      for (struct jbl_node *c = n->child; c; c = c->next) dump_node(c);
      putchar(']');
      break;
    case JBV_OBJECT:
      putchar('{');
      for (struct jbl_node *c = n->child; c; c = c->next) {
        putchar('K');
        for (int i = 0; c->key && i < c->klidx; ++i) printf("%02x", (uint8_t) c->key[i]);
        putchar(';');
        dump_node(c);
      }
      putchar('}');
      break;
    default: printf("?%d", (int) n->type);
  }
}

// dump of a value held in the binary form (result of jbl_at, or a whole document)
static void dump_jbl(struct jbl *jbl, struct iwpool *pool) {
  switch (jbl_type(jbl)) {
    case JBV_NULL: putchar('n'); break;
    case JBV_BOOL: putchar(jbl_get_i64(jbl) ? 't' : 'f'); break;
    case JBV_I64: printf("i%" PRId64 ";", jbl_get_i64(jbl)); break;
    case JBV_F64: { double d = jbl_get_f64(jbl); uint64_t b; memcpy(&b, &d, 8); printf("d%016" PRIx64, b); break; }
    case JBV_STR: {
      const char *s = jbl_get_str(jbl);
      size_t sz = jbl_size(jbl);
      putchar('s');
      for (size_t i = 0; i < sz; ++i) printf("%02x", (uint8_t) s[i]);
      putchar(';');
      break;
    }
    case JBV_OBJECT:
    case JBV_ARRAY: {
      struct jbl_node *n = 0;
      iwrc rc = jbl_to_node(jbl, &n, true, pool);
      if (rc) printf("ERR-%s", rcname(rc)); else dump_node(n);
      break;
    }
    default: printf("?none");
  }
}

// printed text with its real length (a raw 0 byte inside must not cut it)
static void put_text_jbl(const char *name, struct jbl *jbl) {
  struct iwxstr *x = iwxstr_create_empty();
  iwrc rc = jbl_as_json(jbl, jbl_xstr_json_printer, x, 0);
  printf(" %s=%s:", name, rcname(rc));
  if (!rc) puthex(iwxstr_ptr(x), iwxstr_size(x)); else putchar('-');
  iwxstr_destroy(x);
}

static void put_text_jbn(const char *name, struct jbl_node *n) {
  struct iwxstr *x = iwxstr_create_empty();
  iwrc rc = jbn_as_json(n, jbl_xstr_json_printer, x, 0);
  printf(" %s=%s:", name, rcname(rc));
  if (!rc) puthex(iwxstr_ptr(x), iwxstr_size(x)); else putchar('-');
  iwxstr_destroy(x);
}

// the pipeline shared by conv and json
static void pipeline(struct jbl_node *tree, struct iwpool *pool, int texts) {
  struct jbl *jbl = 0;
  iwrc rc = jbl_from_node(&jbl, tree);
  printf("rc=%s", rcname(rc));
  if (rc) {
    if (jbl) jbl_destroy(&jbl);
    goto tree_only;
  }
  void *buf; size_t sz;
  rc = jbl_as_buf(jbl, &buf, &sz);
  printf(" binn="); if (rc) printf("ERR-%s", rcname(rc)); else puthex(buf, sz);
  {
    struct jbl_node *back = 0;
    // jbl_from_node leaves jbl->node unset, so this is a real decoding of the bytes
    rc = jbl_to_node(jbl, &back, true, pool);
    printf(" back="); if (rc) printf("ERR-%s", rcname(rc)); else dump_node(back);
    struct jbl_node *back0 = 0;
    rc = jbl_to_node(jbl, &back0, false, pool);
    printf(" back0="); if (rc) printf("ERR-%s", rcname(rc)); else dump_node(back0);
  }
  {
    struct jbl *cl = 0;
    rc = jbl_clone(jbl, &cl);
    printf(" bcl=");
    if (rc) printf("ERR-%s", rcname(rc)); else {
      void *b2; size_t s2;
      rc = jbl_as_buf(cl, &b2, &s2);
      if (rc) printf("ERR-%s", rcname(rc)); else puthex(b2, s2);
      // independence: scribble over a copy's source?  the source stays needed below, so compare after the
      // clone has been re-read once the source was destroyed (done at the end through bclp)
      jbl_destroy(&cl);
    }
    struct jbl *cp = 0;
    rc = jbl_clone_into_pool(jbl, &cp, pool);
    printf(" bclp=");
    if (rc) printf("ERR-%s", rcname(rc)); else {
      void *b2; size_t s2;
      rc = jbl_as_buf(cp, &b2, &s2);
      if (rc) printf("ERR-%s", rcname(rc)); else puthex(b2, s2);
    }
  }
  if (texts) {
    put_text_jbl("jb", jbl);
  }
  {
    // independence of the binary clone: clone, overwrite every byte of the source buffer, read the clone again
    struct jbl *cl = 0;
    rc = jbl_clone(jbl, &cl);
    if (!rc) {
      void *b1; size_t s1;
      jbl_as_buf(jbl, &b1, &s1);
      uint8_t *keep = malloc(s1 + 1);
      memcpy(keep, b1, s1);
      memset(b1, 0xEE, s1);
      void *b2; size_t s2;
      jbl_as_buf(cl, &b2, &s2);
      printf(" bindep=%d", (s1 == s2 && !memcmp(keep, b2, s1)) ? 1 : 0);
      memcpy(b1, keep, s1);
      free(keep);
      jbl_destroy(&cl);
    }
  }
  jbl_destroy(&jbl);
tree_only:
  {
    struct jbl_node *cl = 0;
    struct iwpool *p2 = iwpool_create(1024);
    rc = jbn_clone(tree, &cl, p2);
    printf(" ncl="); if (rc) printf("ERR-%s", rcname(rc)); else dump_node(cl);
    if (texts) {
      put_text_jbn("jt", tree);
    }
    if (!rc) {
      // independence of the tree clone: overwrite keys, strings and numbers of the source, print the clone again.
      // The printed field is 1 when the second dump equals the first.
      char *d1 = 0, *d2 = 0; size_t l1 = 0, l2 = 0;
      FILE *sv = stdout;
      FILE *m1 = open_memstream(&d1, &l1);
      stdout = m1; dump_node(cl); fflush(m1); stdout = sv; fclose(m1);
      struct jbl_node *stack[4096]; int sp = 0;
      stack[sp++] = tree;
      while (sp) {
        struct jbl_node *n = stack[--sp];
        if (n->key) memset((char*) n->key, 'Z', n->klidx);
        if (n->type == JBV_STR) memset((char*) n->vptr, 'Y', n->vsize);
        else if (n->type == JBV_I64) n->vi64 ^= 0x5555;
        else if (n->type == JBV_BOOL) n->vbool = !n->vbool;
        else if (n->type == JBV_F64) n->vf64 = 12345.5;
        for (struct jbl_node *c = n->child; c && sp < 4096; c = c->next) stack[sp++] = c;
      }
      FILE *m2 = open_memstream(&d2, &l2);
      stdout = m2; dump_node(cl); fflush(m2); stdout = sv; fclose(m2);
      printf(" nindep=%d", (l1 == l2 && !memcmp(d1, d2, l1)) ? 1 : 0);
      free(d1); free(d2);
      // the other direction: overwrite the CLONE, print the source again
      d1 = d2 = 0; l1 = l2 = 0;
      m1 = open_memstream(&d1, &l1);
      stdout = m1; dump_node(tree); fflush(m1); stdout = sv; fclose(m1);
      sp = 0;
      stack[sp++] = cl;
      while (sp) {
        struct jbl_node *n = stack[--sp];
        if (n->key) memset((char*) n->key, 'Q', n->klidx);
        if (n->type == JBV_STR) memset((char*) n->vptr, 'R', n->vsize);
        else if (n->type == JBV_I64) n->vi64 ^= 0x3333;
        else if (n->type == JBV_BOOL) n->vbool = !n->vbool;
        else if (n->type == JBV_F64) n->vf64 = 54321.5;
        for (struct jbl_node *c = n->child; c && sp < 4096; c = c->next) stack[sp++] = c;
      }
      m2 = open_memstream(&d2, &l2);
      stdout = m2; dump_node(tree); fflush(m2); stdout = sv; fclose(m2);
      printf(" nindep2=%d", (l1 == l2 && !memcmp(d1, d2, l1)) ? 1 : 0);
      free(d1); free(d2);
    }
    iwpool_destroy(p2);
  }
}

// jbl_at documents that the result is disposed by jbl_destroy().  When the result still owns the buffer of the
// document it was looked up in, doing so frees that buffer (the document is destroyed later: double free).  The
// harness reports the aliasing as a field and disarms it so that the run can go on.
static void safe_destroy(struct jbl *doc, struct jbl **res, const char *field) {
  struct jbl *r = *res;
  if (r != doc && r->bn.writable && !r->bn.pre_allocated && r->bn.pbuf && r->bn.pbuf == doc->bn.pbuf) {
    printf(" %s=1", field);
    r->bn.writable = 0;
  }
  jbl_destroy(res);
}

static void put_ptr(const char *path) {
  struct jbl_ptr *jp = 0;
  iwrc rc = jbl_ptr_alloc(path, &jp);
  printf("p=%s:", rcname(rc));
  if (!rc) {
    printf("%d:", jp->cnt);
    for (int i = 0; i < jp->cnt; ++i) {
      if (i) putchar(',');
      puthex(jp->n[i], strlen(jp->n[i]));
    }
    free(jp);
  }
}

// ================================================================ producer x consumer matrix (mx / mxc queries)
// Every way the public header offers to obtain a tree (struct jbl_node) or a binary document (struct jbl) holding the
// value of <dump> is built ("producer"); every look-up / compare / copy / print entry point ("consumer") is then run on
// every producer.  One answer string per cell; the cells of a consumer are printed grouped by answer:
//   <consumer>=<answer>@<producer>,<producer>...[|<answer>@<producer>,...]
// (no blanks inside a field).  Tree producers are named T.*, binary producers B.*.
struct cell { const char *cons; const char *prod; char *ans; };
static struct cell CELLS[8192];
static int NCELLS;
static FILE *cell_sv, *cell_ms;
static char *cell_buf;
static size_t cell_len;

static void cb(void) {
  cell_sv = stdout; cell_buf = 0; cell_len = 0;
  cell_ms = open_memstream(&cell_buf, &cell_len);
  stdout = cell_ms;
}

static void ce(const char *cons, const char *prod) {
  fflush(cell_ms); stdout = cell_sv; fclose(cell_ms);
  if (NCELLS < 8192) CELLS[NCELLS++] = (struct cell) { cons, prod, cell_buf }; else free(cell_buf);
}

static void cells_flush(void) {
  for (int i = 0; i < NCELLS; ++i) {
    if (!CELLS[i].cons) continue;
    const char *cons = CELLS[i].cons;
    printf(" %s=", cons);
    int firstc = 1;
    for (int j = i; j < NCELLS; ++j) {
      if (!CELLS[j].cons || strcmp(CELLS[j].cons, cons)) continue;
      char *ans = CELLS[j].ans;
      if (!firstc) putchar('|');
      firstc = 0;
      printf("%s@", ans[0] ? ans : "~");
      int firstp = 1;
      for (int k = j; k < NCELLS; ++k) {
        if (!CELLS[k].cons || strcmp(CELLS[k].cons, cons) || (k != j && strcmp(CELLS[k].ans, ans))) continue;
        if (!firstp) putchar(',');
        firstp = 0;
        fputs(CELLS[k].prod, stdout);
        if (k != j) { CELLS[k].cons = 0; free(CELLS[k].ans); CELLS[k].ans = 0; }
      }
      CELLS[j].cons = 0; free(ans); CELLS[j].ans = 0;
    }
  }
  NCELLS = 0;
}

#define MAXP 24
struct tprod { const char *name; struct jbl_node *root; iwrc rc; };
struct bprod { const char *name; struct jbl *jbl; iwrc rc; int disposal; }; // disposal: 0 none (pool), 1 jbl_destroy, 2 free
struct prods {
  struct tprod t[MAXP]; int nt;
  struct bprod b[MAXP]; int nb;
  struct jbl_node *heap_tree[4]; int heap_strings[4]; int nheap;
  struct jbl_node *hand;
  int has_nul, keys_alnum;
};

static void scan_tree(struct jbl_node *n, int *has_nul, int *keys_alnum) {
  if (n->key) {
    for (int i = 0; i < n->klidx; ++i) {
      unsigned char c = (unsigned char) n->key[i];
      if (!((c >= 'a' && c <= 'z') || (c >= 'A' && c <= 'Z') || (c >= '0' && c <= '9'))) *keys_alnum = 0;
    }
  }
  if (n->type == JBV_STR && n->vsize && memchr(n->vptr, 0, n->vsize)) *has_nul = 1;
  for (struct jbl_node *c = n->child; c; c = c->next) scan_tree(c, has_nul, keys_alnum);
}

// tree built through the typed jbn_add_item_* calls (keys and strings copied into the pool by the library)
static iwrc api_fill(struct jbl_node *dst, struct jbl_node *src, struct iwpool *pool) {
  iwrc rc = 0;
  for (struct jbl_node *c = src->child; c && !rc; c = c->next) {
    const char *key = src->type == JBV_OBJECT ? c->key : 0;
    struct jbl_node *out = 0;
    switch (c->type) {
      case JBV_NULL: rc = jbn_add_item_null(dst, key, pool); break;
      case JBV_BOOL: rc = jbn_add_item_bool(dst, key, c->vbool, 0, pool); break;
      case JBV_I64: rc = jbn_add_item_i64(dst, key, c->vi64, 0, pool); break;
      case JBV_F64: rc = jbn_add_item_f64(dst, key, c->vf64, 0, pool); break;
      case JBV_STR: rc = jbn_add_item_str(dst, key, c->vptr, c->vsize, 0, pool); break;
      case JBV_OBJECT: rc = jbn_add_item_obj(dst, key, &out, pool); if (!rc) rc = api_fill(out, c, pool); break;
      case JBV_ARRAY: rc = jbn_add_item_arr(dst, key, &out, pool); if (!rc) rc = api_fill(out, c, pool); break;
      default: rc = IW_ERROR_INVALID_ARGS;
    }
  }
  return rc;
}

// binary document built member by member through jbl_set_* / jbl_set_nested
static unsigned SET_ALT;
// SET_READS: a read of the document under construction after every jbl_set_* call (a builder history interleaved with
// reads): each read makes binn_save_header write the header and clears `dirty`, so the NEXT jbl_set_* call has to mark the
// document dirty again - also when the value has no payload (null / true / false)
static int SET_READS;
static unsigned SET_RD;
static void read_touch(struct jbl *j) {
  switch (SET_RD++ % 3) {
    case 0: { void *b; size_t sz; jbl_as_buf(j, &b, &sz); break; }
    case 1: { struct iwxstr *x = iwxstr_create_empty(); jbl_as_json(j, jbl_xstr_json_printer, x, 0); iwxstr_destroy(x); break; }
    default: { struct jbl *c = 0; if (!jbl_clone(j, &c) && c) jbl_destroy(&c); break; }
  }
}
static iwrc set_build(struct jbl **out, struct jbl_node *src) {
  iwrc rc = src->type == JBV_OBJECT ? jbl_create_empty_object(out) : jbl_create_empty_array(out);
  if (rc) return rc;
  struct jbl *j = *out;
  if (SET_READS) read_touch(j);
  for (struct jbl_node *c = src->child; c && !rc; c = c->next) {
    if (SET_READS && c != src->child) read_touch(j);
    const char *key = src->type == JBV_OBJECT ? c->key : 0;
    switch (c->type) {
      case JBV_NULL: rc = jbl_set_null(j, key); break;
      case JBV_BOOL: rc = jbl_set_bool(j, key, c->vbool); break;
      case JBV_I64: rc = jbl_set_int64(j, key, c->vi64); break;
      case JBV_F64: rc = jbl_set_f64(j, key, c->vf64); break;
      case JBV_STR:
        if (SET_ALT++ & 1) rc = jbl_set_string_printf(j, key, "%s", c->vptr); else rc = jbl_set_string(j, key, c->vptr);
        break;
      case JBV_OBJECT:
      case JBV_ARRAY:
        if (!c->child) {
          rc = c->type == JBV_OBJECT ? jbl_set_empty_object(j, key) : jbl_set_empty_array(j, key);
        } else {
          struct jbl *sub = 0;
          rc = set_build(&sub, c);
          if (!rc) rc = jbl_set_nested(j, key, sub);
          if (sub) jbl_destroy(&sub);
        }
        break;
      default: rc = IW_ERROR_INVALID_ARGS;
    }
  }
  return rc;
}

static int FREE_STRINGS;
static iwrc free_vis(int lvl, struct jbl_node *n) {
  if (FREE_STRINGS) {
    if (n->key) free((void*) n->key);
    if (n->type == JBV_STR && n->vptr) free((void*) n->vptr);
  }
  free(n);
  return 0;
}

static void unterminate_keys(struct jbl_node *n, struct iwpool *pool) {
  if (n->key) {
    char *k = iwpool_alloc(n->klidx + 2, pool);
    memcpy(k, n->key, n->klidx);
    k[n->klidx] = '#';
    k[n->klidx + 1] = 0;      // keeps a strcmp()/strlen() of a faulty reader inside the allocation
    n->key = k;
  }
  for (struct jbl_node *c = n->child; c; c = c->next) unterminate_keys(c, pool);
}

static void add_t(struct prods *ps, const char *name, struct jbl_node *root, iwrc rc) {
  if (!rc && !root) rc = IW_ERROR_FAIL;
  ps->t[ps->nt++] = (struct tprod) { name, rc ? 0 : root, rc };
}

static struct jbl* add_b(struct prods *ps, const char *name, struct jbl *jbl, iwrc rc, int disposal) {
  if (!rc && !jbl) rc = IW_ERROR_FAIL;
  if (rc && jbl && disposal == 1) jbl_destroy(&jbl);
  if (rc && jbl && disposal == 2) free(jbl);
  ps->b[ps->nb++] = (struct bprod) { name, rc ? 0 : jbl, rc, disposal };
  return rc ? 0 : jbl;
}

static void* bytes_copy(struct jbl *j, size_t *szp) {
  void *b; size_t sz;
  if (jbl_as_buf(j, &b, &sz)) return 0;
  void *c = malloc(sz ? sz : 1);      // exact size: nothing readable behind the last byte of the document
  memcpy(c, b, sz);
  *szp = sz;
  return c;
}

static int build_prods(struct prods *ps, const char *dump, const char *text, struct iwpool *pool) {
  memset(ps, 0, sizeof(*ps));
  struct jbl_node *hand = tree_of_dump(dump, pool);
  if (!hand || hand->type < JBV_OBJECT) return 0;
  ps->hand = hand;
  ps->keys_alnum = 1;
  scan_tree(hand, &ps->has_nul, &ps->keys_alnum);
  iwrc rc;
  struct jbl_node *n;
  // ---- binary producers first (several tree producers borrow from them; they stay alive until drop_prods)
  struct jbl *j = 0, *bnode, *bjson = 0, *bbuf = 0;
  rc = jbl_from_node(&j, hand);
  bnode = add_b(ps, "B.node", j, rc, 1);
  j = 0;
  rc = hand->type == JBV_OBJECT ? jbl_create_empty_array(&j) : jbl_create_empty_object(&j);   // the other type: refilled
  if (!rc) rc = jbl_fill_from_node(j, hand);
  add_b(ps, "B.fill", j, rc, 1);
  if (text) {
    j = 0; rc = jbl_from_json(&j, text); bjson = add_b(ps, "B.json", j, rc, 1);
    j = 0; rc = jbl_from_json_printf(&j, "%s", text); add_b(ps, "B.jsonpf", j, rc, 1);
  }
  if (bnode) {
    j = 0; rc = jbl_clone(bnode, &j); add_b(ps, "B.clone", j, rc, 1);
    j = 0; rc = jbl_clone_into_pool(bnode, &j, pool); add_b(ps, "B.clonep", j, rc, 0);
    size_t sz = 0;
    void *c = bytes_copy(bnode, &sz);
    j = 0; rc = c ? jbl_from_buf_keep(&j, c, sz, false) : IW_ERROR_FAIL;     // the jbl owns (frees) the copy
    if (rc && c) free(c);
    bbuf = add_b(ps, "B.buf", j, rc, 1);
    c = bytes_copy(bnode, &sz);
    char *cp = iwpool_alloc(sz ? sz : 1, pool);
    if (c) { memcpy(cp, c, sz); free(c); }
    j = malloc(jbl_structure_size());
    rc = c ? jbl_from_buf_keep_onstack(j, cp, sz) : IW_ERROR_FAIL;
    add_b(ps, "B.stack", j, rc, 2);
    if (hand->type == JBV_OBJECT) {
      j = 0; rc = jbl_create_empty_object(&j);
      if (!rc) rc = jbl_object_copy_to(bnode, j);
      add_b(ps, "B.copyto", j, rc, 1);
    }
  }
  if (!ps->has_nul) {     // jbl_set_string takes a C string
    j = 0; rc = set_build(&j, hand); add_b(ps, "B.set", j, rc, 1);
    SET_READS = 1;
    j = 0; rc = set_build(&j, hand); add_b(ps, "B.setr", j, rc, 1);
    SET_READS = 0;
  }
  // ---- tree producers
  add_t(ps, "T.hand", hand, 0);
  n = 0; rc = jbn_from_json(hand->type == JBV_OBJECT ? "{}" : "[]", &n, pool);
  if (!rc) rc = api_fill(n, hand, pool);
  add_t(ps, "T.api", n, rc);
  if (text) {
    n = 0; rc = jbn_from_json(text, &n, pool); add_t(ps, "T.json", n, rc);
    n = 0; rc = jbn_from_json_printf(&n, pool, "%s", text); add_t(ps, "T.jsonpf", n, rc);
    if (ps->keys_alnum) { n = 0; rc = jbn_from_js(text, &n, pool); add_t(ps, "T.js", n, rc); }
  }
  struct jbl_node *back0 = 0;
  if (bnode) {
    n = 0; rc = jbl_to_node(bnode, &n, true, pool); add_t(ps, "T.back1", n, rc);
    n = 0; rc = jbl_to_node(bnode, &n, false, pool); add_t(ps, "T.back0", n, rc);
    back0 = rc ? 0 : n;
    n = 0; rc = jbl_to_node(bnode, &n, false, 0); add_t(ps, "T.back0h", n, rc);
    if (!rc && n) { ps->heap_tree[ps->nheap] = n; ps->heap_strings[ps->nheap++] = 0; }
    if (!ps->has_nul) {   // without a pool strings are strndup()ed: cut at an embedded 0 (notes, "remaining")
      n = 0; rc = jbl_to_node(bnode, &n, true, 0); add_t(ps, "T.back1h", n, rc);
      if (!rc && n) { ps->heap_tree[ps->nheap] = n; ps->heap_strings[ps->nheap++] = 1; }
    }
  }
  if (bbuf) { n = 0; rc = jbl_to_node(bbuf, &n, false, pool); add_t(ps, "T.back0x", n, rc); }
  if (bjson) { n = 0; rc = jbl_to_node(bjson, &n, false, pool); add_t(ps, "T.jback0", n, rc); }
  n = 0; rc = jbn_clone(hand, &n, pool); add_t(ps, "T.clone", n, rc);
  if (!ps->has_nul) {
    n = 0; rc = jbn_clone(hand, &n, 0); add_t(ps, "T.cloneh", n, rc);
    if (!rc && n) { ps->heap_tree[ps->nheap] = n; ps->heap_strings[ps->nheap++] = 1; }
  }
  if (back0) { n = 0; rc = jbn_clone(back0, &n, pool); add_t(ps, "T.clone0", n, rc); }
  // built node by node with keys that are counted by klidx only: "<key>#" - whatever the value is (in a tree borrowed from
  // a binn buffer the byte behind a key is the type byte of the value, 0x00 for null, which acts as a terminator)
  n = 0; rc = jbn_clone(hand, &n, pool);
  if (!rc) unterminate_keys(n, pool);
  add_t(ps, "T.handx", n, rc);
  {
    struct jbl_node *src = 0, *tgt = iwpool_calloc(sizeof(*tgt), pool);
    rc = jbn_clone(hand, &src, pool);
    if (!rc) jbn_apply_from(tgt, src);
    add_t(ps, "T.apply", tgt, rc);
  }
  // ---- binary producers that need a tree or another binary
  if (back0) { j = 0; rc = jbl_from_node(&j, back0); add_b(ps, "B.via0", j, rc, 1); }
  if (bnode) {
    struct jbl_ptr *jp = 0;
    rc = jbl_ptr_alloc("", &jp);
    j = 0;
    if (!rc) rc = jbl_at2(bnode, jp, &j);
    if (jp) free(jp);
    if (!rc && j && j->bn.writable && j->bn.pbuf && j->bn.pbuf == bnode->bn.pbuf) j->bn.writable = 0;  // see safe_destroy
    add_b(ps, "B.root", j, rc, 1);
  }
  return 1;
}

static void drop_prods(struct prods *ps) {
  for (int i = 0; i < ps->nheap; ++i) {
    FREE_STRINGS = ps->heap_strings[i];
    jbn_visit2(ps->heap_tree[i], 0, free_vis);
  }
  for (int i = ps->nb - 1; i >= 0; --i) {    // borrowers were created after their owners
    if (!ps->b[i].jbl) continue;
    if (ps->b[i].disposal == 1) jbl_destroy(&ps->b[i].jbl);
    else if (ps->b[i].disposal == 2) free(ps->b[i].jbl);
  }
}

static void ans_node(iwrc rc, struct jbl_node *r) {
  printf("%s:", rcname(rc));
  if (!rc) dump_node(r);
}

// look-up by successive jbn_get calls (objects by key, arrays by index; an array segment must be a canonical number)
static void get_walk(struct jbl_node *root, struct jbl_ptr *jp) {
  struct jbl_node *cur = root;
  iwrc rc = 0;
  for (int i = 0; i < jp->cnt && !rc; ++i) {
    const char *s = jp->n[i];
    struct jbl_node *r = 0;
    if (cur->type == JBV_OBJECT) {
      rc = jbn_get(cur, s, 0, &r);
    } else if (cur->type == JBV_ARRAY) {
      size_t l = strlen(s);
      int ok = l > 0 && l <= 9 && (s[0] != '0' || l == 1);
      for (size_t k = 0; k < l; ++k) if (s[k] < '0' || s[k] > '9') ok = 0;
      rc = ok ? jbn_get(cur, "", atoi(s), &r) : JBL_ERROR_PATH_NOTFOUND;
    } else {
      rc = JBL_ERROR_PATH_NOTFOUND;
    }
    cur = r;
  }
  ans_node(rc, cur);
}

static void put_cmp(int c, iwrc rc) {
  if (rc) printf("E:%s", rcname(rc)); else printf("%d", sgn(c));
}

static void err_cells(const char **names, const char *prod, iwrc rc) {
  for (int i = 0; names[i]; ++i) { cb(); printf("ERR-%s", rcname(rc)); ce(names[i], prod); }
}

static void hex_text(iwrc rc, struct iwxstr *x) {
  printf("%s:", rcname(rc));
  if (!rc) puthex(iwxstr_ptr(x), iwxstr_size(x));
}

static void mx_path(struct prods *ps, const char *path, const char *probe, struct iwpool *pool) {
  struct jbl_ptr *jp = 0;
  iwrc prc = jbl_ptr_alloc(path, &jp);
  static const char *tn[] = { "at", "at2", "get", "cmp", "cmpv", "cp", "cps", 0 };
  static const char *bn[] = { "bat", "bat2", "bget", 0 };
  struct jbl_node *pn = 0;
  if (probe && strcmp(probe, "-")) pn = tree_of_dump(probe, pool);
  for (int i = 0; i < ps->nt; ++i) {
    struct tprod *t = &ps->t[i];
    if (t->rc) { err_cells(tn, t->name, t->rc); continue; }
    struct jbl_node *r = 0;
    iwrc rc;
    cb(); rc = jbn_at(t->root, path, &r); ans_node(rc, r); ce("at", t->name);
    if (!prc) {
      cb(); r = 0; rc = jbn_at2(t->root, jp, &r); ans_node(rc, r); ce("at2", t->name);
      cb(); get_walk(t->root, jp); ce("get", t->name);
    }
    {
      iwrc crc = 0;
      cb();
      int c = jbn_path_compare(t->root, ps->hand, path, 0, &crc);
      put_cmp(c, crc);
      crc = 0;
      c = jbn_paths_compare(ps->hand, path, t->root, path, 0, &crc);
      putchar(','); put_cmp(c, crc);
      ce("cmp", t->name);
    }
    if (pn) {
      iwrc crc = 0;
      int c = 0, done = 1;
      cb();
      switch (pn->type) {
        case JBV_STR: c = jbn_path_compare_str(t->root, path, pn->vptr, &crc); break;
        case JBV_I64: c = jbn_path_compare_i64(t->root, path, pn->vi64, &crc); break;
        case JBV_F64: c = jbn_path_compare_f64(t->root, path, pn->vf64, &crc); break;
        case JBV_BOOL: c = jbn_path_compare_bool(t->root, path, pn->vbool, &crc); break;
        default: done = 0;
      }
      if (done) put_cmp(c, crc); else printf("NA");
      ce("cmpv", t->name);
    }
    {
      struct jbl_node *tgt = 0;
      cb();
      rc = jbn_from_json("{}", &tgt, pool);
      if (!rc) rc = jbn_copy_path(t->root, path, tgt, "/r", true, false, pool);
      printf("%s:", rcname(rc));
      if (tgt) dump_node(tgt);
      ce("cp", t->name);
    }
    if (!prc && jp->cnt == 1) {
      struct jbl_node *tgt = 0;
      const char *paths[2] = { path, 0 };
      cb();
      rc = jbn_from_json("{}", &tgt, pool);
      if (!rc) rc = jbn_copy_paths(t->root, tgt, paths, true, false, pool);
      printf("%s:", rcname(rc));
      if (tgt) dump_node(tgt);
      ce("cps", t->name);
    }
  }
  for (int i = 0; i < ps->nb; ++i) {
    struct bprod *b = &ps->b[i];
    if (b->rc) { err_cells(bn, b->name, b->rc); continue; }
    struct jbl *res = 0;
    iwrc rc;
    cb();
    rc = jbl_at(b->jbl, path, &res);
    printf("%s:", rcname(rc));
    if (!rc) {
      dump_jbl(res, pool);
      if (res != b->jbl && res->bn.writable && !res->bn.pre_allocated && res->bn.pbuf && res->bn.pbuf == b->jbl->bn.pbuf) {
        printf("!ALIAS"); res->bn.writable = 0;
      }
      jbl_destroy(&res);
    }
    ce("bat", b->name);
    if (!prc) {
      cb();
      res = 0;
      rc = jbl_at2(b->jbl, jp, &res);
      printf("%s:", rcname(rc));
      if (!rc) {
        dump_jbl(res, pool);
        if (res != b->jbl && res->bn.writable && !res->bn.pre_allocated && res->bn.pbuf && res->bn.pbuf == b->jbl->bn.pbuf) {
          printf("!ALIAS"); res->bn.writable = 0;
        }
        jbl_destroy(&res);
      }
      ce("bat2", b->name);
      if (jp->cnt == 1 && jbl_type(b->jbl) == JBV_OBJECT) {
        struct jbl *h = 0;
        cb();
        jbl_type_t ty = jbl_object_get_type(b->jbl, jp->n[0]);
        rc = jbl_create_iterator_holder(&h);
        if (!rc) rc = jbl_object_get_fill_jbl(b->jbl, jp->n[0], h);
        printf("%d:%s:", (int) ty, rc == JBL_ERROR_CREATION ? "NF" : rcname(rc));
        if (!rc) dump_jbl(h, pool);
        if (h) jbl_destroy(&h);
        // the typed getters, for the type just reported
        putchar('+');
        const char *k1 = jp->n[0];
        if (ty == JBV_I64) { int64_t v = 0; rc = jbl_object_get_i64(b->jbl, k1, &v); printf("%s:i%" PRId64 ";", rcname(rc), v); }
        else if (ty == JBV_F64) { double v = 0; uint64_t bits; rc = jbl_object_get_f64(b->jbl, k1, &v); memcpy(&bits, &v, 8); printf("%s:d%016" PRIx64, rcname(rc), bits); }
        else if (ty == JBV_BOOL) { bool v = 0; rc = jbl_object_get_bool(b->jbl, k1, &v); printf("%s:%c", rcname(rc), v ? 't' : 'f'); }
        else if (ty == JBV_STR && !ps->has_nul) {
          const char *v = 0; rc = jbl_object_get_str(b->jbl, k1, &v);
          printf("%s:s", rcname(rc));
          for (size_t q = 0; !rc && v && v[q]; ++q) printf("%02x", (uint8_t) v[q]);
          putchar(';');
        }
        ce("bget", b->name);
      }
    }
  }
  if (jp) free(jp);
}

static void dump_iter(struct jbl *j, struct iwpool *pool) {
  struct jbl *h = 0;
  JBL_iterator it;
  iwrc rc = jbl_create_iterator_holder(&h);
  if (!rc) rc = jbl_iterator_init(j, &it);
  if (rc) { printf("ERR-%s", rcname(rc)); if (h) jbl_destroy(&h); return; }
  int obj = jbl_type(j) == JBV_OBJECT;
  putchar(obj ? '{' : '[');
  char *k; int kl;
  while (jbl_iterator_next(&it, h, &k, &kl)) {
    if (obj) {
      putchar('K');
      for (int i = 0; i < kl; ++i) printf("%02x", (uint8_t) k[i]);
      putchar(';');
    }
    dump_jbl(h, pool);
  }
  putchar(obj ? '}' : ']');
  jbl_destroy(&h);
}

static void put_bytes(struct jbl *j) {
  void *b; size_t sz;
  iwrc rc = jbl_as_buf(j, &b, &sz);
  if (rc) printf("ERR-%s", rcname(rc)); else puthex(b, sz);
}

// ---------------------------------------------------------------- clone independence, both directions
// A fresh source document of each kind is cloned by jbl_clone / jbl_clone_into_pool; then the SOURCE is changed (a member /
// element is added) and the clone is read; then the CLONE is changed and the source is read.  The answer of a cell is
//   [ALIAS:]<rc of the change of the source>:<rc of the change of the clone>:<clone after the source changed>,<source after
//   the clone changed>,<clone after it was changed itself>
// ALIAS: the clone is writable and writes into the buffer (pbuf) of its source - reported and disarmed (the clone is made
// read-only) before anything is changed, so that the run can go on.
static iwrc ind_change(struct jbl *j, const char *key, int64_t v) {
  return jbl_set_int64(j, jbl_type(j) == JBV_OBJECT ? key : 0, v);
}

static void ind_cells(struct prods *ps, const char *text, struct iwpool *pool) {
  static const char *kinds[] = { "S.node", "S.buf", "S.set", "S.setr", "S.json", 0 };
  for (int k = 0; kinds[k]; ++k) {
    for (int fn = 0; fn < 2; ++fn) {
      const char *cons = fn ? "indp" : "indc";
      struct jbl *src = 0, *cl = 0;
      void *copy = 0;
      iwrc rc = 0;
      switch (k) {
        case 0: rc = jbl_from_node(&src, ps->hand); break;
        case 1: {
          struct jbl *t = 0;
          rc = jbl_from_node(&t, ps->hand);
          if (!rc) {
            size_t sz = 0;
            copy = bytes_copy(t, &sz);
            rc = copy ? jbl_from_buf_keep(&src, copy, sz, false) : IW_ERROR_FAIL;
            if (rc && copy) free(copy);
          }
          if (t) jbl_destroy(&t);
          break;
        }
        case 2: if (ps->has_nul) continue; rc = set_build(&src, ps->hand); break;
        case 3: if (ps->has_nul) continue; SET_READS = 1; rc = set_build(&src, ps->hand); SET_READS = 0; break;
        default: if (!text) continue; rc = jbl_from_json(&src, text); break;
      }
      if (!rc) rc = fn ? jbl_clone_into_pool(src, &cl, pool) : jbl_clone(src, &cl);
      cb();
      if (rc || !src || !cl) {
        printf("ERR-%s", rcname(rc ? rc : IW_ERROR_FAIL));
      } else {
        // jbl_size() of the fresh clone, BEFORE anything has read it, against the size jbl_as_buf() reports; the same for the
        // source right after it was changed (the header, which holds the size, is written lazily)
        size_t z1 = jbl_size(cl), z2 = 0, z3, z4 = 0;
        void *zb;
        int alias = cl->bn.writable && cl->bn.pbuf && cl->bn.pbuf == src->bn.pbuf;
        if (alias) cl->bn.writable = 0;
        jbl_as_buf(cl, &zb, &z2);
        iwrc r1 = ind_change(src, "\001s", 77);
        z3 = jbl_size(src);
        jbl_as_buf(src, &zb, &z4);
        printf("Z%zu.%zu.%zu.%zu:", z1, z2, z3, z4);
        if (alias) printf("ALIAS:");
        char *d1 = 0; size_t l1 = 0;
        FILE *sv = stdout, *m1 = open_memstream(&d1, &l1);
        stdout = m1; dump_jbl(cl, pool); fflush(m1); stdout = sv; fclose(m1);
        iwrc r2 = ind_change(cl, "\001c", 88);
        printf("%s:%s:%s,", rcname(r1), rcname(r2), d1);
        free(d1);
        dump_jbl(src, pool);
        putchar(',');
        dump_jbl(cl, pool);
      }
      ce(cons, kinds[k]);
      if (cl && !fn) jbl_destroy(&cl);
      if (src) jbl_destroy(&src);
    }
  }
}

static void mx_value(struct prods *ps, struct iwpool *pool) {
  static const char *tn[] = { "dump", "js", "jsp", "eq", "len", "tb", "cl", 0 };
  static const char *bn[] = { "buf", "js", "jsp", "n1", "n0", "cnt", "it", "bcl", "bclp", 0 };
  for (int i = 0; i < ps->nt; ++i) {
    struct tprod *t = &ps->t[i];
    if (t->rc) { err_cells(tn, t->name, t->rc); continue; }
    iwrc rc;
    cb(); dump_node(t->root); ce("dump", t->name);
    {
      struct iwxstr *x = iwxstr_create_empty();
      cb(); rc = jbn_as_json(t->root, jbl_xstr_json_printer, x, 0); hex_text(rc, x); ce("js", t->name);
      iwxstr_destroy(x);
      char *txt = 0;
      cb(); rc = jbn_as_json_alloc(t->root, JBL_PRINT_PRETTY, &txt);
      printf("%s:", rcname(rc)); if (!rc) puthex(txt, strlen(txt));
      ce("jsp", t->name);
      free(txt);
    }
    {
      iwrc r1 = 0, r2 = 0;
      cb();
      int c1 = jbn_compare_nodes(t->root, ps->hand, &r1), c2 = jbn_compare_nodes(ps->hand, t->root, &r2);
      put_cmp(c1, r1); putchar(','); put_cmp(c2, r2);
      ce("eq", t->name);
    }
    cb(); printf("%d", jbn_length(t->root)); ce("len", t->name);
    {
      struct jbl *j = 0;
      cb();
      rc = jbl_from_node(&j, t->root);
      if (rc) printf("ERR-%s", rcname(rc)); else put_bytes(j);
      if (j) jbl_destroy(&j);
      ce("tb", t->name);
    }
    {
      struct jbl_node *c = 0;
      cb(); rc = jbn_clone(t->root, &c, pool); if (rc) printf("ERR-%s", rcname(rc)); else dump_node(c); ce("cl", t->name);
    }
  }
  for (int i = 0; i < ps->nb; ++i) {
    struct bprod *b = &ps->b[i];
    if (b->rc) { err_cells(bn, b->name, b->rc); continue; }
    iwrc rc;
    cb(); put_bytes(b->jbl); ce("buf", b->name);
    {
      struct iwxstr *x = iwxstr_create_empty();
      cb(); rc = jbl_as_json(b->jbl, jbl_xstr_json_printer, x, 0); hex_text(rc, x); ce("js", b->name);
      iwxstr_destroy(x);
      char *txt = 0;
      cb(); rc = jbl_as_json_alloc(b->jbl, JBL_PRINT_PRETTY, &txt);
      printf("%s:", rcname(rc)); if (!rc) puthex(txt, strlen(txt));
      ce("jsp", b->name);
      free(txt);
    }
    {
      struct jbl_node *n = 0;
      cb(); rc = jbl_to_node(b->jbl, &n, true, pool); if (rc) printf("ERR-%s", rcname(rc)); else dump_node(n); ce("n1", b->name);
      n = 0;
      cb(); rc = jbl_to_node(b->jbl, &n, false, pool); if (rc) printf("ERR-%s", rcname(rc)); else dump_node(n); ce("n0", b->name);
    }
    cb(); printf("%d:%zu", (int) jbl_type(b->jbl), jbl_count(b->jbl)); ce("cnt", b->name);
    cb(); dump_iter(b->jbl, pool); ce("it", b->name);
    {
      struct jbl *c = 0;
      cb(); rc = jbl_clone(b->jbl, &c); if (rc) printf("ERR-%s", rcname(rc)); else put_bytes(c); ce("bcl", b->name);
      if (c) jbl_destroy(&c);
      c = 0;
      cb(); rc = jbl_clone_into_pool(b->jbl, &c, pool); if (rc) printf("ERR-%s", rcname(rc)); else put_bytes(c); ce("bclp", b->name);
    }
  }
}

int main(void) {
  static char line[1 << 22];
  char *tv[8];
  setvbuf(stdout, 0, _IOFBF, 1 << 16);
  while (fgets(line, sizeof(line), stdin)) {
    int n = toks(line, tv, 8);
    if (n == 0) { printf("\n"); continue; }
    struct iwpool *pool = iwpool_create(4096);
    if (!strcmp(tv[0], "conv") && n >= 2) {
      struct jbl_node *tree = tree_of_dump(tv[1], pool);
      if (!tree) printf("BAD-DUMP"); else pipeline(tree, pool, 1);
    } else if (!strcmp(tv[0], "json") && n >= 2) {
      uint8_t *txt;
      unhex0(tv[1], &txt);
      struct jbl_node *tree = 0;
      iwrc rc = jbn_from_json((char*) txt, &tree, pool);
      printf("prc=%s", rcname(rc));
      if (!rc) {
        printf(" tree="); dump_node(tree); putchar(' ');
        pipeline(tree, pool, 1);
        struct jbl *j2 = 0;
        rc = jbl_from_json(&j2, (char*) txt);
        printf(" bj=%s:", rcname(rc));
        if (!rc) {
          if (jbl_type(j2) >= JBV_OBJECT) {
            void *b; size_t s;
            jbl_as_buf(j2, &b, &s);
            puthex(b, s);
          } else {
            printf("scalar:"); dump_jbl(j2, pool);
            struct jbl_node *sn = (struct jbl_node*) 1;
            iwrc r3 = jbl_to_node(j2, &sn, true, pool);
            printf(" bjnode=%s:", rcname(r3));
            if (!r3) dump_node(sn);
          }
          jbl_destroy(&j2);
        }
      }
      free(txt);
    } else if (!strcmp(tv[0], "at") && n >= 3) {
      struct jbl_node *tree = tree_of_dump(tv[1], pool);
      uint8_t *path;
      unhex0(tv[2], &path);
      if (!tree) printf("BAD-DUMP"); else {
        put_ptr((char*) path);
        struct jbl_node *r = 0;
        iwrc rc = jbn_at(tree, (char*) path, &r);
        printf(" t=%s:", rcname(rc));
        if (!rc) dump_node(r);
        struct jbl_ptr *jp = 0;
        iwrc prc = jbl_ptr_alloc((char*) path, &jp);
        if (!prc) {
          r = 0;
          rc = jbn_at2(tree, jp, &r);
          printf(" t2=%s:", rcname(rc));
          if (!rc) dump_node(r);
        }
        struct jbl *jbl = 0;
        rc = jbl_from_node(&jbl, tree);
        if (rc) printf(" b=NA-%s", rcname(rc)); else {
          struct jbl *res = 0;
          rc = jbl_at(jbl, (char*) path, &res);
          printf(" b=%s:", rcname(rc));
          if (!rc) {
            dump_jbl(res, pool);
            // (before c9ab017 jbl_clone() read the BYTES of a scalar - string contents, the value union - as a binn header)
            if (jbl_type(res) < JBV_OBJECT) {
              // jbl_clone of a value that is not a container: when it fails there must be nothing left to destroy
              struct jbl *sc = (struct jbl*) 1;
              iwrc rc2 = jbl_clone(res, &sc);
              printf(" sclone=%s:%s", rcname(rc2), sc == 0 ? "null" : sc == (struct jbl*) 1 ? "untouched" : "set");
              if (sc && sc != (struct jbl*) 1) { if (rc2) free(sc); else jbl_destroy(&sc); }
            }
            safe_destroy(jbl, &res, "balias");
          }
          if (!prc) {
            res = 0;
            rc = jbl_at2(jbl, jp, &res);
            printf(" b2=%s:", rcname(rc));
            if (!rc) { dump_jbl(res, pool); safe_destroy(jbl, &res, "b2alias"); }
          }
        }
        if (jbl) jbl_destroy(&jbl);
        if (jp) free(jp);
      }
      free(path);
    } else if (!strcmp(tv[0], "mx") && n >= 5) {
      // mx <dump> <hex ptr> <probe dump|-> <hex json text|->
      uint8_t *path, *txt = 0;
      unhex0(tv[2], &path);
      if (strcmp(tv[4], "-")) unhex0(tv[4], &txt);
      static struct prods ps;
      if (!build_prods(&ps, tv[1], (char*) txt, pool)) printf("BAD-DUMP"); else {
        put_ptr((char*) path);
        printf(" flags=%d%d", ps.has_nul, ps.keys_alnum);
        mx_path(&ps, (char*) path, tv[3], pool);
        cells_flush();
        drop_prods(&ps);
      }
      free(path); free(txt);
    } else if (!strcmp(tv[0], "mxc") && n >= 3) {
      // mxc <dump> <hex json text|->
      uint8_t *txt = 0;
      if (strcmp(tv[2], "-")) unhex0(tv[2], &txt);
      static struct prods ps;
      if (!build_prods(&ps, tv[1], (char*) txt, pool)) printf("BAD-DUMP"); else {
        printf("flags=%d%d", ps.has_nul, ps.keys_alnum);
        mx_value(&ps, pool);
        ind_cells(&ps, (char*) txt, pool);
        cells_flush();
        drop_prods(&ps);
      }
      free(txt);
    } else if (!strcmp(tv[0], "pr") && n >= 2) {
      // pr <dump>: the tree printer and the printer of the binary form under every flag set
      // (PRETTY = 1, CODEPOINTS = 2, PRETTY_INDENT2 = 5, PRETTY_INDENT4 = 9)
      static const int PF[] = { 0, 1, 2, 3, 5, 7, 9, 11 };
      struct jbl_node *tree = tree_of_dump(tv[1], pool);
      if (!tree) printf("BAD-DUMP"); else {
        struct jbl *jbl = 0;
        iwrc rc = jbl_from_node(&jbl, tree);
        printf("rc=%s", rcname(rc));
        for (size_t i = 0; i < sizeof(PF) / sizeof(PF[0]); ++i) {
          struct iwxstr *x = iwxstr_create_empty();
          iwrc r2 = jbn_as_json(tree, jbl_xstr_json_printer, x, (jbl_print_flags_t) PF[i]);
          printf(" t%d=%s:", PF[i], rcname(r2));
          if (!r2) puthex(iwxstr_ptr(x), iwxstr_size(x));
          iwxstr_destroy(x);
        }
        for (size_t i = 0; !rc && i < sizeof(PF) / sizeof(PF[0]); ++i) {
          struct iwxstr *x = iwxstr_create_empty();
          iwrc r2 = jbl_as_json(jbl, jbl_xstr_json_printer, x, (jbl_print_flags_t) PF[i]);
          printf(" b%d=%s:", PF[i], rcname(r2));
          if (!r2) puthex(iwxstr_ptr(x), iwxstr_size(x));
          iwxstr_destroy(x);
        }
        if (jbl) jbl_destroy(&jbl);
      }
    } else if (!strcmp(tv[0], "dec") && n >= 2) {
      uint8_t *b;
      size_t sz = unhex0(tv[1], &b);
      struct jbl *jbl = 0;
      iwrc rc = jbl_from_buf_keep(&jbl, b, sz, true);
      printf("rc=%s", rcname(rc));
      if (!rc) {
        struct jbl_node *nd = 0;
        rc = jbl_to_node(jbl, &nd, false, pool);
        printf(" back="); if (rc) printf("ERR-%s", rcname(rc)); else dump_node(nd);
        jbl_destroy(&jbl);
      }
      free(b);
    } else if (!strcmp(tv[0], "ptr") && n >= 2) {
      uint8_t *path;
      unhex0(tv[1], &path);
      put_ptr((char*) path);
      {
        // jbl_ptr_serialize of the parsed pointer, and the serialised text parsed again
        struct jbl_ptr *jp = 0;
        if (!jbl_ptr_alloc((char*) path, &jp)) {
          struct iwxstr *x = iwxstr_create_empty();
          iwrc rc = jbl_ptr_serialize(jp, x);
          printf(" ser=%s:", rcname(rc));
          if (!rc) puthex(iwxstr_ptr(x), iwxstr_size(x));
          if (!rc) {
            struct jbl_ptr *jp2 = 0;
            iwrc r2 = jbl_ptr_alloc(iwxstr_ptr(x), &jp2);
            printf(" again=%s", r2 ? rcname(r2) : (jbl_ptr_cmp(jp, jp2) == 0 ? "same" : "other"));
            if (jp2) free(jp2);
          }
          iwxstr_destroy(x);
          free(jp);
        }
      }
      free(path);
    } else if (!strcmp(tv[0], "pcmp") && n >= 3) {
      // pcmp <hex ptr> <hex ptr>: sign of jbl_ptr_cmp on the two parsed pointers
      uint8_t *p1, *p2;
      unhex0(tv[1], &p1);
      unhex0(tv[2], &p2);
      struct jbl_ptr *j1 = 0, *j2 = 0;
      iwrc r1 = jbl_ptr_alloc((char*) p1, &j1), r2 = jbl_ptr_alloc((char*) p2, &j2);
      if (r1 || r2) printf("c=NA"); else printf("c=%d", sgn(jbl_ptr_cmp(j1, j2)));
      if (j1) free(j1);
      if (j2) free(j2);
      free(p1); free(p2);
    } else {
      printf("?");
    }
    iwpool_destroy(pool);
    putchar('\n');
  }
  return 0;
}
